"""F-CONN: typestate of connectivity arrays from the source variable to the `*_connectivity` sink of a reader.

A connectivity array carries   dtype x sentinel x base x padding   :

  dtype     'std' (INT_DTYPE) | 'src' (whatever the source used) | 'other'
  sentinel  how a missing entry is written:  ('none',) no missing entries | ('lit', k) | ('le', k) every value <= k |
            ('decl', S) the fill value declared by source S (attribute/parameter, unknown number) | ('nan',) |
            ('std',) INT_FILL_VALUE | ('shifted',) INT_FILL_VALUE moved by index arithmetic (garbage)
  base      offset of the valid indices from zero-based: ('lit', k) | ('decl', S) declared by source S | ('unknown',)
  pad       'na' | 'pending' (entries beyond a per-row count are undefined) | 'done'

Initial states come from a table frozen from the FORMAT SPECIFICATIONS (not from the source); the transfer functions
are the repo's own idioms (np.array(dtype=), astype, masked assignment of INT_FILL_VALUE, masked/whole subtraction,
_replace_fill_values, vstack/np.full block assembly, np.unique inverse ...), helpers are analysed by inlining.
At every sink the state must be  dtype=std, sentinel in {std, none}, base=0, pad in {na, done}; a definite other
state is a VIOLATION (there is an admissible file for which the output is not in standard form), an expression the
interpreter does not understand is ANALYSIS-INCOMPLETE.  No execution."""

from __future__ import annotations

import ast
from dataclasses import dataclass, replace

from ..astutil import norm, str_const, where
from ..loader import FuncInfo, dotted

STD = ("std",)
NONE = ("none",)


@dataclass(frozen=True)
class Arr:
    dtype: str = "src"
    sent: tuple = NONE
    base: tuple = ("lit", 0)
    pad: str = "na"
    srcs: frozenset = frozenset()
    why: tuple = ()  # trace of operations (diagnostics)

    def op(self, text, **kw):
        return replace(self, why=self.why + (text,), **kw)


@dataclass(frozen=True)
class Mask:
    kind: str  # eq | le | ne_std | eq_std | pad_valid | pad_invalid | isnan | unknown
    k: object = None
    of: object = None  # name of the array the mask was computed from


@dataclass(frozen=True)
class Count:
    src: str


@dataclass(frozen=True)
class Scal:
    kind: str  # lit | sent_of | base_of | min_valid | min_all | nan | none | std_fill | param | unknown
    v: object = None


@dataclass(frozen=True)
class DT:
    kind: str  # std | of | other
    v: object = None


@dataclass(frozen=True)
class Src:
    """A source dataset variable (xr.DataArray of the input), before .values"""
    key: str
    transposed: bool = False


@dataclass(frozen=True)
class DS:
    name: str  # input dataset parameter


class Unknown:
    def __repr__(self):
        return "Unknown"


UNK = Unknown()

# ------------------------------------------------------------------------------------------------ format table
# Frozen from the format documents (MPAS Mesh Spec 1.0, ICON grid description, ESMFMESH, Exodus II, UGRID 1.0).
ONE = ("lit", 1)
FORMAT_SOURCES = {
    "uxarray/io/_mpas.py": {
        # *OnCell tables: rows padded beyond nEdgesOnCell with undefined entries (0 or repeated indices); 0 = none
        "verticesOnCell": dict(sent=("lit", 0), base=ONE, pad="pending", count="nEdgesOnCell"),
        "edgesOnCell": dict(sent=("lit", 0), base=ONE, pad="pending", count="nEdgesOnCell"),
        "cellsOnCell": dict(sent=("lit", 0), base=ONE, pad="pending", count="nEdgesOnCell"),
        "cellsOnVertex": dict(sent=("lit", 0), base=ONE),
        "edgesOnVertex": dict(sent=("lit", 0), base=ONE),
        "verticesOnEdge": dict(sent=("lit", 0), base=ONE),
        "cellsOnEdge": dict(sent=("lit", 0), base=ONE),
    },
    "uxarray/io/_icon.py": {
        k: dict(sent=("le", 0), base=ONE) for k in ("vertex_of_cell", "edge_of_cell", "neighbor_cell_index", "adjacent_cell_of_edge", "edge_vertices")
    },
    "uxarray/io/_esmf.py": {
        # entries past numElementConn[i] are undefined; base from attribute start_index, default 1
        "elementConn": dict(sent=NONE, base=("decl", "elementConn", 1), pad="pending", count="numElementConn"),
    },
    "uxarray/io/_exodus.py": {
        "connect*": dict(sent=NONE, base=ONE),
    },
    "uxarray/io/_ugrid.py": {
        # any declared _FillValue (or NaN in float storage), any declared start_index (absent: inferred)
        "*": dict(sent=("decl", "*"), base=("decl", "*", None)),
    },
}
COUNT_VARS = {"nEdgesOnCell", "numElementConn"}


def _initial(relpath, key):
    tab = FORMAT_SOURCES.get(relpath, {})
    spec = tab.get(key)
    if spec is None and "*" in tab:
        spec = tab["*"]
        spec = dict(spec, sent=("decl", key), base=("decl", key, None))
    if spec is None:
        for k, v in tab.items():
            if k.endswith("*") and key.startswith(k[:-1]):
                spec = v
    if spec is None:
        return None
    return Arr(dtype="src", sent=spec["sent"], base=spec["base"], pad=spec.get("pad", "na"), srcs=frozenset({key}), why=(f"source {key}: {spec}",))


class Incomplete(Exception):
    pass


# ------------------------------------------------------------------------------------------------ interpreter
class State:
    __slots__ = ("env", "facts", "ret", "done", "hit", "conds")

    def __init__(self, env=None, facts=None):
        self.env = dict(env or {})
        self.facts = dict(facts or {})
        self.ret = None
        self.done = False
        self.hit = 0        # connectivity sinks passed on this path (entry function only)
        self.conds = []     # (test text, truth) of the branches taken on this path

    def fork(self):
        s = State(self.env, self.facts)
        s.hit = self.hit
        s.conds = list(self.conds)
        return s


class ConnInterp:
    def __init__(self, program, relpath, max_depth=3):
        self.P = program
        self.relpath = relpath
        self.sinks = []  # (func, stmt, key, value, state-facts)
        self.max_depth = max_depth
        self.notes = []

    # ---- helpers
    def is_fill(self, node):
        return isinstance(node, ast.Name) and node.id == "INT_FILL_VALUE" or (isinstance(node, ast.Attribute) and node.attr == "INT_FILL_VALUE")

    def is_intdtype(self, node):
        return isinstance(node, ast.Name) and node.id == "INT_DTYPE" or (isinstance(node, ast.Attribute) and node.attr == "INT_DTYPE")

    def lit(self, node):
        if isinstance(node, ast.Constant) and isinstance(node.value, (int, float)) and not isinstance(node.value, bool):
            return node.value
        if isinstance(node, ast.UnaryOp) and isinstance(node.op, ast.USub) and isinstance(node.operand, ast.Constant):
            return -node.operand.value
        return None

    # ---- expressions
    def ev(self, n, st, f, depth):
        env = st.env
        if isinstance(n, ast.Name):
            if n.id in env:
                return env[n.id]
            if n.id == "INT_FILL_VALUE":
                return Scal("std_fill")
            if n.id == "INT_DTYPE":
                return DT("std")
            return UNK
        if isinstance(n, ast.Constant):
            if n.value is None:
                return Scal("none")
            if isinstance(n.value, bool):
                return Scal("bool", n.value)
            if isinstance(n.value, (int, float)) and not isinstance(n.value, bool):
                return Scal("lit", n.value)
            if isinstance(n.value, str):
                return Scal("str", n.value)
            return UNK
        if isinstance(n, ast.UnaryOp) and isinstance(n.op, ast.USub):
            v = self.lit(n)
            return Scal("lit", v) if v is not None else UNK
        if isinstance(n, ast.UnaryOp) and isinstance(n.op, ast.Invert):
            m = self.ev(n.operand, st, f, depth)
            if isinstance(m, Mask):
                flip = {"pad_valid": "pad_invalid", "pad_invalid": "pad_valid", "ne_std": "eq_std", "eq_std": "ne_std"}
                return Mask(flip.get(m.kind, "unknown"), m.k, m.of)
            return UNK
        if isinstance(n, ast.Attribute):
            if self.is_fill(n):
                return Scal("std_fill")
            if self.is_intdtype(n):
                return DT("std")
            if isinstance(n.value, ast.Name) and n.value.id == "np" and n.attr == "nan":
                return Scal("nan")
            base = self.ev(n.value, st, f, depth)
            if isinstance(base, DS):
                # ds.<var> attribute access to a variable
                a = _initial(self.relpath, n.attr)
                if a is not None or n.attr in COUNT_VARS:
                    return Src(n.attr)
                return UNK
            if isinstance(base, Src):
                if n.attr in ("values", "data"):
                    if base.key in COUNT_VARS:
                        return Count(base.key)
                    a = _initial(self.relpath, base.key)
                    if a is None:
                        return UNK
                    return a
                if n.attr == "T":
                    return Src(base.key, not base.transposed)
                if n.attr == "_FillValue":
                    return Scal("sent_of", base.key)
                if n.attr == "start_index":
                    return Scal("base_of", base.key)
                if n.attr == "dtype":
                    return DT("of", base.key)
                return UNK
            if isinstance(base, Arr):
                if n.attr in ("T", "values", "data"):
                    return base
                if n.attr == "dtype":
                    return DT("std") if base.dtype == "std" else DT("of", tuple(sorted(base.srcs)))
                return UNK
            if isinstance(base, Count) and n.attr in ("values", "data"):
                return base
            return UNK
        if isinstance(n, ast.Subscript):
            base = self.ev(n.value, st, f, depth)
            if isinstance(base, DS):
                k = str_const(n.slice)
                if k is None:
                    sv = self.ev(n.slice, st, f, depth)
                    if isinstance(sv, Scal) and sv.kind in ("name", "str"):
                        k = sv.v
                if k is not None:
                    return Src(k)
                return UNK
            if isinstance(base, Arr):
                iv = self.ev(n.slice, st, f, depth) if not isinstance(n.slice, (ast.Slice, ast.Tuple)) else None
                if isinstance(iv, Mask) and iv.kind in ("ne_std", "pad_valid"):
                    # selection of the valid entries only
                    return base.op(f"[{norm(n.slice)}]", sent=NONE if iv.kind == "ne_std" else base.sent, pad="na" if iv.kind == "pad_valid" else base.pad)
                return base  # slicing keeps the state
            if isinstance(base, Count):
                return base
            return UNK
        if isinstance(n, ast.Compare) and len(n.ops) == 1:
            a = self.ev(n.left, st, f, depth)
            b = self.ev(n.comparators[0], st, f, depth)
            op = n.ops[0]
            for x, y, nx in ((a, b, n.left), (b, a, n.comparators[0])):
                if isinstance(x, Arr) and isinstance(y, Scal):
                    nm = norm(nx)
                    if y.kind == "std_fill":
                        return Mask("eq_std" if isinstance(op, ast.Eq) else "ne_std" if isinstance(op, ast.NotEq) else "unknown", of=nm)
                    if y.kind == "lit":
                        if isinstance(op, ast.Eq):
                            return Mask("eq", y.v, nm)
                        if isinstance(op, ast.LtE) and x is a:
                            return Mask("le", y.v, nm)
                        if isinstance(op, ast.Lt) and x is a and isinstance(y.v, int):
                            return Mask("le", y.v - 1, nm)
                    if y.kind in ("sent_of", "param"):
                        if isinstance(op, ast.Eq):
                            return Mask("eq_decl", y.v, nm)
                    return Mask("unknown", of=nm)
            # np.arange(max) < count[:, None]  -> valid-entry mask
            if isinstance(b, Count) and isinstance(op, ast.Lt):
                return Mask("pad_valid", of=b.src)
            if isinstance(a, Count) and isinstance(op, (ast.Gt,)):
                return Mask("pad_valid", of=a.src)
            if isinstance(b, Count) and isinstance(op, ast.GtE):
                return Mask("pad_invalid", of=b.src)
            return UNK
        if isinstance(n, ast.BinOp):
            a = self.ev(n.left, st, f, depth)
            b = self.ev(n.right, st, f, depth)
            if isinstance(a, Arr) and isinstance(n.op, (ast.Sub, ast.Add)):
                return self.shift(a, b, whole=True, sign=-1 if isinstance(n.op, ast.Sub) else 1, text=norm(n), facts=st.facts)
            if isinstance(a, Arr) and isinstance(n.op, ast.Mult):
                return a
            return UNK
        if isinstance(n, ast.Call):
            return self.call(n, st, f, depth)
        if isinstance(n, ast.IfExp):
            a = self.ev(n.body, st, f, depth)
            b = self.ev(n.orelse, st, f, depth)
            if isinstance(a, Arr) and isinstance(b, Arr):
                return self.join_arrs([a, b], norm(n)[:50])
            return UNK
        return UNK

    def shift(self, a: Arr, by, whole, sign, text, facts):
        """index arithmetic: a - by (sign -1) over the whole array or only over the valid entries"""
        k = None
        newbase = ("unknown",)
        if a.base == ("neutral",):
            newbase = ("neutral",)
            if isinstance(by, Scal) and by.kind == "lit":
                k = sign * by.v
        elif isinstance(by, Scal):
            if by.kind == "lit" and a.base[0] == "lit":
                newbase = ("lit", a.base[1] + sign * by.v)
                k = sign * by.v
            elif by.kind == "lit" and a.base[0] == "decl":
                # literal subtracted from a declared base: right only when the attribute is absent and the literal is the format default
                src = a.base[1]
                default = a.base[2] if len(a.base) > 2 else None
                if facts.get(("attr", src, "start_index")) is False and default is not None and sign * by.v == -default:
                    newbase = ("lit", 0)
                else:
                    newbase = ("unknown",)
                k = sign * by.v
            elif by.kind == "base_of" and a.base[0] == "decl" and sign == -1 and (by.v == a.base[1] or a.base[1] == "*" or by.v == "*"):
                newbase = ("lit", 0)
            elif by.kind == "base_of_or" and a.base[0] == "decl" and sign == -1 and (by.v[0] == a.base[1] or a.base[1] == "*"):
                # attrs.get("start_index", d): the declared base when there is one, else d - right exactly when d is the format's default base
                default = a.base[2] if len(a.base) > 2 else None
                newbase = ("lit", 0) if by.v[1] == default else ("unknown",)
            elif by.kind == "min_valid" and a.base[0] == "decl" and sign == -1 and (len(a.base) > 2 and a.base[2] is None):
                # base not declared: the smallest index in use is taken as the base (the format gives no better rule) -
                # but only on a path where the start_index attribute is known to be absent: a declared base (0 included) wins
                if facts.get(("attr", a.base[1], "start_index")) is False or facts.get(("attr", "*", "start_index")) is False:
                    newbase = ("lit", 0)
                else:
                    newbase = ("smallest index in use, on a path where a start_index attribute may be declared (a declared 0 is ignored)",)
            elif by.kind == "min_all" and sign == -1:
                newbase = ("lit", 0) if a.sent in (NONE,) else ("unknown",)
                if a.sent not in (NONE,):
                    return a.op(text + "  [start index taken as min() over an array that still contains its sentinel]", base=("bad-min",))
            elif by.kind == "param" and a.base[0] == "decl" and sign == -1:
                newbase = ("lit", 0)
        sent = a.sent
        if whole:
            if sent == STD:
                sent = ("shifted",)
            elif sent[0] == "lit" and k is not None:
                sent = ("lit", sent[1] + k)
            elif sent[0] == "le" and k is not None:
                sent = ("le", sent[1] + k)
            elif sent[0] == "decl":
                sent = ("shifted-decl", sent[1])
        return a.op(text, base=newbase, sent=sent)

    def call(self, n, st, f, depth):
        d = dotted(n.func) or []
        name = n.func.attr if isinstance(n.func, ast.Attribute) else n.func.id if isinstance(n.func, ast.Name) else None
        d = d if d else ["?", name]
        args = n.args
        kw = {k.arg: k.value for k in n.keywords if k.arg}

        def arg(i, nm=None):
            if i < len(args):
                return args[i]
            return kw.get(nm)

        # ---- numpy constructors / casts
        if name in ("array", "asarray", "ascontiguousarray") and d[0] in ("np", "numpy"):
            v = self.ev(args[0], st, f, depth) if args else UNK
            dt = arg(1, "dtype")
            if isinstance(v, Src):
                v = self.ev(ast.Attribute(value=args[0], attr="values", ctx=ast.Load()), st, f, depth)
            if isinstance(v, (Arr, Count)) :
                if isinstance(v, Count):
                    return v
                if dt is not None:
                    dv = self.ev(dt, st, f, depth)
                    return v.op(norm(n)[:60], dtype="std" if isinstance(dv, DT) and dv.kind == "std" else "other")
                return v
            return UNK
        if name == "get" and isinstance(n.func, ast.Attribute) and isinstance(n.func.value, ast.Attribute) and n.func.value.attr == "attrs" and args and str_const(args[0]) in ("start_index", "_FillValue"):
            owner = self.ev(n.func.value.value, st, f, depth)
            if isinstance(owner, Src):
                if str_const(args[0]) == "start_index":
                    dflt = self.ev(args[1], st, f, depth) if len(args) > 1 else Scal("none")
                    return Scal("base_of_or", (owner.key, dflt.v if isinstance(dflt, Scal) and dflt.kind == "lit" else None))
                return Scal("sent_of", owner.key) if len(args) == 1 or norm(args[1]) == "None" else UNK
            return UNK
        if name == "astype" and isinstance(n.func, ast.Attribute):
            v = self.ev(n.func.value, st, f, depth)
            if isinstance(v, Count):
                return v
            if isinstance(v, Arr) and args:
                dv = self.ev(args[0], st, f, depth)
                return v.op(f".astype({norm(args[0])})", dtype="std" if isinstance(dv, DT) and dv.kind == "std" else "other")
            return UNK
        if name == "INT_DTYPE" and args:
            v = self.ev(args[0], st, f, depth)
            return v if isinstance(v, Scal) else UNK
        if name in ("reshape", "transpose", "copy", "squeeze", "atleast_2d", "ravel") and d[0] in ("np", "numpy") and len(d) == 2 and args:
            return self.ev(args[0], st, f, depth)
        if name in ("copy", "ravel", "flatten", "squeeze") and isinstance(n.func, ast.Attribute) and not args:
            return self.ev(n.func.value, st, f, depth)
        if name in ("reshape", "transpose") and isinstance(n.func, ast.Attribute):
            return self.ev(n.func.value, st, f, depth)
        if name in ("vstack", "hstack", "column_stack", "concatenate", "stack") and args:
            parts = args[0].elts if isinstance(args[0], (ast.Tuple, ast.List)) else [args[0]]
            vals = [self.ev(p, st, f, depth) for p in parts]
            arrs = [v for v in vals if isinstance(v, Arr)]
            if arrs and len(arrs) == len(vals):
                return self.join_arrs(arrs, norm(n)[:50])
            return UNK
        if name in ("full", "zeros", "ones", "empty", "arange", "full_like") and d[0] in ("np", "numpy"):
            dt = kw.get("dtype")
            dtype = "other"
            if dt is not None:
                dv = self.ev(dt, st, f, depth)
                if isinstance(dv, DT):
                    dtype = "std" if dv.kind == "std" else "src" if dv.kind == "of" else "other"
            elif name == "arange":
                dtype = "other"
            sent = NONE
            if name == "full" and len(args) > 1:
                fv = self.ev(args[1], st, f, depth)
                if isinstance(fv, Scal) and fv.kind == "lit":
                    sent = ("lit", fv.v)
                elif isinstance(fv, Scal) and fv.kind == "std_fill":
                    sent = STD
            elif name == "zeros":
                sent = ("lit", 0)
            elif name == "ones":
                sent = ("lit", 1)
            elif name == "empty":
                sent = NONE
            return Arr(dtype=dtype, sent=sent, base=("lit", 0) if name == "arange" else ("neutral",), why=(norm(n)[:60],))
        if name == "unique" and d[0] in ("np", "numpy"):
            # np.unique(..., return_inverse=True): positions into the unique table: platform int, zero based, no sentinel
            return Scal("unique_result")
        if name == "logical_not" and args:
            m = self.ev(args[0], st, f, depth)
            if isinstance(m, Mask):
                flip = {"pad_valid": "pad_invalid", "pad_invalid": "pad_valid", "ne_std": "eq_std", "eq_std": "ne_std"}
                return Mask(flip.get(m.kind, "unknown"), m.k, m.of)
            return UNK
        if name == "isnan" and args:
            v = self.ev(args[0], st, f, depth)
            if isinstance(v, Arr):
                return Mask("isnan", of=norm(args[0]))
            return UNK
        if name in ("min",) and isinstance(n.func, ast.Attribute):
            recv = n.func.value
            v = self.ev(recv, st, f, depth)
            if isinstance(v, Arr):
                # conn[valid].min() vs conn.min()
                if isinstance(recv, ast.Subscript):
                    iv = self.ev(recv.slice, st, f, depth)
                    if isinstance(iv, Mask) and iv.kind == "ne_std":
                        return Scal("min_valid", tuple(sorted(v.srcs)))
                return Scal("min_valid" if v.sent == NONE else "min_all", tuple(sorted(v.srcs)))
            return UNK
        if name == "DataArray":
            dv = arg(0, "data")
            return self.ev(dv, st, f, depth) if dv is not None else UNK
        if name == "enumerate" and args:
            return self.ev(args[0], st, f, depth)
        if name == "_replace_fill_values":
            return self.replace_fill(n, st, f, depth)
        if name in ("rename", "rename_dims", "rename_vars", "swap_dims", "set_coords", "drop_vars", "isel", "squeeze", "load") and isinstance(n.func, ast.Attribute):
            recv = self.ev(n.func.value, st, f, depth)
            if isinstance(recv, DS):
                return recv
        # ---- repo helpers: inline
        target = self.P.resolve_call(f.module, n, f) if hasattr(self.P, "resolve_call") else None
        if target is None and isinstance(n.func, ast.Name):
            target = f.module.defs.get(n.func.id)
        if isinstance(target, FuncInfo) and target.module.relpath.startswith("uxarray/io") and depth < self.max_depth:
            avals = [self.ev(a, st, f, depth) for a in args]
            kvals = {k: self.ev(v, st, f, depth) for k, v in kw.items()}
            return self.run_function(target, avals, kvals, depth + 1, st.facts)
        return UNK

    def replace_fill(self, n, st, f, depth):
        kw = {k.arg: k.value for k in n.keywords if k.arg}
        names = ["grid_var", "original_fill", "new_fill", "new_dtype"]
        vals = {}
        for i, a in enumerate(n.args):
            vals[names[i]] = a
        vals.update(kw)
        arr = self.ev(vals["grid_var"], st, f, depth) if "grid_var" in vals else UNK
        if isinstance(arr, Scal) and arr.kind == "unique_inverse":
            arr = Arr(dtype="std", sent=NONE, base=("lit", 0), why=("np.unique inverse",))
        if not isinstance(arr, Arr):
            return UNK
        of = self.ev(vals["original_fill"], st, f, depth) if "original_fill" in vals else UNK
        nf = self.ev(vals["new_fill"], st, f, depth) if "new_fill" in vals else UNK
        nd = self.ev(vals["new_dtype"], st, f, depth) if "new_dtype" in vals else Scal("none")
        out = arr
        if isinstance(nd, DT) and nd.kind == "std":
            out = out.op("_replace_fill_values(new_dtype=INT_DTYPE)", dtype="std")
        if not (isinstance(nf, Scal) and nf.kind == "std_fill"):
            return out.op("_replace_fill_values(new_fill is not INT_FILL_VALUE)", sent=("other-fill",))
        s = arr.sent
        if isinstance(of, Scal):
            match = False
            if of.kind == "lit" and s[0] == "lit" and s[1] == of.v:
                match = True
            elif of.kind in ("sent_of", "param") and s[0] == "decl":
                match = True
            elif of.kind == "nan" and s in (("nan",), ("nan?",)):
                match = True
            elif of.kind == "none" and s == ("nan?",):
                s = NONE  # reached only when no NaN was found (the caller's elif chain)
            elif of.kind == "sentinel_var":  # variable holding whichever sentinel this source declared
                match = s[0] in ("decl", "nan") or s == NONE
            elif of.kind == "std_fill" and s == STD:
                match = True
            if s == NONE or (of.kind == "none"):
                # no missing entries / nothing to replace: state unchanged (harmless)
                return out.op(f"_replace_fill_values(original_fill={norm(vals['original_fill'])}) [no sentinel in the array]")
            if match:
                return out.op(f"_replace_fill_values(original_fill={norm(vals['original_fill'])})", sent=STD)
            return out.op(f"_replace_fill_values(original_fill={norm(vals['original_fill'])}) does not name the array's sentinel {s}")
        return UNK

    def join_arrs(self, arrs, text):
        dt = "std" if all(a.dtype == "std" for a in arrs) else "src" if all(a.dtype in ("std", "src") for a in arrs) else "other"
        sents = {a.sent for a in arrs if a.sent != NONE}
        sent = NONE if not sents else next(iter(sents)) if len(sents) == 1 else ("mixed", tuple(sorted(map(str, sents))))
        bases = {a.base for a in arrs if a.base != ("neutral",)}
        base = ("neutral",) if not bases else next(iter(bases)) if len(bases) == 1 else ("unknown",)
        pad = "pending" if any(a.pad == "pending" for a in arrs) else "done" if any(a.pad == "done" for a in arrs) else "na"
        srcs = frozenset().union(*[a.srcs for a in arrs])
        why = sum((a.why for a in arrs), ()) + (text,)
        return Arr(dt, sent, base, pad, srcs, why[-12:])

    # ---- statements
    def run_function(self, func: FuncInfo, avals, kvals, depth, facts):
        params = func.params()
        env = {}
        for p, v in zip(params, avals):
            env[p] = v
        for k, v in kvals.items():
            env[k] = v
        # parameters that were not passed take their literal defaults
        a_ = func.node.args
        pos_ = [x.arg for x in a_.posonlyargs + a_.args]
        for prm, dflt in list(zip(pos_[len(pos_) - len(a_.defaults):], a_.defaults)) + [(x.arg, d) for x, d in zip(a_.kwonlyargs, a_.kw_defaults) if d is not None]:
            if prm not in env and isinstance(dflt, ast.Constant):
                env[prm] = Scal("none") if dflt.value is None else Scal("bool", dflt.value) if isinstance(dflt.value, bool) else Scal("str", dflt.value) if isinstance(dflt.value, str) else Scal("lit", dflt.value) if isinstance(dflt.value, (int, float)) else UNK
        st0 = State(env, facts)
        outs = self.block(func.node.body, [st0], func, depth)
        rets = [s.ret for s in outs if s.ret is not None]
        arrs = [r for r in rets if isinstance(r, Arr)]
        if rets and len(arrs) == len(rets):
            # worst state over the paths: report each distinct one through a pseudo-join keeping the first bad
            bad = [a for a in arrs if not self.ok(a)]
            return (bad or arrs)[0]
        if rets and all(isinstance(r, DS) for r in rets):
            return rets[0]
        return UNK

    def ok(self, a: Arr):
        return a.dtype == "std" and a.sent in (STD, NONE) and a.base in (("lit", 0), ("neutral",)) and a.pad in ("na", "done")

    def block(self, stmts, states, f, depth):
        for stn in stmts:
            live = [s for s in states if not s.done]
            dead = [s for s in states if s.done]
            if not live:
                return states
            states = dead + self.stmt(stn, live, f, depth)
            if len(states) > 600:
                raise Incomplete(f"more than 600 abstract states in {f.key}")
        return states

    def refine(self, test, truth, st, f, depth):
        """Refinements implied by a branch condition; returns False when the branch is infeasible."""
        # "attr" in X.attrs
        if isinstance(test, ast.UnaryOp) and isinstance(test.op, ast.Not):
            return self.refine(test.operand, not truth, st, f, depth)
        if isinstance(test, ast.Name):
            v = st.env.get(test.id)
            if isinstance(v, Scal) and v.kind == "bool":
                return v.v == truth
            if isinstance(v, Scal) and v.kind == "none":
                return not truth
            if isinstance(v, Scal) and v.kind == "base_of_or" and v.v[1] is None and truth:
                # x = attrs.get("start_index"); if x:   -> declared and non-zero.  (The false branch proves nothing: absent, or declared as 0.)
                st.env[test.id] = Scal("base_of", v.v[0])
                st.facts[("attr", v.v[0], "start_index")] = True
            return True
        if isinstance(test, ast.BoolOp):
            if (isinstance(test.op, ast.And) and truth) or (isinstance(test.op, ast.Or) and not truth):
                ok = True
                for v in test.values:
                    if self.refine(v, truth, st, f, depth) is False:
                        ok = False
                return ok
            return True
        # <mask>.any()   /   np.isnan(X).any()
        if isinstance(test, ast.Call) and isinstance(test.func, ast.Attribute) and test.func.attr == "any" and not test.args:
            m = self.ev(test.func.value, st, f, depth)
            if isinstance(m, Mask) and m.kind == "isnan":
                for nm, val in list(st.env.items()):
                    if isinstance(val, Arr) and val.sent == ("nan?",):
                        st.env[nm] = val.op(f"path: {norm(test)} is {truth}", sent=("nan",) if truth else NONE)
                st.facts[("nan_present",)] = truth
            if isinstance(m, Mask) and m.kind == "ne_std" and not truth:
                for nm, val in list(st.env.items()):
                    if isinstance(val, Arr) and norm(ast.Name(id=nm)) == m.of:
                        st.env[nm] = val.op(f"path: no valid entry at all", base=("neutral",))
            return True
        if isinstance(test, ast.Compare) and len(test.ops) == 1:
            op = test.ops[0]
            l, r = test.left, test.comparators[0]
            if isinstance(op, (ast.In, ast.NotIn)) and str_const(l) is not None:
                t = truth if isinstance(op, ast.In) else not truth
                if isinstance(r, ast.Attribute) and r.attr == "attrs":
                    owner = self.ev(r.value, st, f, depth)
                    if isinstance(owner, Src):
                        st.facts[("attr", owner.key, str_const(l))] = t
                        st.facts[("attr", "*", str_const(l))] = t
                        if str_const(l) == "_FillValue" and not t:
                            # no declared fill value: NaN in float storage marks missing entries, if anything does
                            for nm, val in list(st.env.items()):
                                if isinstance(val, Arr) and val.sent[0] == "decl" and owner.key in val.srcs | {"*"}:
                                    st.env[nm] = val.op("path: no _FillValue attribute", sent=("nan?",))
                return True
            if isinstance(op, (ast.In, ast.NotIn, ast.Eq, ast.NotEq)) and str_const(l) is None:
                lv = self.ev(l, st, f, depth)
                if isinstance(lv, Scal) and lv.kind == "str":
                    coll = self.str_collection(r, f)
                    if isinstance(op, (ast.In, ast.NotIn)) and isinstance(coll, tuple):
                        return (lv.v in coll) == (truth if isinstance(op, ast.In) else not truth)
                    if isinstance(op, (ast.Eq, ast.NotEq)) and str_const(r) is not None:
                        return (lv.v == str_const(r)) == (truth if isinstance(op, ast.Eq) else not truth)
            if isinstance(op, (ast.Is, ast.IsNot)) and isinstance(r, ast.Constant) and r.value is None:
                isnone = truth if isinstance(op, ast.Is) else not truth
                v = self.ev(l, st, f, depth)
                if isinstance(v, Scal) and v.kind == "base_of_or" and v.v[1] is None:
                    # x = attrs.get("start_index"); if x is None / is not None: exactly the attribute's absence / presence
                    st.facts[("attr", v.v[0], "start_index")] = not isnone
                    st.facts[("attr", "*", "start_index")] = not isnone
                    if isinstance(l, ast.Name):
                        st.env[l.id] = Scal("none") if isnone else Scal("base_of", v.v[0])
                    return True
                if isinstance(v, Scal) and v.kind == "none":
                    return isnone
                if isinstance(v, Scal) and v.kind in ("str", "lit", "bool"):
                    return not isnone
                if isinstance(v, Scal) and v.kind == "sentinel_var" and isnone:
                    for nm, val in list(st.env.items()):
                        if isinstance(val, Arr) and val.sent[0] == "decl":
                            st.env[nm] = val.op(f"path: {norm(test)}: the source has no fill value", sent=NONE)
                return
            # conn.dtype != INT_DTYPE   /   original_fv != INT_FILL_VALUE
            if isinstance(op, (ast.NotEq, ast.Eq)):
                eq = truth if isinstance(op, ast.Eq) else not truth
                a = self.ev(l, st, f, depth)
                b = self.ev(r, st, f, depth)
                for x, y, nx in ((a, b, l), (b, a, r)):
                    if isinstance(x, DT) and x.kind == "of" and isinstance(y, DT) and y.kind == "std" and eq:
                        # the array this dtype was read from is INT_DTYPE on this path
                        if isinstance(nx, ast.Attribute) and isinstance(nx.value, ast.Name) and isinstance(st.env.get(nx.value.id), Arr):
                            st.env[nx.value.id] = st.env[nx.value.id].op(f"path: {norm(test)} is {truth}", dtype="std")
                    if isinstance(x, Scal) and x.kind == "sentinel_var" and isinstance(y, Scal) and y.kind == "std_fill" and eq:
                        st.facts[("sentinel_is_std", x.v)] = True
                    if isinstance(x, Scal) and x.kind == "sent_of" and isinstance(y, Scal) and y.kind == "std_fill" and eq:
                        st.facts[("sentinel_is_std", x.v)] = True
                    if isinstance(x, Scal) and x.kind in ("nan", "none", "lit") and isinstance(y, Scal) and y.kind == "std_fill" and eq:
                        return False  # NaN / None / a small literal never equals INT_FILL_VALUE
            return True
        return True

    def str_collection(self, node, f):
        """tuple of strings for a literal tuple/list/set of strings or a module-level NAME bound to one (None otherwise)"""
        if isinstance(node, (ast.Tuple, ast.List, ast.Set)) and all(str_const(e) is not None for e in node.elts):
            return tuple(str_const(e) for e in node.elts)
        if isinstance(node, ast.Name):
            for stn in f.module.tree.body:
                if isinstance(stn, ast.Assign) and len(stn.targets) == 1 and isinstance(stn.targets[0], ast.Name) and stn.targets[0].id == node.id:
                    return self.str_collection(stn.value, f) if not isinstance(stn.value, ast.Name) else None
        return None

    def stmt(self, n, states, f, depth):
        out = []
        # a conditional expression choosing between string literals (a variable name picked per mesh type, say) is evaluated as the branch it is
        if isinstance(n, (ast.Assign, ast.Return, ast.AugAssign)) and n.value is not None:
            ife = next((x for x in ast.walk(n.value) if isinstance(x, ast.IfExp)), None)
            if ife is not None:
                import copy
                for truth, pick in ((True, "body"), (False, "orelse")):
                    class _T(ast.NodeTransformer):
                        def visit_IfExp(self_, x):
                            if x is ife_copy:
                                return getattr(x, pick)
                            return self_.generic_visit(x)
                    n2 = copy.deepcopy(n)
                    # locate the copy of `ife` by position in the walk order
                    idx = [i for i, x in enumerate(ast.walk(n.value)) if x is ife][0]
                    ife_copy = list(ast.walk(n2.value))[idx]
                    n2 = _T().visit(n2)
                    for s in states:
                        b = s.fork()
                        if self.refine(ife.test, truth, b, f, depth) is not False:
                            out += self.stmt(n2, [b], f, depth)
                return out
        if isinstance(n, ast.If):
            for s in states:
                a = s.fork()
                b = s.fork()
                fa = self.refine(n.test, True, a, f, depth)
                fb = self.refine(n.test, False, b, f, depth)
                a.conds.append((norm(n.test), True))
                b.conds.append((norm(n.test), False))
                # sentinel variable idiom (UGRID): the skip arm of  `dtype != INT_DTYPE or fv != INT_FILL_VALUE`
                self.apply_sentinel_facts(b)
                self.apply_sentinel_facts(a)
                if fa is not False:
                    out += self.block(n.body, [a], f, depth)
                if fb is not False:
                    out += self.block(n.orelse, [b], f, depth)
            return out
        if isinstance(n, (ast.For, ast.AsyncFor)):
            for s in states:
                it = self.ev(n.iter, s, f, depth)
                # for i, cnt in enumerate(counts)  /  for key, value in ds.variables.items()
                tg = n.target
                if isinstance(tg, ast.Tuple) and len(tg.elts) == 2 and all(isinstance(e, ast.Name) for e in tg.elts):
                    a, b = tg.elts[0].id, tg.elts[1].id
                    if isinstance(it, Count):
                        s.env[a] = Scal("row")
                        s.env[b] = Scal("row_count", it.src)
                    elif isinstance(n.iter, ast.Call) and isinstance(n.iter.func, ast.Attribute) and n.iter.func.attr == "items":
                        owner = n.iter.func.value
                        ov = self.ev(owner.value if isinstance(owner, ast.Attribute) and owner.attr in ("variables", "data_vars") else owner, s, f, depth)
                        if isinstance(ov, DS):
                            s.env[a] = Scal("varname")
                            s.env[b] = Src("connect*") if self.relpath.endswith("_exodus.py") else UNK
                elif isinstance(tg, ast.Name):
                    s.env[tg.id] = Scal("name") if not isinstance(it, Count) else Scal("row_count", it.src)
                # body once = "every row / every block handled alike"
                res = self.block(n.body, [s], f, depth)
                for r in res:
                    if r.ret is None:
                        r.done = False
                out += res
            return out
        if isinstance(n, ast.Return):
            for s in states:
                s.ret = self.ev(n.value, s, f, depth) if n.value is not None else Scal("none")
                if isinstance(n.value, ast.Tuple) and n.value.elts:
                    s.ret = self.ev(n.value.elts[0], s, f, depth)
                s.done = True
            return states
        if isinstance(n, ast.Raise):
            return []  # path ends, no sink reached afterwards
        if isinstance(n, (ast.Continue, ast.Break, ast.Pass)):
            return states
        if isinstance(n, ast.Expr):
            return states
        if isinstance(n, ast.Assign) and len(n.targets) == 1:
            for s in states:
                self.assign(n.targets[0], n.value, s, f, depth, n)
            return states
        if isinstance(n, ast.AugAssign):
            for s in states:
                self.augassign(n, s, f, depth)
            return states
        if isinstance(n, (ast.With, ast.Try)):
            return self.block(n.body, states, f, depth)
        return states

    def apply_sentinel_facts(self, st):
        for k, v in list(st.facts.items()):
            if k[0] == "sentinel_is_std" and v:
                for nm, val in list(st.env.items()):
                    if isinstance(val, Arr) and val.sent[0] in ("decl", "nan") and (set(val.srcs) & set(k[1] if isinstance(k[1], tuple) else (k[1],)) or True):
                        st.env[nm] = val.op("path: the declared fill value is INT_FILL_VALUE", sent=STD)

    def assign(self, tgt, value, st, f, depth, node):
        # ---- sink:  ds["x_connectivity"] = xr.DataArray(...)
        if isinstance(tgt, ast.Subscript):
            base = self.ev(tgt.value, st, f, depth)
            key = str_const(tgt.slice)
            if key is None and isinstance(tgt.slice, ast.Name):
                kv = st.env.get(tgt.slice.id)
                key = "<" + tgt.slice.id + ">" if isinstance(kv, Scal) and kv.kind == "name" else None
            if isinstance(tgt.value, ast.Name) and (key or "").endswith("connectivity") or (key and key.startswith("<")):
                v = self.ev(value, st, f, depth)
                if isinstance(v, Scal) and v.kind == "unique_inverse":
                    v = Arr(dtype="std", sent=NONE, base=("lit", 0), why=("np.unique inverse",))
                self.sinks.append((f, node, key, v, dict(st.facts)))
                st.hit += 1
                return
            # ---- masked / sliced store into an array
            arr = base
            if isinstance(arr, Arr) and isinstance(tgt.value, ast.Name):
                val = self.ev(value, st, f, depth)
                st.env[tgt.value.id] = self.store(arr, tgt.slice, val, st, f, depth, norm(node))
            return
        if isinstance(tgt, ast.Attribute) and tgt.attr == "data" and isinstance(tgt.value, ast.Name) and isinstance(st.env.get(tgt.value.id), Src):
            # v = ds[name]; ...; v.data = conn   : the same sink through a local that stands for the dataset's variable
            src_ = st.env[tgt.value.id]
            self.sinks.append((f, node, src_.key if src_.key != "*" else "<conn_name>", self.ev(value, st, f, depth), dict(st.facts)))
            st.hit += 1
            return
        if isinstance(tgt, ast.Attribute) and tgt.attr == "data" and isinstance(tgt.value, ast.Subscript):
            # ds[conn_name].data = conn   (UGRID): a sink
            owner = self.ev(tgt.value.value, st, f, depth)
            if isinstance(owner, DS):
                key = str_const(tgt.value.slice) or "<" + norm(tgt.value.slice) + ">"
                self.sinks.append((f, node, key, self.ev(value, st, f, depth), dict(st.facts)))
                st.hit += 1
            return
        if isinstance(tgt, ast.Name):
            v = self.ev(value, st, f, depth)
            # original_fv = ds[name]._FillValue | np.nan | None   -> "the sentinel this source declares"
            if isinstance(v, Scal) and v.kind in ("sent_of", "nan", "none") and tgt.id in st.env and isinstance(st.env[tgt.id], Scal) and st.env[tgt.id].kind == "sentinel_var":
                pass
            st.env[tgt.id] = v
            return
        if isinstance(tgt, ast.Tuple):
            v = self.ev(value, st, f, depth)
            if isinstance(v, Scal) and v.kind == "unique_result":
                # _, idx, inv = np.unique(..., return_index=True, return_inverse=True): the LAST element is the inverse
                call = value
                kws = {k.arg for k in call.keywords if isinstance(k.value, ast.Constant) and k.value.value is True}
                order = [k for k in ("return_index", "return_inverse", "return_counts") if k in kws]
                for i, e in enumerate(tgt.elts):
                    if isinstance(e, ast.Name):
                        role = (["values"] + order)[i] if i < len(order) + 1 else None
                        st.env[e.id] = Scal("unique_inverse") if role == "return_inverse" else UNK
                return
            for e in tgt.elts:
                if isinstance(e, ast.Name):
                    st.env[e.id] = UNK

    def store(self, arr: Arr, sl, val, st, f, depth, text):
        """arr[sl] = val"""
        iv = None
        if not isinstance(sl, (ast.Slice, ast.Tuple)):
            iv = self.ev(sl, st, f, depth)
        if isinstance(val, Scal) and val.kind == "std_fill":
            if isinstance(iv, Mask):
                if iv.kind == "eq" and arr.sent == ("lit", iv.k):
                    return arr.op(text, sent=STD)
                if iv.kind == "le" and arr.sent[0] in ("le", "lit") and arr.sent[1] <= iv.k and (arr.base[0] != "lit" or arr.base[1] > iv.k):
                    return arr.op(text, sent=STD)
                if iv.kind == "eq_decl" and arr.sent[0] == "decl":
                    return arr.op(text, sent=STD)
                if iv.kind == "isnan" and arr.sent == ("nan",):
                    return arr.op(text, sent=STD)
                if iv.kind == "pad_invalid" and arr.pad == "pending":
                    return arr.op(text, pad="done", sent=STD if arr.sent in (NONE, STD) else arr.sent)
                if iv.kind == "eq" and arr.sent == NONE:
                    return arr.op(text + f" [introduces INT_FILL_VALUE for entries equal to {iv.k}]", sent=STD)
                return arr.op(text + " [mask does not select the array's sentinel]")
            # row slice  arr[i, n:] = FILL  with n the row's count
            if isinstance(sl, ast.Tuple) and len(sl.elts) == 2 and isinstance(sl.elts[1], ast.Slice):
                lo = sl.elts[1].lower
                lv = self.ev(lo, st, f, depth) if lo is not None else None
                if isinstance(lv, Scal) and lv.kind == "row_count" and sl.elts[1].upper is None and arr.pad == "pending":
                    return arr.op(text, pad="done", sent=STD if arr.sent in (NONE, STD) else arr.sent)
            return arr.op(text + " [store of INT_FILL_VALUE at an unrecognised position]")
        if isinstance(val, Arr):
            # blk[:, :k] = value.data
            j = self.join_arrs([arr, val], text)
            return j
        return arr

    def augassign(self, n, st, f, depth):
        t = n.target
        if not isinstance(n.op, (ast.Sub, ast.Add)):
            return
        sign = -1 if isinstance(n.op, ast.Sub) else 1
        by = self.ev(n.value, st, f, depth)
        if isinstance(t, ast.Name):
            a = st.env.get(t.id)
            if isinstance(a, Arr):
                st.env[t.id] = self.shift(a, by, True, sign, norm(n), st.facts)
            return
        if isinstance(t, ast.Subscript) and isinstance(t.value, ast.Name):
            a = st.env.get(t.value.id)
            if not isinstance(a, Arr):
                return
            sl = t.slice
            iv = self.ev(sl, st, f, depth) if not isinstance(sl, (ast.Slice, ast.Tuple)) else None
            valid_only = False
            if isinstance(iv, Mask) and iv.kind == "ne_std":
                valid_only = a.sent in (STD, NONE)  # every sentinel is already INT_FILL_VALUE: only real indices move
                if not valid_only:
                    # entries still carrying the source's sentinel are shifted together with the indices
                    st.env[t.value.id] = self.shift(a, by, True, sign, norm(n) + " [source sentinel not yet replaced: shifted with the indices]", st.facts)
                    return
            elif isinstance(iv, Mask) and iv.kind == "pad_valid":
                valid_only = True     # exactly the entries inside each row's count move; what lies beyond is replaced separately (padding obligation)
            elif isinstance(sl, ast.Tuple) and len(sl.elts) == 2 and isinstance(sl.elts[1], ast.Slice):
                up = sl.elts[1].upper
                uv = self.ev(up, st, f, depth) if up is not None else None
                lo = sl.elts[1].lower
                lo_zero = lo is None or (isinstance(lo, ast.Constant) and lo.value == 0)
                if isinstance(uv, Scal) and uv.kind == "row_count" and lo_zero:
                    valid_only = True
            if valid_only:
                shifted = self.shift(a, by, False, sign, norm(n), st.facts)
                st.env[t.value.id] = shifted
            else:
                st.env[t.value.id] = self.shift(a, by, True, sign, norm(n), st.facts)


def describe(a):
    if isinstance(a, Arr):
        return {"dtype": a.dtype, "sentinel": a.sent, "base": a.base, "padding": a.pad, "sources": sorted(a.srcs), "trace": list(a.why[-8:])}
    return repr(a)


def analyse_reader(program, func: FuncInfo, ds_params, extra_env=None):
    """Runs the typestate interpreter on a reader entry; returns the list of sinks."""
    I = ConnInterp(program, func.module.relpath)
    env = {p: DS(p) for p in ds_params}
    env.update(extra_env or {})
    st = State(env)
    I.exits = I.block(func.node.body, [st], func, 0)     # final states of the entry function (one per path that does not raise)
    return I


def verdict(I: ConnInterp, a):
    """(ok, problems[]) for a sink value"""
    if not isinstance(a, Arr):
        return None, ["value not understood by the typestate interpreter"]
    probs = []
    if a.dtype != "std":
        probs.append(f"dtype is '{a.dtype}' (not converted to INT_DTYPE)")
    if a.sent not in (STD, NONE):
        probs.append(f"missing entries are still written as {a.sent} (never replaced by INT_FILL_VALUE)" if a.sent[0] != "shifted" else "INT_FILL_VALUE was shifted by index arithmetic applied to the whole array")
    if a.base not in (("lit", 0), ("neutral",)):
        probs.append(f"index base is {a.base}, not zero")
    if a.pad not in ("na", "done"):
        probs.append("entries beyond the per-row count (undefined in the source) are not replaced by INT_FILL_VALUE")
    return (not probs), probs
