"""F-TABLE: sibling tables agree (element-kind branches, format dispatch, aggregation names, reader roles)."""

from __future__ import annotations

import ast
import re

from ..astutil import iter_stmts, norm, str_const, where
from ..loader import ConstInfo, FuncInfo, dotted

KIND_OF_LITERAL = {
    "nodes": "node", "face centers": "face", "edge centers": "edge",
    "node": "node", "face": "face", "edge": "edge",
    "n_node": "node", "n_face": "face", "n_edge": "edge",
    "node centers": "node", "faces": "face", "edges": "edge",
}
_TOK = {"node": "node", "nodes": "node", "edge": "edge", "edges": "edge", "face": "face", "faces": "face",
        "vertex": None, "cell": None}


def kinds_in_identifier(name: str):
    toks = re.split(r"[_\W\s]+", name.lower())
    return [_TOK[t] for t in toks if _TOK.get(t)]


def _eq_literal(test):
    """(subject_text, literal) for  X == "lit"  (either side)."""
    if isinstance(test, ast.Compare) and len(test.ops) == 1 and isinstance(test.ops[0], ast.Eq):
        a, b = test.left, test.comparators[0]
        if str_const(b) is not None:
            return norm(a), str_const(b)
        if str_const(a) is not None:
            return norm(b), str_const(a)
    return None


def if_chains(fnode):
    """Yield lists [(literal|None, body, test_node)] for if/elif/else chains on one subject == literal."""
    seen = set()
    for st in iter_stmts(fnode.body):
        if not isinstance(st, ast.If) or id(st) in seen:
            continue
        e = _eq_literal(st.test)
        if e is None:
            continue
        subj = e[0]
        chain = []
        cur = st
        while True:
            seen.add(id(cur))
            ee = _eq_literal(cur.test)
            if ee is None or ee[0] != subj:
                chain.append((None, [cur], cur))
                break
            chain.append((ee[1], cur.body, cur))
            if len(cur.orelse) == 1 and isinstance(cur.orelse[0], ast.If):
                cur = cur.orelse[0]
                continue
            if cur.orelse:
                chain.append((None, cur.orelse, cur))
            break
        yield subj, chain


def branch_kind_mentions(body):
    """[(kind, text, node)] for single-kind identifiers / strings mentioned in a branch body."""
    out = []
    for st in body:
        for n in ast.walk(st):
            if isinstance(n, ast.Raise):
                break
            name = None
            if isinstance(n, ast.Attribute):
                name = n.attr
            elif isinstance(n, ast.Constant) and isinstance(n.value, str) and re.fullmatch(r"[A-Za-z_ ]{3,40}", n.value):
                name = n.value
            if name is None:
                continue
            ks = kinds_in_identifier(name)
            if len(set(ks)) == 1 and len(ks) == 1:
                out.append((ks[0], name, n))
    return out


def _raises_only(body):
    return any(isinstance(s, ast.Raise) for s in body) and not any(isinstance(s, (ast.Assign, ast.Return)) for s in body)


def check_kind_branches(run, program, funcs, rule="F-TABLE/kind-branch"):
    """In every if-chain that dispatches on an element-kind literal, each branch only touches
    coordinates / dimensions / tree slots of its own kind."""
    n = 0
    for f in funcs:
        ordinal = {}
        for subj, chain in if_chains(f.node):
            ordinal[subj] = ordinal.get(subj, 0) + 1
            tag = subj if ordinal[subj] == 1 else f"{subj}#{ordinal[subj]}"
            lits = [l for l, _, _ in chain if l is not None]
            kinds = [KIND_OF_LITERAL.get(l) for l in lits]
            if not kinds or any(k is None for k in kinds):
                continue
            remaining = {"node", "edge", "face"} - set(kinds)
            for lit, body, node in chain:
                if lit is None:
                    if _raises_only(body) or len(remaining) != 1:
                        continue
                    kind = next(iter(remaining))
                    label = "else"
                else:
                    kind = KIND_OF_LITERAL[lit]
                    label = lit
                if _raises_only(body):
                    continue
                mentions = branch_kind_mentions(body)
                if not mentions:
                    continue
                n += 1
                bad = [(k, t, nd) for k, t, nd in mentions if k != kind]
                c = f"{f.key}:branch[{tag}=={label}]"
                if bad:
                    k, t, nd = bad[0]
                    run.violation(
                        rule, c, where(f, nd),
                        f"branch for '{label}' ({kind}) uses '{t}', which belongs to {k}s",
                        facts={"all_mismatches": [t for _, t, _ in bad]},
                    )
                else:
                    run.holds(rule, c, where(f, node), f"branch for '{label}' only touches {kind} entities ({len(mentions)} mentions)")
    return n


# ---------------------------------------------------------------------------- format dispatch
def check_format_dispatch(run, program, rule="F-TABLE/format-dispatch"):
    parse = program.func("uxarray/io/utils.py:_parse_grid_type")
    fd = program.func("uxarray/grid/grid.py:Grid.from_dataset")
    produced = {}
    for st in iter_stmts(parse.node.body):
        if isinstance(st, ast.Assign) and str_const(st.value) is not None:
            produced[str_const(st.value)] = st
        if isinstance(st, ast.Return) and st.value is not None and str_const(st.value) is not None:
            produced[str_const(st.value)] = st
    handled = {}
    for subj, chain in if_chains(fd.node):
        for lit, body, node in chain:
            if lit is None:
                continue
            reader = None
            unpack2 = False
            raises = _raises_only(body)
            for s in body:
                if isinstance(s, ast.Assign) and isinstance(s.value, ast.Call):
                    r = program.resolve_expr(fd.module, s.value.func, fd)
                    if isinstance(r, FuncInfo):
                        reader = r
                        t = s.targets[0]
                        unpack2 = isinstance(t, ast.Tuple) and len(t.elts) == 2
            handled[lit] = (reader, unpack2, raises, node)
    n = 0
    for lit, st in sorted(produced.items()):
        n += 1
        c = f"dispatch:{lit}"
        if lit not in handled:
            run.violation(rule, c, where(parse, st), f"format '{lit}' is recognised by _parse_grid_type but Grid.from_dataset has no branch for it: such files fail with 'Unsupported Grid Format'")
            continue
        reader, unpack2, raises, node = handled[lit]
        if raises:
            run.holds(rule, c, where(fd, node), f"'{lit}' is rejected explicitly", nontrivial=False)
            continue
        if reader is None:
            run.incomplete(rule, c, where(fd, node), "no reader call recognised in the branch")
            continue
        base = reader.module.name.rsplit(".", 1)[-1].lstrip("_")
        tok = re.sub(r"[^a-z]", "", lit.lower())
        ok_reader = tok.startswith(base) or base.startswith(tok)
        if not ok_reader:
            run.violation(rule, c, where(fd, node), f"format '{lit}' is read with {reader.qualname} from module {reader.module.name}")
        elif not unpack2:
            run.violation(rule, c, where(fd, node), f"reader result for '{lit}' is not unpacked into (grid_ds, source_dims_dict)")
        else:
            # reader must return a 2-tuple on every return
            rets = [r for r in ast.walk(reader.node) if isinstance(r, ast.Return)]
            two = all(isinstance(r.value, ast.Tuple) and len(r.value.elts) == 2 or isinstance(r.value, ast.Call) for r in rets) and rets
            if two:
                run.holds(rule, c, where(fd, node), f"'{lit}' -> {reader.qualname} (2-tuple)")
            else:
                run.violation(rule, c, where(reader), f"{reader.qualname} does not return (dataset, dims) on every path")
    for lit, (reader, unpack2, raises, node) in sorted(handled.items()):
        if lit not in produced and not raises:
            n += 1
            run.violation(rule, f"dispatch:{lit}", where(fd, node), f"Grid.from_dataset has a branch for '{lit}' that _parse_grid_type never produces (dead reader)")
    run.floor(rule, n, 7)
    return n


# ---------------------------------------------------------------------------- aggregation names
def check_aggregation_table(run, program, rule="F-TABLE/aggregation-names"):
    agg = program.module("uxarray.core.aggregation")
    ci = agg.defs.get("NUMPY_AGGREGATIONS")
    if not isinstance(ci, ConstInfo) or not isinstance(ci.node, ast.Dict):
        run.incomplete(rule, "NUMPY_AGGREGATIONS", "-", "table not found")
        return 0
    table = {}
    for k, v in zip(ci.node.keys, ci.node.values):
        d = dotted(v)
        table[str_const(k)] = d[-1] if d else None
    n = 0
    for name, fn in sorted(table.items()):
        n += 1
        c = f"NUMPY_AGGREGATIONS[{name}]"
        if fn == name:
            run.holds(rule, c, where(agg, ci.node), f"'{name}' -> np.{fn}")
        else:
            run.violation(rule, c, where(agg, ci.node), f"aggregation '{name}' is mapped to np.{fn}")
    da = program.cls("uxarray/core/dataarray.py:UxDataArray")
    meths = {m: f for m, f in da.methods.items() if m.startswith("topological_")}
    for m, f in sorted(meths.items()):
        n += 1
        want = m[len("topological_"):]
        c = f"UxDataArray.{m}:passes-own-name"
        passed = None
        for call in ast.walk(f.node):
            if isinstance(call, ast.Call):
                d = dotted(call.func)
                if d and d[-1] == "_uxda_grid_aggregate" and len(call.args) >= 3:
                    passed = str_const(call.args[2])
        if passed == want and want in table:
            run.holds(rule, c, where(f), f"{m} requests '{passed}'")
        elif passed is None:
            run.incomplete(rule, c, where(f), "call of _uxda_grid_aggregate with a literal name not found")
        else:
            run.violation(rule, c, where(f), f"{m} requests aggregation '{passed}'" + ("" if passed in table else " which is not in NUMPY_AGGREGATIONS"))
    for name in table:
        if f"topological_{name}" not in meths:
            n += 1
            run.violation(rule, f"topological_{name}:exists", where(agg, ci.node), f"no UxDataArray.topological_{name} for table entry '{name}'")
    run.floor(rule, n, 20)
    return n
