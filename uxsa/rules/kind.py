"""F-KIND: the element kind of a data array is decided from dimension names, never from sizes."""

from __future__ import annotations

import ast

from ..astutil import LocalDefs, iter_stmts, norm, where

COUNTS = {"n_face", "n_node", "n_edge"}


def _is_size_expr(n):
    """X.shape[-1] | X.shape[k] | X.size | len(X) | X.values.size ..."""
    if isinstance(n, ast.Subscript) and isinstance(n.value, ast.Attribute) and n.value.attr == "shape":
        return True
    if isinstance(n, ast.Attribute) and n.attr == "size":
        return True
    if isinstance(n, ast.Call) and isinstance(n.func, ast.Name) and n.func.id == "len":
        return True
    return False


def _is_count(n):
    return isinstance(n, ast.Attribute) and n.attr in COUNTS


def size_dispatch_sites(func):
    """If-tests (and their elif chain) that compare a data length with a grid element count."""
    out = []
    defs = LocalDefs(func.node)

    def is_size(n):
        if _is_size_expr(n):
            return True
        if isinstance(n, ast.Name):
            return any(_is_size_expr(v) for v, _i, _l in defs.defs.get(n.id, []))
        return False

    for st in iter_stmts(func.node.body):
        if isinstance(st, ast.If):
            for c in ast.walk(st.test):
                if isinstance(c, ast.Compare) and len(c.ops) == 1 and isinstance(c.ops[0], (ast.Eq, ast.NotEq)):
                    a, b = c.left, c.comparators[0]
                    if (is_size(a) and _is_count(b)) or (is_size(b) and _is_count(a)):
                        cnt = b.attr if _is_count(b) else a.attr
                        out.append((st, c, cnt))
    return out


def dim_dispatch_sites(func):
    """Tests of the accepted idiom: X._face_centered() / "n_face" in X.dims."""
    out = []
    for st in iter_stmts(func.node.body):
        if isinstance(st, ast.If):
            for c in ast.walk(st.test):
                if isinstance(c, ast.Call) and isinstance(c.func, ast.Attribute) and c.func.attr in ("_face_centered", "_node_centered", "_edge_centered"):
                    out.append((st, c, c.func.attr))
                if isinstance(c, ast.Compare) and len(c.ops) == 1 and isinstance(c.ops[0], (ast.In, ast.NotIn)):
                    if isinstance(c.left, ast.Constant) and c.left.value in COUNTS and isinstance(c.comparators[0], ast.Attribute) and c.comparators[0].attr == "dims":
                        out.append((st, c, c.left.value))
    return out


def check_kind_dispatch(run, program, func_keys, rule="F-KIND/dims-not-sizes"):
    n = 0
    for key in func_keys:
        f = program.func(key)
        sizes = size_dispatch_sites(f)
        dims = dim_dispatch_sites(f)
        n += len(sizes) + len(dims)
        if sizes:
            st, c, cnt = sizes[0]
            run.violation(
                rule, f"{f.key}:size-dispatch", where(f, c),
                f"element kind chosen by comparing a data length with an element count ({norm(c)}): when two element counts coincide "
                "(e.g. a tetrahedron: 4 nodes, 4 faces) data of another kind is accepted/mis-classified",
                facts={"comparisons": [norm(x[1]) for x in sizes]},
            )
        for st, c, what in dims:
            run.holds(rule, f"{f.key}:dim-dispatch:{what}", where(f, c), f"kind decided from dimension names ({norm(c)})")
        if not sizes and not dims:
            run.incomplete(rule, f"{f.key}:dispatch", where(f), "no element-kind dispatch recognised in this function")
    return n
