"""F-CONST: the numeric constants the properties are stated against keep their values.

uxarray/constants.py is read by every geometry kernel and reader but named by none of them; a change there (ERROR_TOLERANCE "derived from machine epsilon", 1e-7 "for
single precision files") moves the pole-snap window, every closeness test and every tolerance-bounded statement of the properties at once.  The defining expressions are
folded statically (literal arithmetic, np.float64/float casts, sqrt, np.finfo(float).eps = 2**-52) - a compiler's constant folding, nothing is imported or run."""
import ast
import math

from ..astutil import norm

EXPECT = {"ERROR_TOLERANCE": 1.0e-8, "MACHINE_EPSILON": 2.0 ** -52}
REL = "uxarray/constants.py"


class _NotConst(Exception):
    pass


def _fold(e, env):
    if isinstance(e, ast.Constant) and isinstance(e.value, (int, float)) and not isinstance(e.value, bool):
        return float(e.value)
    if isinstance(e, ast.Name):
        if e.id in env:
            return env[e.id]
        raise _NotConst(e.id)
    if isinstance(e, ast.UnaryOp) and isinstance(e.op, (ast.USub, ast.UAdd)):
        v = _fold(e.operand, env)
        return -v if isinstance(e.op, ast.USub) else v
    if isinstance(e, ast.BinOp) and isinstance(e.op, (ast.Add, ast.Sub, ast.Mult, ast.Div, ast.Pow)):
        a, b = _fold(e.left, env), _fold(e.right, env)
        try:
            return {ast.Add: a + b, ast.Sub: a - b, ast.Mult: a * b}[type(e.op)] if not isinstance(e.op, (ast.Div, ast.Pow)) else (a / b if isinstance(e.op, ast.Div) else a ** b)
        except (ZeroDivisionError, OverflowError, KeyError):
            raise _NotConst(norm(e))
    if isinstance(e, ast.Attribute) and e.attr in ("eps", "epsilon"):
        t = norm(e.value)
        if t in ("np.finfo(float)", "np.finfo(np.float64)", "numpy.finfo(float)", "np.finfo('float64')", "np.finfo(np.double)", "sys.float_info"):
            return 2.0 ** -52
        raise _NotConst(t)
    if isinstance(e, ast.Call) and len(e.args) == 1 and not e.keywords:
        fn = norm(e.func)
        if fn in ("np.float64", "float", "np.double", "numpy.float64"):
            return _fold(e.args[0], env)
        if fn in ("np.sqrt", "math.sqrt", "numpy.sqrt"):
            v = _fold(e.args[0], env)
            if v < 0:
                raise _NotConst(norm(e))
            return math.sqrt(v)
    raise _NotConst(norm(e)[:60])


def check(run, P):
    mod = next((m for m in P.modules.values() if m.relpath == REL), None)
    if mod is None:
        run.incomplete("F-CONST/tolerances", "uxarray/constants.py:present", REL, "module not found")
        return
    env, where_ = {}, {}
    errors = {}
    # named intermediates (_FLOAT_INFO = np.finfo(float); X = np.float64(_FLOAT_INFO.eps)) are substituted: module-level names assigned exactly once
    import copy
    counts = {}
    for st in mod.tree.body:
        if isinstance(st, ast.Assign):
            for t in st.targets:
                if isinstance(t, ast.Name):
                    counts[t.id] = counts.get(t.id, 0) + 1
    single = {st.targets[0].id: st.value for st in mod.tree.body if isinstance(st, ast.Assign) and len(st.targets) == 1 and isinstance(st.targets[0], ast.Name) and counts.get(st.targets[0].id) == 1}

    class _Inl(ast.NodeTransformer):
        def __init__(self, skip):
            self.skip = skip
            self.depth = 0

        def visit_Name(self, n):
            if isinstance(n.ctx, ast.Load) and n.id in single and n.id not in self.skip and n.id not in EXPECT and n.id not in ("INT_DTYPE",) and self.depth < 6:
                self.depth += 1
                r = self.visit(copy.deepcopy(single[n.id]))
                self.depth -= 1
                return r
            return n

    def inl(name, e):
        return ast.fix_missing_locations(_Inl({name}).visit(copy.deepcopy(e)))
    for st in mod.tree.body:
        if isinstance(st, ast.Assign) and len(st.targets) == 1 and isinstance(st.targets[0], ast.Name):
            try:
                env[st.targets[0].id] = _fold(inl(st.targets[0].id, st.value), env)
            except _NotConst as ex:
                errors[st.targets[0].id] = str(ex)
                env.pop(st.targets[0].id, None)
            where_[st.targets[0].id] = f"{REL}:{st.lineno}"
    for name, want in EXPECT.items():
        c = f"{REL}:{name}"
        if name in env:
            if env[name] == want:
                run.holds("F-CONST/tolerances", c, where_[name], f"{name} = {want!r}")
            else:
                run.violation("F-CONST/tolerances", c, where_[name], f"{name} evaluates to {env[name]!r}; the properties are stated against {want!r} (pole-snap window |z| > 1 - ERROR_TOLERANCE, "
                              "every atol=ERROR_TOLERANCE closeness test): positions, bounds, areas and neighbour results change for inputs inside the difference")
        elif name in where_:
            run.incomplete("F-CONST/tolerances", c, where_[name], f"the defining expression of {name} is not folded ({errors.get(name)})")
        else:
            run.incomplete("F-CONST/tolerances", c, REL, f"{name} is not defined at module level")
    # the fill value is the smallest value of the index dtype (outside every index range); the index dtype is numpy's own indexing type
    defs = {st.targets[0].id: inl(st.targets[0].id, st.value) for st in mod.tree.body if isinstance(st, ast.Assign) and len(st.targets) == 1 and isinstance(st.targets[0], ast.Name)}
    for name, texts in (("INT_DTYPE", ("np.intp", "np.int64")), ("INT_FILL_VALUE", ("np.iinfo(INT_DTYPE).min", "np.iinfo(np.intp).min", "np.iinfo(np.int64).min"))):
        c = f"{REL}:{name}"
        if name not in defs:
            run.incomplete("F-CONST/index-constants", c, REL, f"{name} is not defined at module level")
        elif norm(defs[name]) in texts:
            run.holds("F-CONST/index-constants", c, where_.get(name, REL), f"{name} = {norm(defs[name])}")
        else:
            run.incomplete("F-CONST/index-constants", c, where_.get(name, REL), f"{name} = {norm(defs[name])[:60]}: the typestate and index rules assume the pinned definition")
