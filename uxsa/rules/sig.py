"""F-SIG: overriding methods accept the overridden xarray method's positional parameters in order."""

from __future__ import annotations

import ast
import glob
import os
import warnings

from ..astutil import where


def find_xarray_dir():
    cands = sorted(glob.glob("/venv/lib/python3*/site-packages/xarray")) + sorted(glob.glob("/venv/lib/python*/site-packages/xarray"))
    for c in cands:
        if os.path.isdir(c):
            return c
    return None


_XR_CACHE = {}


def xarray_class(clsname):
    """{method: ast.FunctionDef} for xarray's DataArray / Dataset (parsed, never imported)."""
    if clsname in _XR_CACHE:
        return _XR_CACHE[clsname]
    d = find_xarray_dir()
    out = None
    if d:
        fn = os.path.join(d, "core", "dataarray.py" if clsname == "DataArray" else "dataset.py")
        if os.path.exists(fn):
            with open(fn, encoding="utf-8") as f, warnings.catch_warnings():
                warnings.simplefilter("ignore")
                tree = ast.parse(f.read())
            for st in tree.body:
                if isinstance(st, ast.ClassDef) and st.name == clsname:
                    out = {}
                    for sub in st.body:
                        if isinstance(sub, (ast.FunctionDef, ast.AsyncFunctionDef)):
                            # keep the implementation (last def; overload stubs come first)
                            out[sub.name] = sub
    _XR_CACHE[clsname] = out
    return out


def positional(fnode):
    a = fnode.args
    names = [x.arg for x in a.posonlyargs + a.args]
    return names[1:] if names and names[0] in ("self", "cls") else names


def check_overrides(run, program, cls_key, base_name, rule="F-SIG/override-positional"):
    ci = program.cls(cls_key)
    base = xarray_class(base_name)
    if base is None:
        run.note(rule, f"{ci.name}:xarray-source", "-", f"installed xarray.{base_name} source not found; override conformance skipped")
        return 0
    n = 0
    for name, f in sorted(ci.methods.items()):
        if name.startswith("__") or name not in base:
            continue
        if f.is_property or any(d in ("property",) for d in [ast.unparse(x) for x in base[name].decorator_list]):
            continue
        n += 1
        B = positional(base[name])
        O = positional(f.node)
        c = f"{ci.name}.{name}:positional"
        bad = None
        base_names = set(B) | {x.arg for x in base[name].args.kwonlyargs}
        has_vararg = f.node.args.vararg is not None
        for i, o in enumerate(O):
            if i >= len(B):
                break
            b = B[i]
            if o == b:
                continue
            # a base parameter moved to another slot, or a new parameter inserted before forwarded positionals
            if o in B and B.index(o) != i:
                bad = (i, o, b, "reordered")
                break
            if o not in base_names and (has_vararg or b in O[i + 1:]):
                bad = (i, o, b, "inserted")
                break
        if bad:
            i, o, b, how = bad
            run.violation(
                rule, c, where(f),
                f"override {ci.name}.{name} has the {how} positional parameter '{o}' at slot {i} where xarray.{base_name}.{name} takes '{b}' "
                f"(and forwards the rest): a positional call written for xarray, .{name}(<{b}>), binds the argument to '{o}'",
                facts={"override": O, "base": B},
            )
        else:
            run.holds(rule, c, where(f), f"positional parameters {O[:len(B)]} agree with xarray's {B[:len(O)]}")
    return n
