"""F-GUARD: a guard names an entity; the guarded body must use that entity."""

from __future__ import annotations

import ast
import re

from ..astutil import iter_stmts, norm, str_const, where
from .lazy import absent_keys

_COORD = re.compile(r"^(node|edge|face)_(lon|lat|x|y|z)$")


def present_keys(test, truth=True):
    """Keys k for which the test implies  "k" in <x>._ds."""
    return absent_keys(test, not truth)


def check_coordinate_family_guards(run, program, func_keys, rule="F-GUARD/coordinate-family"):
    """`if "<kind>_x" in grid._ds:` ... the body reads/writes only <kind>_* coordinates."""
    n = 0
    for key in func_keys:
        f = program.func(key)
        for st in iter_stmts(f.node.body):
            if not isinstance(st, ast.If):
                continue
            pk = [k for k in present_keys(st.test, True) if _COORD.match(k)]
            if len(pk) != 1:
                continue
            kind = _COORD.match(pk[0]).group(1)
            used = []
            for s in st.body:
                for a in ast.walk(s):
                    name = None
                    if isinstance(a, ast.Attribute) and _COORD.match(a.attr):
                        name = a.attr
                    elif isinstance(a, ast.Constant) and isinstance(a.value, str) and _COORD.match(a.value):
                        name = a.value
                    if name:
                        used.append((name, a))
            if not used:
                continue
            n += 1
            c = f"{f.key}:guard[{pk[0]}]"
            bad = [(nm, a) for nm, a in used if _COORD.match(nm).group(1) != kind]
            if bad:
                run.violation(rule, c, where(f, bad[0][1]),
                              f'block guarded by "{pk[0]}" being present works on {sorted({b[0] for b in bad})}: the {kind} coordinates named by the guard are never examined/updated',
                              facts={"used": sorted({u[0] for u in used})})
            else:
                run.holds(rule, c, where(f, st), f'block guarded by "{pk[0]}" uses only {kind} coordinates ({sorted({u[0] for u in used})})')
    return n


def check_attr_membership_on_dataarray(run, program, func_keys, rule="F-GUARD/attrs-membership"):
    """`"name" in X` followed by `X.name` / `X.attrs["name"]` where X is a DataArray expression (ds[...] or ds.var):
    DataArray.__contains__ tests *values*, so the attribute presence test must be `in X.attrs`."""
    n = 0
    for key in func_keys:
        f = program.func(key)
        for st in iter_stmts(f.node.body):
            if not isinstance(st, ast.If):
                continue
            for cmp_ in ast.walk(st.test):
                if not (isinstance(cmp_, ast.Compare) and len(cmp_.ops) == 1 and isinstance(cmp_.ops[0], (ast.In, ast.NotIn))):
                    continue
                name = str_const(cmp_.left)
                cont = cmp_.comparators[0]
                if name is None:
                    continue
                # container is ds[...]  (a DataArray) or ds[...].attrs (fine)
                is_attrs = isinstance(cont, ast.Attribute) and cont.attr == "attrs"
                base = cont.value if is_attrs else cont
                is_da = isinstance(base, ast.Subscript) and isinstance(base.value, ast.Name) and str_const(base.slice) is not None or \
                    (isinstance(base, ast.Subscript) and isinstance(base.value, ast.Name) and isinstance(base.slice, ast.Name))
                if not is_da:
                    continue
                # is the same name then read as an attribute of that DataArray?
                reads_attr = False
                bt = norm(base)
                for s in st.body + st.orelse:
                    for a in ast.walk(s):
                        if isinstance(a, ast.Attribute) and a.attr == name and norm(a.value) == bt:
                            reads_attr = True
                        if isinstance(a, ast.Subscript) and str_const(a.slice) == name and norm(a.value) == bt + ".attrs":
                            reads_attr = True
                if not reads_attr:
                    continue
                n += 1
                c = f"{f.key}:attr-test[{bt}:{name}]"
                if is_attrs:
                    run.holds(rule, c, where(f, cmp_), f'presence of attribute "{name}" tested on {bt}.attrs')
                else:
                    run.violation(rule, c, where(f, cmp_),
                                  f'"{name}" in {bt} tests the array\'s VALUES (DataArray.__contains__), not its attributes; the attribute {bt}.{name} read in the branch is therefore ignored '
                                  "whenever present (and the fallback is taken)")
    return n
