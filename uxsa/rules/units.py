"""F-UNIT structural parts that are not dataflow contradictions: tree builders and sibling query methods."""

from __future__ import annotations

import ast
import re

from ..astutil import iter_stmts, norm, str_const, where
from ..loader import dotted
from .table import if_chains

NEI = "uxarray/grid/neighbors.py"
KIND_OF_BUILDER = {"_build_from_nodes": "node", "_build_from_face_centers": "face", "_build_from_edge_centers": "edge"}
_COORD = re.compile(r"^(node|edge|face)_(lat|lon|x|y|z)$")


def _coords_assign(body):
    for st in iter_stmts(body):
        if isinstance(st, ast.Assign) and len(st.targets) == 1 and isinstance(st.targets[0], ast.Name) and st.targets[0].id == "coords":
            return st
    return None


def _coord_attrs_in_order(expr):
    """[(attr, under_deg2rad)] in source order."""
    out = []

    def visit(n, conv):
        if isinstance(n, ast.Call):
            d = dotted(n.func)
            c = conv or bool(d and d[-1] in ("deg2rad", "radians"))
            for a in n.args:
                visit(a, c)
            for k in n.keywords:
                visit(k.value, c)
            if isinstance(n.func, ast.Attribute):
                visit(n.func.value, conv)
            return
        if isinstance(n, ast.Attribute):
            if _COORD.match(n.attr):
                out.append((n.attr, conv))
                return
            visit(n.value, conv)
            return
        for ch in ast.iter_child_nodes(n):
            visit(ch, conv)

    visit(expr, False)
    return out


def check_tree_builders(run, program, rule="F-UNIT/tree-builder"):
    n = 0
    for cn in ("BallTree", "KDTree"):
        ci = program.cls(f"{NEI}:{cn}")
        for bname, kind in KIND_OF_BUILDER.items():
            f = ci.methods.get(bname)
            if f is None:
                run.incomplete(rule, f"{cn}.{bname}", "-", "builder not found")
                continue
            branches = {}
            for st in iter_stmts(f.node.body):
                if isinstance(st, ast.If):
                    t = st.test
                    if isinstance(t, ast.Compare) and len(t.ops) == 1 and isinstance(t.ops[0], ast.Eq) and str_const(t.comparators[0]) in ("spherical", "cartesian") and "coordinate_system" in norm(t.left):
                        a = _coords_assign(st.body)
                        if a is not None:
                            branches[str_const(t.comparators[0])] = a
            for system, want in (("spherical", [f"{kind}_lat", f"{kind}_lon"]), ("cartesian", [f"{kind}_x", f"{kind}_y", f"{kind}_z"])):
                c = f"{cn}.{bname}:{system}"
                a = branches.get(system)
                if a is None:
                    run.incomplete(rule, c, where(f), f"coords assignment for the {system} branch not found")
                    continue
                n += 1
                got = _coord_attrs_in_order(a.value)
                names = [g for g, _ in got]
                if names != want:
                    run.violation(rule, c, where(f, a), f"{system} tree of {kind}s is built from {names}; expected {want} in this order (tree rows are (lat, lon) / (x, y, z) of the element's own kind)")
                elif system == "spherical" and not all(conv for _, conv in got):
                    run.violation(rule, c, where(f, a), f"spherical tree built from {names} without deg2rad: the grid stores degrees, the tree and its queries work in radians")
                elif system == "cartesian" and any(conv for _, conv in got):
                    run.violation(rule, c, where(f, a), "Cartesian coordinates passed through deg2rad")
                else:
                    run.holds(rule, c, where(f, a), f"{names}" + (" each through deg2rad" if system == "spherical" else ""))
    run.floor(rule, n, 12)
    return n


def _conversions(f, var, fn_names):
    """Assignments  var = <conv>(var ...)  /  var = [<conv>(x) for x in var]  in the method."""
    out = []
    for st in iter_stmts(f.node.body):
        if isinstance(st, ast.Assign) and len(st.targets) == 1 and isinstance(st.targets[0], ast.Name) and st.targets[0].id == var:
            for c in ast.walk(st.value):
                if isinstance(c, ast.Call):
                    d = dotted(c.func)
                    if d and d[-1] in fn_names:
                        out.append(st)
                        break
    return out


def check_query_siblings(run, program, rule="F-UNIT/query-siblings"):
    """query_radius: a radius is a distance just like the returned distances; if distances are converted
    rad->deg on the way out, the radius must be converted deg->rad on the way in; both tree classes must agree."""
    res = {}
    for cn in ("BallTree", "KDTree"):
        ci = program.cls(f"{NEI}:{cn}")
        f = ci.methods.get("query_radius")
        if f is None:
            run.incomplete(rule, f"{cn}.query_radius", "-", "method not found")
            continue
        r_conv = _conversions(f, "r", ("deg2rad", "radians"))
        d_conv = _conversions(f, "d", ("rad2deg", "degrees"))
        res[cn] = (bool(r_conv), bool(d_conv), f)
        c = f"{cn}.query_radius:radius-unit"
        if d_conv and not r_conv:
            run.violation(rule, c, where(f, d_conv[0]),
                          f"{cn}.query_radius converts the returned distances from radians to degrees but passes the radius r to the radian tree unconverted: "
                          "a radius given in degrees (as documented, and as the sibling class treats it) selects a ~57x larger neighbourhood")
        elif d_conv and r_conv:
            run.holds(rule, c, where(f, r_conv[0]), "radius converted deg->rad, distances rad->deg")
        else:
            run.holds(rule, c, where(f), "no unit conversion on either side", nontrivial=False)
        # query: distances converted under 'not in_radians and spherical'
        q = ci.methods.get("query")
        if q is not None:
            dq = _conversions(q, "d", ("rad2deg", "degrees"))
            res[cn + ".query"] = bool(dq)
    if "BallTree" in res and "KDTree" in res:
        c = "BallTree~KDTree:query_radius:r"
        if res["BallTree"][0] == res["KDTree"][0]:
            run.holds(rule, c, where(res["KDTree"][2]), "both classes treat the radius alike")
        else:
            run.violation(rule, c, where(res["KDTree"][2]), "sibling classes disagree on converting the radius r (one converts deg->rad, the other does not) although both build radian trees and convert the returned distances alike")
    if "BallTree.query" in res and "KDTree.query" in res:
        c = "BallTree~KDTree:query:d"
        if res["BallTree.query"] == res["KDTree.query"]:
            run.holds(rule, c, "-", "both classes convert returned distances alike")
        else:
            run.violation(rule, c, "-", "sibling classes disagree on converting returned distances")
    # _prepare_xy_for_query (deg->rad exactly when not use_radians, swap exactly under haversine) is decided path-wise by props/c11._query_preparation
