"""F-LIT: literal quadrature tables decided by exact rational arithmetic on the literals (never executed)."""

from __future__ import annotations

import ast
from fractions import Fraction
from math import factorial

from ..astutil import iter_stmts, norm, where
from ..loader import dotted
from .table import if_chains

TOL = Fraction(1, 10**12)


def fold_numbers(node):
    """Nested lists of numeric literals -> nested Python lists of Fraction (exact value of the float literal)."""
    if isinstance(node, (ast.List, ast.Tuple)):
        return [fold_numbers(e) for e in node.elts]
    if isinstance(node, ast.UnaryOp) and isinstance(node.op, (ast.USub, ast.UAdd)):
        v = fold_numbers(node.operand)
        return -v if isinstance(node.op, ast.USub) else v
    if isinstance(node, ast.Constant) and isinstance(node.value, (int, float)) and not isinstance(node.value, bool):
        return Fraction(node.value)
    if isinstance(node, ast.BinOp) and isinstance(node.op, ast.Div):
        a, b = fold_numbers(node.left), fold_numbers(node.right)
        return a / b
    # np.array(<literal>) and np.repeat(<values>, <counts>) / np.tile are literal constructors too (exact, element-wise)
    if isinstance(node, ast.Call):
        d = dotted(node.func)
        nm = d[-1] if d else None
        if nm in ("array", "asarray") and node.args:
            return fold_numbers(node.args[0])
        if nm == "repeat" and len(node.args) >= 2:
            vals, cnts = fold_numbers(node.args[0]), fold_numbers(node.args[1])
            if isinstance(cnts, Fraction):
                cnts = [cnts] * len(vals)
            if len(vals) != len(cnts):
                raise ValueError("np.repeat: values and counts differ in length")
            out = []
            for v, c in zip(vals, cnts):
                out += [v] * int(c)
            return out
        if nm == "concatenate" and node.args and isinstance(node.args[0], (ast.List, ast.Tuple)):
            out = []
            for e in node.args[0].elts:
                out += fold_numbers(e)
            return out
    raise ValueError(f"not a numeric literal: {norm(node)[:40]}")


def tables_by_branch(func, param):
    """{int order: {'dG': (value,node), 'dW': (value,node)}} from the if-chain on `param == <int>`."""
    out = {}
    for st in iter_stmts(func.node.body):
        if isinstance(st, ast.If):
            t = st.test
            if isinstance(t, ast.Compare) and len(t.ops) == 1 and isinstance(t.ops[0], ast.Eq) and isinstance(t.left, ast.Name) and t.left.id == param:
                c = t.comparators[0]
                if isinstance(c, ast.Constant) and isinstance(c.value, int):
                    tabs = {}
                    for s in st.body:
                        if isinstance(s, ast.Assign) and len(s.targets) == 1 and isinstance(s.targets[0], ast.Name) and isinstance(s.value, ast.Call):
                            d = dotted(s.value.func)
                            if d and d[-1] in ("array", "repeat", "concatenate", "asarray") and s.value.args:
                                try:
                                    tabs[s.targets[0].id] = (fold_numbers(s.value), s)
                                except ValueError:
                                    tabs[s.targets[0].id] = (None, s)
                    out[c.value] = (tabs, st)
    return out


def gauss_moment(k):
    return Fraction(2, k + 1) if k % 2 == 0 else Fraction(0)


def tri_moment(a, b, c):
    return Fraction(factorial(a) * factorial(b) * factorial(c) * 2, factorial(a + b + c + 2))


def check_gauss(run, program, rule="F-LIT/gauss"):
    f = program.func("uxarray/grid/area.py:get_gauss_quadratureDG")
    p = f.params()[0]
    tabs = tables_by_branch(f, p)
    if not tabs:
        # the literal tables may live in a function of the module that this one calls with its order argument
        from ..loader import FuncInfo
        for n_ in ast.walk(f.node):
            if isinstance(n_, ast.Call) and any(isinstance(a, ast.Name) and a.id == p for a in n_.args):
                t_ = program.resolve_expr(f.module, n_.func, f)
                if isinstance(t_, FuncInfo) and t_.module is f.module:
                    i_ = [i for i, a in enumerate(n_.args) if isinstance(a, ast.Name) and a.id == p][0]
                    hp = t_.params()
                    if i_ < len(hp):
                        tabs = tables_by_branch(t_, hp[i_])
                        if tabs:
                            f_tables = t_
                            break
    f_tables = locals().get("f_tables", f)
    worst = Fraction(0)
    for n, (t, st) in sorted(tabs.items()):
        c = f"get_gauss_quadratureDG[{n}]"
        f = f_tables
        if "dG" not in t or "dW" not in t or t["dG"][0] is None or t["dW"][0] is None:
            run.incomplete(rule, c, where(f, st), "dG/dW literal tables not found in this branch")
            continue
        g, w = t["dG"][0], t["dW"][0]
        if len(g) != 1 or not isinstance(g[0], list):
            run.violation(rule, c, where(f, t["dG"][1]), "dG is not a 1 x n table")
            continue
        g = g[0]
        problems = []
        if len(g) != n or len(w) != n:
            problems.append(f"branch for {n} points has {len(g)} nodes and {len(w)} weights")
        else:
            if any(x <= 0 for x in w):
                problems.append("non-positive weight")
            if any(abs(x) > 1 for x in g):
                problems.append("node outside [-1, 1]")
            deg = max(2 * n - 3, 1)
            for k in range(0, deg + 1):
                m = sum(wi * gi**k for wi, gi in zip(w, g))
                err = abs(m - gauss_moment(k))
                worst = max(worst, err)
                if err > TOL:
                    problems.append(f"moment x^{k}: sum w*x^k - exact = {float(m - gauss_moment(k)):.3e}")
                    break
        if problems:
            run.violation(rule, c, where(f, t["dG"][1]), f"{n}-point Gauss table is not a quadrature rule: " + "; ".join(problems))
        else:
            run.holds(rule, c, where(f, st), f"{n} nodes/weights: positive, sum 2, moments exact to degree {max(2*n-3,1)} within 1e-12")
    want = set(range(1, 11))
    have = set(tabs)
    if not have:
        run.incomplete(rule + "-orders", "get_gauss_quadratureDG:orders", where(f), "no literal Gauss tables found in the function or in a module function it calls with the order")
    for n in sorted(want - have) if have else []:
        run.violation(rule + "-orders", f"get_gauss_quadratureDG:order:{n}", where(f), f"documented order {n} has no table")
    if want <= have:
        run.holds(rule + "-orders", "get_gauss_quadratureDG:orders", where(f), "orders 1..10 present")
    run.stats["gauss_worst_residual"] = float(worst)
    # affine rescale [-1,1] -> [0,1], weights halved
    check_rescale(run, program.func("uxarray/grid/area.py:get_gauss_quadratureDG"), rule + "-rescale")
    return len(tabs)


def _affine(node, env, sym_of):
    """Evaluate expr as a*g+b (Fractions); sym_of(node) tells whether node is the symbol."""
    if sym_of(node):
        return (Fraction(1), Fraction(0))
    if isinstance(node, ast.Constant) and isinstance(node.value, (int, float)):
        return (Fraction(0), Fraction(node.value))
    if isinstance(node, ast.Name) and node.id in env:
        return (Fraction(0), env[node.id])
    if isinstance(node, ast.UnaryOp) and isinstance(node.op, ast.USub):
        a, b = _affine(node.operand, env, sym_of)
        return (-a, -b)
    if isinstance(node, ast.BinOp):
        l = _affine(node.left, env, sym_of)
        r = _affine(node.right, env, sym_of)
        if isinstance(node.op, ast.Add):
            return (l[0] + r[0], l[1] + r[1])
        if isinstance(node.op, ast.Sub):
            return (l[0] - r[0], l[1] - r[1])
        if isinstance(node.op, ast.Mult):
            if l[0] == 0:
                return (l[1] * r[0], l[1] * r[1])
            if r[0] == 0:
                return (l[0] * r[1], l[1] * r[1])
            raise ValueError("non-affine")
        if isinstance(node.op, ast.Div) and r[0] == 0 and r[1] != 0:
            return (l[0] / r[1], l[1] / r[1])
    raise ValueError(f"cannot evaluate {norm(node)[:40]}")


def check_rescale(run, f, rule):
    env = {}
    loop = None
    for st in f.node.body:
        if isinstance(st, ast.Assign) and len(st.targets) == 1 and isinstance(st.targets[0], ast.Name) and isinstance(st.value, ast.Constant) and isinstance(st.value.value, (int, float)):
            env[st.targets[0].id] = Fraction(st.value.value)
        if isinstance(st, ast.For):
            loop = st
    # numeric constants of the module and simple local products/differences of constants are folded too
    for st in f.module.tree.body:
        if isinstance(st, ast.Assign) and len(st.targets) == 1 and isinstance(st.targets[0], ast.Name) and isinstance(st.value, ast.Constant) and isinstance(st.value.value, (int, float)) and not isinstance(st.value.value, bool):
            env.setdefault(st.targets[0].id, Fraction(st.value.value))
    for st in f.node.body:
        if isinstance(st, ast.Assign) and len(st.targets) == 1 and isinstance(st.targets[0], ast.Name) and st.targets[0].id not in env:
            try:
                a_, b_ = _affine(st.value, env, lambda n: False)
                if a_ == 0:
                    env[st.targets[0].id] = b_
            except (ValueError, KeyError):
                pass
    vectorised = False
    if loop is None:
        # whole-array form:  dG[0, :] = a * dG[0, :] + b ;  dW[:] = c * dW[:]   (every point at once)
        body = [st for st in f.node.body if isinstance(st, ast.Assign) and len(st.targets) == 1 and isinstance(st.targets[0], ast.Subscript)
                and all(isinstance(x, ast.Slice) and x.lower is None and x.upper is None or isinstance(x, ast.Constant) for x in (st.targets[0].slice.elts if isinstance(st.targets[0].slice, ast.Tuple) else [st.targets[0].slice]))]
        if not body:
            run.incomplete(rule, "get_gauss_quadratureDG:rescale", where(f), "rescaling loop not found")
            return
        vectorised = True

        class _L:
            pass
        loop = _L()
        loop.body = body
        loop.iter = None
        loop.lineno = body[0].lineno
    got = {}
    for st in loop.body:
        if isinstance(st, ast.Assign) and len(st.targets) == 1 and isinstance(st.targets[0], ast.Subscript):
            t = st.targets[0]
            tt = norm(t)
            base = t
            while isinstance(base, ast.Subscript):
                base = base.value
            nm = base.id if isinstance(base, ast.Name) else None
            try:
                got[nm] = (_affine(st.value, env, lambda n, tt=tt: isinstance(n, ast.Subscript) and norm(n) == tt), st)
            except ValueError as e:
                run.incomplete(rule, f"get_gauss_quadratureDG:rescale:{nm}", where(f, st), str(e))
    for nm, want, what in (("dG", (Fraction(1, 2), Fraction(1, 2)), "nodes mapped by g -> (g+1)/2"), ("dW", (Fraction(1, 2), Fraction(0)), "weights halved")):
        c = f"get_gauss_quadratureDG:rescale:{nm}"
        if nm not in got:
            run.violation(rule, c, where(f, loop.body[0]) if vectorised else where(f, loop), f"{nm} is not rescaled from [-1,1] to [0,1]")
        elif got[nm][0] == want:
            run.holds(rule, c, where(f, got[nm][1]), what)
        else:
            a, b = got[nm][0]
            run.violation(rule, c, where(f, got[nm][1]), f"{nm} rescaled by {a}*v+{b}, expected {want[0]}*v+{want[1]} for the map [-1,1]->[0,1]")
    # the loop runs over all points
    it = loop.iter
    c = "get_gauss_quadratureDG:rescale:range"
    if vectorised:
        run.holds(rule, c, where(f, loop.body[0]), "whole-array assignments: all points are rescaled")
        return
    if isinstance(it, ast.Call) and isinstance(it.func, ast.Name) and it.func.id == "range" and len(it.args) == 1 and isinstance(it.args[0], ast.Name) and it.args[0].id == f.params()[0]:
        run.holds(rule, c, where(f, loop), "all nCount points are rescaled")
    else:
        run.violation(rule, c, where(f, loop), f"rescale loop iterates over {norm(it)}, not over all nCount points")


def check_tri(run, program, rule="F-LIT/triangular"):
    f = program.func("uxarray/grid/area.py:get_tri_quadratureDG")
    p = f.params()[0]
    tabs = tables_by_branch(f, p)
    worst = Fraction(0)
    for order, (t, st) in sorted(tabs.items()):
        c = f"get_tri_quadratureDG[{order}]"
        if "dG" not in t or "dW" not in t or t["dG"][0] is None or t["dW"][0] is None:
            run.incomplete(rule, c, where(f, st), "dG/dW literal tables not found in this branch")
            continue
        g, w = t["dG"][0], t["dW"][0]
        problems = []
        if len(g) != len(w):
            problems.append(f"{len(g)} points but {len(w)} weights")
        elif any(not isinstance(r, list) or len(r) != 3 for r in g):
            problems.append("a point does not have three barycentric coordinates")
        else:
            if any(x <= 0 for x in w):
                problems.append("non-positive weight")
            if abs(sum(w) - 1) > TOL:
                problems.append(f"weights sum to 1{float(sum(w) - 1):+.3e}")
            for i, r in enumerate(g):
                if any(x < 0 for x in r):
                    problems.append(f"point {i} outside the triangle")
                if abs(sum(r) - 1) > TOL:
                    problems.append(f"barycentric row {i} sums to 1{float(sum(r) - 1):+.3e}")
            if not problems:
                done = False
                for tot in range(0, order + 1):
                    for a in range(tot + 1):
                        for b in range(tot - a + 1):
                            cc = tot - a - b
                            m = sum(wi * r[0] ** a * r[1] ** b * r[2] ** cc for wi, r in zip(w, g))
                            err = abs(m - tri_moment(a, b, cc))
                            worst = max(worst, err)
                            if err > TOL:
                                problems.append(f"moment l1^{a} l2^{b} l3^{cc}: residual {float(m - tri_moment(a, b, cc)):.3e}")
                                done = True
                                break
                        if done:
                            break
                    if done:
                        break
        if problems:
            run.violation(rule, c, where(f, t["dG"][1]), f"order-{order} triangular table is not a quadrature rule of that order: " + "; ".join(problems[:3]))
        else:
            run.holds(rule, c, where(f, st), f"{len(w)} points: rows sum to 1, weights positive and sum to 1, all monomial moments up to degree {order} exact within 1e-12")
    want = {1, 4, 8, 10, 12}
    have = set(tabs)
    for n in sorted(want - have):
        run.violation(rule + "-orders", f"get_tri_quadratureDG:order:{n}", where(f), f"documented order {n} has no table")
    if want <= have:
        run.holds(rule + "-orders", "get_tri_quadratureDG:orders", where(f), "orders 1,4,8,10,12 present")
    run.stats["tri_worst_residual"] = float(worst)
    return len(tabs)
