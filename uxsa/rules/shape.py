"""Small symbolic helpers for the connectivity builders: polynomial normal form of size expressions,
slice descriptions, local definitions in statement order."""

from __future__ import annotations

import ast

from ..astutil import iter_stmts, norm
from ..loader import dotted


def poly(node, subst=None):
    """Normal form {monomial(tuple of names): coef} of an integer size expression, or None."""
    subst = subst or {}
    if isinstance(node, ast.Constant) and isinstance(node.value, int) and not isinstance(node.value, bool):
        return {(): node.value}
    if isinstance(node, ast.Name):
        if node.id in subst:
            return subst[node.id]
        return {(node.id,): 1}
    if isinstance(node, ast.Attribute):
        return {(norm(node),): 1}
    if isinstance(node, ast.UnaryOp) and isinstance(node.op, ast.USub):
        p = poly(node.operand, subst)
        return None if p is None else {k: -v for k, v in p.items()}
    if isinstance(node, ast.BinOp):
        a, b = poly(node.left, subst), poly(node.right, subst)
        if a is None or b is None:
            return None
        if isinstance(node.op, (ast.Add, ast.Sub)):
            s = 1 if isinstance(node.op, ast.Add) else -1
            out = dict(a)
            for k, v in b.items():
                out[k] = out.get(k, 0) + s * v
            return {k: v for k, v in out.items() if v != 0} or {(): 0}
        if isinstance(node.op, ast.Mult):
            out = {}
            for ka, va in a.items():
                for kb, vb in b.items():
                    k = tuple(sorted(ka + kb))
                    out[k] = out.get(k, 0) + va * vb
            return {k: v for k, v in out.items() if v != 0} or {(): 0}
    return None


def P(*terms):
    """P(('n_face','n_max_face_nodes'), 1) style constructor:  P("a", "b") = a*b ; use padd for sums"""
    return {tuple(sorted(terms)): 1}


def padd(p, c):
    out = dict(p)
    out[()] = out.get((), 0) + c
    return {k: v for k, v in out.items() if v != 0}


def shape_of_alloc(call, subst=None):
    """shape (list of polys) of np.ones/zeros/empty/full(shape, ...) ; None if not an allocation"""
    d = dotted(call.func) or []
    if not d or d[-1] not in ("ones", "zeros", "empty", "full"):
        return None
    sh = call.args[0] if call.args else next((k.value for k in call.keywords if k.arg == "shape"), None)
    if sh is None:
        return None
    elts = sh.elts if isinstance(sh, (ast.Tuple, ast.List)) else [sh]
    return [poly(e, subst) for e in elts]


def alloc_info(value):
    """(shape, fill, dtype_node) for  np.ones(shape, dtype=D) * FILL | np.full(shape, FILL, dtype=D) | np.empty/zeros(...)"""
    fill = None
    call = value
    if isinstance(value, ast.BinOp) and isinstance(value.op, ast.Mult):
        for a, b in ((value.left, value.right), (value.right, value.left)):
            if isinstance(a, ast.Call) and (dotted(a.func) or [""])[-1] == "ones":
                call, fill = a, b
    if not isinstance(call, ast.Call):
        return None
    nm = (dotted(call.func) or [""])[-1]
    sh = shape_of_alloc(call)
    if sh is None:
        return None
    if nm == "full":
        fill = call.args[1] if len(call.args) > 1 else next((k.value for k in call.keywords if k.arg == "fill_value"), None)
    dt = next((k.value for k in call.keywords if k.arg == "dtype"), None)
    if dt is None and nm == "full" and len(call.args) > 2:
        dt = call.args[2]
    if dt is None and nm in ("ones", "zeros", "empty") and len(call.args) > 1:
        dt = call.args[1]
    return sh, fill, dt


def is_fill(node):
    return node is not None and ((isinstance(node, ast.Name) and node.id == "INT_FILL_VALUE") or (isinstance(node, ast.Attribute) and node.attr == "INT_FILL_VALUE"))


def is_intdtype(node):
    return node is not None and ((isinstance(node, ast.Name) and node.id == "INT_DTYPE") or (isinstance(node, ast.Attribute) and node.attr == "INT_DTYPE"))


def slice_desc(sl):
    """('all',) | ('range', lo, hi) with ints/None | ('idx', k) | None for one axis subscript"""
    def iv(n):
        if n is None:
            return None
        if isinstance(n, ast.Constant) and isinstance(n.value, int):
            return n.value
        if isinstance(n, ast.UnaryOp) and isinstance(n.op, ast.USub) and isinstance(n.operand, ast.Constant):
            return -n.operand.value
        return norm(n)
    if isinstance(sl, ast.Slice):
        if sl.step is not None:
            return None
        lo, hi = iv(sl.lower), iv(sl.upper)
        if lo in (None, 0) and hi is None:
            return ("all",)
        return ("range", lo if lo is not None else 0, hi)
    k = iv(sl)
    if isinstance(k, int):
        return ("idx", k)
    return ("expr", k)


def subscript_axes(node):
    """list of slice_desc per axis for X[a, b]"""
    sl = node.slice
    elts = sl.elts if isinstance(sl, ast.Tuple) else [sl]
    return [slice_desc(e) for e in elts]


def assigns(fnode, name):
    """assignment statements  name = ...  in source order"""
    return [st for st in iter_stmts(fnode.body) if isinstance(st, ast.Assign) and len(st.targets) == 1 and isinstance(st.targets[0], ast.Name) and st.targets[0].id == name]


def tuple_assigns(fnode):
    out = []
    for st in iter_stmts(fnode.body):
        if isinstance(st, ast.Assign) and len(st.targets) == 1 and isinstance(st.targets[0], ast.Tuple):
            out.append(st)
    return out


def stores_into(fnode, name):
    """statements  name[...] = value"""
    return [st for st in iter_stmts(fnode.body) if isinstance(st, ast.Assign) and len(st.targets) == 1 and isinstance(st.targets[0], ast.Subscript) and isinstance(st.targets[0].value, ast.Name) and st.targets[0].value.id == name]


def strip_copy(node):
    """X.copy() / X.values / np.asarray(X) -> X"""
    while True:
        if isinstance(node, ast.Call) and isinstance(node.func, ast.Attribute) and node.func.attr in ("copy", "ravel", "flatten") and not node.args:
            node = node.func.value
        elif isinstance(node, ast.Attribute) and node.attr in ("values", "data"):
            node = node.value
        elif isinstance(node, ast.Call) and (dotted(node.func) or [""])[-1] in ("asarray", "array") and node.args:
            node = node.args[0]
        else:
            return node


def fill_test(node):
    """X for  X == INT_FILL_VALUE ;  ('ne', X) for X != INT_FILL_VALUE ; else None"""
    if isinstance(node, ast.Compare) and len(node.ops) == 1:
        a, b = node.left, node.comparators[0]
        for x, y in ((a, b), (b, a)):
            if is_fill(y):
                if isinstance(node.ops[0], ast.Eq):
                    return ("eq", x)
                if isinstance(node.ops[0], ast.NotEq):
                    return ("ne", x)
    return None
