"""F-DIM/squared-vs-tolerance: a SQUARED length compared with a tolerance that is meant for the length.

    dist_sq = np.einsum("ij,ij->i", d, d);  if dist_sq < tolerance         # merges points within sqrt(tolerance), 1e-4 instead of 1e-8
The comparison is dimensionally inconsistent: the same function's contract states the tolerance for a distance.  Reported only when the left side is recognisably the
sum of squares of a difference (einsum of a vector with itself, dot(d, d), d @ d, (d ** 2).sum(), a ** 2 + b ** 2 [+ c ** 2]) with no square root around it, and the other
side is a bare tolerance (a name `tolerance`/`tol`/`atol`/`eps`, ERROR_TOLERANCE, MACHINE_EPSILON) that is not itself squared.
"""
import ast

from ..astutil import LocalDefs, norm, where
from ..loader import dotted

TOL_NAMES = {"tolerance", "tol", "atol", "eps", "epsilon", "ERROR_TOLERANCE", "MACHINE_EPSILON"}


def _single(e, defs, depth=0):
    while isinstance(e, ast.Name) and depth < 5:
        d = defs.defs.get(e.id, [])
        if len(d) != 1 or d[0][1] is not None or d[0][2]:
            break
        e = d[0][0]
        depth += 1
    return e


def _is_square_sum(e, defs):
    e = _single(e, defs)
    if isinstance(e, ast.Call):
        nm = (dotted(e.func) or [""])[-1] if dotted(e.func) else (e.func.attr if isinstance(e.func, ast.Attribute) else "")
        if nm in ("sqrt", "norm", "hypot"):
            return False
        if nm == "einsum" and len(e.args) == 3 and norm(e.args[1]) == norm(e.args[2]) and isinstance(e.args[0], ast.Constant) and isinstance(e.args[0].value, str):
            spec = e.args[0].value.replace(" ", "")
            lhs = spec.split("->")[0].split(",")
            return len(lhs) == 2 and lhs[0] == lhs[1]
        if nm in ("dot", "vdot", "inner") and len(e.args) == 2 and norm(e.args[0]) == norm(e.args[1]):
            return True
        if nm == "sum":
            inner = e.args[0] if (isinstance(e.func, ast.Attribute) and isinstance(e.func.value, ast.Name) and e.func.value.id in ("np", "numpy") and e.args) else (e.func.value if isinstance(e.func, ast.Attribute) else None)
            inner = _single(inner, defs) if inner is not None else None
            return inner is not None and _is_square(inner)
        return False
    if isinstance(e, ast.BinOp) and isinstance(e.op, ast.MatMult) and norm(e.left) == norm(e.right):
        return True
    if isinstance(e, ast.BinOp) and isinstance(e.op, ast.Add):
        terms = []

        def flat(x):
            if isinstance(x, ast.BinOp) and isinstance(x.op, ast.Add):
                flat(x.left)
                flat(x.right)
            else:
                terms.append(x)
        flat(e)
        return len(terms) >= 2 and all(_is_square(_single(t, defs)) for t in terms)
    return False


def _is_square(e):
    if isinstance(e, ast.BinOp) and isinstance(e.op, ast.Pow) and isinstance(e.right, ast.Constant) and e.right.value == 2:
        return True
    if isinstance(e, ast.BinOp) and isinstance(e.op, ast.Mult) and norm(e.left) == norm(e.right):
        return True
    if isinstance(e, ast.Call) and (dotted(e.func) or [""])[-1] == "square":
        return True
    return False


def _is_bare_tolerance(e, defs):
    e0 = e
    e = _single(e, defs)
    for x in (e0, e):
        if isinstance(x, ast.Name) and x.id in TOL_NAMES:
            return True
        if isinstance(x, ast.Attribute) and x.attr in TOL_NAMES:
            return True
    return False


def scan_function(fnode):
    defs = LocalDefs(fnode)
    out = []
    for n in ast.walk(fnode):
        if isinstance(n, ast.Compare) and len(n.ops) == 1 and isinstance(n.ops[0], (ast.Lt, ast.LtE, ast.Gt, ast.GtE)):
            a, b = n.left, n.comparators[0]
            for x, y in ((a, b), (b, a)):
                if _is_square_sum(x, defs) and _is_bare_tolerance(y, defs):
                    out.append((n, x, y))
    return out


_SELFTEST = '''
def f(points, p, tolerance):
    d = points - p
    dist_sq = np.einsum("ij,ij->i", d, d)
    if np.any(dist_sq < tolerance):
        return 1
    if np.any(dist_sq < tolerance ** 2) or np.sqrt(dist_sq).min() < tolerance:
        return 2
    if d[0] ** 2 + d[1] ** 2 + d[2] ** 2 <= ERROR_TOLERANCE:
        return 3
    return 0
'''


def check(run, P, files):
    st = scan_function(ast.parse(_SELFTEST).body[0])
    if len(st) != 2:
        run.incomplete("F-DIM/squared-vs-tolerance", "rule-self-test", "uxsa/rules/sqtol.py", f"the rule's own positive example matched {len(st)} sites instead of 2")
        return
    nf = 0
    hits = 0
    for f in P.all_functions():
        if f.module.relpath not in files:
            continue
        nf += 1
        for cmp_, sq, tol in scan_function(f.node):
            hits += 1
            run.violation("F-DIM/squared-vs-tolerance", f"{f.key}:{norm(cmp_)[:50]}", where(f, cmp_),
                          f"`{norm(cmp_)[:70]}` compares a SQUARED length ({norm(sq)[:40]}) with the tolerance `{norm(tol)}` meant for the length itself: the test accepts distances up to sqrt({norm(tol)}) "
                          "(1e-4 for 1e-8)")
    if not hits:
        run.holds("F-DIM/squared-vs-tolerance", "no-squared-length-against-a-length-tolerance", "-", f"{nf} functions of {len(files)} geometry modules scanned; positive example matched")
