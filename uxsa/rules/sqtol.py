"""F-DIM/squared-vs-tolerance: a SQUARED length compared with a tolerance that is meant for the length.

    dist_sq = np.einsum("ij,ij->i", d, d);  if dist_sq < tolerance         # merges points within sqrt(tolerance), 1e-4 instead of 1e-8
The comparison is dimensionally inconsistent: the same function's contract states the tolerance for a distance.  Reported only when the left side is recognisably the
sum of squares of a difference (einsum of a vector with itself, dot(d, d), d @ d, (d ** 2).sum(), a ** 2 + b ** 2 [+ c ** 2]) with no square root around it, and the other
side is a bare tolerance (a name `tolerance`/`tol`/`atol`/`eps`, ERROR_TOLERANCE, MACHINE_EPSILON) that is not itself squared.
"""
import ast

from ..astutil import LocalDefs, norm, where
from ..loader import dotted

TOL_NAMES = {"tolerance", "tol", "atol", "eps", "epsilon", "ERROR_TOLERANCE", "MACHINE_EPSILON"}


def _single(e, defs, depth=0):
    while isinstance(e, ast.Name) and depth < 5:
        d = defs.defs.get(e.id, [])
        if len(d) != 1 or d[0][1] is not None or d[0][2]:
            break
        e = d[0][0]
        depth += 1
    return e


def _is_square_sum(e, defs):
    e = _single(e, defs)
    if isinstance(e, ast.Call):
        nm = (dotted(e.func) or [""])[-1] if dotted(e.func) else (e.func.attr if isinstance(e.func, ast.Attribute) else "")
        if nm in ("sqrt", "norm", "hypot"):
            return False
        if nm == "einsum" and len(e.args) == 3 and norm(e.args[1]) == norm(e.args[2]) and isinstance(e.args[0], ast.Constant) and isinstance(e.args[0].value, str):
            spec = e.args[0].value.replace(" ", "")
            lhs = spec.split("->")[0].split(",")
            return len(lhs) == 2 and lhs[0] == lhs[1]
        if nm in ("dot", "vdot", "inner") and len(e.args) == 2 and norm(e.args[0]) == norm(e.args[1]):
            return True
        if nm == "sum":
            inner = e.args[0] if (isinstance(e.func, ast.Attribute) and isinstance(e.func.value, ast.Name) and e.func.value.id in ("np", "numpy") and e.args) else (e.func.value if isinstance(e.func, ast.Attribute) else None)
            inner = _single(inner, defs) if inner is not None else None
            return inner is not None and _is_square(inner)
        return False
    if isinstance(e, ast.BinOp) and isinstance(e.op, ast.MatMult) and norm(e.left) == norm(e.right):
        return True
    if isinstance(e, ast.BinOp) and isinstance(e.op, ast.Add):
        terms = []

        def flat(x):
            if isinstance(x, ast.BinOp) and isinstance(x.op, ast.Add):
                flat(x.left)
                flat(x.right)
            else:
                terms.append(x)
        flat(e)
        return len(terms) >= 2 and all(_is_square(_single(t, defs)) for t in terms)
    return False


def _is_square(e):
    if isinstance(e, ast.BinOp) and isinstance(e.op, ast.Pow) and isinstance(e.right, ast.Constant) and e.right.value == 2:
        return True
    if isinstance(e, ast.BinOp) and isinstance(e.op, ast.Mult) and norm(e.left) == norm(e.right):
        return True
    if isinstance(e, ast.Call) and (dotted(e.func) or [""])[-1] == "square":
        return True
    return False


def _is_bare_tolerance(e, defs):
    e0 = e
    e = _single(e, defs)
    for x in (e0, e):
        if isinstance(x, ast.Name) and x.id in TOL_NAMES:
            return True
        if isinstance(x, ast.Attribute) and x.attr in TOL_NAMES:
            return True
    return False


def scan_function(fnode):
    defs = LocalDefs(fnode)
    out = []
    for n in ast.walk(fnode):
        if isinstance(n, ast.Compare) and len(n.ops) == 1 and isinstance(n.ops[0], (ast.Lt, ast.LtE, ast.Gt, ast.GtE)):
            a, b = n.left, n.comparators[0]
            for x, y in ((a, b), (b, a)):
                if _is_square_sum(x, defs) and _is_bare_tolerance(y, defs):
                    out.append((n, x, y))
    return out


_SELFTEST = '''
def f(points, p, tolerance):
    d = points - p
    dist_sq = np.einsum("ij,ij->i", d, d)
    if np.any(dist_sq < tolerance):
        return 1
    if np.any(dist_sq < tolerance ** 2) or np.sqrt(dist_sq).min() < tolerance:
        return 2
    if d[0] ** 2 + d[1] ** 2 + d[2] ** 2 <= ERROR_TOLERANCE:
        return 3
    return 0
'''


def check(run, P, files):
    st = scan_function(ast.parse(_SELFTEST).body[0])
    if len(st) != 2:
        run.incomplete("F-DIM/squared-vs-tolerance", "rule-self-test", "uxsa/rules/sqtol.py", f"the rule's own positive example matched {len(st)} sites instead of 2")
        return
    nf = 0
    hits = 0
    for f in P.all_functions():
        if f.module.relpath not in files:
            continue
        nf += 1
        for cmp_, sq, tol in scan_function(f.node):
            hits += 1
            run.violation("F-DIM/squared-vs-tolerance", f"{f.key}:{norm(cmp_)[:50]}", where(f, cmp_),
                          f"`{norm(cmp_)[:70]}` compares a SQUARED length ({norm(sq)[:40]}) with the tolerance `{norm(tol)}` meant for the length itself: the test accepts distances up to sqrt({norm(tol)}) "
                          "(1e-4 for 1e-8)")
    if not hits:
        run.holds("F-DIM/squared-vs-tolerance", "no-squared-length-against-a-length-tolerance", "-", f"{nf} functions of {len(files)} geometry modules scanned; positive example matched")


# ---------------------------------------------------------------------------------------------------------------------------------------
# F-DIM/area-vs-tolerance: |(b - a) x (c - a)| - twice the area of the triangle a, b, c, a product of TWO edge lengths - compared with the tolerance
# that the package uses for ONE length.  `if norm(cross(b - a, c - a)) < ERROR_TOLERANCE: skip` declares every triangle with edges below
# sqrt(1e-8) = 1e-4 rad (600 m on the Earth) degenerate.  Same dimensional inconsistency as the squared length above; reported only when both operands of
# the cross product are recognisably DIFFERENCES of points (so the cross product of two unit position vectors, whose length is the sine of an angle and
# is rightly compared with a tolerance, is not matched).


def _sq_base(t):
    """name n if t is n[i] * n[i] / n[i] ** 2 / n * n / n ** 2"""
    if isinstance(t, ast.BinOp) and isinstance(t.op, ast.Mult) and norm(t.left) == norm(t.right):
        b = t.left
    elif isinstance(t, ast.BinOp) and isinstance(t.op, ast.Pow) and isinstance(t.right, ast.Constant) and t.right.value == 2:
        b = t.left
    else:
        return None
    if isinstance(b, ast.Subscript):
        b = b.value
    return b if isinstance(b, ast.Name) else None


def _length_base(e, defs):
    """the vector (Name) whose Euclidean length e is: np.linalg.norm(n), np.sqrt(n[0]*n[0] + ..), np.sqrt(np.sum(n * n)), np.sqrt(np.dot(n, n))"""
    e = _single(e, defs)
    if not isinstance(e, ast.Call):
        return None
    nm = (dotted(e.func) or [""])[-1]
    if nm == "norm" and e.args and isinstance(e.args[0], ast.Name) and len(e.args) == 1 and not e.keywords:
        return e.args[0]
    if nm != "sqrt" or not e.args:
        return None
    s = _single(e.args[0], defs)
    if isinstance(s, ast.Call):
        n2 = (dotted(s.func) or [""])[-1]
        if n2 == "sum" and s.args:
            return _sq_base(_single(s.args[0], defs))
        if n2 in ("dot", "vdot", "inner") and len(s.args) == 2 and norm(s.args[0]) == norm(s.args[1]) and isinstance(s.args[0], ast.Name):
            return s.args[0]
        return None
    if isinstance(s, ast.BinOp) and isinstance(s.op, ast.MatMult) and norm(s.left) == norm(s.right) and isinstance(s.left, ast.Name):
        return s.left
    if isinstance(s, ast.BinOp) and isinstance(s.op, ast.Add):
        terms = []

        def flat(x):
            if isinstance(x, ast.BinOp) and isinstance(x.op, ast.Add):
                flat(x.left)
                flat(x.right)
            else:
                terms.append(x)
        flat(s)
        bases = [_sq_base(t) for t in terms]
        if len(bases) >= 2 and all(b is not None for b in bases) and len({b.id for b in bases}) == 1:
            return bases[0]
    return None


def _is_point_difference(e, defs):
    e = _single(e, defs)
    if isinstance(e, ast.BinOp) and isinstance(e.op, ast.Sub):
        return True
    if isinstance(e, ast.Call) and (dotted(e.func) or [""])[-1] in ("array", "asarray") and e.args and isinstance(e.args[0], (ast.List, ast.Tuple)):
        el = e.args[0].elts
        return len(el) >= 2 and all(isinstance(x, ast.BinOp) and isinstance(x.op, ast.Sub) for x in el)
    return False


def scan_area(fnode):
    defs = LocalDefs(fnode)
    out = []
    for n in ast.walk(fnode):
        if isinstance(n, ast.Compare) and len(n.ops) == 1 and isinstance(n.ops[0], (ast.Lt, ast.LtE, ast.Gt, ast.GtE)):
            a, b = n.left, n.comparators[0]
            for x, y in ((a, b), (b, a)):
                if not _is_bare_tolerance(y, defs):
                    continue
                v = _length_base(x, defs)
                c = _single(v, defs) if v is not None else None
                if isinstance(c, ast.Call) and (dotted(c.func) or [""])[-1] == "cross" and len(c.args) == 2 and all(_is_point_difference(z, defs) for z in c.args):
                    out.append((n, c, y))
    return out


_SELFTEST_AREA = '''
def f(node1, node2, node3, v0, v1):
    normal = np.cross(node2 - node1, node3 - node1)
    if np.sqrt(np.sum(normal * normal)) < ERROR_TOLERANCE:
        return 0.0
    dA = np.array([node1[0] - node3[0], node1[1] - node3[1], node1[2] - node3[2]])
    dB = np.array([node2[0] - node3[0], node2[1] - node3[1], node2[2] - node3[2]])
    ec = np.cross(dA, dB)
    if np.sqrt(ec[0] * ec[0] + ec[1] * ec[1] + ec[2] * ec[2]) < ERROR_TOLERANCE:
        return 0.0
    n = np.cross(v0, v1)
    if np.linalg.norm(n) < ERROR_TOLERANCE:
        return 1.0
    if np.linalg.norm(normal) < ERROR_TOLERANCE * ERROR_TOLERANCE:
        return 2.0
    return 3.0
'''


def check_area(run, P, prefixes):
    st = scan_area(ast.parse(_SELFTEST_AREA).body[0])
    if len(st) != 2:
        run.incomplete("F-DIM/area-vs-tolerance", "rule-self-test", "uxsa/rules/sqtol.py", f"the rule's own example matched {len(st)} sites instead of 2")
        return
    nf = ncross = 0
    for f in P.all_functions():
        if not any(f.module.relpath.startswith(p) for p in prefixes):
            continue
        nf += 1
        ncross += sum(1 for c in ast.walk(f.node) if isinstance(c, ast.Call) and (dotted(c.func) or [""])[-1] == "cross")
        for cmp_, cr, tol in scan_area(f.node):
            run.violation("F-DIM/area-vs-tolerance", f"{f.key}:{norm(cmp_)[:50]}", where(f, cmp_),
                          f"`{norm(cmp_)[:70]}` compares |{norm(cr)[:50]}| - twice a triangle's area, a product of two edge lengths - with the length tolerance `{norm(tol)}`: "
                          "every triangle with edges below sqrt(tolerance) (1e-4 rad for 1e-8) is treated as degenerate and its area is dropped")
    run.holds("F-DIM/area-vs-tolerance", "no-triangle-area-against-a-length-tolerance", "uxarray/", f"{nf} functions ({ncross} cross products) scanned, positive example matched 2 of its 4 comparisons")
