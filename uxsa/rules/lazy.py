"""F-LAZY: guard / store / return agreement of lazily derived Grid variables, and
'written once, never overwritten behind the user's back'."""

from __future__ import annotations

import ast
import re

from ..astutil import iter_stmts, norm, str_const, where
from ..loader import FuncInfo, dotted

GRID = "uxarray/grid/grid.py"
POPULATE_FILES = (
    "uxarray/grid/connectivity.py",
    "uxarray/grid/coordinates.py",
    "uxarray/grid/neighbors.py",
    "uxarray/grid/geometry.py",
)


def family(key):
    """Variables populated together form one unit: node_lon/node_lat, face_x/y/z, ..."""
    m = re.match(r"^(node|edge|face)_(lon|lat)$", key)
    if m:
        return f"{m.group(1)}_lonlat"
    m = re.match(r"^(node|edge|face)_(x|y|z)$", key)
    if m:
        return f"{m.group(1)}_xyz"
    return key


def absent_keys(test, truth=True):
    """Keys k for which the test (taken with `truth`) implies  k not in <x>._ds / <ds>."""
    out = set()
    if isinstance(test, ast.UnaryOp) and isinstance(test.op, ast.Not):
        return absent_keys(test.operand, not truth)
    if isinstance(test, ast.BoolOp):
        if (isinstance(test.op, ast.And) and truth) or (isinstance(test.op, ast.Or) and not truth):
            for v in test.values:
                out |= absent_keys(v, truth)
        return out
    if isinstance(test, ast.Compare) and len(test.ops) == 1:
        s = str_const(test.left)
        if s is not None:
            c = test.comparators[0]
            is_ds = (isinstance(c, ast.Attribute) and c.attr == "_ds") or (isinstance(c, ast.Name) and c.id in ("ds", "grid_ds"))
            if is_ds:
                if isinstance(test.ops[0], ast.NotIn) and truth:
                    out.add(s)
                if isinstance(test.ops[0], ast.In) and not truth:
                    out.add(s)
    return out


def flag_names(test, truth=True):
    """Explicit re-population flags that make an overwrite intentional (repopulate=True)."""
    out = set()
    if isinstance(test, ast.BoolOp):
        for v in test.values:
            out |= flag_names(v, truth)
    elif isinstance(test, ast.Name) and test.id in ("repopulate", "override", "overwrite", "reconstruct"):
        out.add(test.id)
    return out


def always_exits(stmts):
    """the statement list cannot fall through (ends in return / raise / continue / break on every branch)"""
    if not stmts:
        return False
    last = stmts[-1]
    if isinstance(last, (ast.Return, ast.Raise, ast.Continue, ast.Break)):
        return True
    if isinstance(last, ast.If):
        return always_exits(last.body) and always_exits(last.orelse)
    return False


def ds_store_key(st):
    """'k' for  <x>._ds["k"] = ... / ds["k"] = ...  else None"""
    if isinstance(st, ast.Assign) and len(st.targets) == 1:
        t = st.targets[0]
        if isinstance(t, ast.Subscript):
            k = str_const(t.slice)
            v = t.value
            if k is not None and ((isinstance(v, ast.Attribute) and v.attr == "_ds")):
                return k
    return None


def stores_with_guards(fnode):
    """[(key, stmt, absent_keys_implied_by_dominating_conditions, flags)] for every _ds store in the function."""
    out = []

    def walk(stmts, absent, flags):
        absent = set(absent)
        for st in stmts:
            k = ds_store_key(st)
            if k is not None:
                out.append((k, st, set(absent), set(flags)))
            if isinstance(st, ast.If):
                a_t = absent_keys(st.test, True)
                f_t = flag_names(st.test)
                # "k not in ds or repopulate": either the key is absent or the caller asked explicitly
                or_with_flag = set()
                if isinstance(st.test, ast.BoolOp) and isinstance(st.test.op, ast.Or) and f_t:
                    for v in st.test.values:
                        or_with_flag |= absent_keys(v, True)
                walk(st.body, absent | a_t | or_with_flag, flags | (f_t if or_with_flag or not a_t else set()))
                walk(st.orelse, absent | absent_keys(st.test, False), flags)
                # guard clause: `if k in ds: return ...` -- what follows runs only when the test was false (and vice versa)
                if always_exits(st.body) and not always_exits(st.orelse):
                    absent |= absent_keys(st.test, False)
                elif st.orelse and always_exits(st.orelse) and not always_exits(st.body):
                    absent |= a_t
            elif isinstance(st, (ast.For, ast.While, ast.With, ast.Try)):
                for fld in ("body", "orelse", "finalbody"):
                    walk(getattr(st, fld, []) or [], absent, flags)
                for h in getattr(st, "handlers", []) or []:
                    walk(h.body, absent, flags)

    walk(fnode.body, set(), set())
    return out


def _literal_bindings(program, g: FuncInfo):
    """[{param: "literal"}] one per call site of g when every call site passes string literals for the same parameters (None when g has no call site or a site
    passes something else for a parameter that another site passes a literal for)."""
    params = [p for p in g.all_param_names()]
    sites = []
    for f in program.all_functions():
        for n in ast.walk(f.node):
            if isinstance(n, ast.Call):
                r = program.resolve_expr(f.module, n.func, f)
                if isinstance(r, FuncInfo) and r.node is g.node:
                    b = {}
                    ps = params[1:] if (g.cls is not None and isinstance(n.func, ast.Attribute)) else params
                    for p_, a in zip(ps, n.args):
                        if str_const(a) is not None:
                            b[p_] = str_const(a)
                    for k in n.keywords:
                        if k.arg and str_const(k.value) is not None:
                            b[k.arg] = str_const(k.value)
                    sites.append(b)
    if not sites:
        return None
    keys = set(sites[0])
    if not keys or any(set(b) != keys for b in sites):
        return None
    uniq = []
    for b in sites:
        if b not in uniq:
            uniq.append(b)
    return uniq


def _has_call_site(program, g: FuncInfo):
    for f in program.all_functions():
        for n in ast.walk(f.node):
            if isinstance(n, ast.Call):
                r = program.resolve_expr(f.module, n.func, f)
                if isinstance(r, FuncInfo) and r.node is g.node:
                    return True
    return False


def _specialise_tests(fnode, binding):
    """copy of the function with  <param> in/not in ...  tests rewritten for a literal binding of string parameters"""
    import copy

    class T(ast.NodeTransformer):
        def visit_Name(self, n):
            if isinstance(n.ctx, ast.Load) and n.id in binding:
                return ast.copy_location(ast.Constant(value=binding[n.id]), n)
            return n
    return T().visit(copy.deepcopy(fnode))


def call_sites_with_guards(program, target: FuncInfo):
    """[(caller FuncInfo, call node, absent keys implied at the call site, flags passed)].  A caller whose guard tests a string PARAMETER (`if name in self._ds`)
    is read once per literal value its own callers pass for that parameter."""
    out = []
    for f in program.all_functions():
        if not any(isinstance(n, ast.Call) and (dotted(n.func) or [""])[-1] == target.name for n in ast.walk(f.node)):
            continue
        variants = [f.node]
        binds = _literal_bindings(program, f)
        if binds is None and f.name.startswith("_") and f.name in (getattr(f.module, "normalised", {}) or {}).get("inlined_helpers", []) and not _has_call_site(program, f):
            continue      # a private helper whose body was substituted into every caller (normaliser N4): the callers carry its call sites now
        if binds and any(isinstance(x, ast.Compare) and isinstance(x.left, ast.Name) and x.left.id in binds[0] for x in ast.walk(f.node)):
            variants = [_specialise_tests(f.node, b) for b in binds]
        for fnode in variants:
            def walk(stmts, absent):
                absent = set(absent)
                for st in stmts:
                    if isinstance(st, ast.If):
                        walk(st.body, absent | absent_keys(st.test, True))
                        walk(st.orelse, absent | absent_keys(st.test, False))
                        if always_exits(st.body) and not always_exits(st.orelse):
                            absent |= absent_keys(st.test, False)
                        elif st.orelse and always_exits(st.orelse) and not always_exits(st.body):
                            absent |= absent_keys(st.test, True)
                        continue
                    if isinstance(st, (ast.For, ast.While, ast.With, ast.Try)):
                        for fld in ("body", "orelse", "finalbody"):
                            walk(getattr(st, fld, []) or [], absent)
                        for h in getattr(st, "handlers", []) or []:
                            walk(h.body, absent)
                        continue
                    if isinstance(st, (ast.FunctionDef, ast.ClassDef)):
                        continue
                    for n in ast.walk(st):
                        if isinstance(n, ast.Call):
                            r = program.resolve_expr(f.module, n.func, f)
                            if isinstance(r, FuncInfo) and r.node is target.node:
                                flags = {k.arg for k in n.keywords if k.arg in ("repopulate",) and isinstance(k.value, ast.Constant) and k.value.value is True}
                                out.append((f, n, set(absent), flags))
            walk(fnode.body, set())
    return out


UNKNOWN_KEY = "?"


def _str_tuple(node):
    if isinstance(node, (ast.Tuple, ast.List)) and node.elts and all(str_const(e) is not None for e in node.elts):
        return tuple(str_const(e) for e in node.elts)
    return None


def computed_store_keys(func: FuncInfo, bindings=None):
    """Keys of stores  <x>._ds[name] = ...  whose key is a local name: resolved when the name iterates (directly or through zip/enumerate) over a literal
    tuple of strings, a local bound to one, or a parameter bound to one at the call site (bindings); UNKNOWN_KEY otherwise."""
    bindings = bindings or {}
    out = set()
    fn = func.node
    loops = {}   # loop target name -> iterable expression it draws from
    for n in ast.walk(fn):
        it = tg = None
        if isinstance(n, (ast.For, ast.comprehension)):
            it, tg = n.iter, n.target
        if it is None:
            continue
        if isinstance(tg, ast.Name):
            loops[tg.id] = it
        elif isinstance(tg, ast.Tuple) and isinstance(it, ast.Call) and isinstance(it.func, ast.Name) and it.func.id == "zip":
            for i, e in enumerate(tg.elts):
                if isinstance(e, ast.Name) and i < len(it.args):
                    loops[e.id] = it.args[i]
    local = {}
    for st in iter_stmts(fn.body):
        if isinstance(st, ast.Assign) and len(st.targets) == 1 and isinstance(st.targets[0], ast.Name):
            local.setdefault(st.targets[0].id, []).append(st.value)

    def strings_of(e, depth=0):
        t = _str_tuple(e)
        if t is not None:
            return set(t)
        if isinstance(e, ast.Name) and depth < 3:
            if e.id in bindings:
                return set(bindings[e.id])
            vs = local.get(e.id, [])
            if len(vs) == 1:
                return strings_of(vs[0], depth + 1)
        if isinstance(e, ast.Call) and isinstance(e.func, ast.Attribute) and e.func.attr == "keys" and isinstance(e.func.value, ast.Dict) and all(str_const(k) is not None for k in e.func.value.keys):
            return {str_const(k) for k in e.func.value.keys}
        if isinstance(e, ast.Dict) and all(k is not None and str_const(k) is not None for k in e.keys):
            return {str_const(k) for k in e.keys}
        return None

    for st in iter_stmts(fn.body):
        if isinstance(st, ast.Assign) and len(st.targets) == 1 and isinstance(st.targets[0], ast.Subscript):
            t = st.targets[0]
            if isinstance(t.value, ast.Attribute) and t.value.attr == "_ds" and str_const(t.slice) is None:
                ks = None
                if isinstance(t.slice, ast.Name):
                    nm = t.slice.id
                    if nm in loops:
                        ks = strings_of(loops[nm])
                    elif nm in bindings and isinstance(bindings[nm], str):
                        ks = {bindings[nm]}
                    elif len(local.get(nm, [])) == 1 and str_const(local[nm][0]) is not None:
                        ks = {str_const(local[nm][0])}
                out |= ks if ks is not None else {UNKNOWN_KEY}
    return out


def _call_bindings(call, callee: FuncInfo):
    """parameter -> literal tuple of strings / literal string, for the arguments of this call that are such literals"""
    b = {}
    params = callee.params()
    for i, a in enumerate(call.args):
        if i < len(params):
            t = _str_tuple(a)
            if t is not None:
                b[params[i]] = t
            elif str_const(a) is not None:
                b[params[i]] = str_const(a)
    for k in call.keywords:
        if k.arg:
            t = _str_tuple(k.value)
            if t is not None:
                b[k.arg] = t
            elif str_const(k.value) is not None:
                b[k.arg] = str_const(k.value)
    return b


def all_ds_stores(program, func: FuncInfo, depth=2, seen=None, bindings=None):
    """Keys stored into a grid's _ds by func or by repo functions it calls (bounded).  UNKNOWN_KEY is a member when some store's key is computed
    in a way this rule does not resolve."""
    seen = seen or set()
    if func.key in seen and not bindings:
        return set()
    seen.add(func.key)
    keys = {k for k, *_ in stores_with_guards(func.node)} | computed_store_keys(func, bindings)
    if depth > 0:
        for n in ast.walk(func.node):
            if isinstance(n, ast.Call):
                r = program.resolve_expr(func.module, n.func, func)
                if isinstance(r, FuncInfo):
                    keys |= all_ds_stores(program, r, depth - 1, seen, _call_bindings(n, r))
    return keys


def check_getters(run, program, names, rule_prefix="F-LAZY"):
    """Guard/return/populate agreement for the named Grid property getters. Returns number examined."""
    grid = program.cls(f"{GRID}:Grid")
    n = 0
    for name in names:
        f = grid.methods.get(name)
        if f is None or not f.is_property:
            run.incomplete(f"{rule_prefix}/getter", f"Grid.{name}", "-", f"property Grid.{name} not found")
            continue
        n += 1
        rets = [r for r in ast.walk(f.node) if isinstance(r, ast.Return) and r.value is not None]
        for r in rets:
            v = r.value
            if isinstance(v, ast.Subscript) and isinstance(v.value, ast.Attribute) and v.value.attr == "_ds":
                k = str_const(v.slice)
                c = f"Grid.{name}:returns"
                if k == name:
                    run.holds(f"{rule_prefix}/return-key", c, where(f, r), f'returns _ds["{k}"]')
                elif k is not None:
                    run.violation(f"{rule_prefix}/return-key", c, where(f, r), f'property {name} returns _ds["{k}"]')
        if not any(isinstance(r.value, ast.Subscript) and isinstance(r.value.value, ast.Attribute) and r.value.value.attr == "_ds"
                   and str_const(r.value.slice) is not None for r in rets):
            continue  # not of the lazily-derived-variable form (e.g. n_edge reads a dimension size)
        guards = []

        def find_guards(stmts):
            for i, st in enumerate(stmts):
                if isinstance(st, ast.If):
                    ak = absent_keys(st.test, True)
                    if ak:
                        guards.append((st, ak, st.body))
                    akf = absent_keys(st.test, False)
                    if akf and st.orelse:
                        guards.append((st, akf, st.orelse))
                    elif akf and always_exits(st.body):
                        # guard clause  `if "k" in ds: return ds["k"]`  : the rest of the list is the region where k is absent
                        guards.append((st, akf, stmts[i + 1:]))
                    find_guards(st.body)
                    find_guards(st.orelse)
                elif isinstance(st, (ast.For, ast.While, ast.With, ast.Try)):
                    for fld in ("body", "orelse", "finalbody"):
                        find_guards(getattr(st, fld, []) or [])
        find_guards(f.node.body)
        for st, ak, region in guards:
            c = f"Grid.{name}:guard"
            if name in ak:
                run.holds(f"{rule_prefix}/guard-key", c, where(f, st), f'guard tests "{name}"')
            else:
                run.violation(f"{rule_prefix}/guard-key", c, where(f, st), f"property {name} guards on {sorted(ak)} instead of its own key")
            # what does the guarded body store?
            stored = set()
            raises = False
            for sub in iter_stmts(region):
                k = ds_store_key(sub)
                if k:
                    stored.add(k)
                if isinstance(sub, ast.Raise):
                    raises = True
                for c2 in ast.walk(sub):
                    if isinstance(c2, ast.Call):
                        r = program.resolve_expr(f.module, c2.func, f)
                        if isinstance(r, FuncInfo):
                            stored |= all_ds_stores(program, r)
            c = f"Grid.{name}:populate-stores"
            if raises and not stored:
                run.holds(f"{rule_prefix}/populate-stores", c, where(f, st), "absent variable raises (not constructible)", nontrivial=False)
            elif name in stored:
                run.holds(f"{rule_prefix}/populate-stores", c, where(f, st), f'the guarded body stores _ds["{name}"]')
            elif UNKNOWN_KEY in stored:
                run.incomplete(f"{rule_prefix}/populate-stores", c, where(f, st), f'the guarded body of property {name} stores under a computed key this rule cannot resolve; _ds["{name}"] not seen among {sorted(stored)}')
            else:
                run.violation(
                    f"{rule_prefix}/populate-stores", c, where(f, st),
                    f'the guarded body of property {name} never stores _ds["{name}"] (stores {sorted(stored)}): the return raises KeyError or yields a stale variable',
                )
    return n


def check_no_overwrite(run, program, keys=None, rule_prefix="F-LAZY", files=POPULATE_FILES):
    """Every _ds store in a _populate_* function is dominated by 'key absent' (locally or at every call site)
    or by an explicit repopulate flag.  keys: restrict to these variable names (None = all)."""
    n = 0
    for f in program.all_functions():
        if f.module.relpath not in files or not f.name.startswith("_populate"):
            continue
        stores = stores_with_guards(f.node)
        if not stores:
            continue
        sites = None
        for k, st, absent, flags in stores:
            if keys is not None and k not in keys:
                continue
            n += 1
            c = f"{f.key}:store[{k}]"
            fam = family(k)
            if any(family(a) == fam for a in absent) or flags:
                run.holds(f"{rule_prefix}/no-overwrite", c, where(f, st), "store dominated by an absence test / explicit repopulate flag")
                continue
            if sites is None:
                sites = call_sites_with_guards(program, f)
            bad = [(cf, cn) for cf, cn, ab, fl in sites if not any(family(a) == fam for a in ab) and not fl]
            if not sites:
                run.holds(f"{rule_prefix}/no-overwrite", c, where(f, st), "no call site in the package", nontrivial=False)
            elif not bad:
                run.holds(f"{rule_prefix}/no-overwrite", c, where(f, st), f"all {len(sites)} call sites are guarded by '{k}' being absent")
            else:
                cf, cn = bad[0]
                run.violation(
                    f"{rule_prefix}/no-overwrite", c, where(f, st),
                    f'_ds["{k}"] can be overwritten although present: call at {where(cf, cn)} ({cf.qualname}) is not conditioned on "{k}" being absent',
                    facts={"unguarded_call_sites": [where(a, b) for a, b in bad]},
                )
    return n


def check_private_attrs_initialised(run, program, rule_prefix="F-LAZY"):
    """Every self._x read in class Grid is assigned in __init__ (or is a class attribute)."""
    grid = program.cls(f"{GRID}:Grid")
    init = grid.methods.get("__init__")
    assigned = set(grid.attrs)
    if init is not None:
        for n in ast.walk(init.node):
            if isinstance(n, ast.Attribute) and isinstance(n.ctx, ast.Store) and isinstance(n.value, ast.Name) and n.value.id == "self":
                assigned.add(n.attr)
    reads = {}
    for name, f in list(grid.methods.items()) + list(grid.setters.items()):
        first_store = {}
        for n in ast.walk(f.node):
            if isinstance(n, ast.Attribute) and isinstance(n.ctx, ast.Store) and isinstance(n.value, ast.Name) and n.value.id == "self":
                first_store[n.attr] = min(first_store.get(n.attr, 10**9), n.lineno)
        for n in ast.walk(f.node):
            if isinstance(n, ast.Attribute) and isinstance(n.ctx, ast.Load) and isinstance(n.value, ast.Name) and n.value.id == "self":
                if n.attr.startswith("_") and not n.attr.startswith("__"):
                    if first_store.get(n.attr, 10**9) < n.lineno:
                        continue  # assigned earlier in the same method
                    reads.setdefault(n.attr, (f, n))
    methods = set(grid.methods) | set(grid.setters)
    cnt = 0
    for attr, (f, n) in sorted(reads.items()):
        if attr in methods:
            continue
        cnt += 1
        c = f"Grid:{attr}:initialised"
        if attr in assigned:
            run.holds(f"{rule_prefix}/attr-initialised", c, where(f, n), f"self.{attr} is assigned in __init__")
        else:
            run.violation(
                f"{rule_prefix}/attr-initialised", c, where(f, n),
                f"self.{attr} is read in Grid.{f.name} but never assigned in Grid.__init__: AttributeError on a fresh grid, and its value depends on call history",
            )
    return cnt


def derived_variable_names(program):
    """names of the grid variables that Grid derives lazily: properties of Grid whose body tests  "<name>" not in self._ds  and returns self._ds["<name>"]"""
    out = set()
    ci = program.cls(f"{GRID}:Grid")
    for name, f in ci.methods.items():
        if not any("property" in d for d in f.decorators):
            continue
        rets = [r for r in ast.walk(f.node) if isinstance(r, ast.Return) and isinstance(r.value, ast.Subscript) and str_const(r.value.slice) == name]
        tests = [t for t in ast.walk(f.node) if isinstance(t, ast.Compare) and str_const(t.left) == name]
        if rets and tests:
            out.add(name)
    return out


def check_single_deriver(run, program, rule_prefix="F-LAZY"):
    """Who may derive a grid variable: a lazily derived variable (node_lon, face_x, edge_node_connectivity, bounds ...) is computed in ONE place, its _populate_*/_build_*
    routine behind the Grid property.  An exporter (io `_encode_*`) that computes a missing one by its own formula creates a second derivation that can disagree with what
    the Grid reports (other wrap, other normalisation), and then an export made before the property was read differs from one made after."""
    derived = derived_variable_names(program)
    n = 0
    for f in program.all_functions():
        if not (f.module.relpath.startswith("uxarray/io/") and f.name.startswith("_encode")):
            continue
        stores = [(k, st) for k, st, _a, _fl in stores_with_guards_any(f.node)]
        own = [(k, st) for k, st in stores if k in derived]
        c = f"{f.key}:derives-no-grid-variable"
        n += 1
        if own:
            k, st = own[0]
            run.violation(f"{rule_prefix}/single-deriver", c, where(f, st), f'the exporter stores "{k}" itself: this is a second derivation of a variable the Grid derives through its property {k} '
                          "(possibly with another longitude wrap / normalisation); the export then depends on whether the property was read before")
        else:
            run.holds(f"{rule_prefix}/single-deriver", c, where(f), f"stores none of the {len(derived)} lazily derived grid variables")
    return n


def stores_with_guards_any(fnode):
    """like stores_with_guards but for  <any name>["k"] = ...  (the encoders work on a local dataset)"""
    out = []
    for st in ast.walk(fnode):
        if isinstance(st, ast.Assign) and len(st.targets) == 1 and isinstance(st.targets[0], ast.Subscript) and str_const(st.targets[0].slice) is not None \
                and isinstance(st.targets[0].value, (ast.Name, ast.Attribute)):
            out.append((str_const(st.targets[0].slice), st, set(), set()))
    return out
