"""F-NJIT: constructs whose meaning differs between numba-compiled and interpreted execution."""

from __future__ import annotations

import ast

from ..astutil import iter_stmts, norm, where
from ..loader import dotted

# identity comparisons whose operand is proven never to be the sentinel (dead in both modes); one line of reason each
PROVEN_NON_SENTINEL = {
    ("uxarray/grid/dual.py:construct_faces", "temp_face[0]"): "temp_face is filled from node_face_connectivity[i][0:n_edges[i]], n_edges = count of non-fill entries",
    ("uxarray/grid/dual.py:_order_nodes", "_cur_face_temp_idx"): "temp_face[j], j < n_edges, entries copied from the valid prefix",
}


def _is_sentinel_or_number(n):
    if isinstance(n, ast.Name) and n.id == "INT_FILL_VALUE":
        return True
    if isinstance(n, ast.Attribute) and n.attr == "INT_FILL_VALUE":
        return True
    if isinstance(n, ast.Constant) and isinstance(n.value, (int, float)) and not isinstance(n.value, bool):
        return True
    if isinstance(n, ast.UnaryOp) and isinstance(n.operand, ast.Constant) and isinstance(n.operand.value, (int, float)):
        return True
    return False


def check_identity_comparisons(run, program, files=None, rule="F-NJIT/identity-compare"):
    n = 0
    for f in program.all_functions():
        if files is not None and f.module.relpath not in files:
            continue
        if not f.is_njit:
            continue
        for c in ast.walk(f.node):
            if isinstance(c, ast.Compare) and len(c.ops) == 1 and isinstance(c.ops[0], (ast.Is, ast.IsNot)):
                a, b = c.left, c.comparators[0]
                other = None
                if _is_sentinel_or_number(b):
                    other = a
                elif _is_sentinel_or_number(a):
                    other = b
                if other is None:
                    continue
                n += 1
                key = f"{f.key}:identity:{norm(other)}"
                reason = PROVEN_NON_SENTINEL.get((f.key, norm(other)))
                if reason:
                    run.note(rule, key, where(f, c), f"identity comparison with a number in an @njit function; operand proven non-sentinel ({reason}): same outcome compiled or interpreted")
                else:
                    run.violation(
                        rule, key, where(f, c),
                        f"'{norm(c)}' in an @njit function: compiled code compares by value, the interpreter by object identity "
                        "(always unequal for numpy scalars), so the branch differs with JIT on/off whenever the operand can equal the number",
                    )
    return n


def prange_loops(f):
    for st in iter_stmts(f.node.body):
        if isinstance(st, ast.For) and isinstance(st.iter, ast.Call):
            d = dotted(st.iter.func)
            if d and d[-1] == "prange":
                yield st


def check_prange_race_free(run, program, func_key, rule="F-NJIT/prange-race-free"):
    """In a prange loop every array write is subscripted by the loop variable (first index), no other
    iteration's element of a written array is read, and no scalar defined before the loop is reassigned."""
    f = program.func(func_key)
    loops = list(prange_loops(f))
    if not loops:
        run.note(rule, f"{f.key}:prange", where(f), "no prange loop (sequential): nothing to decide")
        return 0
    n = 0
    for lp in loops:
        if not isinstance(lp.target, ast.Name):
            run.incomplete(rule, f"{f.key}:prange-target", where(f, lp), "loop target is not a simple name")
            continue
        iv = lp.target.id
        written = set()
        local_scalars = set()
        problems = []
        for st in iter_stmts(lp.body):
            targets = []
            if isinstance(st, ast.Assign):
                targets = st.targets
            elif isinstance(st, ast.AugAssign):
                targets = [st.target]
            for t in targets:
                if isinstance(t, ast.Subscript):
                    base = t.value
                    while isinstance(base, ast.Subscript):
                        base = base.value
                    nm = norm(base)
                    written.add(nm)
                    idx = t.slice.elts[0] if isinstance(t.slice, ast.Tuple) else t.slice
                    if not (isinstance(idx, ast.Name) and idx.id == iv):
                        problems.append((st, f"write {norm(t)} is not indexed by the loop variable '{iv}' (iterations may write the same element)"))
                elif isinstance(t, ast.Name):
                    local_scalars.add(t.id)
        # scalars assigned in the loop must not be defined before the loop (carried dependence), numba reductions (+=) aside
        pre = set()
        for st in iter_stmts(f.node.body):
            if st is lp:
                break
            if isinstance(st, ast.Assign):
                for t in st.targets:
                    if isinstance(t, ast.Name):
                        pre.add(t.id)
        for st in iter_stmts(lp.body):
            if isinstance(st, ast.Assign):
                for t in st.targets:
                    if isinstance(t, ast.Name) and t.id in pre:
                        problems.append((st, f"scalar '{t.id}' defined before the loop is reassigned inside it (loop-carried state under prange)"))
        for st in iter_stmts(lp.body):
            for sub in ast.walk(st):
                if isinstance(sub, ast.Subscript) and isinstance(sub.ctx, ast.Load):
                    base = sub.value
                    while isinstance(base, ast.Subscript):
                        base = base.value
                    if norm(base) in written:
                        idx = sub.slice.elts[0] if isinstance(sub.slice, ast.Tuple) else sub.slice
                        if not (isinstance(idx, ast.Name) and idx.id == iv):
                            problems.append((st, f"read {norm(sub)} of an array written in the loop at an index other than '{iv}'"))
        n += 1
        c = f"{f.key}:prange[{iv}]"
        if problems:
            st, msg = problems[0]
            run.violation(rule, c, where(f, st), msg, facts={"all": [m for _, m in problems]})
        else:
            run.holds(rule, c, where(f, lp), f"all writes indexed by '{iv}', no cross-iteration reads, no carried scalars")
    return n
