"""F-CACHE: memo-key completeness and atomic side tables for the Grid memo methods."""

from __future__ import annotations

import ast

from ..astutil import iter_stmts, names_in, norm, str_const, where
from ..loader import FuncInfo, dotted

GRID = "uxarray/grid/grid.py"

# parameters that control caching itself / output form and never influence the memoised object
CONTROL = {"self", "cache", "override", "reconstruct", "return_indices", "return_non_nan_polygon_indices"}


def _slot_key(node, slot):
    """'k' when node is  self.<slot>["k"]"""
    if isinstance(node, ast.Subscript) and isinstance(node.value, ast.Attribute) and node.value.attr == slot:
        return str_const(node.slice)
    return None


def _param_uses(expr, params):
    return {n for n in names_in(expr) if n in params}


def check_collection_memo(run, program, method, slot, primary, builder_name, rule_prefix="F-CACHE"):
    """Memo of the form  self.<slot>[...] (dict of cached parameters).
    P = parameters flowing into the builder call or into statements between builder and store
    K = keys compared with a same-named parameter in the reuse guard
    S = keys stored under `if cache:` with the same-named parameter as value."""
    f = program.func(f"{GRID}:Grid.{method}")
    params = set(f.all_param_names())
    kwname = f.node.args.kwarg.arg if f.node.args.kwarg else None
    body = f.node.body
    # derived locals:  project = kwargs.get("project", True)  -> pseudo-parameter kwargs[project]
    derived = {}
    for st in iter_stmts(body):
        if isinstance(st, ast.Assign) and len(st.targets) == 1 and isinstance(st.targets[0], ast.Name):
            v = st.value
            if isinstance(v, ast.Call) and isinstance(v.func, ast.Attribute) and v.func.attr == "get" and isinstance(v.func.value, ast.Name) and v.func.value.id == kwname and v.args:
                k = str_const(v.args[0])
                if k:
                    derived[st.targets[0].id] = f"{kwname}[{k}]"
    # ---- K: compared keys
    K = {}
    for n in ast.walk(f.node):
        if isinstance(n, ast.Compare) and len(n.ops) == 1 and isinstance(n.ops[0], (ast.NotEq, ast.Eq, ast.IsNot, ast.Is)):
            for a, b in ((n.left, n.comparators[0]), (n.comparators[0], n.left)):
                k = _slot_key(a, slot)
                if k is not None and isinstance(b, ast.Name) and (b.id in params or b.id in derived):
                    K[k] = (b.id, n)
    # ---- builder call and P
    builder = None
    for n in ast.walk(f.node):
        if isinstance(n, ast.Call):
            d = dotted(n.func)
            if d and d[-1] == builder_name:
                builder = n
    c0 = f"Grid.{method}:memo"
    if builder is None:
        run.incomplete(f"{rule_prefix}/builder", c0, where(f), f"builder call {builder_name}(...) not found")
        return
    P = {}
    for a in builder.args:
        for nm in _param_uses(a, params | set(derived)):
            P[nm] = builder
    for k in builder.keywords:
        if k.arg is None:
            P["**" + norm(k.value)] = builder
        else:
            for nm in _param_uses(k.value, params | set(derived)):
                P[nm] = builder
    # statements after the builder and before the return that transform the cached value
    after = False
    for st in body:
        if any(n is builder for n in ast.walk(st)):
            after = True
            continue
        if after and isinstance(st, ast.If):
            stores_slot = any(_slot_key(t, slot) for s2 in iter_stmts(st.body) if isinstance(s2, ast.Assign) for t in s2.targets)
            if not stores_slot and not any(isinstance(s2, ast.Return) for s2 in iter_stmts(st.body)):
                for nm in _param_uses(st.test, params | set(derived)):
                    P[nm] = st
    # ---- S: stored keys (and the condition they are stored under)
    S = {}
    for st in iter_stmts(body):
        if isinstance(st, ast.Assign):
            for t in st.targets:
                k = _slot_key(t, slot)
                if k is not None:
                    S.setdefault(k, []).append(st)
    run.stats.setdefault("memo_tables", {})[method] = {
        "P": sorted(P), "K": sorted(K), "S": sorted(S),
    }
    # ---- obligations
    bypass = _kwargs_bypass(f, kwname, slot, builder)
    for p in sorted(P):
        if p in CONTROL:
            continue
        c = f"Grid.{method}:key-covers:{p}"
        if p.startswith("**") and p[2:] == kwname and bypass:
            run.holds(f"{rule_prefix}/key-complete", c, where(f, bypass),
                      f"non-empty {p} forces the rebuild path (override = True) and disables the store (cache = False): cached objects are always built without keyword arguments")
            continue
        if p.startswith("**"):
            run.violation(
                f"{rule_prefix}/key-complete", c, where(f, builder),
                f"{p} is forwarded to the builder of the memoised object but is not part of the reuse test: a later call with different keyword arguments gets the object built for the earlier ones",
            )
            continue
        keyed = any(v[0] == p for v in K.values())
        if keyed:
            run.holds(f"{rule_prefix}/key-complete", c, where(f, builder), f"parameter {p} is compared with the stored key")
        else:
            label = derived.get(p, p)
            run.violation(
                f"{rule_prefix}/key-complete", c, where(f, P[p]),
                f"parameter {label} influences the memoised {primary} but the reuse test never compares it: a call with a different {label} returns the stale object",
            )
    for k, (pname, cmpnode) in sorted(K.items()):
        c = f"Grid.{method}:key-stored:{k}"
        sts = S.get(k, [])
        good = [st for st in sts if isinstance(st.value, ast.Name) and st.value.id == pname]
        if good:
            run.holds(f"{rule_prefix}/key-stored", c, where(f, good[0]), f'slot["{k}"] is stored from parameter {pname}')
        else:
            run.violation(
                f"{rule_prefix}/key-stored", c, where(f, cmpnode),
                f'the reuse test compares slot["{k}"] with {pname} but the memo never stores it: the comparison is always against the initial None, '
                f"so after caching with {pname}=X a call with {pname}=None reuses the object built for X",
            )
    # primary stored under the cache flag
    prim = S.get(primary, [])
    c = f"Grid.{method}:primary-stored"
    if prim:
        run.holds(f"{rule_prefix}/primary", c, where(f, prim[0]), f'slot["{primary}"] is filled')
    else:
        run.incomplete(f"{rule_prefix}/primary", c, where(f), f'no store of slot["{primary}"] found')


def _implied_false(test, name):
    """True when `test` being true implies that local `name` is false ( ... and not name ... )."""
    from ..flow import _split_test
    return any(isinstance(t, ast.Name) and t.id == name and v is False for t, v in _split_test(test, True))


def _implied_true(test, name):
    from ..flow import _split_test
    return any(isinstance(t, ast.Name) and t.id == name and v is True for t, v in _split_test(test, True))


def _guards(body, target, acc=()):
    """Tests (test, truth) of the enclosing ifs of statement `target` inside `body`, or None."""
    for st in body:
        if st is target:
            return list(acc)
        if isinstance(st, ast.If):
            r = _guards(st.body, target, acc + ((st.test, True),))
            if r is not None:
                return r
            r = _guards(st.orelse, target, acc + ((st.test, False),))
            if r is not None:
                return r
        elif isinstance(st, (ast.For, ast.While, ast.With, ast.Try)):
            for fld in ("body", "orelse", "finalbody"):
                r = _guards(getattr(st, fld, []) or [], target, acc)
                if r is not None:
                    return r
    return None


def _kwargs_bypass(f, kwname, slot, builder):
    """The statement  `if <kwargs>: override = True; cache = False`  placed before every reuse return and
    before the builder, provided every reuse return requires `not override` and every store into the slot
    requires `cache`.  Returns the if-statement or None."""
    if kwname is None:
        return None
    body = f.node.body
    cand = None
    for i, st in enumerate(body):
        if any(n is builder for n in ast.walk(st)):
            break
        if any(isinstance(x, ast.Return) for x in iter_stmts([st])) and cand is None:
            return None  # a return precedes the bypass
        if isinstance(st, ast.If) and isinstance(st.test, ast.Name) and st.test.id == kwname and not st.orelse:
            sets = {}
            for s2 in st.body:
                if isinstance(s2, ast.Assign) and len(s2.targets) == 1 and isinstance(s2.targets[0], ast.Name) and isinstance(s2.value, ast.Constant):
                    sets[s2.targets[0].id] = s2.value.value
            if sets.get("override") is True and sets.get("cache") is False:
                cand = st
                # no later rebinding of override to False / cache to True
                for later in iter_stmts(body[i + 1:]):
                    if isinstance(later, ast.Assign) and len(later.targets) == 1 and isinstance(later.targets[0], ast.Name):
                        if later.targets[0].id == "override" and not (isinstance(later.value, ast.Constant) and later.value.value is True):
                            return None
                        if later.targets[0].id == "cache":
                            return None
    if cand is None:
        return None
    for st in iter_stmts(body):
        if isinstance(st, ast.Return) and st.value is not None and any(_slot_key(n, slot) for n in ast.walk(st.value)):
            g = _guards(body, st) or []
            if not any(truth and _implied_false(t, "override") for t, truth in g):
                return None
        if isinstance(st, ast.Assign) and any(_slot_key(t, slot) for t in st.targets):
            g = _guards(body, st) or []
            if not any(truth and _implied_true(t, "cache") for t, truth in g):
                return None
    return cand


def check_side_tables(run, program, slots, rule_prefix="F-CACHE"):
    """Writes to a Grid memo slot outside the Grid method that owns the `cache` flag (i.e. in builder
    functions that do not receive it) happen even when cache=False: the slot's tables then describe an
    object that was never cached."""
    n = 0
    for f in program.all_functions():
        if f.cls is not None and f.cls.name == "Grid":
            continue
        for st in iter_stmts(f.node.body):
            if isinstance(st, ast.Assign):
                for t in st.targets:
                    if isinstance(t, ast.Subscript) and isinstance(t.value, ast.Attribute) and t.value.attr in slots:
                        k = str_const(t.slice)
                        n += 1
                        has_flag = "cache" in f.all_param_names()
                        c = f"{f.key}:side-table:{t.value.attr}[{k}]"
                        if has_flag:
                            run.holds(f"{rule_prefix}/side-table-atomic", c, where(f, st), "builder receives the cache flag")
                        else:
                            run.violation(
                                f"{rule_prefix}/side-table-atomic", c, where(f, st),
                                f'{t.value.attr}["{k}"] is written by the builder unconditionally (it does not receive the cache flag): '
                                "with cache=False the side table is replaced while the cached primary object is kept, so later cached results are paired with the wrong table",
                            )
    return n


def check_tree_memo(run, program, method, slot, cls_name, rule_prefix="F-CACHE"):
    """get_ball_tree / get_kd_tree: every parameter passed to the tree constructor must be compared with
    the cached tree's state on the reuse path (or force a rebuild)."""
    f = program.func(f"{GRID}:Grid.{method}")
    params = [p for p in f.all_param_names() if p != "self"]
    ctor = None
    for n in ast.walk(f.node):
        if isinstance(n, ast.Call):
            d = dotted(n.func)
            if d and d[-1] == cls_name:
                ctor = n
    c0 = f"Grid.{method}:memo"
    if ctor is None:
        run.incomplete(f"{rule_prefix}/builder", c0, where(f), f"constructor call {cls_name}(...) not found")
        return
    P = set()
    for a in ctor.args:
        P |= _param_uses(a, set(params))
    for k in ctor.keywords:
        P |= _param_uses(k.value, set(params))
    compared = set()
    forcing = set()
    from ..astutil import LocalDefs
    ldefs = LocalDefs(f.node)
    for n in ast.walk(f.node):
        if isinstance(n, ast.Compare):
            involved = _param_uses(n, set(params))
            # the comparison reads the cached object: directly (self._slot.x) or through a local bound to it
            behind, _names = ldefs.closure(n)
            mentions_slot = any(isinstance(x, ast.Attribute) and x.attr == slot for e in behind for x in ast.walk(e))
            if mentions_slot:
                compared |= involved
        if isinstance(n, ast.If):
            # a parameter used bare in the rebuild test forces a rebuild
            # a parameter that is a boolean atom of the rebuild/reuse test (at any nesting of not/and/or: `reconstruct`, `not reconstruct`,
            # `not (cached is not None and not reconstruct and ...)`) decides between building and reusing
            from ..flow import bool_atoms
            for v in bool_atoms(n.test):
                if isinstance(v, ast.Name) and v.id in params:
                    forcing.add(v.id)
    run.stats.setdefault("memo_tables", {})[method] = {"P": sorted(P), "K": sorted(compared | forcing)}
    for p in sorted(P):
        c = f"Grid.{method}:key-covers:{p}"
        if p in forcing:
            run.holds(f"{rule_prefix}/key-complete", c, where(f), f"{p} forces a rebuild", nontrivial=False)
        elif p in compared:
            run.holds(f"{rule_prefix}/key-complete", c, where(f), f"{p} is compared with the cached tree's state")
        else:
            run.violation(
                f"{rule_prefix}/key-complete", c, where(f, ctor),
                f"{p} is passed to {cls_name}(...) when the tree is built but ignored when a cached tree exists: "
                f"the tree handed back does not reflect the {p} requested in this call",
            )


# functions that may READ a conversion memo slot: the Grid method owning it and the data conversion that consumes its side tables
SLOT_READERS = {
    "_gdf_cached_parameters": {"Grid.to_geodataframe", "UxDataArray.to_geodataframe", "Grid.__init__"},
    "_poly_collection_cached_parameters": {"Grid.to_polycollection", "UxDataArray.to_polycollection", "Grid.__init__"},
    "_line_collection_cached_parameters": {"Grid.to_linecollection", "Grid.__init__"},
}


def check_slot_readers(run, program, rule_prefix="F-CACHE"):
    """A memo slot of one conversion holds state of the LAST conversion's arguments (projection-shifted antimeridian faces ...).
    Any other function that reads it makes a grid property or another operation depend on the conversion history."""
    n = 0
    for f in program.all_functions():
        store_bases = {id(n2.value) for n2 in ast.walk(f.node) if isinstance(n2, ast.Subscript) and isinstance(n2.ctx, (ast.Store, ast.Del))}
        sub_bases = {id(n2.value) for n2 in ast.walk(f.node) if isinstance(n2, ast.Subscript)}
        # the slot object itself taken as a value (aliased, iterated, passed on): a read of everything in it
        for node in ast.walk(f.node):
            if isinstance(node, ast.Attribute) and node.attr in SLOT_READERS and isinstance(node.ctx, ast.Load) and id(node) not in sub_bases and id(node) not in store_bases:
                if f.qualname not in SLOT_READERS[node.attr]:
                    n += 1
                    run.violation(f"{rule_prefix}/slot-readers", f"{f.key}:reads:{node.attr}[*]", where(f, node),
                                  f"{f.qualname} takes the memo slot {node.attr} as a value (alias/iteration): state left behind by the last conversion is read outside the conversion that owns it, "
                                  "so the result depends on which conversions ran before")
        for node in ast.walk(f.node):
            if isinstance(node, ast.Subscript) and isinstance(node.ctx, ast.Load) and isinstance(node.value, ast.Attribute) and node.value.attr in SLOT_READERS:
                n += 1
                slot = node.value.attr
                c = f"{f.key}:reads:{slot}[{str_const(node.slice)}]"
                if f.qualname in SLOT_READERS[slot]:
                    run.holds(f"{rule_prefix}/slot-readers", c, where(f, node), f"{f.qualname} owns/consumes {slot}", nontrivial=False)
                else:
                    run.violation(f"{rule_prefix}/slot-readers", c, where(f, node),
                                  f"{f.qualname} reads {slot}[{str_const(node.slice)!r}], state left behind by the last conversion (computed for that call's projection/periodic handling): "
                                  "what it returns now depends on which conversions ran before")
    return n


def check_side_tables_total(run, program, slots, rule_prefix="F-CACHE"):
    """a builder that writes a side table writes it on EVERY returning path: a table written only under a condition keeps the value
    of an earlier conversion on the other paths (e.g. non-NaN indices of a projected build filtering the data of a later unprojected one)"""
    from ..flow import enumerate_paths
    n = 0
    for f in program.all_functions():
        if f.cls is not None and f.cls.name == "Grid":
            continue
        keys = {}
        for st in iter_stmts(f.node.body):
            if isinstance(st, ast.Assign):
                for t in st.targets:
                    if isinstance(t, ast.Subscript) and isinstance(t.value, ast.Attribute) and t.value.attr in slots and str_const(t.slice):
                        keys[(t.value.attr, str_const(t.slice))] = st
        if not keys:
            continue
        try:
            paths = [p for p in enumerate_paths(f.node.body) if p.exit == "return" or p.exit == "fall"]
        except Exception:
            continue
        for (slot, k), st in sorted(keys.items()):
            n += 1
            c = f"{f.key}:side-table-total:{slot}[{k}]"
            missing = 0
            for p in paths:
                hit = any(isinstance(e, ast.Assign) and any(isinstance(t, ast.Subscript) and isinstance(t.value, ast.Attribute) and t.value.attr == slot and str_const(t.slice) == k for t in e.targets) for e in p.events)
                if not hit:
                    missing += 1
            if missing:
                run.violation(f"{rule_prefix}/side-table-total", c, where(f, st), f'{slot}["{k}"] is written on {len(paths) - missing} of {len(paths)} returning paths only: on the others the table of an earlier conversion (other projection) stays and is applied to this one')
            else:
                run.holds(f"{rule_prefix}/side-table-total", c, where(f, st), f"written on all {len(paths)} returning paths")
    return n
