"""Syntax-directed abstract interpreter over the uxarray sources (no execution).

Values are facet records (av.AV).  Interprocedural by context-sensitive descent with a depth
bound and memoisation.  Rules subscribe to events (gather, call, store, ...)."""

from __future__ import annotations

import ast

from .astutil import norm, str_const
from .av import (
    AV,
    DIM_OF,
    FRESH,
    GRID_COUNTS,
    KINDS,
    TOP,
    is_schema_var,
    join,
    join_all,
    schema_av,
)
from .loader import ClassInfo, ConstInfo, External, FuncInfo, ModuleRef, Sym, dotted

GRID_PARAMS = {"grid", "uxgrid", "source_grid", "destination_grid", "sliced_grid"}
UXDA_PARAMS = {"uxda", "source_uxda"}
DS_PARAMS = {"in_ds", "ext_ds", "ds", "grid_ds", "dataset", "exo_ds"}
CLASS_KIND = {"Grid": "grid", "UxDataArray": "uxda", "UxDataset": "uxds", "BallTree": "tree", "KDTree": "tree"}

NP = ("numpy.", "np.")


class Frame:
    def __init__(self, func: FuncInfo, env, depth, stack, interp):
        self.func = func
        self.env = env
        self.depth = depth
        self.stack = stack  # tuple of (FuncInfo caller, call node)
        self.returns = []
        self.interp = interp
        self.facts = {}  # normalised condition text -> bool (current branch)

    def root_site(self, node):
        """(function, node) to attribute an event to: the outermost call site of the descent."""
        if self.stack:
            return self.stack[0]
        return (self.func, node)


class Interp:
    def __init__(self, program, max_depth=3):
        self.P = program
        self.max_depth = max_depth
        self.listeners = []
        self.memo = {}
        self.in_progress = set()
        self.stats = {"calls_resolved": 0, "calls_external": 0, "calls_unresolved": 0, "functions_analysed": 0}
        g = program.modules.get("uxarray.grid.grid")
        self.grid_cls = g.defs.get("Grid") if g else None
        self.grid_props = set()
        if isinstance(self.grid_cls, ClassInfo):
            self.grid_props = {n for n, f in self.grid_cls.methods.items() if f.is_property}
        self.analysed = set()

    # ------------------------------------------------------------------ events
    def emit(self, kind, fr, node, **payload):
        for l in self.listeners:
            l(kind, fr, node, payload)

    # ------------------------------------------------------------------ entry
    def seed_param(self, func: FuncInfo, name):
        if name == "self" and func.cls is not None:
            k = CLASS_KIND.get(func.cls.name)
            return AV(kind=k, cls=func.cls) if k else AV(cls=func.cls)
        if name == "cls" and func.cls is not None:
            return AV(kind="class", cls=func.cls)
        if name in GRID_PARAMS:
            return AV(kind="grid", origins=frozenset({("param", name)}))
        if name in UXDA_PARAMS:
            return AV(kind="uxda", origins=frozenset({("param", name)}))
        if name in DS_PARAMS:
            return AV(kind="ds", dsof=f"param:{name}", origins=frozenset({("param", name)}))
        return AV(origins=frozenset({("param", name)}))

    def analyse_entry(self, func: FuncInfo, overrides=None):
        env = {}
        for p in func.all_param_names():
            env[p] = self.seed_param(func, p)
        if overrides:
            env.update(overrides)
        return self.run_function(func, env, 0, ())

    def run_function(self, func, env, depth, stack):
        fr = Frame(func, dict(env), depth, stack, self)
        self.stats["functions_analysed"] += 1
        self.analysed.add(func.key)
        self.exec_block(func.node.body, fr)
        fr.ret = join_all(fr.returns) if fr.returns else AV(kind="none")
        return fr

    # ------------------------------------------------------------------ statements
    def exec_block(self, stmts, fr: Frame):
        for st in stmts:
            self.exec_stmt(st, fr)

    def exec_stmt(self, st, fr: Frame):
        if isinstance(st, ast.Assign):
            v = self.eval(st.value, fr)
            for t in st.targets:
                self.assign(t, v, fr, st)
        elif isinstance(st, ast.AnnAssign):
            if st.value is not None:
                self.assign(st.target, self.eval(st.value, fr), fr, st)
        elif isinstance(st, ast.AugAssign):
            tv = self.eval(st.target, fr)
            v = self.eval(st.value, fr)
            self.emit("augassign", fr, st, target=tv, value=v, target_node=st.target)
            if isinstance(st.target, ast.Name):
                # in-place for arrays: identity kept
                fr.env[st.target.id] = self.binop_result(tv, v, st.op, st).with_(origins=tv.origins)
        elif isinstance(st, ast.Expr):
            self.eval(st.value, fr)
        elif isinstance(st, ast.Return):
            v = self.eval(st.value, fr) if st.value is not None else AV(kind="none")
            self.emit("return", fr, st, value=v)
            fr.returns.append(v)
        elif isinstance(st, ast.If):
            self.exec_if(st, fr)
        elif isinstance(st, (ast.For, ast.AsyncFor)):
            it = self.eval(st.iter, fr)
            before = dict(fr.env)
            for _ in range(2):
                self.assign(st.target, self.iter_elem(it, st.iter, fr), fr, st)
                self.exec_block(st.body, fr)
                fr.env = self.join_env(before, fr.env)
            self.exec_block(st.orelse, fr)
        elif isinstance(st, ast.While):
            before = dict(fr.env)
            self.eval(st.test, fr)
            for _ in range(2):
                self.exec_block(st.body, fr)
                fr.env = self.join_env(before, fr.env)
            self.exec_block(st.orelse, fr)
        elif isinstance(st, ast.Try):
            before = dict(fr.env)
            self.exec_block(st.body, fr)
            self.exec_block(st.orelse, fr)
            after = dict(fr.env)
            for h in st.handlers:
                fr.env = dict(before)
                self.exec_block(h.body, fr)
                after = self.join_env(after, fr.env)
            fr.env = after
            self.exec_block(st.finalbody, fr)
        elif isinstance(st, (ast.With, ast.AsyncWith)):
            for it in st.items:
                v = self.eval(it.context_expr, fr)
                if it.optional_vars is not None:
                    self.assign(it.optional_vars, v, fr, st)
            self.exec_block(st.body, fr)
        elif isinstance(st, ast.Delete):
            for t in st.targets:
                if isinstance(t, ast.Subscript):
                    base = self.eval(t.value, fr)
                    self.emit("delitem", fr, st, base=base, target_node=t)
        elif isinstance(st, ast.Raise):
            if st.exc is not None:
                self.eval(st.exc, fr)
        elif isinstance(st, ast.Assert):
            self.eval(st.test, fr)
        # imports, pass, defs, global: nothing

    def terminates(self, body):
        from .astutil import always_terminates

        return always_terminates(body)

    def exec_if(self, st: ast.If, fr: Frame):
        self.eval(st.test, fr)
        cv = self.const_truth(st.test, fr)
        before = dict(fr.env)
        facts0 = dict(fr.facts)
        envs = []
        if cv is not False:
            fr.env = dict(before)
            fr.facts = dict(facts0)
            self.refine(st.test, True, fr)
            self.exec_block(st.body, fr)
            if not self.terminates(st.body):
                envs.append(fr.env)
        if cv is not True:
            fr.env = dict(before)
            fr.facts = dict(facts0)
            self.refine(st.test, False, fr)
            self.exec_block(st.orelse, fr)
            if not self.terminates(st.orelse):
                envs.append(fr.env)
        fr.facts = facts0
        if not envs:
            fr.env = before
        else:
            e = envs[0]
            for o in envs[1:]:
                e = self.join_env(e, o)
            if len(envs) == 2:
                # a name bound in BOTH arms, to degrees in one and to radians in the other, is a contradiction for any unit-specific consumer after the
                # branch (unlike `if flag: x = np.deg2rad(x)`, where one arm keeps the previous binding: that is flag-dependent and stays "unknown")
                for k_, a_ in envs[0].items():
                    b_ = envs[1].get(k_)
                    if (b_ is not None and isinstance(a_, AV) and isinstance(b_, AV) and a_.unit and b_.unit and a_.unit != b_.unit
                            and a_ is not before.get(k_) and b_ is not before.get(k_)):
                        e[k_] = e[k_].with_(unit="deg|rad")
            fr.env = e
        # a branch that terminated leaves its negated condition as a fact
        if cv is None:
            if self.terminates(st.body) and not self.terminates(st.orelse):
                self.refine(st.test, False, fr)
            elif st.orelse and self.terminates(st.orelse) and not self.terminates(st.body):
                self.refine(st.test, True, fr)

    def const_truth(self, test, fr):
        """True/False when the test folds to a constant under the current environment."""
        v = self.eval_quiet(test, fr)
        if v is not None and v.const is not None:
            c = v.const[1]
            if isinstance(c, (bool, int, str)) or c is None:
                return bool(c)
        if isinstance(test, ast.UnaryOp) and isinstance(test.op, ast.Not):
            r = self.const_truth(test.operand, fr)
            return None if r is None else (not r)
        if isinstance(test, ast.Compare) and len(test.ops) == 1:
            a = self.eval_quiet(test.left, fr)
            b = self.eval_quiet(test.comparators[0], fr)
            if a is not None and b is not None and a.const is not None and b.const is not None:
                x, y = a.const[1], b.const[1]
                if isinstance(x, Sym) or isinstance(y, Sym):
                    return None
                op = test.ops[0]
                try:
                    if isinstance(op, ast.Eq):
                        return x == y
                    if isinstance(op, ast.NotEq):
                        return x != y
                    if isinstance(op, ast.Gt):
                        return x > y
                    if isinstance(op, ast.Lt):
                        return x < y
                    if isinstance(op, ast.GtE):
                        return x >= y
                    if isinstance(op, ast.LtE):
                        return x <= y
                    if isinstance(op, ast.Is):
                        return x is y
                    if isinstance(op, ast.IsNot):
                        return x is not y
                except TypeError:
                    return None
        return None

    def eval_quiet(self, node, fr):
        saved = self.listeners
        self.listeners = []
        try:
            return self.eval(node, fr)
        except RecursionError:
            return None
        finally:
            self.listeners = saved

    def refine(self, test, truth, fr: Frame):
        """Record branch facts; refine kinds (e.g. self._face_centered())."""
        if isinstance(test, ast.UnaryOp) and isinstance(test.op, ast.Not):
            return self.refine(test.operand, not truth, fr)
        if isinstance(test, ast.BoolOp):
            if (isinstance(test.op, ast.And) and truth) or (isinstance(test.op, ast.Or) and not truth):
                for v in test.values:
                    self.refine(v, truth, fr)
            return
        fr.facts[norm(test)] = truth
        # <uxda>._face_centered() etc.
        if isinstance(test, ast.Call) and isinstance(test.func, ast.Attribute) and not test.args:
            m = test.func.attr
            which = {"_face_centered": "face", "_node_centered": "node", "_edge_centered": "edge"}.get(m)
            if which and truth and isinstance(test.func.value, ast.Name):
                nm = test.func.value.id
                cur = fr.env.get(nm, TOP)
                if cur.kind == "uxda":
                    fr.env[nm] = cur.with_(axes=("...", which))
        # "n_face" in X.dims
        if isinstance(test, ast.Compare) and len(test.ops) == 1 and isinstance(test.ops[0], ast.In) and truth:
            s = str_const(test.left)
            c = test.comparators[0]
            if s in DIM_OF and isinstance(c, ast.Attribute) and c.attr == "dims" and isinstance(c.value, ast.Name):
                cur = fr.env.get(c.value.id, TOP)
                if cur.kind in ("uxda", "da"):
                    fr.env[c.value.id] = cur.with_(axes=("...", DIM_OF[s]))

    def join_env(self, a, b):
        out = {}
        for k in set(a) | set(b):
            if k in a and k in b:
                out[k] = join(a[k], b[k])
            else:
                out[k] = a.get(k) or b.get(k)
        return out

    def iter_elem(self, it: AV, node, fr):
        """Abstract element of iterating `it`."""
        if it.kind == "enum" and it.elts:
            return AV(kind="tuple", elts=it.elts, origins=FRESH)
        if it.elts:
            return join_all(it.elts)
        if it.kind in ("nd", "da", "list") and it.axes:
            rest = it.axes[1:]
            if rest:
                return it.with_(axes=rest, kind="nd")
            # scalar element
            if it.count:
                return AV(kind="int", count=it.count)
            if it.vals:
                return AV(kind="int", vals=it.vals, fill=it.fill)
            return AV(unit=it.unit, role=it.role)
        return TOP

    def assign(self, target, v: AV, fr: Frame, st):
        if isinstance(target, ast.Name):
            fr.env[target.id] = v
            self.emit("bind", fr, st, name=target.id, value=v, target_node=target)
        elif isinstance(target, (ast.Tuple, ast.List)):
            elts = v.elts
            for i, t in enumerate(target.elts):
                if isinstance(t, ast.Starred):
                    self.assign(t.value, TOP, fr, st)
                    continue
                if elts and len(elts) == len(target.elts):
                    self.assign(t, elts[i], fr, st)
                else:
                    self.assign(t, self.iter_elem(v, None, fr) if v.kind in ("nd", "da", "list") else TOP, fr, st)
            self.emit("unpack", fr, st, targets=target, value=v)
        elif isinstance(target, ast.Subscript):
            base = self.eval(target.value, fr)
            idx = self.eval_index(target.slice, fr)
            self.emit("setitem", fr, st, base=base, index=idx, value=v, target_node=target, base_node=target.value)
        elif isinstance(target, ast.Attribute):
            base = self.eval(target.value, fr)
            self.emit("setattr", fr, st, base=base, attr=target.attr, value=v, target_node=target)
            if isinstance(target.value, ast.Name) and target.value.id in ("self", "cls"):
                fr.env[f"{target.value.id}.{target.attr}"] = v

    # ------------------------------------------------------------------ expressions
    def eval(self, node, fr: Frame) -> AV:
        m = getattr(self, "e_" + type(node).__name__, None)
        if m is None:
            for ch in ast.iter_child_nodes(node):
                if isinstance(ch, ast.expr):
                    self.eval(ch, fr)
            return TOP
        r = m(node, fr)
        return r if r is not None else TOP

    def e_Constant(self, node, fr):
        v = node.value
        k = "str" if isinstance(v, str) else ("int" if isinstance(v, (int, bool)) and not isinstance(v, bool) else None)
        if v is None:
            return AV(kind="none", const=("c", None), origins=FRESH)
        return AV(kind=k, const=("c", v), origins=FRESH)

    def e_Name(self, node, fr):
        if node.id in fr.env:
            return fr.env[node.id]
        r = self.P.resolve_name(fr.func.module, node.id, fr.func)
        return self.entity_av(r)

    def entity_av(self, r):
        if isinstance(r, ConstInfo):
            val = self.P.const_value(r)
            kind = "dict" if isinstance(val, dict) else ("list" if isinstance(val, list) else None)
            mutable = isinstance(val, (dict, list, set)) or self._is_array_ctor(r.node)
            return AV(
                kind=kind,
                const=("c", val) if _hashable_ok(val) else None,
                origins=frozenset({("glob", r.key)}) if mutable else FRESH,
            )
        if isinstance(r, FuncInfo):
            return AV(kind="func", func=r)
        if isinstance(r, ClassInfo):
            return AV(kind="class", cls=r)
        if isinstance(r, External):
            return AV(kind="ext", const=("c", Sym(r.name)))
        return TOP

    def _is_array_ctor(self, node):
        if isinstance(node, ast.Call):
            d = dotted(node.func)
            return bool(d and d[-1] in ("array", "zeros", "ones", "empty", "full", "arange"))
        if isinstance(node, ast.Dict):
            return True
        return False

    def e_Tuple(self, node, fr):
        elts = tuple(self.eval(e, fr) for e in node.elts)
        return AV(kind="tuple", elts=elts, origins=FRESH)

    def e_List(self, node, fr):
        elts = tuple(self.eval(e, fr) for e in node.elts)
        j = join_all(elts) if elts else TOP
        return AV(kind="list", elts=elts, origins=FRESH, unit=j.unit, vals=j.vals, fill=j.fill)

    def e_Dict(self, node, fr):
        for k, v in zip(node.keys, node.values):
            if k is not None:
                self.eval(k, fr)
            self.eval(v, fr)
        return AV(kind="dict", origins=FRESH)

    def e_Set(self, node, fr):
        for e in node.elts:
            self.eval(e, fr)
        return AV(kind="set", origins=FRESH)

    def e_JoinedStr(self, node, fr):
        for v in node.values:
            if isinstance(v, ast.FormattedValue):
                self.eval(v.value, fr)
        return AV(kind="str", origins=FRESH)

    def e_IfExp(self, node, fr):
        self.eval(node.test, fr)
        cv = self.const_truth(node.test, fr)
        if cv is True:
            return self.eval(node.body, fr)
        if cv is False:
            return self.eval(node.orelse, fr)
        return join(self.eval(node.body, fr), self.eval(node.orelse, fr))

    def e_BoolOp(self, node, fr):
        vals = [self.eval(v, fr) for v in node.values]
        return AV(kind="bool")

    def e_UnaryOp(self, node, fr):
        v = self.eval(node.operand, fr)
        if isinstance(node.op, ast.Not):
            return AV(kind="bool")
        if isinstance(node.op, ast.Invert):
            return v.with_(origins=FRESH)
        if isinstance(node.op, ast.USub):
            if v.const is not None and isinstance(v.const[1], (int, float)):
                return AV(const=("c", -v.const[1]), origins=FRESH)
            return v.only("kind", "unit", "role", "axes").with_(origins=FRESH)
        return TOP

    def e_Compare(self, node, fr):
        left = self.eval(node.left, fr)
        rights = [self.eval(c, fr) for c in node.comparators]
        self.emit("compare", fr, node, left=left, rights=rights)
        if len(node.ops) == 1 and left.kind in ("nd", "da", "list"):
            r = rights[0]
            is_fill = r.const is not None and r.const[1] == Sym("INT_FILL_VALUE")
            tag = None
            if is_fill and isinstance(node.ops[0], ast.NotEq):
                tag = "nofill"
            elif is_fill and isinstance(node.ops[0], ast.Eq):
                tag = "isfill"
            return AV(kind="mask", axes=left.axes, derived=tag, origins=FRESH)
        return AV(kind="bool")

    def e_BinOp(self, node, fr):
        a = self.eval(node.left, fr)
        b = self.eval(node.right, fr)
        r = self.binop_result(a, b, node.op, node)
        # longitude range idioms:  (x + 180) % 360 - 180  -> norm ;  x % 360 / x % (2*pi) -> pos
        if isinstance(node.op, ast.Sub) and isinstance(node.left, ast.BinOp) and isinstance(node.left.op, ast.Mod):
            m = node.left
            if norm(node.right) in ("180", "180.0") and norm(m.right) in ("360", "360.0") and isinstance(m.left, ast.BinOp) \
                    and isinstance(m.left.op, ast.Add) and norm(m.left.right) in ("180", "180.0"):
                inner = self.eval_quiet(m.left.left, fr) or TOP
                return r.with_(rng="norm", unit=inner.unit or r.unit, role=inner.role or r.role)
        if isinstance(node.op, ast.Mod) and norm(node.right) in FULL_TURN:
            return r.with_(rng="pos")
        return r

    def binop_result(self, a: AV, b: AV, op, node):
        # constants
        if a.const is not None and b.const is not None:
            x, y = a.const[1], b.const[1]
            if isinstance(x, (int, float)) and isinstance(y, (int, float)) and not isinstance(x, bool):
                try:
                    if isinstance(op, ast.Add):
                        return AV(const=("c", x + y), origins=FRESH)
                    if isinstance(op, ast.Sub):
                        return AV(const=("c", x - y), origins=FRESH)
                    if isinstance(op, ast.Mult):
                        return AV(const=("c", x * y), origins=FRESH)
                except Exception:
                    pass
        arr = a if a.kind in ("nd", "da", "list", "mask") else (b if b.kind in ("nd", "da", "list", "mask") else None)
        if arr is None:
            # scalar arithmetic: keep unit when the other side is unit-less
            unit = a.unit if b.unit is None else (b.unit if a.unit is None else (a.unit if a.unit == b.unit else None))
            role = a.role if b.role in (None, a.role) else None
            if isinstance(op, (ast.Mult, ast.Div, ast.Pow, ast.Mod, ast.FloorDiv)):
                role = a.role if (b.const is not None or b.kind == "int") else None
                unit = a.unit if (b.const is not None and b.unit is None) else None
            return AV(unit=unit, role=role, origins=FRESH)
        other = b if arr is a else a
        out = AV(kind=arr.kind if arr.kind != "list" else "nd", axes=arr.axes, origins=FRESH)
        if isinstance(op, (ast.Add, ast.Sub)):
            unit = arr.unit if other.unit in (None, arr.unit) else None
            out = out.with_(unit=unit, role=arr.role if other.role in (None, arr.role) else None)
            # index arithmetic keeps the value space, loses the fill guarantee
            if arr.vals:
                conn = arr.conn
                if conn is not None:
                    conn = (conn[0], "other" if conn[1] == "std" else conn[1], "shifted")
                out = out.with_(vals=arr.vals, conn=conn)
        elif isinstance(op, (ast.Mult, ast.Div)):
            if other.const is not None or other.kind == "int":
                out = out.with_(role=arr.role)
        elif isinstance(op, ast.Mod):
            out = out.with_(unit=arr.unit, role=arr.role)
        return out

    def e_Lambda(self, node, fr):
        return AV(kind="func")

    def e_ListComp(self, node, fr):
        return self._comp(node, fr, node.elt)

    def e_GeneratorExp(self, node, fr):
        return self._comp(node, fr, node.elt)

    def e_SetComp(self, node, fr):
        return self._comp(node, fr, node.elt)

    def e_DictComp(self, node, fr):
        saved = dict(fr.env)
        for g in node.generators:
            it = self.eval(g.iter, fr)
            self.assign(g.target, self.iter_elem(it, g.iter, fr), fr, node)
            for c in g.ifs:
                self.eval(c, fr)
        self.eval(node.key, fr)
        self.eval(node.value, fr)
        fr.env = saved
        return AV(kind="dict", origins=FRESH)

    def _comp(self, node, fr, elt):
        # (f(a) for a in (x, y, z)) over a literal tuple of expressions: one abstract value per element (so that `x, y, z = (... for arr in (x, y, z))` keeps
        # what each name aliases); a conditional expression in the element joins its arms
        if len(node.generators) == 1 and not node.generators[0].ifs and isinstance(node.generators[0].iter, (ast.Tuple, ast.List)) and isinstance(node.generators[0].target, ast.Name) \
                and 0 < len(node.generators[0].iter.elts) <= 8:
            g = node.generators[0]
            saved = dict(fr.env)
            outs = []
            for item in g.iter.elts:
                fr.env = dict(saved)
                self.assign(g.target, self.eval(item, fr), fr, node)
                outs.append(self.eval(elt, fr))
            fr.env = saved
            j = join_all(outs)
            return AV(kind="list", elts=tuple(outs), unit=j.unit, role=j.role, vals=j.vals, fill=j.fill, origins=FRESH)
        saved = dict(fr.env)
        for g in node.generators:
            it = self.eval(g.iter, fr)
            self.assign(g.target, self.iter_elem(it, g.iter, fr), fr, node)
            for c in g.ifs:
                self.eval(c, fr)
        e = self.eval(elt, fr)
        fr.env = saved
        return AV(kind="list", elts=None, unit=e.unit, role=e.role, vals=e.vals, fill=e.fill, origins=FRESH)

    def e_Starred(self, node, fr):
        return self.eval(node.value, fr)

    def e_NamedExpr(self, node, fr):
        v = self.eval(node.value, fr)
        self.assign(node.target, v, fr, node)
        return v

    # ---- attribute
    def e_Attribute(self, node, fr):
        # module constants / functions reached through a dotted chain
        ch = dotted(node)
        if ch and len(ch) == 2 and f"{ch[0]}.{ch[1]}" in fr.env:
            return fr.env[f"{ch[0]}.{ch[1]}"]
        if ch and ch[0] not in fr.env:
            r = self.P.resolve_expr(fr.func.module, node, fr.func)
            if r is not None and not isinstance(r, ModuleRef):
                return self.entity_av(r)
        base = self.eval(node.value, fr)
        return self.attr_of(base, node.attr, node, fr)

    def attr_of(self, base: AV, attr, node, fr):
        k = base.kind
        if k == "grid":
            if attr == "_ds":
                return AV(kind="ds", dsof="grid", origins=frozenset({("grid_ds",)}))
            if attr in GRID_COUNTS:
                return AV(kind="int", count=GRID_COUNTS[attr], origins=FRESH)
            if is_schema_var(attr) or attr == "antimeridian_face_indices":
                self.emit("gridprop", fr, node, name=attr)
                return schema_av(attr).with_(origins=frozenset({("grid_ds",)}))
            if attr in ("_gdf_cached_parameters", "_poly_collection_cached_parameters", "_line_collection_cached_parameters"):
                return AV(kind="dict", origins=frozenset({("cache", attr)}))
            if attr in ("_ball_tree", "_kd_tree"):
                return AV(kind="tree", origins=frozenset({("cache", attr)}))
            if attr in ("subset", "cross_section", "plot"):
                return AV(kind="accessor")
            if self.grid_cls and attr in self.grid_cls.methods and not self.grid_cls.methods[attr].is_property:
                return AV(kind="func", func=self.grid_cls.methods[attr])
            return TOP
        if k in ("uxda", "uxds"):
            if attr in ("uxgrid", "_uxgrid"):
                return AV(kind="grid")
            if attr in ("values", "data"):
                return AV(kind="nd", axes=base.axes, origins=base.origins)
            if attr == "dims":
                return AV(kind="tuple")
            if base.cls is not None and attr in base.cls.methods and not base.cls.methods[attr].is_property:
                return AV(kind="func", func=base.cls.methods[attr])
            cls = self._class_for_kind(k)
            if cls is not None and attr in cls.methods and not cls.methods[attr].is_property:
                return AV(kind="func", func=cls.methods[attr])
            return TOP
        if k == "tree":
            if attr == "_source_grid":
                return AV(kind="grid")
            if base.cls is not None and attr in base.cls.methods and not base.cls.methods[attr].is_property:
                return AV(kind="func", func=base.cls.methods[attr], cls=base.cls)
            return TOP
        if k == "ds":
            if attr in ("attrs",):
                return AV(kind="dict", origins=base.origins, dsof=base.dsof)
            if attr in ("dims", "sizes", "variables", "data_vars", "coords"):
                return AV(kind="mapping", dsof=base.dsof)
            if attr in DS_METHODS:
                return AV(kind="dsmethod", dsof=base.dsof, origins=base.origins, const=("c", attr))
            return self.ds_var(base, attr, node, fr)
        if k == "da":
            if attr in ("values", "data"):
                return base.with_(kind="nd")
            if attr == "attrs":
                return AV(kind="dict", origins=base.origins, var=base.var, dsof=base.dsof)
            if attr == "T":
                return base.with_(axes=tuple(reversed(base.axes)) if base.axes else None)
            if attr in ("shape", "dims", "sizes"):
                return AV(kind="tuple", axes=base.axes)
            if attr in ("size", "ndim"):
                return AV(kind="int")
            if attr == "dtype":
                return AV(kind="dtype", conn=base.conn)
            if attr in ("start_index", "_FillValue", "units", "node_coordinates", "face_coordinates", "edge_coordinates",
                        "node_dimension", "face_dimension", "edge_dimension"):
                return AV(kind="attrvalue", src=frozenset({attr}))
            return AV(kind="damethod", const=("c", attr)).with_(**{kk: vv for kk, vv in base.items() if kk not in ("kind", "const")})
        if k in ("nd", "list", "mask"):
            if attr == "T":
                return base.with_(axes=tuple(reversed(base.axes)) if base.axes else None)
            if attr == "shape":
                return AV(kind="tuple", axes=base.axes)
            if attr in ("size", "ndim"):
                return AV(kind="int")
            if attr == "dtype":
                return AV(kind="dtype", conn=base.conn)
            return AV(kind="ndmethod", const=("c", attr)).with_(**{kk: vv for kk, vv in base.items() if kk not in ("kind", "const")})
        if k == "dict":
            return AV(kind="dictmethod", const=("c", attr), origins=base.origins)
        if base.cls is not None:
            ci = base.cls
            if attr in ci.methods:
                f = ci.methods[attr]
                if f.is_property:
                    return TOP
                return AV(kind="func", func=f, cls=ci)
        if base.origins and any(o[0] == "param" for o in base.origins):
            # attribute of an untyped parameter: keep the origin (may be a view such as .values/.data/.T)
            if attr in ("values", "data", "T"):
                return AV(origins=base.origins)
            if attr == "attrs":
                return AV(kind="dict", origins=base.origins)
            return AV(kind="method?", const=("c", attr), origins=base.origins)
        return TOP

    def _class_for_kind(self, k):
        modname, cn = {"uxda": ("uxarray.core.dataarray", "UxDataArray"), "uxds": ("uxarray.core.dataset", "UxDataset")}.get(k, (None, None))
        if modname and modname in self.P.modules:
            c = self.P.modules[modname].defs.get(cn)
            return c if isinstance(c, ClassInfo) else None
        return None

    def ds_var(self, ds: AV, key, node, fr):
        if ds.dsof == "grid":
            return schema_av(key).with_(origins=frozenset({("grid_ds",)}))
        if ds.dsof == "new":
            # a dataset under construction in a reader: variables stored there follow the schema
            return schema_av(key, dsof="new").with_(origins=FRESH)
        return AV(kind="da", src=frozenset({key}), dsof=ds.dsof, origins=ds.origins,
                  conn=("src", "src", "src"))

    # ---- subscript
    def eval_index(self, sl, fr):
        """Index description: list of ('slice', lo, hi)|('int', av)|('arr', av)|('ellipsis',)|('none',)"""
        items = sl.elts if isinstance(sl, ast.Tuple) else [sl]
        out = []
        for it in items:
            if isinstance(it, ast.Slice):
                lo = self.eval(it.lower, fr) if it.lower is not None else None
                hi = self.eval(it.upper, fr) if it.upper is not None else None
                if it.step is not None:
                    self.eval(it.step, fr)
                out.append(("slice", lo, hi, it))
            elif isinstance(it, ast.Constant) and it.value is Ellipsis:
                out.append(("ellipsis",))
            elif isinstance(it, ast.Constant) and it.value is None:
                out.append(("none",))
            else:
                v = self.eval(it, fr)
                if v.kind in ("nd", "da", "list", "mask") or (v.axes and v.kind != "int"):
                    out.append(("arr", v, it))
                elif v.kind == "int" or (v.const is not None and isinstance(v.const[1], int)):
                    out.append(("int", v, it))
                elif v.kind == "str" or (v.const is not None and isinstance(v.const[1], str)):
                    out.append(("str", v, it))
                else:
                    out.append(("unk", v, it))
        return out

    def e_Subscript(self, node, fr):
        base = self.eval(node.value, fr)
        idx = self.eval_index(node.slice, fr)
        k = base.kind
        if k == "ds":
            if len(idx) == 1 and idx[0][0] == "str" and idx[0][1].const is not None:
                return self.ds_var(base, idx[0][1].const[1], node, fr)
            return AV(kind="da", dsof=base.dsof, origins=base.origins)
        if k == "grid":
            if len(idx) == 1 and idx[0][0] == "str" and idx[0][1].const is not None:
                return self.attr_of(base, idx[0][1].const[1], node, fr)
            return TOP
        if k in ("dict", "mapping"):
            self.emit("getitem", fr, node, base=base, index=idx)
            if base.const is not None and isinstance(base.const[1], dict) and len(idx) == 1 and idx[0][0] == "str":
                key = idx[0][1].const[1] if idx[0][1].const else None
                v = base.const[1].get(key)
                if v is not None and _hashable_ok(v):
                    return AV(const=("c", v), origins=base.origins)
            if base.var and len(idx) == 1 and idx[0][0] == "str":
                return AV(kind="attrvalue", src=frozenset({str(idx[0][1].const[1])}) if idx[0][1].const else None,
                          origins=base.origins)
            return AV(origins=base.origins)
        if k in ("tuple",) and base.elts and len(idx) == 1 and idx[0][0] == "int" and idx[0][1].const is not None:
            i = idx[0][1].const[1]
            if -len(base.elts) <= i < len(base.elts):
                return base.elts[i]
        if k == "tuple" and base.axes and len(idx) == 1 and idx[0][0] == "int" and idx[0][1].const is not None:
            i = idx[0][1].const[1]
            ax = base.axes
            if "..." not in ax and -len(ax) <= i < len(ax) and ax[i] in KINDS + ("slot",):
                return AV(kind="int", count=ax[i])
            if ax and ax[0] == "..." and i == -1 and ax[-1] in KINDS:
                return AV(kind="int", count=ax[-1])
            return AV(kind="int")
        if k in ("nd", "da", "list", "mask", "uxda") or base.axes:
            return self.index_array(base, idx, node, fr)
        if base.origins and any(o[0] == "param" for o in base.origins):
            view = all(i[0] in ("slice", "int", "ellipsis", "none") for i in idx)
            return AV(origins=base.origins if view else FRESH)
        return TOP

    def index_array(self, base: AV, idx, node, fr):
        axes = list(base.axes) if base.axes else None
        new_axes = []
        pos = 0
        fancy = False
        fill = base.fill
        ell = any(i[0] == "ellipsis" for i in idx)
        lead_ellipsis = bool(axes and axes[0] == "...")
        for n, it in enumerate(idx):
            tag = it[0]
            if tag == "ellipsis":
                # remaining indices address trailing axes
                if axes is not None and not lead_ellipsis:
                    rest = len([i for i in idx[n + 1:] if i[0] != "none"])
                    keep = len(axes) - rest - pos
                    new_axes += axes[pos: pos + max(keep, 0)]
                    pos += max(keep, 0)
                elif axes is not None:
                    new_axes.append("...")
                    rest = len([i for i in idx[n + 1:] if i[0] != "none"])
                    # position into the known trailing axes
                    trailing = axes[1:]
                    pos = 1 + max(len(trailing) - rest, 0)
                continue
            if tag == "none":
                new_axes.append(None)
                continue
            space = None
            if axes is not None and pos < len(axes):
                space = axes[pos]
            is_last = axes is not None and pos == len(axes) - 1
            if tag == "slice":
                new_axes.append(space)
                lo, hi = it[1], it[2]
                if base.vals and space == "slot" or (base.vals and pos >= 1):
                    # column slicing of a connectivity table
                    if lo is None and hi is not None and hi.count == "slot" and (hi.kind == "int"):
                        fill = "no"  # row prefix bounded by n_nodes_per_face
                    elif lo is None and hi is None:
                        pass
                    else:
                        if lo is not None and lo.const is not None and lo.const[1] == 0 and hi is not None and hi.count == "slot":
                            fill = "no"
                        else:
                            fill = None
            elif tag == "int":
                if base.vals and pos >= 1:
                    fill = None  # single column: fill status not tracked
                self.emit("index_scalar", fr, node, base=base, axis_space=space, index=it[1], item=it[2])
            elif tag in ("arr", "unk"):
                iv = it[1]
                if tag == "arr" or iv.vals or iv.kind in ("nd", "da", "list", "mask"):
                    fancy = True
                    self.emit("gather", fr, node, base=base, axis_space=space, index=iv, item=it[2], axis_pos=pos,
                              base_node=node.value)
                    if iv.kind == "mask":
                        new_axes.append(None)
                        if iv.derived == "nofill" and base.vals:
                            fill = "no"
                        else:
                            fill = None if fill == "may" else fill
                    else:
                        ia = iv.axes if iv.axes else (None,)
                        new_axes += list(ia)
                else:
                    new_axes.append(None)
                    fancy = fancy or tag == "unk"
            pos += 1
        if axes is not None:
            new_axes += axes[pos:]
        origins = FRESH if fancy else base.origins
        kind = "nd" if base.kind in ("nd", "list", "da", "uxda") else base.kind
        if base.kind == "da" and not fancy:
            kind = "da"
        return AV(kind=kind, axes=tuple(new_axes) if axes is not None else None, vals=base.vals, fill=fill,
                  unit=base.unit, role=base.role, rng=base.rng, origins=origins, src=base.src, conn=base.conn,
                  var=base.var if not fancy else None, dsof=base.dsof if kind == "da" else None)

    # ---- calls
    def e_Call(self, node, fr):
        from .transfer import call_transfer

        return call_transfer(self, node, fr)

    def call_repo(self, func: FuncInfo, args, kwargs, node, fr, bound_self=None):
        """Context-sensitive descent into a repository function; returns its abstract result."""
        self.stats["calls_resolved"] += 1
        params = func.node.args
        names = [a.arg for a in params.posonlyargs + params.args]
        env = {}
        pos = list(args)
        if func.cls is not None and not func.is_staticmethod and names:
            first = names[0]
            if bound_self is not None:
                env[first] = bound_self
            else:
                env[first] = self.seed_param(func, first)
            names = names[1:]
        for n, a in zip(names, pos):
            env[n] = a
        if len(pos) > len(names) and params.vararg:
            env[params.vararg.arg] = AV(kind="tuple")
        for k, v in kwargs.items():
            if k is not None:
                env[k] = v
        # defaults
        for n, d in func.defaults().items():
            if n not in env:
                env[n] = self.eval_default(d, func)
        for n in func.all_param_names():
            if n not in env:
                env[n] = TOP
        if fr.depth >= self.max_depth:
            return None
        key = (func.key, tuple(sorted((k, v) for k, v in env.items())))
        try:
            hash(key)
        except TypeError:
            key = None
        if key is not None and key in self.memo and not self.listeners_need_context():
            return self.memo[key]
        gkey = (func.key, len(fr.stack))
        if func.key in [f.key for f, _ in fr.stack] or func.key == fr.func.key:
            return None  # recursion
        sub = self.run_function(func, env, fr.depth + 1, fr.stack + ((fr.func, node),))
        if key is not None:
            self.memo[key] = sub.ret
        return sub.ret

    def listeners_need_context(self):
        return bool(self.listeners)

    def eval_default(self, d, func):
        if isinstance(d, ast.Constant):
            if d.value is None:
                return AV(kind="none", const=("c", None), origins=FRESH)
            return AV(const=("c", d.value), origins=FRESH,
                      kind="str" if isinstance(d.value, str) else None)
        return TOP


FULL_TURN = ("360", "360.0", "2 * np.pi", "2.0 * np.pi", "np.pi * 2", "2 * math.pi", "2 * pi", "2.0 * pi")

DS_METHODS = {
    "rename", "isel", "sel", "swap_dims", "drop_vars", "set_coords", "rename_dims", "rename_vars", "copy", "assign_attrs",
    "filter_by_attrs", "keys", "items", "values", "to_netcdf", "assign", "assign_coords", "get", "update", "chunk",
    "equals", "identical", "load", "close", "squeeze", "transpose", "expand_dims", "merge",
}


def _hashable_ok(v):
    try:
        from .av import _hashable

        hash(_hashable(v))
        return not isinstance(v, (dict, list, set)) or True
    except TypeError:
        return False
