"""Small AST helpers shared by the rule families."""

from __future__ import annotations

import ast
import re

from .loader import FuncInfo, dotted


def norm(node) -> str:
    """Whitespace/format independent text of an expression (ast.unparse)."""
    if node is None:
        return ""
    s = ast.unparse(node)
    return re.sub(r"\s+", " ", s).strip()


def where(f, node=None) -> str:
    """file:line for diagnostics."""
    if isinstance(f, FuncInfo):
        rel = f.module.relpath
        n = node if node is not None else f.node
    else:  # Module
        rel = f.relpath
        n = node
    return f"{rel}:{getattr(n, 'lineno', 0)}"


def calls_in(node):
    for n in ast.walk(node):
        if isinstance(n, ast.Call):
            yield n


def call_name(call: ast.Call):
    """Last component of the callee ('deg2rad' for np.deg2rad(...)) or None."""
    f = call.func
    if isinstance(f, ast.Attribute):
        return f.attr
    if isinstance(f, ast.Name):
        return f.id
    return None


def call_dotted(call: ast.Call):
    d = dotted(call.func)
    return ".".join(d) if d else None


def str_const(node):
    if isinstance(node, ast.Constant) and isinstance(node.value, str):
        return node.value
    return None


def kwarg(call: ast.Call, name):
    for k in call.keywords:
        if k.arg == name:
            return k.value
    return None


def arg_or_kw(call: ast.Call, idx, name):
    if idx is not None and idx < len(call.args) and not any(isinstance(a, ast.Starred) for a in call.args[: idx + 1]):
        return call.args[idx]
    return kwarg(call, name)


def body_without_docstring(fnode):
    body = list(fnode.body)
    if body and isinstance(body[0], ast.Expr) and isinstance(body[0].value, ast.Constant) and isinstance(body[0].value.value, str):
        body = body[1:]
    return body


def iter_stmts(body):
    """All statements, recursively, in source order (not entering nested function/class defs)."""
    for st in body:
        yield st
        if isinstance(st, (ast.FunctionDef, ast.AsyncFunctionDef, ast.ClassDef)):
            continue
        for fld in ("body", "orelse", "finalbody"):
            sub = getattr(st, fld, None)
            if sub:
                yield from iter_stmts(sub)
        for h in getattr(st, "handlers", []) or []:
            yield from iter_stmts(h.body)


def names_in(node):
    return {n.id for n in ast.walk(node) if isinstance(n, ast.Name)}


def assigned_names(target):
    out = []
    if isinstance(target, ast.Name):
        out.append(target.id)
    elif isinstance(target, (ast.Tuple, ast.List)):
        for e in target.elts:
            out.extend(assigned_names(e))
    elif isinstance(target, ast.Starred):
        out.extend(assigned_names(target.value))
    return out


class LocalDefs:
    """Flow-insensitive map name -> [value expressions] for one function (def-use expansion).

    Tuple unpacking records (value, index)."""

    def __init__(self, fnode):
        self.defs = {}
        self.stores = {}     # name -> values stored INTO it (x[i] = v, x.a = v)
        for st in iter_stmts(fnode.body):
            if isinstance(st, ast.Assign):
                for t in st.targets:
                    self._bind(t, st.value)
            elif isinstance(st, ast.AnnAssign) and st.value is not None:
                self._bind(st.target, st.value)
            elif isinstance(st, ast.AugAssign):
                self._bind(st.target, st.value)
            elif isinstance(st, (ast.For, ast.AsyncFor)):
                self._bind(st.target, st.iter, loop=True)
            elif isinstance(st, (ast.With, ast.AsyncWith)):
                for it in st.items:
                    if it.optional_vars is not None:
                        self._bind(it.optional_vars, it.context_expr)

    def _bind(self, target, value, loop=False, idx=None):
        if isinstance(target, (ast.Subscript, ast.Attribute)):
            # x[i] = v / x.a = v : the stored value flows into x (kept apart from the bindings of x so that "bound exactly once" stays meaningful)
            root = target
            while isinstance(root, (ast.Subscript, ast.Attribute)):
                root = root.value
            if isinstance(root, ast.Name):
                self.stores.setdefault(root.id, []).append(value)
            return
        if isinstance(target, ast.Name):
            self.defs.setdefault(target.id, []).append((value, idx, loop))
        elif isinstance(target, (ast.Tuple, ast.List)):
            for i, e in enumerate(target.elts):
                if isinstance(value, (ast.Tuple, ast.List)) and len(value.elts) == len(target.elts) and not loop:
                    self._bind(e, value.elts[i])
                else:
                    self._bind(e, value, loop, i)

    def closure(self, expr, limit=200):
        """All expression nodes reachable from expr by expanding local names (backward slice)."""
        seen_names = set()
        out = []
        work = [expr]
        while work and len(out) < limit:
            e = work.pop()
            out.append(e)
            for n in ast.walk(e):
                if isinstance(n, ast.Name) and n.id not in seen_names:
                    seen_names.add(n.id)
                    for (v, _i, _l) in self.defs.get(n.id, []):
                        work.append(v)
                    for v in self.stores.get(n.id, []):
                        work.append(v)
        return out, seen_names

    def strings_reaching(self, expr):
        """String literals in the backward slice of expr."""
        out = set()
        nodes, _ = self.closure(expr)
        for e in nodes:
            for n in ast.walk(e):
                s = str_const(n)
                if s is not None:
                    out.add(s)
        return out


def decorators_names(fnode):
    out = []
    for d in fnode.decorator_list:
        if isinstance(d, ast.Call):
            d = d.func
        ch = dotted(d)
        if ch:
            out.append(ch[-1])
    return out


def is_raise_only(body):
    """True if a statement list always raises (last statement is raise)."""
    for st in body:
        if isinstance(st, ast.Raise):
            return True
    return False


def always_terminates(body):
    """True if the statement list ends in return/raise/continue/break on every path."""
    if not body:
        return False
    last = body[-1]
    if isinstance(last, (ast.Return, ast.Raise, ast.Continue, ast.Break)):
        return True
    if isinstance(last, ast.If):
        return bool(last.orelse) and always_terminates(last.body) and always_terminates(last.orelse)
    return False


class Resolver:
    """Recognition aid: names bound exactly once (not by a loop) to a plain read - a name, attribute, subscript, constant or arithmetic of those - are replaced by
    that read, recursively, so that `k = n[i]; ... a[0:k]` is matched as `a[0:n[i]]`.  Used only to RECOGNISE an idiom (the value a local had when it was bound and
    the value of the read at the point of use can differ if the base was mutated in between; rules that depend on that order check it separately)."""

    def __init__(self, fnode, max_depth=4):
        self.defs = LocalDefs(fnode)
        self.max_depth = max_depth

    @staticmethod
    def _plain(e):
        return all(isinstance(x, (ast.Name, ast.Attribute, ast.Subscript, ast.Constant, ast.BinOp, ast.UnaryOp, ast.Slice, ast.Tuple, ast.operator, ast.unaryop, ast.expr_context)) for x in ast.walk(e))

    def resolve(self, expr, depth=0):
        import copy
        outer = self

        class T(ast.NodeTransformer):
            def visit_Name(self_, n):
                if isinstance(n.ctx, ast.Load) and depth < outer.max_depth:
                    ds = outer.defs.defs.get(n.id, [])
                    if len(ds) == 1 and ds[0][1] is None and not ds[0][2] and outer._plain(ds[0][0]) and not any(isinstance(x, ast.Name) and x.id == n.id for x in ast.walk(ds[0][0])):
                        return outer.resolve(ds[0][0], depth + 1)
                return n
        return T().visit(copy.deepcopy(expr))

    def norm(self, expr):
        return norm(self.resolve(expr))


class InterDefs:
    """Def-use closure across a function and the functions of its module that it calls (two levels): a helper's parameter continues into the argument expressions
    at its call sites, a call to a helper continues into the helper's return expressions.  scope = [FuncInfo]; closure() yields (FuncInfo, node)."""

    def __init__(self, program, root, depth=2):
        from .loader import FuncInfo
        self.P = program
        self.root = root
        self.scope = [root]
        self.sites = {}      # helper key -> [(caller FuncInfo, call node)]
        frontier = [(root, 0)]
        while frontier:
            f, d = frontier.pop()
            for n in ast.walk(f.node):
                if isinstance(n, ast.Call):
                    tgt = program.resolve_callee(f.module, n.func, f)
                    if isinstance(tgt, FuncInfo) and tgt.module is root.module and (tgt.cls is None or (root.cls is not None and tgt.cls is root.cls)) and tgt.node is not root.node:
                        self.sites.setdefault(tgt.key, []).append((f, n))
                        if tgt.key not in {g.key for g in self.scope} and d < depth:
                            self.scope.append(tgt)
                            frontier.append((tgt, d + 1))
        self.ldefs = {g.key: LocalDefs(g.node) for g in self.scope}
        self.by_key = {g.key: g for g in self.scope}

    def stmts(self):
        for g in self.scope:
            for st in iter_stmts(g.node.body):
                yield g, st

    def walk(self):
        for g in self.scope:
            for n in ast.walk(g.node):
                yield g, n

    def closure(self, f, expr, limit=400):
        from .loader import FuncInfo
        seen = set()
        out = []
        work = [(f, expr)]
        while work and len(out) < limit:
            g, e = work.pop()
            out.append((g, e))
            for n in ast.walk(e):
                if isinstance(n, ast.Name) and (g.key, n.id) not in seen:
                    seen.add((g.key, n.id))
                    for (v, _i, _l) in self.ldefs[g.key].defs.get(n.id, []):
                        work.append((g, v))
                    params = g.params()
                    if n.id in params and g.node is not self.root.node:
                        i = params.index(n.id)
                        for caller, call in self.sites.get(g.key, []):
                            # a method called as obj.m(a, b): the first parameter is the receiver
                            if g.cls is not None and isinstance(call.func, ast.Attribute):
                                if i == 0:
                                    work.append((caller, call.func.value))
                                    continue
                                j = i - 1
                            else:
                                j = i
                            if j < len(call.args):
                                work.append((caller, call.args[j]))
                            for k in call.keywords:
                                if k.arg == n.id:
                                    work.append((caller, k.value))
                elif isinstance(n, ast.Call):
                    tgt = self.P.resolve_callee(g.module, n.func, g)
                    if isinstance(tgt, FuncInfo) and tgt.key in self.by_key and ("ret", tgt.key) not in seen:
                        seen.add(("ret", tgt.key))
                        for r in ast.walk(tgt.node):
                            if isinstance(r, ast.Return) and r.value is not None:
                                work.append((tgt, r.value))
        return out


def dependence(fnode):
    """name -> set of names it depends on, by data (right-hand sides) AND control (tests of the enclosing ifs/loops of each assignment), transitively closed.
    A sound over-approximation of "can the value of x vary with parameter p": if p is not in dependence(f)[x], x is the same whatever p is."""
    direct = {}

    def names(e):
        return {n.id for n in ast.walk(e) if isinstance(n, ast.Name)}

    def walk(stmts, ctrl):
        for st in stmts:
            if isinstance(st, ast.If):
                c2 = ctrl | names(st.test)
                walk(st.body, c2)
                walk(st.orelse, c2)
                # an early return/continue/break makes everything after it control dependent on the test as well; a guard that only RAISES does not: on every
                # completed execution the test had the same outcome, so later values do not vary with it
                if any(isinstance(x, (ast.Return, ast.Continue, ast.Break)) for b in (st.body, st.orelse) for s_ in b for x in ast.walk(s_)):
                    ctrl = c2
            elif isinstance(st, (ast.For, ast.AsyncFor)):
                c2 = ctrl | names(st.iter)
                for t in ast.walk(st.target):
                    if isinstance(t, ast.Name):
                        direct.setdefault(t.id, set()).update(c2)
                walk(st.body, c2)
                walk(st.orelse, c2)
            elif isinstance(st, ast.While):
                c2 = ctrl | names(st.test)
                walk(st.body, c2)
                walk(st.orelse, c2)
            elif isinstance(st, (ast.With, ast.Try)):
                for fld in ("body", "orelse", "finalbody"):
                    walk(getattr(st, fld, []) or [], ctrl)
                for h in getattr(st, "handlers", []) or []:
                    walk(h.body, ctrl)
            elif isinstance(st, (ast.Assign, ast.AnnAssign, ast.AugAssign)):
                value = st.value
                tgts = st.targets if isinstance(st, ast.Assign) else [st.target]
                deps = (names(value) if value is not None else set()) | ctrl
                for t in tgts:
                    for x in ast.walk(t):
                        if isinstance(x, ast.Name) and isinstance(x.ctx, ast.Store):
                            direct.setdefault(x.id, set()).update(deps)
                            if isinstance(st, ast.AugAssign):
                                direct[x.id].add(x.id)
                        elif isinstance(x, ast.Name) and isinstance(t, (ast.Subscript, ast.Attribute)) and x is _root(t):
                            direct.setdefault(x.id, set()).update(deps | names(t))
    walk(fnode.body, set())
    closed = {k: set(v) for k, v in direct.items()}
    changed = True
    while changed:
        changed = False
        for k, v in closed.items():
            add = set()
            for n in list(v):
                add |= closed.get(n, set())
            if not add <= v:
                v |= add
                changed = True
    return closed


def _root(t):
    while isinstance(t, (ast.Subscript, ast.Attribute)):
        t = t.value
    return t
