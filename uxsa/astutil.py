"""Small AST helpers shared by the rule families."""

from __future__ import annotations

import ast
import re

from .loader import FuncInfo, dotted


def norm(node) -> str:
    """Whitespace/format independent text of an expression (ast.unparse)."""
    if node is None:
        return ""
    s = ast.unparse(node)
    return re.sub(r"\s+", " ", s).strip()


def where(f, node=None) -> str:
    """file:line for diagnostics."""
    if isinstance(f, FuncInfo):
        rel = f.module.relpath
        n = node if node is not None else f.node
    else:  # Module
        rel = f.relpath
        n = node
    return f"{rel}:{getattr(n, 'lineno', 0)}"


def calls_in(node):
    for n in ast.walk(node):
        if isinstance(n, ast.Call):
            yield n


def call_name(call: ast.Call):
    """Last component of the callee ('deg2rad' for np.deg2rad(...)) or None."""
    f = call.func
    if isinstance(f, ast.Attribute):
        return f.attr
    if isinstance(f, ast.Name):
        return f.id
    return None


def call_dotted(call: ast.Call):
    d = dotted(call.func)
    return ".".join(d) if d else None


def str_const(node):
    if isinstance(node, ast.Constant) and isinstance(node.value, str):
        return node.value
    return None


def kwarg(call: ast.Call, name):
    for k in call.keywords:
        if k.arg == name:
            return k.value
    return None


def arg_or_kw(call: ast.Call, idx, name):
    if idx is not None and idx < len(call.args) and not any(isinstance(a, ast.Starred) for a in call.args[: idx + 1]):
        return call.args[idx]
    return kwarg(call, name)


def body_without_docstring(fnode):
    body = list(fnode.body)
    if body and isinstance(body[0], ast.Expr) and isinstance(body[0].value, ast.Constant) and isinstance(body[0].value.value, str):
        body = body[1:]
    return body


def iter_stmts(body):
    """All statements, recursively, in source order (not entering nested function/class defs)."""
    for st in body:
        yield st
        if isinstance(st, (ast.FunctionDef, ast.AsyncFunctionDef, ast.ClassDef)):
            continue
        for fld in ("body", "orelse", "finalbody"):
            sub = getattr(st, fld, None)
            if sub:
                yield from iter_stmts(sub)
        for h in getattr(st, "handlers", []) or []:
            yield from iter_stmts(h.body)


def names_in(node):
    return {n.id for n in ast.walk(node) if isinstance(n, ast.Name)}


def assigned_names(target):
    out = []
    if isinstance(target, ast.Name):
        out.append(target.id)
    elif isinstance(target, (ast.Tuple, ast.List)):
        for e in target.elts:
            out.extend(assigned_names(e))
    elif isinstance(target, ast.Starred):
        out.extend(assigned_names(target.value))
    return out


class LocalDefs:
    """Flow-insensitive map name -> [value expressions] for one function (def-use expansion).

    Tuple unpacking records (value, index)."""

    def __init__(self, fnode):
        self.defs = {}
        for st in iter_stmts(fnode.body):
            if isinstance(st, ast.Assign):
                for t in st.targets:
                    self._bind(t, st.value)
            elif isinstance(st, ast.AnnAssign) and st.value is not None:
                self._bind(st.target, st.value)
            elif isinstance(st, ast.AugAssign):
                self._bind(st.target, st.value)
            elif isinstance(st, (ast.For, ast.AsyncFor)):
                self._bind(st.target, st.iter, loop=True)
            elif isinstance(st, (ast.With, ast.AsyncWith)):
                for it in st.items:
                    if it.optional_vars is not None:
                        self._bind(it.optional_vars, it.context_expr)

    def _bind(self, target, value, loop=False, idx=None):
        if isinstance(target, ast.Name):
            self.defs.setdefault(target.id, []).append((value, idx, loop))
        elif isinstance(target, (ast.Tuple, ast.List)):
            for i, e in enumerate(target.elts):
                if isinstance(value, (ast.Tuple, ast.List)) and len(value.elts) == len(target.elts) and not loop:
                    self._bind(e, value.elts[i])
                else:
                    self._bind(e, value, loop, i)

    def closure(self, expr, limit=200):
        """All expression nodes reachable from expr by expanding local names (backward slice)."""
        seen_names = set()
        out = []
        work = [expr]
        while work and len(out) < limit:
            e = work.pop()
            out.append(e)
            for n in ast.walk(e):
                if isinstance(n, ast.Name) and n.id not in seen_names:
                    seen_names.add(n.id)
                    for (v, _i, _l) in self.defs.get(n.id, []):
                        work.append(v)
        return out, seen_names

    def strings_reaching(self, expr):
        """String literals in the backward slice of expr."""
        out = set()
        nodes, _ = self.closure(expr)
        for e in nodes:
            for n in ast.walk(e):
                s = str_const(n)
                if s is not None:
                    out.add(s)
        return out


def decorators_names(fnode):
    out = []
    for d in fnode.decorator_list:
        if isinstance(d, ast.Call):
            d = d.func
        ch = dotted(d)
        if ch:
            out.append(ch[-1])
    return out


def is_raise_only(body):
    """True if a statement list always raises (last statement is raise)."""
    for st in body:
        if isinstance(st, ast.Raise):
            return True
    return False


def always_terminates(body):
    """True if the statement list ends in return/raise/continue/break on every path."""
    if not body:
        return False
    last = body[-1]
    if isinstance(last, (ast.Return, ast.Raise, ast.Continue, ast.Break)):
        return True
    if isinstance(last, ast.If):
        return bool(last.orelse) and always_terminates(last.body) and always_terminates(last.orelse)
    return False
