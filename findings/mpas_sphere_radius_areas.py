"""C05 (repaired by 6650895f): face areas of an MPAS mesh whose sphere_radius is not 1 were reported unscaled.
The MPAS sample mesh is rescaled to the Earth's radius the way MPAS itself stores such meshes (coordinates x R, lengths x R, areas x R^2, sphere_radius = R)."""
import warnings
warnings.filterwarnings("ignore")
import numpy as np, xarray as xr, uxarray as ux

ds = xr.open_dataset("/repo/test/meshfiles/mpas/QU/mesh.QU.1920km.151026.nc").load()
R = 6371229.0
sc = ds.copy(deep=True)
for v in ("xCell", "yCell", "zCell", "xVertex", "yVertex", "zVertex", "xEdge", "yEdge", "zEdge", "dvEdge", "dcEdge"):
    if v in sc:
        sc[v] = sc[v] * R
for v in ("areaCell", "areaTriangle"):
    if v in sc:
        sc[v] = sc[v] * R * R
sc.attrs["sphere_radius"] = R
g = ux.Grid.from_dataset(sc)
cached = g.face_areas.values
fresh, _ = g.compute_face_areas()
print("Grid.face_areas sum:", cached.sum(), " compute_face_areas() sum:", fresh.sum())
print("DEFECT: cached face_areas are not unit-sphere areas" if not np.allclose(cached, fresh, rtol=1e-3) else "no difference (defect absent)")
