"""C09/C10 (repaired by the commit recorded in known_findings.jsonl): a UxDataArray with a coordinate along its grid dimension could not be subset."""
import sys, os
sys.path.insert(0, '/repo')
import warnings; warnings.filterwarnings("ignore")
import numpy as np, uxarray as ux
from uxarray.constants import INT_FILL_VALUE as F
lon = np.array([0, 10, 20, 0, 10, 20, 30.0]); lat = np.array([0, 0, 0, 10, 10, 10, 5.0])
conn = np.array([[0, 1, 4, 3], [1, 2, 5, 4], [2, 6, 5, F]])
g = ux.Grid.from_topology(lon, lat, conn, fill_value=F)
da = ux.UxDataArray(np.array([1.0, 2.0, 3.0]), dims=["n_face"], uxgrid=g, name="t")
da = da.assign_coords(face_id=("n_face", np.array([100, 200, 300])))
print(type(da).__name__, list(da.coords))
try:
    sub = da.isel(n_face=[0, 2])
    print("subset values", sub.values, "face_id", sub.coords["face_id"].values, "n_face of grid", sub.uxgrid.n_face)
    assert list(sub.coords["face_id"].values) == [100, 300]
    print("ok")
except Exception as e:
    print("DEFECT:", type(e).__name__, str(e)[:200]); sys.exit(1)
