"""C15: with a projection that hides some faces (NaN vertices) the non-NaN polygon indices are computed over
'faces without the antimeridian faces' but are applied, for periodic_elements='ignore' (and 'split'), to a frame and to
data that run over ALL faces: rows and values are attached to the wrong faces."""
from _common import *
import cartopy.crs as ccrs
# six quads along the equator, 60 degrees wide; face 0 crosses the antimeridian, faces 3,4,5 are visible from lon 0
lons = [150, 210, 270, 330, 390, 450, 510]
lon = []; lat = []; conn = []
for i in range(6):
    k = len(lon)
    lon += [lons[i], lons[i + 1], lons[i + 1], lons[i]]; lat += [-10, -10, 10, 10]; conn.append([k, k + 1, k + 2, k + 3])
lon = (np.array(lon, float) + 180) % 360 - 180
g = ux.Grid.from_topology(lon, np.array(lat, float), np.array(conn))
P = ccrs.Orthographic(central_longitude=0)
d = ux.UxDataArray(np.arange(6.0), dims=["n_face"], uxgrid=g, name="v")
ref = d.to_geodataframe(periodic_elements="exclude", projection=P)["v"].tolist()
out = d.to_geodataframe(periodic_elements="ignore", projection=P, override=True)["v"].tolist()
print("exclude+projection keeps the values of faces", ref)
print("ignore+projection  keeps the values of faces", out, "DEFECT (the visible faces are those above; 'ignore' shifted by the antimeridian face)" if out != ref else "ok")
pc = d.to_polycollection(periodic_elements="ignore", projection=P, override=True)
print("polycollection ignore+projection:", len(pc.get_paths()), "polygons carry", len(pc.get_array()), "values", pc.get_array().tolist(),
      "DEFECT (values are those of faces 1,2,3 in face numbering; polygons are all 6 faces)" if len(pc.get_paths()) != len(pc.get_array()) else "ok")
