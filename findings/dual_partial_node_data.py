"""C10: get_dual of node-centred data on a PARTIAL grid relabels all n_node values as n_face, but the dual grid only has
a face for each node surrounded by at least three faces: the n_face dimension does not match the attached grid."""
from _common import *
# 3x3 block of quads (16 nodes): only the 4 inner nodes have >= 3 faces
xs = np.arange(4) * 10.0
lon, lat = np.meshgrid(xs, xs)
lon, lat = lon.ravel(), lat.ravel()
conn = np.array([[j * 4 + i, j * 4 + i + 1, (j + 1) * 4 + i + 1, (j + 1) * 4 + i] for j in range(3) for i in range(3)])
g = ux.Grid.from_topology(lon, lat, conn)
d = ux.UxDataArray(np.arange(16.0), dims=["n_node"], uxgrid=g, name="v")
dd = d.get_dual()
print("dual data dims", dict(dd.sizes), "dual grid n_face", dd.uxgrid.n_face, "DEFECT" if dd.sizes["n_face"] != dd.uxgrid.n_face else "ok")
