"""C19: Grid.to_geodataframe hands out its cached object; an edit of the export changes what the grid reports later.
(test_geometry.TestGeoDataFrame.test_cache_and_override pins `gdf_a is gdf_b`, so this cannot be repaired without editing the suite.)"""
from _common import *
g = mixed_grid()
out = g.to_geodataframe()
out["mine"] = 1
print("DEFECT: later export shows the caller's column" if "mine" in g.to_geodataframe().columns else "ok")
