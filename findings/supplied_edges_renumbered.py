"""C02/C08: a source-supplied edge_node_connectivity is replaced (renumbered) when face_edge_connectivity is first read."""
from _common import *
ref = mixed_grid().edge_node_connectivity.values
g = mixed_grid(edge_node_connectivity=ref[::-1].copy())
before = g.edge_node_connectivity.values.copy()
g.face_edge_connectivity
after = g.edge_node_connectivity.values
print("DEFECT: edge numbering changed by a read" if not np.array_equal(before, after) else "ok")
