"""C13 (repaired by 753793cc): the bounds of a face did not enclose the bulge of a short edge.
A 0.5 degree wide quad whose top edge joins two corners at 45N: the great-circle arc between them rises 4.8e-6 rad above 45N."""
import warnings
warnings.filterwarnings("ignore")
import numpy as np, uxarray as ux
from uxarray.grid.arcs import extreme_gca_latitude
from uxarray.grid.coordinates import _lonlat_rad_to_xyz

lon = np.array([10.0, 10.5, 10.5, 10.0]); lat = np.array([44.5, 44.5, 45.0, 45.0])
g = ux.Grid.from_face_vertices(np.array([list(zip(lon, lat))]), latlon=True)
lat_max = g.bounds.values[0][0][1]
n1 = np.array(_lonlat_rad_to_xyz(np.deg2rad(10.0), np.deg2rad(45.0))); n2 = np.array(_lonlat_rad_to_xyz(np.deg2rad(10.5), np.deg2rad(45.0)))
top = extreme_gca_latitude(np.array([n1, n2]), "max")
print("reported lat_max", lat_max, " maximum of the top arc", top)
print(f"DEFECT: the top edge leaves the reported bounds by {top - lat_max} rad" if top - lat_max > 1e-8 else "no difference (defect absent)")
