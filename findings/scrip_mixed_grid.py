"""C07: SCRIP encoding of a grid mixing face sizes gathers node coordinates through the fill value."""
from _common import *
try:
    mixed_grid().to_xarray("scrip")
    print("no error (defect absent)")
except IndexError as e:
    print("DEFECT: IndexError:", e)
