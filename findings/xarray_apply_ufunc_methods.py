"""C10: xarray methods whose result is built by apply_ufunc return a plain DataArray (no grid) for a UxDataArray receiver,
because xarray's apply_dataarray_vfunc constructs DataArray(...) literally (installed xarray 2026.7)."""
from _common import *
g = mixed_grid()
d = ux.UxDataArray(np.array([[1.0, np.nan, 3.0], [4, 5, 6]]), dims=["t", "n_face"], uxgrid=g, name="v").assign_coords(t=[0, 1])
ops = {
    "__array_ufunc__": lambda: np.sin(d), "astype": lambda: d.astype("float32"), "clip": lambda: d.clip(0, 2), "combine_first": lambda: d.combine_first(d),
    "fillna": lambda: d.fillna(0), "idxmax": lambda: d.idxmax("t"), "idxmin": lambda: d.idxmin("t"), "interpolate_na": lambda: d.interpolate_na("t"),
    "isin": lambda: d.isin([1.0]), "isnull": lambda: d.isnull(), "notnull": lambda: d.notnull(), "where": lambda: d.where(d > 2),
}
for k, f in ops.items():
    r = f()
    print(f"{k:16s} -> {type(r).__name__:12s}", "DEFECT (grid lost)" if not isinstance(r, ux.UxDataArray) else "ok")
