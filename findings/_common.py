"""Shared input for the demonstrations of recorded findings (run with /venv/bin/python, cwd anywhere).
These scripts only document genuine defects of the pinned tree; no check depends on them."""
import warnings
warnings.filterwarnings("ignore")
import numpy as np
import uxarray as ux
from uxarray.constants import INT_FILL_VALUE as F

LON = [0, 10, 20, 0, 10, 20, 30]
LAT = [0, 0, 0, 10, 10, 10, 5]
CONN = np.array([[0, 1, 4, 3], [1, 2, 5, 4], [2, 6, 5, F]])


def mixed_grid(**kw):
    """two quads and a triangle"""
    return ux.Grid.from_topology(np.array(LON, float), np.array(LAT, float), CONN.copy(), fill_value=F, **kw)


def three_quads():
    """face 0 crosses lon=180, face 1 crosses lon=-90, face 2 crosses neither"""
    lon = np.array([170.0, -170.0, -170.0, 170.0, -100.0, -80.0, -80.0, -100.0, 0.0, 10.0, 10.0, 0.0])
    lat = np.array([0.0, 0.0, 10.0, 10.0] * 3)
    conn = np.array([[0, 1, 2, 3], [4, 5, 6, 7], [8, 9, 10, 11]])
    return ux.Grid.from_topology(lon, lat, conn)
