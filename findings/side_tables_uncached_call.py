"""C08/C15: an uncached conversion with another projection replaces the side tables of the cached conversion;
the next data conversion attaches the values to the wrong faces."""
from _common import *
import cartopy.crs as ccrs
for kind in ("geodataframe", "polycollection"):
    g = three_quads()
    d = ux.UxDataArray(np.array([1.0, 2.0, 3.0]), dims=["n_face"], uxgrid=g, name="v")
    conv = getattr(g, "to_" + kind)
    conv(periodic_elements="exclude")
    conv(periodic_elements="exclude", projection=ccrs.Robinson(central_longitude=90), cache=False, override=True)
    out = getattr(d, "to_" + kind)(periodic_elements="exclude")
    vals = out["v"].tolist() if kind == "geodataframe" else out.get_array().tolist()
    print(kind, "values on the two remaining faces:", vals, "(fresh grid: [2.0, 3.0])", "DEFECT" if vals != [2.0, 3.0] else "ok")
