#!/usr/bin/env python3
"""Regenerates MANIFEST.json from uxsa/props/*.py (claimed) and NOT_APPLICABLE below."""
import json, os, re

HERE = os.path.dirname(os.path.abspath(__file__))
NOT_APPLICABLE = {
}
PENDING_REASON = "check not built yet (static rules for this property are under construction; see DESIGN.md section 4)"
NOTES = {}
TECHNIQUE = {
 "C01": "static analysis: typestate interpreter (dtype x sentinel x base x padding) from format-spec source states to every connectivity sink; role-table cross-check of backward slices; dispatch table comparison",
 "C02": "static analysis: symbolic shape/slice algebra (size polynomials) over the edge builders; def-use obligations on np.unique/sort/renumbering",
 "C03": "static analysis: index-space typing of loop variables and stores in the incidence builders; fill-guard dominance",
 "C04": "static analysis: abstract interpretation (unit/role/range/unit-length facets); path-sensitive def-use (derived-from-stored); belief-contradiction rule (one value, two units)",
 "C05": "static analysis: exact rational arithmetic on the literal quadrature tables (moment conditions); constant propagation + liveness on the Cartesian path; memo-path rule",
 "C06": "static analysis: einsum subscript parsing, argument provenance, kind-from-dims and result-dtype rules",
 "C07": "static analysis: dataflow at the encoders (template writes, fill literal, fill-safe gathers, units), guard/use agreement of topology names per call site, attribute-kind rule",
 "C08": "static analysis: package-wide effect analysis (module-level writes, in-place writes to stored grid buffers), memo-key completeness, lazy-variable write-once, njit identity comparisons",
 "C09": "static analysis: index-space provenance of subgrid members, schema-driven routing of index-valued variables, exhaustive sign-abstraction truth table of the latitude scan, prange write rule",
 "C10": "static analysis: override-signature conformance against the installed xarray's parsed sources; path enumeration of the subclass funnels; return-flow closure of apply_ufunc in xarray",
 "C11": "static analysis: memo-key completeness, unit dataflow into the sklearn trees, sibling cross-check BallTree/KDTree, truth table of query preparation",
 "C12": "static analysis: kind-from-dims rule, table cross-checks, def-use provenance tree->query->gather, algebraic form of the IDW weights",
 "C13": "static analysis: path enumeration with path conditions (per-edge insertion obligations); exact polynomial identity (stationary point of the latitude along the code's own interpolation)",
 "C14": "static analysis: boolean dominance of appends by membership tests; tolerance bound derived from the property's margin; truth table of the pole choice",
 "C15": "static analysis: memo keys/side tables, copy-on-return rule, derived index spaces of the NaN filter, sibling call agreement",
 "C16": "static analysis: index-space dataflow (gathers through edge_node/edge_face), unit dataflow, last-axis reduction, abs-on-return, result dtype, boundary-zero rule",
 "C17": "static analysis: table cross-check of the ten aggregations, partition-consistent gather, raise-on-unsupported paths, result dtype",
 "C18": "static analysis: role agreement of call arguments, row bookkeeping algebra, sign-only orientation test, sibling agreement, njit identity comparisons",
 "C19": "static analysis: alias/ownership abstract interpretation (parameter buffers, internal dataset, cache slots) over all constructors and exports",
 "C20": "static analysis: exhaustive truth table over the comparison atoms of Grid.__eq__/__ne__ (locals inlined), lossy-comparison rule",
}

def main():
    props = [json.loads(l) for l in open(os.path.join(HERE, "properties.jsonl"))]
    checks, na = [], []
    for p in props:
        pid = p["id"]
        mod = os.path.join(HERE, "uxsa", "props", pid.lower() + ".py")
        if os.path.exists(mod) and pid not in NOT_APPLICABLE:
            doc = open(mod).read().split('"""')[1].strip()
            first = doc.split("\n\n")[0].replace("\n", " ")
            rest = " ".join(doc.split("\n\n")[1:]).replace("\n", " ")
            checks.append({
                "property_id": pid,
                "quick_cmd": f"/venv/bin/python -m uxsa check {pid} --tier quick",
                "thorough_cmd": f"/venv/bin/python -m uxsa check {pid} --tier thorough",
                "evidence_file": f"/verif/evidence/{pid}.json",
                "replay_cmd_template": "/venv/bin/python -m uxsa replay {path}",
                "engine": "uxsa",
                "level_claimed": {
                    "category": "other",
                    "text": ("Static analysis of /repo's current sources (no execution): decides structural necessary conditions of the property on every path / for every instance; "
                             "it does not decide the value-level behaviour itself. " + rest)[:1500],
                    "design_ref": f"DESIGN.md section 4, {pid}",
                },
                "level_note": "Trusted base: CPython ast; the behaviour-preserving source normaliser uxsa/normalise.py (rewrites with checked side conditions, validated by its equivalence samples in the setup command); hand-written numpy/xarray transfer tables; grid schema derived from uxarray/conventions; format specifications for reader role tables. A VIOLATION is reported only for a construct that is understood and wrong; a construct written in an idiom a rule cannot read yields ANALYSIS-INCOMPLETE (exit 2), never a silent pass for proof rules ('unknown' is silent only for contradiction rules).",
                "technique": TECHNIQUE.get(pid, "static analysis: custom AST/dataflow checker"),
            })
        else:
            na.append({"property_id": pid, "reason": NOT_APPLICABLE.get(pid, PENDING_REASON)})
    man = {
        "version": 1,
        "setup_cmd": "/venv/bin/python -m uxsa selfcheck",
        "hooks": {
            "guard": "UXARRAY_UXSA_VERIF",
            "enable": "unused: static analysis needs no instrumentation; checks read /repo/uxarray/**/*.py directly",
            "baseline_off_cmd": "cd /repo && /venv/bin/python -m pytest -ra -q -p no:cacheprovider --timeout=900 --continue-on-collection-errors",
            "source_commits": [],
            "add_only": True,
        },
        "engines": [{"name": "uxsa", "path": "/verif/uxsa", "serves_properties": [c["property_id"] for c in checks],
                     "kind_free_text": "repository-specific static analyser (stdlib ast, no execution of uxarray): symbol table, call resolution, abstract interpreter with unit/role/index-space/fill/alias facets, connectivity typestate interpreter, structured path enumeration and truth tables, size-polynomial and exact polynomial algebra, literal-table arithmetic"}],
        "checks": checks,
        "not_applicable": na,
        "notes": "All checks are static (family: static analysis). Exit 0 = every obligation holds or is a listed known finding; exit 1 = VIOLATION not listed in known_findings.jsonl; exit 2 = ANALYSIS-INCOMPLETE/ERROR (anchor vanished / idiom not understood), never a silent pass.",
    }
    json.dump(man, open(os.path.join(HERE, "MANIFEST.json"), "w"), indent=1)
    print("claimed", [c["property_id"] for c in checks], "n/a", [x["property_id"] for x in na])

main()
