#!/usr/bin/env python3
"""Regenerates MANIFEST.json from uxsa/props/*.py (claimed) and NOT_APPLICABLE below."""
import json, os, re

HERE = os.path.dirname(os.path.abspath(__file__))
NOT_APPLICABLE = {
}
PENDING_REASON = "check not built yet (static rules for this property are under construction; see DESIGN.md section 4)"
NOTES = {}

def main():
    props = [json.loads(l) for l in open(os.path.join(HERE, "properties.jsonl"))]
    checks, na = [], []
    for p in props:
        pid = p["id"]
        mod = os.path.join(HERE, "uxsa", "props", pid.lower() + ".py")
        if os.path.exists(mod) and pid not in NOT_APPLICABLE:
            doc = open(mod).read().split('"""')[1].strip()
            first = doc.split("\n\n")[0].replace("\n", " ")
            rest = " ".join(doc.split("\n\n")[1:]).replace("\n", " ")
            checks.append({
                "property_id": pid,
                "quick_cmd": f"/venv/bin/python -m uxsa check {pid} --tier quick",
                "thorough_cmd": f"/venv/bin/python -m uxsa check {pid} --tier thorough",
                "evidence_file": f"/verif/evidence/{pid}.json",
                "replay_cmd_template": "/venv/bin/python -m uxsa replay {path}",
                "engine": "uxsa",
                "level_claimed": {
                    "category": "other",
                    "text": ("Static analysis of /repo's current sources (no execution): decides structural necessary conditions of the property on every path / for every instance; "
                             "it does not decide the value-level behaviour itself. " + rest)[:1500],
                    "design_ref": f"DESIGN.md section 4, {pid}",
                },
                "level_note": "Trusted base: CPython ast; hand-written numpy/xarray transfer tables; grid schema derived from uxarray/conventions; format specifications for reader role tables. Unknown idioms yield 'unknown' (silent) for contradiction rules and ANALYSIS-INCOMPLETE (exit 2) for proof rules.",
                "technique": "static analysis: custom AST/dataflow checker (abstract interpretation over unit/index-space/alias facets, path enumeration, table cross-checks)",
            })
        else:
            na.append({"property_id": pid, "reason": NOT_APPLICABLE.get(pid, PENDING_REASON)})
    man = {
        "version": 1,
        "setup_cmd": "/venv/bin/python -m uxsa selfcheck",
        "hooks": {
            "guard": "UXARRAY_UXSA_VERIF",
            "enable": "unused: static analysis needs no instrumentation; checks read /repo/uxarray/**/*.py directly",
            "baseline_off_cmd": "cd /repo && /venv/bin/python -m pytest -ra -q -p no:cacheprovider --timeout=900 --continue-on-collection-errors",
            "source_commits": [],
            "add_only": True,
        },
        "engines": [{"name": "uxsa", "path": "/verif/uxsa", "serves_properties": [c["property_id"] for c in checks],
                     "kind_free_text": "repository-specific static analyser (stdlib ast): symbol table, call resolution, abstract interpreter with unit/role/index-space/fill/alias facets, structured path enumeration, literal-table arithmetic"}],
        "checks": checks,
        "not_applicable": na,
        "notes": "All checks are static (family: static analysis). Exit 0 = every obligation holds or is a listed known finding; exit 1 = VIOLATION not listed in known_findings.jsonl; exit 2 = ANALYSIS-INCOMPLETE/ERROR (anchor vanished / idiom not understood), never a silent pass.",
    }
    json.dump(man, open(os.path.join(HERE, "MANIFEST.json"), "w"), indent=1)
    print("claimed", [c["property_id"] for c in checks], "n/a", [x["property_id"] for x in na])

main()
