#!/usr/bin/env python3
"""Runs registered checks against a scratch copy of /repo with a change applied (nothing is written to /repo).

usage:
  mutcheck.py patch <file.diff> [C01 C07 ...]        apply a patch to the scratch copy
  mutcheck.py revert <commit> [C01 ...]              reverse-apply a /repo commit (re-introduces a repaired defect)
  mutcheck.py subst <relpath> <old> <new> [C01 ...]   replace the first occurrence of a text in one file
  mutcheck.py seeded [name ...]                      every /verif/seeded/<name>/patch.diff against all claimed properties
  mutcheck.py twins [name ...] [-- C01 ...]          every /verif/twins/<name>/patch.diff (behaviour-preserving): any VIOLATION is a false alarm of the checker
  mutcheck.py fixed                                  every `fixed` entry of known_findings.jsonl: revert its commit, its property's check must fire
The scratch copy lives under $TMPDIR (default /tmp) and is removed afterwards."""
import json, os, shutil, subprocess, sys, tempfile
from concurrent.futures import ThreadPoolExecutor

VERIF = os.path.dirname(os.path.dirname(os.path.abspath(__file__)))


def sh(cmd, cwd=None, env=None, inp=None):
    p = subprocess.run(cmd, shell=True, cwd=cwd, env=env, capture_output=True, text=True, input=inp)
    return p.returncode, p.stdout + p.stderr


def claimed():
    return [c["property_id"] for c in json.load(open(os.path.join(VERIF, "MANIFEST.json")))["checks"]]


def scratch():
    d = tempfile.mkdtemp(prefix="uxsa_mut_", dir=os.environ.get("TMPDIR", "/tmp"))
    sh(f"git -C /repo archive HEAD uxarray | tar -x -C {d}")
    sh("git init -q . && git add -A . && git -c user.email=a@b -c user.name=x commit -qm base", cwd=d)
    return d


def run_checks(d, props, tier="quick"):
    env = dict(os.environ, UXSA_REPO=d, UXSA_NO_EVIDENCE="1", UXSA_NO_REPLAY="1")
    out = {}
    def one(p):
        rc, txt = sh(f"/venv/bin/python -m uxsa check {p} --tier {tier}", cwd=VERIF, env=env)
        return p, (rc, [l for l in txt.splitlines() if l.startswith(("VIOLATION", "  rule=", "ANALYSIS-"))])
    with ThreadPoolExecutor(4) as ex:
        for p, r in ex.map(one, props):
            out[p] = r
    return out


def with_change(kind, arg, props):
    d = scratch()
    try:
        if kind == "patch":
            rc, o = sh(f"git apply --3way {os.path.abspath(arg)}", cwd=d)
            if rc != 0:
                rc, o = sh(f"patch -p1 < {os.path.abspath(arg)}", cwd=d)
        elif kind == "subst":
            rel, old, new = arg
            path = os.path.join(d, rel)
            src = open(path).read()
            if src.count(old) < 1:
                return {"apply_failed": f"text not found in {rel}: {old!r}"}
            open(path, "w").write(src.replace(old, new, 1))
            rc, o = 0, ""
        else:
            rc, diff = sh(f"git -C /repo show {arg} -- uxarray")
            rc, o = sh("git apply -R --3way -", cwd=d, inp=diff)
        if rc != 0:
            return {"apply_failed": o[-300:]}
        rc, o = sh("/venv/bin/python -m compileall -q uxarray", cwd=d)
        if rc != 0:
            return {"compile_failed": o[-300:]}
        return run_checks(d, props)
    finally:
        shutil.rmtree(d, ignore_errors=True)


def fmt(res):
    if "apply_failed" in res or "compile_failed" in res:
        return str(res)
    caught = [p for p, (rc, _) in res.items() if rc == 1]
    inc = [p for p, (rc, _) in res.items() if rc == 2]
    s = f"caught_by={caught} incomplete_in={inc}"
    for p in caught + inc:
        for l in res[p][1]:
            if l.startswith("  rule=") or l.startswith("ANALYSIS-"):
                s += f"\n      {p}: {l.strip()[:230]}"
    return s


def main():
    mode = sys.argv[1]
    if mode in ("patch", "revert"):
        props = sys.argv[3:] or claimed()
        print(fmt(with_change(mode, sys.argv[2], props)))
        return 0
    if mode == "subst":
        rel, old, new = sys.argv[2:5]
        props = sys.argv[5:] or claimed()
        print(fmt(with_change("subst", (rel, old.encode().decode("unicode_escape"), new.encode().decode("unicode_escape")), props)))
        return 0
    if mode == "seeded":
        names = sys.argv[2:] or sorted(os.listdir(os.path.join(VERIF, "seeded")))
        props = claimed()
        def one(nm):
            return nm, with_change("patch", os.path.join(VERIF, "seeded", nm, "patch.diff"), props)
        with ThreadPoolExecutor(14) as ex:
            for nm, res in ex.map(one, names):
                meta = json.load(open(os.path.join(VERIF, "seeded", nm, "meta.json")))
                print(f"{nm} (breaks {meta['property']}): {fmt(res)}")
        return 0
    if mode == "twins":
        rest = sys.argv[2:]
        props = claimed()
        if "--" in rest:
            props = rest[rest.index("--") + 1:]
            rest = rest[:rest.index("--")]
        names = rest or sorted(os.listdir(os.path.join(VERIF, "twins")))
        def one(nm):
            return nm, with_change("patch", os.path.join(VERIF, "twins", nm, "patch.diff"), props)
        fa = 0
        with ThreadPoolExecutor(5) as ex:
            for nm, res in ex.map(one, names):
                if "apply_failed" in res or "compile_failed" in res:
                    print(f"{nm}: {res}")
                    continue
                alarms = [p for p, (rc, _) in res.items() if rc == 1]
                inc = [p for p, (rc, _) in res.items() if rc == 2]
                fa += len(alarms)
                print(f"{nm}: false_alarms={alarms} incomplete_in={inc}")
                for p_ in alarms + inc:
                    for l in res[p_][1]:
                        if l.startswith("  rule=") or l.startswith("ANALYSIS-"):
                            print(f"      {p_}: {l.strip()[:260]}")
        print(f"false_alarms={fa} over {len(names)} twins")
        return 0 if fa == 0 else 1
    if mode == "fixed":
        recs = [json.loads(l) for l in open(os.path.join(VERIF, "known_findings.jsonl")) if l.strip() and not l.startswith("#")]
        recs = [r for r in recs if r.get("fixed")]
        cl = set(claimed())
        def one(r):
            props = sorted(cl)
            return r, with_change("revert", r["commit"], props)
        miss = 0
        with ThreadPoolExecutor(14) as ex:
            for r, res in ex.map(one, recs):
                own = r["property"]
                ok = isinstance(res.get(own), tuple) and res[own][0] == 1
                anyc = [p for p, v in res.items() if isinstance(v, tuple) and v[0] == 1]
                if not anyc:
                    miss += 1
                print(f"{'OK  ' if ok else ('ALT ' if anyc else 'MISS')} {r['commit']} {own}: {r['what'][:90]} -> {fmt(res).splitlines()[0]}")
        print(f"missed={miss} of {len(recs)}")
        return 0
    return 2


if __name__ == "__main__":
    sys.exit(main())
