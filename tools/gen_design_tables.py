#!/usr/bin/env python3
"""Fills the SEEDED_TABLE / FIXED_TABLE blocks of DESIGN.md from the outputs of
   tools/mutcheck.py seeded > <seeded.txt>   and   tools/mutcheck.py fixed > <fixed.txt>."""
import json, os, re, sys
VERIF = os.path.dirname(os.path.dirname(os.path.abspath(__file__)))
seeded_txt, fixed_txt = sys.argv[1:3]
twins_txt = sys.argv[3] if len(sys.argv) > 3 else None

def seeded_table():
    rows = []
    cur = None
    for ln in open(seeded_txt):
        m = re.match(r"^(\S+) \(breaks (C\d+)\): caught_by=(\[.*?\]) incomplete_in=(\[.*?\])", ln)
        if m:
            cur = {"name": m.group(1), "prop": m.group(2), "caught": eval(m.group(3)), "inc": eval(m.group(4)), "rules": []}
            rows.append(cur)
        elif cur is not None and "rule=" in ln:
            mm = re.search(r"(C\d+): rule=(\S+) construct=(\S+)", ln)
            if mm:
                cur["rules"].append(f"{mm.group(1)} {mm.group(2)}")
    out = ["| change | breaks | what it does / what it needs | caught by (rule) |", "|---|---|---|---|"]
    for r in rows:
        meta_p = os.path.join(VERIF, "seeded", r["name"], "meta.json")
        notes_p = os.path.join(VERIF, "seeded", r["name"], "notes.md")
        desc = ""
        if os.path.exists(notes_p):
            txt = open(notes_p).read().strip().splitlines()
            body = [t.strip("-* #") for t in txt if t.strip() and not t.startswith("#")]
            desc = (body[0] if body else "")[:170]
        rules = sorted(set(r["rules"]))
        own = r["prop"] in r["caught"]
        caught = ", ".join(rules[:3]) if rules else ("**missed**" if not r["inc"] else "ANALYSIS-INCOMPLETE in " + ",".join(r["inc"]))
        out.append(f"| {r['name']} | {r['prop']}{'' if own or not r['caught'] else ' (by ' + '/'.join(r['caught']) + ')'} | {desc} | {caught} |")
    n_c = sum(1 for r in rows if r["caught"])
    out.append("")
    out.append(f"{n_c} of {len(rows)} seeded changes are reported as VIOLATION by at least one check; {sum(1 for r in rows if r['prop'] in r['caught'])} by the check of the property they were written against.")
    return "\n".join(out)

def fixed_table():
    out = ["| commit | property | defect | re-detected by |", "|---|---|---|---|"]
    n = ok = 0
    for ln in open(fixed_txt):
        m = re.match(r"^(OK|ALT|MISS)\s+(\w+) (C\d+): (.*?) -> (.*)$", ln)
        if not m:
            continue
        n += 1
        st, commit, prop, what, res = m.groups()
        if "apply_failed" in res:
            det = "not revertible in isolation (later commits touch the same lines); covered by a catalogue mutant"
        else:
            mm = re.search(r"caught_by=(\[.*?\])", res)
            lst = eval(mm.group(1)) if mm else []
            det = ", ".join(lst) if lst else "— (no longer a defect on its own: see text)"
            if lst:
                ok += 1
        out.append(f"| {commit} | {prop} | {what[:110]} | {det} |")
    out.append("")
    out.append(f"{ok} of {n} reverted repairs are re-detected; the remaining ones are explained in the last column.")
    return "\n".join(out)

def twin_table():
    rows = []
    cur = None
    for ln in open(twins_txt):
        m = re.match(r"^(\S+): false_alarms=(\[.*?\]) incomplete_in=(\[.*?\])", ln)
        if m:
            cur = {"name": m.group(1), "fa": eval(m.group(2)), "inc": eval(m.group(3)), "rules": []}
            rows.append(cur)
        elif cur is not None and "rule=" in ln:
            mm = re.search(r"(C\d+): (?:ANALYSIS-INCOMPLETE property=C\d+ )?rule=(\S+)", ln)
            if mm:
                cur["rules"].append(f"{mm.group(1)} {mm.group(2)}")
    out = ["| refactoring | what it restructures | first run | now |", "|---|---|---|---|"]
    for r in rows:
        d = os.path.join(VERIF, "twins", r["name"])
        desc = ""
        if os.path.exists(os.path.join(d, "notes.md")):
            txt = open(os.path.join(d, "notes.md")).read().strip().splitlines()
            body = [t.strip("-* #") for t in txt if t.strip() and not t.startswith("#")]
            desc = (body[0] if body else "")[:150]
        first = ""
        mp = os.path.join(d, "meta.json")
        if os.path.exists(mp):
            m0 = json.load(open(mp))
            m0 = m0.get('first_run', m0)     # round 2: the first run was recorded before the twin was filed
            first = ("false alarm " + ",".join(m0.get("false_alarms", []))) if m0.get("false_alarms") else ("not understood " + ",".join(m0.get("incomplete_in", []))) if m0.get("incomplete_in") else "silent"
        now = ("**false alarm** " + ",".join(r["fa"])) if r["fa"] else ("not understood: " + ", ".join(sorted(set(r["rules"]))[:2])) if r["inc"] else "silent"
        out.append(f"| {r['name']} | {desc} | {first} | {now} |")
    out.append("")
    out.append(f"{sum(1 for r in rows if not r['fa'] and not r['inc'])} of {len(rows)} refactorings leave every check silent, {sum(1 for r in rows if r['inc'] and not r['fa'])} end in ANALYSIS-INCOMPLETE (exit 2) in at least one check, {sum(1 for r in rows if r['fa'])} raise a false alarm.")
    return "\n".join(out)


p = os.path.join(VERIF, "DESIGN.md")
s = open(p).read()
def put(s, tag, body):
    b, e = f"<!-- {tag}:begin -->", f"<!-- {tag}:end -->"
    if b in s:
        i, j = s.index(b), s.index(e)
        return s[:i] + b + "\n" + body + "\n" + s[j:]
    return s.replace(tag, b + "\n" + body + "\n" + e)
s = put(s, "SEEDED_TABLE", seeded_table())
s = put(s, "FIXED_TABLE", fixed_table())
if twins_txt:
    s = put(s, "TWIN_TABLE", twin_table())
open(p, "w").write(s)
print("tables written")
