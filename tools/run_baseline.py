#!/usr/bin/env python3
"""Runs the repository's pinned suite and reports stable-pass tests that no longer pass."""
import json, subprocess, sys, tempfile, os, xml.etree.ElementTree as ET
base = json.load(open("/root/.vp/BASELINE.json"))
out = tempfile.mktemp(suffix=".xml", dir=os.environ.get("TMPDIR", "/tmp"))
cmd = base["cmd"].replace("<file>", out)
subprocess.run(cmd, shell=True, stdout=subprocess.DEVNULL, stderr=subprocess.DEVNULL)
passed = set()
for tc in ET.parse(out).getroot().iter("testcase"):
    if not any(ch.tag in ("failure", "error", "skipped") for ch in tc):
        passed.add(f"{tc.get('classname')}::{tc.get('name')}")
os.remove(out)
missing = [t for t in base["stable_pass"] if t not in passed]
print(f"passed={len(passed)} stable={len(base['stable_pass'])} missing={len(missing)}")
for m in missing:
    print("  MISSING", m)
sys.exit(1 if missing else 0)
