#!/usr/bin/env python3
"""Confirms a sub-agent's seeded change and files it under /verif/seeded/<name>/.

usage: seed_validate.py <src_dir> <name> <property> [--no-baseline]
  <src_dir> holds patch.diff, demo.py, notes.md (written by the sub-agent).
Steps, all in a scratch worktree of /repo's HEAD under /tmp (removed afterwards):
  1. demo on the clean tree must exit 0
  2. patch must apply; the package must still compile
  3. demo with the patch must exit non-zero
  4. the pinned suite (BASELINE.json stable_pass) must still pass with the patch
  5. every registered quick check is run with UXSA_REPO=<scratch> (static analysis of the patched sources);
     which checks report VIOLATION / ANALYSIS-INCOMPLETE is recorded in meta.json
Nothing is written to /repo."""
import json, os, shutil, subprocess, sys, tempfile, compileall

VERIF = os.path.dirname(os.path.dirname(os.path.abspath(__file__)))


def sh(cmd, cwd=None, env=None, timeout=3600):
    p = subprocess.run(cmd, shell=True, cwd=cwd, env=env, capture_output=True, text=True, timeout=timeout)
    return p.returncode, (p.stdout + p.stderr)


def run_checks(wt, props=None):
    man = json.load(open(os.path.join(VERIF, "MANIFEST.json")))
    env = dict(os.environ, UXSA_REPO=wt, UXSA_NO_EVIDENCE="1")
    out = {}
    for c in man["checks"]:
        pid = c["property_id"]
        if props and pid not in props:
            continue
        rc, txt = sh(c["quick_cmd"], cwd=VERIF, env=env)
        lines = [l for l in txt.splitlines() if l.startswith(("VIOLATION", "  rule=", "ANALYSIS-"))]
        out[pid] = {"exit": rc, "lines": lines[:12]}
    return out


def main():
    src, name, prop = sys.argv[1:4]
    do_base = "--no-baseline" not in sys.argv
    wt = tempfile.mkdtemp(prefix="seedval_", dir="/tmp")
    os.rmdir(wt)
    rc, o = sh(f"git -C /repo worktree add --detach {wt} HEAD")
    assert rc == 0, o
    meta = {"name": name, "property": prop, "repo_head": sh("git -C /repo rev-parse --short HEAD")[1].strip()}
    try:
        demo = os.path.join(src, "demo.py")
        rc, o = sh(f"/venv/bin/python {demo}", cwd=wt)
        meta["demo_clean_exit"] = rc
        if rc != 0:
            meta["demo_clean_output"] = o[-800:]
        rc, o = sh(f"git apply --3way {os.path.join(src, 'patch.diff')}", cwd=wt)
        meta["patch_applies"] = rc == 0
        if rc != 0:
            meta["apply_output"] = o[-500:]
            print(json.dumps(meta, indent=1))
            return 1
        sh("git reset -q", cwd=wt)
        rc, o = sh(f"/venv/bin/python -m compileall -q uxarray", cwd=wt)
        meta["compiles"] = rc == 0
        rc, o = sh(f"/venv/bin/python {demo}", cwd=wt)
        meta["demo_patched_exit"] = rc
        meta["demo_patched_tail"] = o.strip().splitlines()[-1][:300] if o.strip() else ""
        if do_base:
            rc, o = sh(f"python3 /tmp/seedkit/run_baseline.py {wt}" if os.path.exists("/tmp/seedkit/run_baseline.py") else f"python3 {VERIF}/tools/run_baseline_in.py {wt}")
            meta["baseline_with_patch"] = o.strip().splitlines()[0] if o.strip() else ""
            meta["baseline_ok"] = rc == 0
        sh("rm -f grid_geoflow.exo; find . -name __pycache__ -prune -exec rm -rf {} +", cwd=wt)
        meta["checks"] = run_checks(wt)
        meta["caught_by"] = sorted(p for p, r in meta["checks"].items() if r["exit"] == 1)
        meta["incomplete_in"] = sorted(p for p, r in meta["checks"].items() if r["exit"] == 2)
        diff = sh("git diff", cwd=wt)[1]
    finally:
        sh(f"git -C /repo worktree remove --force {wt}")
        shutil.rmtree(wt, ignore_errors=True)
    confirmed = meta.get("demo_clean_exit") == 0 and meta.get("demo_patched_exit", 0) != 0 and meta.get("compiles") and (meta.get("baseline_ok") or not do_base)
    meta["confirmed"] = bool(confirmed)
    print(json.dumps({k: v for k, v in meta.items() if k != "checks"}, indent=1))
    if confirmed:
        dst = os.path.join(VERIF, "seeded", name)
        os.makedirs(dst, exist_ok=True)
        with open(os.path.join(dst, "patch.diff"), "w") as f:
            f.write(diff)  # re-generated against the current HEAD
        shutil.copy(demo, os.path.join(dst, "demo.py"))
        if os.path.exists(os.path.join(src, "notes.md")):
            shutil.copy(os.path.join(src, "notes.md"), os.path.join(dst, "notes.md"))
        meta["ran"] = [
            "scratch worktree of /repo HEAD under /tmp (removed afterwards)",
            "demo.py on the clean tree (exit 0), git apply patch.diff, compileall, demo.py (non-zero exit)",
            "pinned suite with the patch (stable_pass of /root/.vp/BASELINE.json all passing)" if do_base else "baseline skipped",
            "every MANIFEST quick_cmd with UXSA_REPO=<scratch worktree>",
        ]
        with open(os.path.join(dst, "meta.json"), "w") as f:
            json.dump(meta, f, indent=1)
    return 0 if confirmed else 1


if __name__ == "__main__":
    sys.exit(main())
