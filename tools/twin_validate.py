#!/usr/bin/env python3
"""Confirms a behaviour-preserving refactoring written by a sub-agent and files it under /verif/twins/<name>/.

usage: twin_validate.py <src_dir> <name> <property> [--no-baseline]
Steps (scratch worktree of /repo HEAD under /tmp, removed afterwards):
  1. equiv.py on the clean tree -> output A;  2. patch applies and compiles;  3. equiv.py with the patch -> output B, must equal A;
  4. pinned suite passes with the patch;  5. every registered quick check with UXSA_REPO=<scratch>: a VIOLATION is a FALSE ALARM of the checker
     (ANALYSIS-INCOMPLETE = idiom not understood, recorded separately)."""
import json, os, shutil, subprocess, sys, tempfile
sys.path.insert(0, os.path.dirname(os.path.abspath(__file__)))
from seed_validate import sh, run_checks, VERIF


def main():
    src, name, prop = sys.argv[1:4]
    do_base = "--no-baseline" not in sys.argv
    wt = tempfile.mkdtemp(prefix="twinval_", dir="/tmp")
    os.rmdir(wt)
    rc, o = sh(f"git -C /repo worktree add --detach {wt} HEAD")
    assert rc == 0, o
    meta = {"name": name, "property": prop, "repo_head": sh("git -C /repo rev-parse --short HEAD")[1].strip(), "kind": "behaviour-preserving twin"}
    try:
        eq = os.path.join(src, "equiv.py")
        rc, a = sh(f"/venv/bin/python {eq} 2>/dev/null", cwd=wt)
        meta["equiv_clean_exit"] = rc
        rc, o = sh(f"git apply --3way {os.path.join(src, 'patch.diff')}", cwd=wt)
        meta["patch_applies"] = rc == 0
        if rc != 0:
            meta["apply_output"] = o[-400:]
            print(json.dumps(meta, indent=1))
            return 1
        sh("git reset -q", cwd=wt)
        rc, o = sh("/venv/bin/python -m compileall -q uxarray", cwd=wt)
        meta["compiles"] = rc == 0
        rc, b = sh(f"/venv/bin/python {eq} 2>/dev/null", cwd=wt)
        meta["equiv_patched_exit"] = rc
        meta["equiv_identical"] = (a == b) and bool(a.strip())
        if do_base:
            rc, o = sh(f"python3 /tmp/seedkit/run_baseline.py {wt}")
            meta["baseline_with_patch"] = o.strip().splitlines()[0] if o.strip() else ""
            meta["baseline_ok"] = rc == 0
        sh("rm -f grid_geoflow.exo; find . -name __pycache__ -prune -exec rm -rf {} +", cwd=wt)
        meta["checks"] = run_checks(wt)
        meta["false_alarms"] = sorted(p for p, r in meta["checks"].items() if r["exit"] == 1)
        meta["incomplete_in"] = sorted(p for p, r in meta["checks"].items() if r["exit"] == 2)
        diff = sh("git diff", cwd=wt)[1]
    finally:
        sh(f"git -C /repo worktree remove --force {wt}")
        shutil.rmtree(wt, ignore_errors=True)
    confirmed = meta.get("equiv_clean_exit") == 0 and meta.get("equiv_patched_exit") == 0 and meta.get("equiv_identical") and meta.get("compiles") and (meta.get("baseline_ok") or not do_base)
    meta["confirmed"] = bool(confirmed)
    slim = {k: v for k, v in meta.items() if k != "checks"}
    slim["lines"] = {p: r["lines"][:4] for p, r in meta.get("checks", {}).items() if r["exit"] != 0}
    print(json.dumps(slim, indent=1))
    if confirmed:
        dst = os.path.join(VERIF, "twins", name)
        os.makedirs(dst, exist_ok=True)
        open(os.path.join(dst, "patch.diff"), "w").write(diff)
        shutil.copy(eq, os.path.join(dst, "equiv.py"))
        if os.path.exists(os.path.join(src, "notes.md")):
            shutil.copy(os.path.join(src, "notes.md"), os.path.join(dst, "notes.md"))
        json.dump(meta, open(os.path.join(dst, "meta.json"), "w"), indent=1)
    return 0 if confirmed else 1


if __name__ == "__main__":
    sys.exit(main())
