#!/usr/bin/env python3
"""Rewrites the 'obligations' column of DESIGN.md §9.3 from evidence/<id>.json (as written by the last quick run)."""
import json, os, re
VERIF = os.path.dirname(os.path.dirname(os.path.abspath(__file__)))
p = os.path.join(VERIF, "DESIGN.md")
s = open(p).read()
for i in range(1, 21):
    pid = f"C{i:02d}"
    ev = json.load(open(os.path.join(VERIF, "evidence", f"{pid}.json")))
    n = ev["coverage"]["obligations"]
    s = re.sub(rf"^\| {pid} \| \d+ \|", f"| {pid} | {n} |", s, flags=re.M)
open(p, "w").write(s)
print("status counts updated")
