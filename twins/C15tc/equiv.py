import sys, os

sys.path.insert(0, os.getcwd())

import hashlib
import warnings

warnings.filterwarnings("ignore")

import numpy as np
import cartopy.crs as ccrs
import shapely

import uxarray

assert os.path.abspath(uxarray.__file__).startswith(os.path.abspath(os.getcwd()) + os.sep), (
    uxarray.__file__
)

import uxarray as ux
from uxarray.grid import geometry as G

FILL = ux.INT_FILL_VALUE


# ----------------------------------------------------------------------------- digests
def h(arr):
    arr = np.asarray(arr)
    if arr.dtype == object:
        return "obj:" + hashlib.sha1(repr(arr.tolist()).encode()).hexdigest()[:12]
    a = np.ascontiguousarray(arr)
    return f"{a.dtype}{a.shape}:{hashlib.sha1(a.tobytes()).hexdigest()[:12]}"


def dig_value(v):
    if v is None:
        return "None"
    if isinstance(v, np.ndarray):
        return "nd " + h(v)
    if isinstance(v, (list, tuple)):
        return type(v).__name__ + f"[{len(v)}] " + h(np.asarray(v, dtype=np.int64)) if len(
            v
        ) and not hasattr(v[0], "shape") else type(v).__name__ + f"[{len(v)}]"
    if isinstance(v, (str, bool, int, float)):
        return repr(v)
    if isinstance(v, ccrs.Projection):
        return "proj " + type(v).__name__ + " lon_0=" + str(v.proj4_params.get("lon_0"))
    return "<" + type(v).__name__ + ">"


def dig_geoms(geoms):
    """geoms: iterable of shapely geometries -> digest preserving order and exact coords"""
    m = hashlib.sha1()
    types = {}
    n = 0
    for g in geoms:
        n += 1
        types[g.geom_type] = types.get(g.geom_type, 0) + 1
        m.update(shapely.to_wkb(g))
    return f"n={n} types={sorted(types.items())} wkb={m.hexdigest()[:12]}"


def dig_gdf(gdf):
    out = [type(gdf).__module__.split(".")[0], f"cols={list(gdf.columns)}", f"len={len(gdf)}"]
    out.append("index=" + h(np.asarray(gdf.index)))
    geom = gdf["geometry"]
    if type(gdf).__module__.startswith("geopandas"):
        out.append(dig_geoms(list(geom.values)))
    else:
        arr = geom.values
        out.append(type(arr).__name__)
        out.append("buf=" + h(np.asarray(arr.buffer_values)))
        out.append("offs=" + ",".join(h(np.asarray(o)) for o in arr.buffer_offsets))
    for c in gdf.columns:
        if c != "geometry":
            out.append(f"{c}=" + h(np.asarray(gdf[c])))
    return " | ".join(out)


def dig_collection(col):
    if hasattr(col, "get_segments"):
        segs = col.get_segments()
        verts = segs
    else:
        verts = [p.vertices for p in col.get_paths()]
    m = hashlib.sha1()
    dts = set()
    for v in verts:
        v = np.ascontiguousarray(v)
        dts.add(str(v.dtype))
        m.update(str(v.shape).encode())
        m.update(v.tobytes())
    arr = col.get_array()
    t = col._transform
    return (
        f"{type(col).__name__} n={len(verts)} dt={sorted(dts)} v={m.hexdigest()[:12]} "
        f"array={'None' if arr is None else h(np.asarray(arr))} transform={type(t).__name__}"
    )


def dig_cache(d):
    return "{" + ", ".join(f"{k}: {dig_value(v)}" for k, v in d.items()) + "}"


def attempt(label, fn):
    try:
        r = fn()
    except Exception as e:  # noqa
        print(f"{label} -> EXC {type(e).__name__}: {e}")
        return None
    print(f"{label} -> {r}")
    return r


# ----------------------------------------------------------------------------- grids
def synthetic_grid():
    """mixed triangles / quads / pentagon, three faces cross the antimeridian, fill values"""
    node_lon = np.array(
        [
            150.0, 165.0, 178.0, -170.0, -155.0,  # row lat -10  (0..4)
            150.0, 165.0, 178.0, -170.0, -155.0,  # row lat  10  (5..9)
            157.0, 171.0, -176.0, -162.0,         # row lat  25  (10..13)
            -30.0, -10.0, -20.0,                  # far away triangle (14..16)
            179.0, -179.0, 180.0,                 # tiny sliver right at the antimeridian (17..19)
        ]
    )
    node_lat = np.array(
        [
            -10.0, -10.0, -10.0, -10.0, -10.0,
            10.0, 10.0, 10.0, 10.0, 10.0,
            25.0, 25.0, 25.0, 25.0,
            40.0, 40.0, 55.0,
            -40.0, -40.0, -30.0,
        ]
    )
    F = -1
    fnc = np.array(
        [
            [0, 1, 6, 5, F],      # quad
            [1, 2, 7, 6, F],      # quad
            [2, 3, 8, 7, F],      # quad crossing antimeridian
            [3, 4, 9, 8, F],      # quad
            [5, 6, 10, F, F],     # triangle
            [6, 7, 11, 10, F],    # quad
            [7, 8, 12, 11, F],    # quad crossing
            [8, 9, 13, 12, F],    # quad
            [14, 15, 16, F, F],   # triangle
            [17, 18, 19, F, F],   # triangle crossing (179 -> -179 -> 180)
            [6, 7, 8, 12, 11],    # pentagon crossing (overlaps, irrelevant for conversion)
        ]
    )
    return ux.Grid.from_topology(node_lon, node_lat, fnc, fill_value=F)


def no_am_grid():
    node_lon = np.array([0.0, 10.0, 20.0, 0.0, 10.0, 20.0, 5.0])
    node_lat = np.array([0.0, 0.0, 0.0, 10.0, 10.0, 10.0, 20.0])
    fnc = np.array([[0, 1, 4, 3], [1, 2, 5, 4], [3, 4, 6, -1]])
    return ux.Grid.from_topology(node_lon, node_lat, fnc, fill_value=-1)


BASE = os.path.join(os.getcwd(), "test", "meshfiles")
FILES = {
    "ov_RLL10_CSne4": os.path.join(BASE, "ugrid", "ov_RLL10deg_CSne4", "ov_RLL10deg_CSne4.ug"),
    "geoflow": os.path.join(BASE, "ugrid", "geoflow-small", "grid.nc"),
    "CSne30": os.path.join(BASE, "ugrid", "outCSne30", "outCSne30.ug"),
}


def make_grids():
    yield "synthetic", synthetic_grid
    yield "no_am", no_am_grid
    for k, p in FILES.items():
        yield k, (lambda p=p: ux.open_grid(p))


PROJS = {
    "None": lambda: None,
    "Robinson": lambda: ccrs.Robinson(),
    "Ortho": lambda: ccrs.Orthographic(central_longitude=-100, central_latitude=30),
    "PC90": lambda: ccrs.PlateCarree(central_longitude=90),
    "Rob90": lambda: ccrs.Robinson(central_longitude=90),
}


# ----------------------------------------------------------------------------- low level helpers
def low_level(name, grid):
    print(f"== low level [{name}]")
    fnc = grid.face_node_connectivity.values
    nn = grid.n_nodes_per_face.values
    closed = G._pad_closed_face_nodes(fnc, grid.n_face, grid.n_max_face_nodes, nn)
    print("closed", h(closed))
    shells = G._build_polygon_shells(
        grid.node_lon.values, grid.node_lat.values, fnc, grid.n_face, grid.n_max_face_nodes, nn
    )
    print("shells", h(shells))
    for pname in ("Robinson", "Ortho"):
        ps = G._build_polygon_shells(
            grid.node_lon.values,
            grid.node_lat.values,
            fnc,
            grid.n_face,
            grid.n_max_face_nodes,
            nn,
            projection=PROJS[pname](),
            central_longitude=0.0,
        )
        print("shells", pname, h(ps), "nan faces", int(np.isnan(ps).any(axis=(1, 2)).sum()))
    am = G._build_antimeridian_face_indices(shells[:, :, 0])
    print("am", h(am), am.tolist()[:20])
    print("am populate", h(G._populate_antimeridian_face_indices(grid)))
    print("am property", h(grid.antimeridian_face_indices))
    # edge cases of the index builder
    for sx in (
        np.array([[0.0, 10.0, 0.0]], dtype=np.float32),
        np.array([[170.0, -170.0, 170.0]], dtype=np.float32),
        np.array([[0.0, 180.0, 0.0], [0.0, 179.99, 0.0], [-90.0, 90.0, -90.0]], dtype=np.float32),
        np.array([[179.0, -179.0, 179.0], [1.0, 2.0, 1.0], [-179.5, 179.5, -179.5]], dtype=np.float32),
    ):
        r = G._build_antimeridian_face_indices(sx)
        print("  am edge", r.dtype, r.shape, r.tolist())
    rng = np.random.default_rng(123)
    for shape in ((1, 4), (7, 3), (50, 9), (400, 5)):
        sx = rng.uniform(-180, 180, size=shape).astype(np.float32)
        sx[:, -1] = sx[:, 0]
        sx[::3] *= 0.3  # make a good share of the rows non-crossing
        r = G._build_antimeridian_face_indices(sx)
        print("  am random", shape, r.dtype, r.shape, r.ndim, h(r), bool(r.flags.writeable))
    if grid.n_face <= 2000:
        cs, idx = G._build_corrected_polygon_shells(shells)
        m = hashlib.sha1()
        for s in cs:
            m.update(str(s.shape).encode() + str(s.dtype).encode())
            m.update(np.ascontiguousarray(s).tobytes())
        print("corrected shells", len(cs), m.hexdigest()[:12], type(idx).__name__, h(np.asarray(idx)))
        polys = G._build_corrected_shapely_polygons(shells, None, am)
        print("corrected shapely", type(polys).__name__, dig_geoms(list(polys)))
        print("convert shells", dig_geoms(G._convert_shells_to_polygons(shells)))
    for pe in ("exclude", "split", "ignore"):
        for pname, ap in (("None", True), ("Robinson", True), ("Robinson", False), ("Ortho", True), ("Rob90", True), ("Rob90", False)):
            def f():
                polygons, cl, ami, nni = G._get_polygons(grid, pe, PROJS[pname](), ap)
                return f"{dig_geoms(list(polygons))} cl={cl} am={h(ami)} nn={dig_value(nni)}"
            attempt(f"  _get_polygons {pe} {pname} apply={ap}", f)


# ----------------------------------------------------------------------------- grid-level conversions
def gdf_sequence(name, mk):
    print(f"== gdf sequence [{name}]")
    grid = mk()
    seq = [
        dict(periodic_elements="exclude"),
        dict(periodic_elements="exclude"),  # cache hit
        dict(periodic_elements="split", engine="geopandas"),
        dict(periodic_elements="ignore", engine="geopandas"),
        dict(periodic_elements="ignore"),
        dict(periodic_elements="exclude", projection="Robinson"),
        dict(periodic_elements="exclude"),  # unprojected after projected
        dict(periodic_elements="exclude", projection="Ortho", engine="geopandas"),
        dict(periodic_elements="exclude", projection="Ortho", engine="geopandas", exclude_nan_polygons=False),
        dict(periodic_elements="ignore", projection="Ortho", return_non_nan_polygon_indices=True),
        dict(periodic_elements="ignore", projection="Ortho", return_non_nan_polygon_indices=True),  # hit
        dict(periodic_elements="exclude", projection="PC90", engine="geopandas"),
        dict(periodic_elements="exclude", projection="PC90", engine="geopandas", project=False),
        dict(periodic_elements="split", projection="PC90", project=False, engine="geopandas"),
        dict(periodic_elements="exclude", projection="Rob90", engine="geopandas"),
        dict(periodic_elements="exclude", projection="Rob90", engine="geopandas", project=False),
        dict(periodic_elements="split", projection="Rob90", project=False, engine="geopandas"),
        dict(periodic_elements="ignore", projection="Rob90"),
        dict(periodic_elements="split", projection="Robinson"),  # ValueError
        dict(periodic_elements="split", cache=False),
        dict(periodic_elements="split", override=True, engine="geopandas"),
        dict(exclude_antimeridian=True, engine="geopandas"),
        dict(exclude_antimeridian=False, engine="geopandas"),
        dict(periodic_elements="bogus"),
        dict(engine="bogus"),
        dict(periodic_elements="exclude", engine="geopandas"),
    ]
    prev = None
    for i, kw in enumerate(seq):
        kw = dict(kw)
        label = f"  [{i}] {kw}"
        if "projection" in kw:
            kw["projection"] = PROJS[kw["projection"]]()

        def f():
            nonlocal prev
            r = grid.to_geodataframe(**kw)
            if isinstance(r, tuple):
                gdf, nni = r
                s = dig_gdf(gdf) + " nn=" + dig_value(nni)
            else:
                gdf = r
                s = dig_gdf(gdf)
            s += f" same_as_prev={gdf is prev} is_cached={gdf is grid._gdf_cached_parameters['gdf']}"
            prev = gdf
            return s

        attempt(label, f)
        print("      cache", dig_cache(grid._gdf_cached_parameters))


def poly_sequence(name, mk):
    print(f"== polycollection sequence [{name}]")
    grid = mk()
    seq = [
        dict(periodic_elements="exclude", return_indices=True),
        dict(periodic_elements="exclude", return_indices=True),
        dict(periodic_elements="exclude"),
        dict(periodic_elements="split", return_indices=True),
        dict(periodic_elements="ignore", return_indices=True),
        dict(periodic_elements="exclude", projection="Robinson", return_indices=True),
        dict(periodic_elements="exclude", return_indices=True),
        dict(periodic_elements="exclude", projection="Ortho", return_indices=True),
        dict(periodic_elements="ignore", projection="Ortho", return_indices=True),
        dict(periodic_elements="exclude", projection="PC90", return_indices=True),
        dict(periodic_elements="split", projection="PC90"),  # ValueError
        dict(periodic_elements="exclude", projection="Rob90", return_indices=True),
        dict(periodic_elements="ignore", projection="Rob90", return_indices=True),
        dict(periodic_elements="split", cache=False, return_indices=True),
        dict(periodic_elements="split", override=True),
        dict(periodic_elements="exclude", return_indices=True, linewidth=2.0),
        dict(periodic_elements="exclude", return_indices=True, transform=ccrs.Mollweide()),
        dict(periodic_elements="bogus"),
        dict(periodic_elements="exclude", return_indices=True),
    ]
    for i, kw in enumerate(seq):
        kw = dict(kw)
        label = f"  [{i}] { {k: (type(v).__name__ if isinstance(v, ccrs.Projection) else v) for k, v in kw.items()} }"
        if isinstance(kw.get("projection"), str):
            kw["projection"] = PROJS[kw["projection"]]()

        def f():
            r = grid.to_polycollection(**kw)
            if isinstance(r, tuple):
                pc, idx = r
                s = dig_collection(pc) + f" idx={type(idx).__name__} " + h(np.asarray(idx, dtype=np.int64))
            else:
                pc = r
                s = dig_collection(pc)
            s += f" is_cached={pc is grid._poly_collection_cached_parameters['poly_collection']}"
            return s

        attempt(label, f)
        print("      cache", dig_cache(grid._poly_collection_cached_parameters))


def line_sequence(name, mk):
    print(f"== linecollection sequence [{name}]")
    grid = mk()
    seq = [
        dict(periodic_elements="exclude"),
        dict(periodic_elements="exclude"),
        dict(periodic_elements="split"),
        dict(periodic_elements="ignore"),
        dict(periodic_elements="exclude", projection="Robinson"),
        dict(periodic_elements="exclude"),
        dict(periodic_elements="split", projection="Robinson"),
        dict(periodic_elements="split", projection="PC90"),
        dict(periodic_elements="exclude", projection="Ortho"),
        dict(periodic_elements="ignore", projection="Ortho"),
        dict(periodic_elements="exclude", projection="Rob90"),
        dict(periodic_elements="split", projection="Rob90"),
        dict(periodic_elements="split", cache=False),
        dict(periodic_elements="split", override=True, linewidths=0.5),
        dict(periodic_elements="bogus"),
        dict(periodic_elements="split"),
    ]
    for i, kw in enumerate(seq):
        kw = dict(kw)
        label = f"  [{i}] {kw}"
        if "projection" in kw:
            kw["projection"] = PROJS[kw["projection"]]()

        def f():
            lc = grid.to_linecollection(**kw)
            return dig_collection(lc) + f" is_cached={lc is grid._line_collection_cached_parameters['line_collection']}"

        attempt(label, f)
        print("      cache", dig_cache(grid._line_collection_cached_parameters))


def data_sequence(name, mk):
    print(f"== data sequence [{name}]")
    grid = mk()
    n = grid.n_face
    rng = np.random.default_rng(7)
    v1 = ux.UxDataArray(np.arange(n, dtype=np.float64) * 10.0, dims=["n_face"], name="v1", uxgrid=grid)
    v2 = ux.UxDataArray(rng.integers(0, 1000, n), dims=["n_face"], uxgrid=grid)  # unnamed -> "var"
    steps = [
        ("gdf", v1, dict(periodic_elements="exclude")),
        ("gdf", v2, dict(periodic_elements="exclude")),
        ("gdf", v1, dict(periodic_elements="split", engine="geopandas")),
        ("gdf", v2, dict(periodic_elements="ignore", engine="geopandas")),
        ("gdf", v1, dict(periodic_elements="exclude", projection="Ortho", engine="geopandas")),
        ("gdf", v2, dict(periodic_elements="exclude", engine="geopandas")),
        ("gdf", v1, dict(periodic_elements="ignore", projection="Robinson")),
        ("gdf", v1, dict(exclude_antimeridian=True)),
        ("gdf", v2, dict(exclude_antimeridian=False, engine="geopandas")),
        ("gdf", v1, dict(periodic_elements="exclude", projection="PC90", project=False)),
        ("gdf", v2, dict(periodic_elements="exclude", projection="Rob90", engine="geopandas")),
        ("gdf", v1, dict(periodic_elements="split", projection="Rob90", project=False)),
        ("pc", v1, dict(periodic_elements="exclude", return_indices=True)),
        ("pc", v2, dict(periodic_elements="exclude", projection="Rob90", return_indices=True)),
        ("pc", v2, dict(periodic_elements="exclude")),
        ("pc", v1, dict(periodic_elements="split", return_indices=True)),
        ("pc", v2, dict(periodic_elements="ignore", return_indices=True)),
        ("pc", v1, dict(periodic_elements="exclude", projection="Ortho", return_indices=True)),
        ("pc", v2, dict(periodic_elements="exclude", return_indices=True)),
        ("pc", v1, dict(periodic_elements="exclude", projection="Robinson")),
        ("pc", v2, dict(periodic_elements="split", cache=False, return_indices=True)),
        ("pc", v1, dict(periodic_elements="exclude", override=True, return_indices=True)),
    ]
    kept = []
    for i, (kind, da, kw) in enumerate(steps):
        kw = dict(kw)
        label = f"  [{i}] {kind} {da.name} {kw}"
        if "projection" in kw:
            kw["projection"] = PROJS[kw["projection"]]()

        def f():
            if kind == "gdf":
                gdf = da.to_geodataframe(**kw)
                kept.append(("gdf", gdf))
                return dig_gdf(gdf)
            r = da.to_polycollection(**kw)
            if isinstance(r, tuple):
                pc, idx = r
                kept.append(("pc", pc))
                return dig_collection(pc) + " idx=" + h(np.asarray(idx, dtype=np.int64))
            kept.append(("pc", r))
            return dig_collection(r)

        attempt(label, f)
    # returned objects are not altered by later conversions
    print("  -- re-digest of all returned objects after the whole sequence")
    for j, (kind, obj) in enumerate(kept):
        print(f"  kept[{j}]", dig_gdf(obj) if kind == "gdf" else dig_collection(obj))
    # wrong shapes
    bad = ux.UxDataArray(np.zeros((2, n)), dims=["t", "n_face"], name="bad", uxgrid=grid)
    attempt("  2d gdf", lambda: dig_gdf(bad.to_geodataframe()))
    attempt("  2d pc", lambda: dig_collection(bad.to_polycollection()))
    nd = ux.UxDataArray(np.zeros(grid.n_node), dims=["n_node"], name="nd", uxgrid=grid)
    attempt("  node gdf", lambda: dig_gdf(nd.to_geodataframe()))
    attempt("  node pc", lambda: dig_collection(nd.to_polycollection()))


def main():
    for name, mk in make_grids():
        big = name == "CSne30"
        low_level(name, mk())
        gdf_sequence(name, mk)
        poly_sequence(name, mk)
        if not big:
            line_sequence(name, mk)
        data_sequence(name, mk)


main()
