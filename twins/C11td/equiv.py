import sys, os

sys.path.insert(0, os.getcwd())

import hashlib
import warnings

import numpy as np

import uxarray
import uxarray as ux

assert os.path.abspath(uxarray.__file__).startswith(os.path.abspath(os.getcwd()) + os.sep), (
    uxarray.__file__
)

warnings.filterwarnings("ignore")

from uxarray.grid import neighbors as nb  # noqa: E402

MESH = os.path.join(os.getcwd(), "test", "meshfiles")


def dig(x):
    """Stable digest of an arbitrary (possibly nested) query result."""
    if isinstance(x, tuple):
        return "tuple(" + ", ".join(dig(v) for v in x) + ")"
    if isinstance(x, list):
        return "list[" + ", ".join(dig(v) for v in x) + "]"
    if isinstance(x, np.ndarray):
        if x.dtype == object:
            return "objarr[" + ", ".join(dig(v) for v in x) + "]"
        a = np.ascontiguousarray(x)
        h = hashlib.sha1(a.tobytes()).hexdigest()[:12]
        head = np.array2string(a.ravel()[:4], precision=17)
        return f"nd(shape={x.shape},dtype={x.dtype},sha={h},head={head})"
    if isinstance(x, np.generic):
        return f"np.{type(x).__name__}({x!r})"
    return f"{type(x).__name__}({x!r})"


def attempt(label, fn):
    try:
        out = fn()
        print(label, "->", dig(out))
    except BaseException as e:  # noqa: BLE001
        print(label, "-> EXC", type(e).__name__, str(e))


def layout(a):
    return f"shape={a.shape} dtype={a.dtype} strides={a.strides} C={a.flags['C_CONTIGUOUS']} owndata={a.flags['OWNDATA']}"


# --------------------------------------------------------------------------
# 1. the two module level preparation helpers, called directly
# --------------------------------------------------------------------------
print("== _prepare_xy_for_query / _prepare_xyz_for_query ==")
xy_inputs = {
    "list1": [10.0, -20.0],
    "tuple1": (179.5, 89.0),
    "int1": [180, -90],
    "arr1": np.array([-179.9, 0.25]),
    "arr2": np.array([[0.0, 0.0], [180.0, 90.0], [-180.0, -90.0], [359.0, 45.0]]),
    "f32": np.array([[1.5, 2.5], [3.5, 4.5]], dtype=np.float32),
    "fortran": np.asfortranarray(np.array([[1.0, 2.0], [3.0, 4.0], [5.0, 6.0]])),
    "list_of_tuples": [(1.0, 2.0), (3.0, 4.0)],
    "three": [1.0, 2.0, 3.0],
    "three_b": np.ones((4, 3)),
    "four": np.ones((2, 4)),
    "one": [1.0],
    "scalar": 3.0,
    "empty": [],
    "empty2": np.empty((0, 2)),
    "cube": np.ones((2, 2, 2)),
    "cube3": np.ones((2, 3, 2)),
    "strings": ["a", "b"],
}
for name, val in xy_inputs.items():
    for use_radians in (False, True):
        for metric in ("haversine", "minkowski", "euclidean", None):
            lab = f"xy[{name}] rad={use_radians} metric={metric}"
            try:
                out = nb._prepare_xy_for_query(val, use_radians, metric)
                print(lab, "->", dig(out), layout(out))
            except BaseException as e:  # noqa: BLE001
                print(lab, "-> EXC", type(e).__name__, str(e))
            try:
                out = nb._prepare_xy_for_query(
                    val, use_radians=use_radians, distance_metric=metric
                )
                print(lab, "(kw) ->", dig(out))
            except BaseException as e:  # noqa: BLE001
                print(lab, "(kw) -> EXC", type(e).__name__, str(e))

xyz_inputs = {
    "list1": [1.0, 0.0, 0.0],
    "tuple1": (0.0, 0.0, -1.0),
    "int1": [0, 1, 0],
    "arr2": np.array([[1.0, 0.0, 0.0], [0.0, 0.0, 1.0]]),
    "f32": np.array([[0.5, 0.5, 0.7071]], dtype=np.float32),
    "fortran": np.asfortranarray(np.eye(3)),
    "two": [1.0, 2.0],
    "two_b": np.ones((4, 2)),
    "four": np.ones((2, 4)),
    "one": [1.0],
    "scalar": 3.0,
    "empty": [],
    "empty3": np.empty((0, 3)),
    "cube": np.ones((2, 3, 3)),
    "cube2": np.ones((2, 2, 3)),
}
for name, val in xyz_inputs.items():
    lab = f"xyz[{name}]"
    try:
        out = nb._prepare_xyz_for_query(val)
        print(lab, "->", dig(out), layout(out))
    except BaseException as e:  # noqa: BLE001
        print(lab, "-> EXC", type(e).__name__, str(e))
    try:
        out = nb._prepare_xyz_for_query(xyz=val)
        print(lab, "(kw) ->", dig(out))
    except BaseException as e:  # noqa: BLE001
        print(lab, "(kw) -> EXC", type(e).__name__, str(e))

# aliasing: an ndarray that needs no conversion is handed through as is
a = np.array([[1.0, 0.0, 0.0], [0.0, 1.0, 0.0]])
print("xyz passthrough identity:", nb._prepare_xyz_for_query(a) is a)
b = np.array([[0.1, 0.2], [0.3, 0.4]])
print("xy passthrough identity (rad, minkowski):", nb._prepare_xy_for_query(b, True, "minkowski") is b)
print("xy flip shares memory (rad, haversine):", np.shares_memory(nb._prepare_xy_for_query(b, True, "haversine"), b))
print("xy deg no sharing:", np.shares_memory(nb._prepare_xy_for_query(b, False, "minkowski"), b))
print("input untouched:", dig(b))


# --------------------------------------------------------------------------
# 2. grids
# --------------------------------------------------------------------------
def synthetic_grid():
    # faces on both sides of the antimeridian, at both poles, mixed sizes (padded with fill values)
    faces = [
        [[170.0, 10.0], [-175.0, 10.0], [-175.0, 25.0], [170.0, 25.0]],
        [[-175.0, 10.0], [-160.0, 12.0], [-175.0, 25.0]],
        [[0.0, 80.0], [120.0, 80.0], [240.0, 80.0]],
        [[0.0, -85.0], [72.0, -85.0], [144.0, -85.0], [216.0, -85.0], [288.0, -85.0]],
        [[179.0, -5.0], [-179.0, -5.0], [-179.0, 5.0], [179.0, 5.0]],
        [[0.0, 90.0], [0.0, 80.0], [120.0, 80.0]],
        [[0.0, -90.0], [72.0, -85.0], [0.0, -85.0]],
    ]
    nodes = []
    conn = np.full((len(faces), 5), -1, dtype=np.int64)
    for i, f in enumerate(faces):
        for j, v in enumerate(f):
            v = tuple(v)
            if v not in nodes:
                nodes.append(v)
            conn[i, j] = nodes.index(v)
    nodes = np.array(nodes)
    return ux.Grid.from_topology(nodes[:, 0], nodes[:, 1], conn, fill_value=-1)


def load_grids():
    gs = {}
    gs["quadhex"] = lambda: ux.open_grid(os.path.join(MESH, "ugrid", "quad-hexagon", "grid.nc"))
    gs["synthetic"] = synthetic_grid
    gs["ov_RLL10_CSne4"] = lambda: ux.open_grid(
        os.path.join(MESH, "ugrid", "ov_RLL10deg_CSne4", "ov_RLL10deg_CSne4.ug")
    )
    gs["mpas_QU1920"] = lambda: ux.open_grid(os.path.join(MESH, "mpas", "QU", "mesh.QU.1920km.151026.nc"))
    return gs


SPH_POINTS = [
    [0.0, 0.0],
    [179.9, 12.0],
    [-179.9, 12.0],
    [180.0, 0.0],
    [-180.0, 0.0],
    [45.0, 90.0],
    [-100.0, -90.0],
    [359.5, 45.0],
    [-0.9, 5.0],
]


def to_xyz(lonlat):
    lonlat = np.deg2rad(np.asarray(lonlat, dtype=float))
    lon, lat = lonlat[..., 0], lonlat[..., 1]
    return np.stack([np.cos(lat) * np.cos(lon), np.cos(lat) * np.sin(lon), np.sin(lat)], axis=-1)


def exercise_tree(tag, tree, n):
    """Run a battery of queries on a uxarray tree wrapper."""
    spherical = tree.coordinate_system == "spherical"
    ks = sorted({1, 2, min(3, n), n})
    if spherical:
        single = [SPH_POINTS[1], tuple(SPH_POINTS[5]), np.array(SPH_POINTS[2])]
        batch = np.array(SPH_POINTS)
        single_rad = list(np.deg2rad(SPH_POINTS[2]))
        batch_rad = np.deg2rad(batch)
        radii = [0.0, 1.0, 15.0, 200.0]
        wrong = [1.0, 0.0, 0.0]
    else:
        single = [list(to_xyz(SPH_POINTS[1])), tuple(to_xyz(SPH_POINTS[5])), to_xyz(SPH_POINTS[2])]
        batch = to_xyz(SPH_POINTS)
        single_rad = list(to_xyz(SPH_POINTS[2]))
        batch_rad = batch
        radii = [0.0, 0.05, 0.5, 2.5]
        wrong = [10.0, 20.0]

    for k in ks:
        for i, p in enumerate(single):
            attempt(f"{tag} query single{i} k={k}", lambda: tree.query(p, k=k))
        attempt(f"{tag} query batch k={k}", lambda: tree.query(batch, k=k))
        attempt(f"{tag} query batch k={k} nodist", lambda: tree.query(batch, k=k, return_distance=False))
        attempt(f"{tag} query single k={k} nodist", lambda: tree.query(single[0], k=k, return_distance=False))
        attempt(f"{tag} query single rad k={k}", lambda: tree.query(single_rad, k=k, in_radians=True))
        attempt(f"{tag} query batch rad k={k}", lambda: tree.query(batch_rad, k=k, in_radians=True))
        attempt(f"{tag} query one-row batch k={k}", lambda: tree.query(batch[:1], k=k))
    attempt(f"{tag} query k=0", lambda: tree.query(single[0], k=0))
    attempt(f"{tag} query k=n+1", lambda: tree.query(single[0], k=n + 1))
    attempt(f"{tag} query wrong dims", lambda: tree.query(wrong, k=1))
    attempt(f"{tag} query 4 cols", lambda: tree.query(np.ones((2, 4)), k=1))
    attempt(f"{tag} query dual/bfs", lambda: tree.query(batch, k=min(2, n), dualtree=True, breadth_first=True))
    attempt(f"{tag} query unsorted", lambda: tree.query(batch[:2], k=1, sort_results=False))

    for r in radii:
        attempt(f"{tag} radius single r={r}", lambda: tree.query_radius(single[0], r=r))
        attempt(f"{tag} radius batch r={r}", lambda: tree.query_radius(batch, r=r))
        attempt(
            f"{tag} radius single r={r} dist sorted",
            lambda: tree.query_radius(single[0], r=r, return_distance=True, sort_results=True),
        )
        attempt(
            f"{tag} radius batch r={r} dist sorted",
            lambda: tree.query_radius(batch, r=r, return_distance=True, sort_results=True),
        )
        attempt(f"{tag} radius batch r={r} count", lambda: tree.query_radius(batch, r=r, count_only=True))
        attempt(
            f"{tag} radius batch rad r={r} dist sorted",
            lambda: tree.query_radius(batch_rad, r=r, in_radians=True, return_distance=True, sort_results=True),
        )
        attempt(
            f"{tag} radius single rad r={r}",
            lambda: tree.query_radius(single_rad, r=r, in_radians=True),
        )
    attempt(f"{tag} radius r<0", lambda: tree.query_radius(single[0], r=-1.0))
    attempt(f"{tag} radius wrong dims", lambda: tree.query_radius(wrong, r=1.0))


def n_of(grid, kind):
    return {"nodes": grid.n_node, "face centers": grid.n_face, "edge centers": grid.n_edge}[kind]


def tree_state(t):
    return (
        f"cls={type(t).__name__} coords={t._coordinates!r} cs={t.coordinate_system!r} "
        f"metric={t.distance_metric!r} recon={t.reconstruct!r} n={t._n_elements} "
        f"slots={[getattr(t, s) is not None for s in ('_tree_from_nodes', '_tree_from_face_centers', '_tree_from_edge_centers')]} "
        f"current_is={[t._current_tree() is getattr(t, s) for s in ('_tree_from_nodes', '_tree_from_face_centers', '_tree_from_edge_centers')]} "
        f"sk={type(t._current_tree()).__name__} skdata={dig(np.asarray(t._current_tree().data))}"
    )


# --------------------------------------------------------------------------
# 3. every (tree type, kind, coordinate system) on every grid, fresh grid
# --------------------------------------------------------------------------
print("== fresh trees ==")
grids = load_grids()
CONFIGS = [
    ("ball", "spherical", "haversine"),
    ("ball", "cartesian", "minkowski"),
    ("ball", "cartesian", "euclidean"),
    ("kd", "cartesian", "minkowski"),
    ("kd", "spherical", "minkowski"),
    ("kd", "spherical", "chebyshev"),
]
for gname, gload in grids.items():
    small = gname in ("quadhex", "synthetic")
    for typ, cs, metric in CONFIGS:
        for kind in ("nodes", "face centers", "edge centers"):
            g = gload()
            getter = g.get_ball_tree if typ == "ball" else g.get_kd_tree
            tag = f"[{gname} {typ} {cs} {metric} {kind}]"
            try:
                t = getter(coordinates=kind, coordinate_system=cs, distance_metric=metric)
            except BaseException as e:  # noqa: BLE001
                print(tag, "build EXC", type(e).__name__, str(e))
                continue
            print(tag, tree_state(t))
            if small or (kind == "face centers" and metric in ("haversine", "minkowski")):
                exercise_tree(tag, t, n_of(g, kind))
            else:
                attempt(tag + " q", lambda: t.query(SPH_POINTS[1] if cs == "spherical" else to_xyz(SPH_POINTS[1]), k=3))


# --------------------------------------------------------------------------
# 4. request histories on one grid object (cache / switching behaviour)
# --------------------------------------------------------------------------
print("== request histories ==")
HISTORIES = [
    [
        ("ball", dict()),
        ("ball", dict(coordinates="face centers")),
        ("ball", dict(coordinates="edge centers")),
        ("ball", dict(coordinates="nodes")),
        ("ball", dict(coordinates="face centers", coordinate_system="cartesian", distance_metric="minkowski")),
        ("ball", dict(coordinates="nodes", coordinate_system="cartesian", distance_metric="minkowski")),
        ("ball", dict(coordinates="nodes")),
        ("kd", dict()),
        ("kd", dict(coordinates="face centers")),
        ("kd", dict(coordinates="face centers", coordinate_system="spherical")),
        ("kd", dict(coordinates="edge centers", coordinate_system="spherical")),
        ("kd", dict(coordinates="edge centers", coordinate_system="spherical", reconstruct=True)),
        ("kd", dict(coordinates="nodes", coordinate_system="spherical")),
        ("kd", dict(coordinates="edge centers", coordinate_system="spherical")),
        ("ball", dict(coordinates="face centers", reconstruct=True)),
        ("ball", dict(coordinates="edge centers")),
        ("ball", dict(coordinates="face centers")),
        ("ball", dict(coordinates="bogus")),
        ("ball", dict(coordinates="nodes")),
        ("kd", dict(coordinates="bogus")),
        ("kd", dict(coordinates="nodes", coordinate_system="spherical")),
        ("kd", dict(coordinates="nodes", coordinate_system="polar")),
        ("ball", dict(coordinates="nodes", coordinate_system="polar")),
        ("ball", dict(coordinates="face centers", coordinate_system="polar")),
        ("kd", dict(coordinates="face centers", coordinate_system="polar")),
        ("kd", dict(coordinates="face centers")),
        ("ball", dict(coordinates="face centers")),
        ("ball", dict(coordinates="nodes", distance_metric="euclidean")),
        ("ball", dict(coordinates="nodes", distance_metric="nonsense")),
        ("ball", dict(coordinates="nodes")),
    ],
    [
        ("kd", dict(coordinates="edge centers")),
        ("ball", dict(coordinates="edge centers")),
        ("kd", dict(coordinates="edge centers", distance_metric="chebyshev")),
        ("kd", dict(coordinates="nodes", distance_metric="chebyshev")),
        ("kd", dict(coordinates="edge centers", distance_metric="chebyshev")),
        ("ball", dict(coordinates="edge centers", coordinate_system="cartesian", distance_metric="euclidean")),
        ("ball", dict(coordinates="face centers", coordinate_system="cartesian", distance_metric="euclidean")),
        ("ball", dict(coordinates="edge centers", coordinate_system="cartesian", distance_metric="euclidean")),
    ],
]
for gname in ("quadhex", "synthetic", "ov_RLL10_CSne4"):
    for hi, hist in enumerate(HISTORIES):
        g = grids[gname]()
        seen = {}
        for step, (typ, kw) in enumerate(hist):
            tag = f"[{gname} h{hi} s{step} {typ} {sorted(kw.items())}]"
            getter = g.get_ball_tree if typ == "ball" else g.get_kd_tree
            before = g._ball_tree if typ == "ball" else g._kd_tree
            before_slots = (
                None
                if before is None
                else [getattr(before, s) for s in ("_tree_from_nodes", "_tree_from_face_centers", "_tree_from_edge_centers")]
            )
            try:
                t = getter(**kw)
            except BaseException as e:  # noqa: BLE001
                print(tag, "EXC", type(e).__name__, str(e))
                cur = g._ball_tree if typ == "ball" else g._kd_tree
                print(tag, "cache after exc: same wrapper =", cur is before, "|", None if cur is None else (cur._coordinates, cur._n_elements))
                continue
            after_slots = [getattr(t, s) for s in ("_tree_from_nodes", "_tree_from_face_centers", "_tree_from_edge_centers")]
            print(
                tag,
                "same wrapper =", t is before,
                "cached =", t is (g._ball_tree if typ == "ball" else g._kd_tree),
                "slots kept =", None if before_slots is None or t is not before else [a is b for a, b in zip(after_slots, before_slots)],
                "|", tree_state(t),
            )
            kind = t._coordinates
            if gname == "ov_RLL10_CSne4":
                pt = SPH_POINTS[2] if t.coordinate_system == "spherical" else to_xyz(SPH_POINTS[2])
                attempt(tag + " q", lambda: t.query(pt, k=4))
                attempt(tag + " r", lambda: t.query_radius(pt, r=12.0 if t.coordinate_system == "spherical" else 0.2, return_distance=True, sort_results=True))
            else:
                exercise_tree(tag, t, n_of(g, kind))

# --------------------------------------------------------------------------
# 5. direct construction of the wrappers and the coordinates setter
# --------------------------------------------------------------------------
print("== direct wrappers ==")
for cls in (nb.BallTree, nb.KDTree):
    for cs, metric in (("spherical", "haversine" if cls is nb.BallTree else "minkowski"), ("cartesian", "minkowski")):
        for recon in (False, True):
            g = grids["synthetic"]()
            tag = f"[direct {cls.__name__} {cs} {metric} recon={recon}]"
            t = cls(g, "nodes", cs, metric, recon)
            print(tag, tree_state(t))
            prev = {}
            for kind in ("face centers", "nodes", "edge centers", "face centers", "bogus", "nodes", "edge centers"):
                slots0 = [getattr(t, s) for s in ("_tree_from_nodes", "_tree_from_face_centers", "_tree_from_edge_centers")]
                try:
                    t.coordinates = kind
                except BaseException as e:  # noqa: BLE001
                    print(tag, "set", kind, "EXC", type(e).__name__, str(e), "| coords now", t.coordinates, "n", t._n_elements)
                    attempt(tag + " query after bad set", lambda: t.query(SPH_POINTS[0] if cs == "spherical" else to_xyz(SPH_POINTS[0]), k=1))
                    continue
                slots1 = [getattr(t, s) for s in ("_tree_from_nodes", "_tree_from_face_centers", "_tree_from_edge_centers")]
                print(tag, "set", kind, "slots kept =", [a is b for a, b in zip(slots0, slots1)], "|", tree_state(t))
                exercise_tree(tag + f" {kind}", t, n_of(g, kind))
    for bad in ("bogus", None):
        attempt(f"[direct {cls.__name__} coordinates={bad!r}]", lambda: cls(grids["synthetic"](), bad))
    attempt(f"[direct {cls.__name__} defaults]", lambda: tree_state(cls(grids["synthetic"]())))
    attempt(f"[direct {cls.__name__} kw]", lambda: tree_state(cls(grid=grids["synthetic"](), coordinates="edge centers", coordinate_system="cartesian", distance_metric="euclidean", reconstruct=True)))
print("done")
