import sys, os

sys.path.insert(0, os.getcwd())

import hashlib
import warnings

import numpy as np
import xarray as xr

import uxarray
import uxarray as ux

assert os.path.abspath(uxarray.__file__).startswith(os.path.abspath(os.getcwd()) + os.sep), (
    uxarray.__file__
)

from uxarray.constants import INT_FILL_VALUE, ERROR_TOLERANCE
from uxarray.grid import coordinates as C

warnings.filterwarnings("ignore")
np.set_printoptions(precision=17, linewidth=200, threshold=100000)


def dig(a):
    """type, dtype, shape, hash of the bytes and repr of a value."""
    if isinstance(a, xr.DataArray):
        return "DA(dims=%r, attrs=%r, %s)" % (a.dims, dict(a.attrs), dig(a.data))
    if isinstance(a, (tuple, list)):
        return type(a).__name__ + "[" + ", ".join(dig(v) for v in a) + "]"
    if a is None:
        return "None"
    arr = np.asarray(a)
    if arr.dtype == object:  # bytes of an object array are addresses: not reproducible
        return "%s object %r" % (type(a).__name__, a)
    h = hashlib.sha256(np.ascontiguousarray(arr).tobytes()).hexdigest()[:16]
    return "%s dtype=%s shape=%s sha=%s %r" % (
        type(a).__name__,
        arr.dtype,
        arr.shape,
        h,
        arr.tolist(),
    )


def show(label, fn):
    try:
        out = fn()
        print(label, "->", dig(out) if not isinstance(out, str) else out)
    except Exception as e:  # same exceptions are part of the behaviour
        print(label, "-> EXC", type(e).__name__, str(e)[:200])


# ---------------------------------------------------------------- conversions
print("== _xyz_to_lonlat_rad / _deg")
rng = np.random.default_rng(12345)
pts = rng.normal(size=(3, 40))
special = np.array(
    [
        [1.0, 0.0, 0.0],
        [-1.0, 0.0, 0.0],
        [-1.0, 1e-17, 0.0],
        [-1.0, -1e-17, 0.0],
        [-1.0, -0.0, 0.0],
        [0.0, 1.0, 0.0],
        [0.0, -1.0, 0.0],
        [0.0, 0.0, 1.0],
        [0.0, 0.0, -1.0],
        [1e-5, 0.0, 1.0],
        [1e-4, 1e-4, -1.0],
        [np.sqrt(1 - (1 - 1e-8) ** 2), 0.0, 1 - 1e-8],
        [np.sqrt(1 - (1 - 0.5e-8) ** 2), 0.0, 1 - 0.5e-8],
        [np.sqrt(1 - (1 - 2e-8) ** 2), 0.0, -(1 - 2e-8)],
        [-0.5, -1e-300, 0.5],
        [-3.0, -4.0, 12.0],
        [2.0, 0.0, 0.0],
        [0.0, 0.0, 0.0],
        [np.nan, 0.0, 1.0],
        [np.inf, 0.0, 1.0],
    ]
).T
for name, arr in (("random", pts), ("special", special)):
    for normalize in (True, False):
        x, y, z = (arr[0].copy(), arr[1].copy(), arr[2].copy())
        keep = (x.copy(), y.copy(), z.copy())
        show(
            "rad %s normalize=%s" % (name, normalize),
            lambda: C._xyz_to_lonlat_rad(x, y, z, normalize=normalize),
        )
        show(
            "deg %s normalize=%s" % (name, normalize),
            lambda: C._xyz_to_lonlat_deg(x, y, z, normalize=normalize),
        )
        print(
            "  inputs untouched:",
            all(np.array_equal(a, b, equal_nan=True) for a, b in zip(keep, (x, y, z))),
        )
# default keyword, scalars, python floats, 0-d, 2-d, float32, ints, lists, empty
show("rad default kw", lambda: C._xyz_to_lonlat_rad(pts[0], pts[1], pts[2]))
show("deg default kw", lambda: C._xyz_to_lonlat_deg(pts[0], pts[1], pts[2]))
for p in ((0.3, -0.4, 0.5), (-1.0, 0.0, 0.0), (0.0, 0.0, 1.0), (0.0, 0.0, -2.0), (1, 1, 1), (-1, 0, 0)):
    show("rad scalar %r" % (p,), lambda: C._xyz_to_lonlat_rad(*p))
    show("deg scalar %r" % (p,), lambda: C._xyz_to_lonlat_deg(*p))
    show("rad scalar nonorm %r" % (p,), lambda: C._xyz_to_lonlat_rad(*p, normalize=False))
    show("deg scalar nonorm %r" % (p,), lambda: C._xyz_to_lonlat_deg(*p, False))
    show("rad np.float64 %r" % (p,), lambda: C._xyz_to_lonlat_rad(*map(np.float64, p)))
    show("deg 0-d %r" % (p,), lambda: C._xyz_to_lonlat_deg(*[np.array(float(v)) for v in p]))
u = pts / np.linalg.norm(pts, axis=0)
show("deg 2-d", lambda: C._xyz_to_lonlat_deg(u[0].reshape(5, 8), u[1].reshape(5, 8), u[2].reshape(5, 8)))
show("rad 2-d nonorm", lambda: C._xyz_to_lonlat_rad(u[0].reshape(5, 8), u[1].reshape(5, 8), u[2].reshape(5, 8), False))
show("deg float32", lambda: C._xyz_to_lonlat_deg(*[v.astype(np.float32) for v in u]))
show("deg float32 nonorm", lambda: C._xyz_to_lonlat_deg(*[v.astype(np.float32) for v in u], normalize=False))
show("rad float32 nonorm", lambda: C._xyz_to_lonlat_rad(*[v.astype(np.float32) for v in u], normalize=False))
show("deg int arrays", lambda: C._xyz_to_lonlat_deg(np.array([1, 0, -1, 0]), np.array([0, 1, 0, 0]), np.array([0, 0, 0, -1])))
show("rad int arrays nonorm", lambda: C._xyz_to_lonlat_rad(np.array([1, 0, -1, 0]), np.array([0, 1, 0, 0]), np.array([0, 0, 0, -1]), False))
show("deg lists", lambda: C._xyz_to_lonlat_deg([1.0, 0.0], [0.0, -1.0], [0.0, 0.0]))
show("deg lists nonorm", lambda: C._xyz_to_lonlat_deg([1.0, 0.0], [0.0, -1.0], [0.0, 0.0], normalize=False))
show("rad empty", lambda: C._xyz_to_lonlat_rad(np.zeros(0), np.zeros(0), np.zeros(0)))
show("deg empty nonorm", lambda: C._xyz_to_lonlat_deg(np.zeros(0), np.zeros(0), np.zeros(0), normalize=False))
show("rad shape mismatch", lambda: C._xyz_to_lonlat_rad(np.zeros(3), np.zeros(2), np.zeros(3)))
show("deg bad type", lambda: C._xyz_to_lonlat_deg("a", "b", "c"))
show("rad scalar njit", lambda: C._xyz_to_lonlat_rad_scalar(-1.0, -1e-17, 0.0))
show("rad no_norm njit", lambda: C._xyz_to_lonlat_rad_no_norm(0.0, 1e-6, 1.0))

# ------------------------------------------------- _set_desired_longitude_range
print("== _set_desired_longitude_range")


def run_set(label, ds):
    before = {k: ds[k].data for k in ds.variables}
    before_copy = {k: np.array(v, copy=True) for k, v in before.items()}
    try:
        ret = C._set_desired_longitude_range(ds)
        print(label, "ret", ret)
    except Exception as e:
        print(label, "EXC", type(e).__name__, str(e)[:200])
    for k in ds.variables:
        print(
            "   ", k,
            "same_obj=%s" % (ds[k].data is before[k]),
            "orig_untouched=%s" % np.array_equal(before[k], before_copy[k], equal_nan=True),
            dig(ds[k]),
        )
    print("    order", list(ds.variables), "attrs", dict(ds.attrs))


lon_cases = {
    "0..360": np.array([0.0, 10.0, 179.9999, 180.0, 180.0000001, 270.0, 359.99999, 360.0]),
    "exactly180": np.array([-180.0, 0.0, 180.0]),
    "just_over": np.array([np.nextafter(180.0, 200.0), 0.0]),
    "neg_and_big": np.array([-200.0, 540.0, 725.5, -180.0]),
    "all_in_range": np.array([-179.0, 0.0, 45.0, 179.0]),
    "nan_max": np.array([np.nan, 200.0, 10.0]),
    "inf": np.array([np.inf, 10.0]),
    "float32": np.array([0.0, 200.5, 359.0], dtype=np.float32),
    "int": np.array([0, 90, 181, 360], dtype=np.int64),
    "int32_small": np.array([0, 90, 180], dtype=np.int32),
}
for nm, lon in lon_cases.items():
    ds = xr.Dataset({"node_lon": (("n_node",), lon.copy(), {"units": "degrees_east"})})
    run_set("node only " + nm, ds)
    ds = xr.Dataset(
        {
            "face_lon": (("n_face",), lon.copy()),
            "node_lat": (("n_node",), np.array([1.0, 2.0])),
            "edge_lon": (("n_edge",), lon[::-1].copy() / 2),
            "node_lon": (("n_node",), np.array([350.0, 2.0])),
        },
        attrs={"a": 1},
    )
    run_set("mixed " + nm, ds)
run_set("no lon vars", xr.Dataset({"node_lat": (("n_node",), np.array([1.0, 200.0]))}))
run_set("empty ds", xr.Dataset())
run_set("empty node_lon", xr.Dataset({"node_lon": (("n_node",), np.zeros(0))}))
run_set("2-d lon", xr.Dataset({"face_lon": (("a", "b"), np.array([[0.0, 190.0], [359.0, -5.0]]))}))
run_set("0-d lon", xr.Dataset({"edge_lon": ((), np.float64(270.0))}))
run_set("lon as coord", xr.Dataset(coords={"node_lon": (("n_node",), np.array([0.0, 300.0]))}))
try:
    import dask.array as da

    ds = xr.Dataset({"node_lon": (("n_node",), da.from_array(np.array([0.0, 300.0, 181.0]), chunks=2))})
    C._set_desired_longitude_range(ds)
    print("dask", type(ds["node_lon"].data).__name__, dig(ds["node_lon"].values))
except ImportError:
    print("dask not available")
show("dict instead of ds", lambda: C._set_desired_longitude_range({"node_lat": 1}))
show("None instead of ds", lambda: C._set_desired_longitude_range(None))

# ------------------------------------------ _populate_node_latlon / _populate_node_xyz
print("== grids")

F = INT_FILL_VALUE
# a mixed mesh (quads + triangles + a pentagon) over awkward nodes: poles, antimeridian, prime meridian
node_lon = np.array([0.0, 90.0, 180.0, 270.0, 359.5, 0.0, 0.0, 45.0, 179.99999999, 180.00000001, 315.0, 10.0])
node_lat = np.array([0.0, 0.0, 0.0, 0.0, 30.0, 90.0, -90.0, 89.9999999999, -45.0, 45.0, -89.9999999999, 10.0])
fnc = np.array(
    [
        [0, 1, 5, F, F],
        [1, 2, 9, 5, F],
        [2, 3, 10, 6, 8],
        [3, 4, 0, 11, 7],
        [0, 11, 1, F, F],
    ],
    dtype=np.int64,
)

ALL = [
    "node_lon", "node_lat", "node_x", "node_y", "node_z",
    "edge_lon", "edge_lat", "edge_x", "edge_y", "edge_z",
    "face_lon", "face_lat", "face_x", "face_y", "face_z",
]


def report(label, grid, order):
    print("--", label, "order", order)
    for nm in order:
        try:
            v = getattr(grid, nm)
            print("  ", nm, dig(v))
        except Exception as e:
            print("  ", nm, "EXC", type(e).__name__, str(e)[:160])
    print("   ds vars:", list(grid._ds.variables))
    for nm in ("node_lon", "edge_lon", "face_lon"):
        if nm in grid._ds:
            d = grid._ds[nm].values
            print("   range", nm, float(np.nanmin(d)), float(np.nanmax(d)))


orders = [
    ALL,
    ALL[::-1],
    ["node_z", "node_lat", "face_x", "edge_lat", "node_lon", "face_lon", "edge_x", "node_x", "node_y", "edge_lon", "face_lat", "edge_y", "edge_z", "face_y", "face_z"],
]

for i, order in enumerate(orders):
    g = ux.Grid.from_topology(node_lon.copy(), node_lat.copy(), fnc.copy(), fill_value=F)
    report("lonlat-only 0..360 #%d" % i, g, order)

# Cartesian-only source (not unit length -> normalised on conversion)
lonr, latr = np.deg2rad(node_lon), np.deg2rad(node_lat)
ux_, uy_, uz_ = C._lonlat_rad_to_xyz(lonr, latr)
scale = np.linspace(0.5, 3.0, node_lon.size)


def cart_ds(x, y, z, extra=None):
    ds = xr.Dataset(
        {
            "node_x": (("n_node",), x.copy()),
            "node_y": (("n_node",), y.copy()),
            "node_z": (("n_node",), z.copy()),
            "face_node_connectivity": (
                ("n_face", "n_max_face_nodes"),
                fnc.copy(),
                {"_FillValue": F, "start_index": 0, "cf_role": "face_node_connectivity"},
            ),
        }
    )
    for k, (dim, v) in (extra or {}).items():
        ds[k] = ((dim,), v.copy())
    return ds


for i, order in enumerate(orders):
    g = ux.Grid(cart_ds(ux_, uy_, uz_), source_grid_spec="UGRID")
    report("xyz-only unit #%d" % i, g, order)
    g = ux.Grid(cart_ds(ux_ * scale, uy_ * scale, uz_ * scale), source_grid_spec="UGRID")
    report("xyz-only scaled #%d" % i, g, order)

# both supplied, plus centres in various provenance combinations
base = ux.Grid.from_topology(node_lon.copy(), node_lat.copy(), fnc.copy(), fill_value=F)
flon, flat = base.face_lon.values.copy(), base.face_lat.values.copy()
fx, fy, fz = base.face_x.values.copy(), base.face_y.values.copy(), base.face_z.values.copy()
combos = {
    "face lonlat (0..360)": {"face_lon": ("n_face", flon % 360), "face_lat": ("n_face", flat)},
    "face xyz": {"face_x": ("n_face", fx * 2), "face_y": ("n_face", fy * 2), "face_z": ("n_face", fz * 2)},
    "face both": {
        "face_lon": ("n_face", flon % 360), "face_lat": ("n_face", flat),
        "face_x": ("n_face", fx), "face_y": ("n_face", fy), "face_z": ("n_face", fz),
    },
    "nodes both": {"node_lon": ("n_node", node_lon), "node_lat": ("n_node", node_lat)},
}
for nm, extra in combos.items():
    for i, order in enumerate(orders[:2]):
        g = ux.Grid(cart_ds(ux_, uy_, uz_, extra), source_grid_spec="UGRID")
        report("%s #%d" % (nm, i), g, order)

# direct calls of the populators: return value, attrs, dims, ds insertion order, data ownership
print("== populators directly")
g = ux.Grid(cart_ds(ux_ * scale, uy_ * scale, uz_ * scale), source_grid_spec="UGRID")
xs = g._ds["node_x"].data
print("ret", C._populate_node_latlon(g), list(g._ds.variables))
print("node_x same obj", g._ds["node_x"].data is xs, dig(g._ds["node_x"]))
print(dig(g._ds["node_lon"]), dig(g._ds["node_lat"]))
print("attrs are copies:", g._ds["node_lon"].attrs is not ux.conventions.ugrid.NODE_LON_ATTRS,
      g._ds["node_lat"].attrs == ux.conventions.ugrid.NODE_LAT_ATTRS)
first = g._ds["node_lon"].data
C._populate_node_latlon(g)
print("repopulate new obj", g._ds["node_lon"].data is not first, np.array_equal(g._ds["node_lon"].data, first))

g = ux.Grid.from_topology(node_lon.copy(), node_lat.copy(), fnc.copy(), fill_value=F)
lo = g._ds["node_lon"].data
print("ret", C._populate_node_xyz(g), list(g._ds.variables))
print("node_lon same obj", g._ds["node_lon"].data is lo)
for nm in ("node_x", "node_y", "node_z"):
    print(dig(g._ds[nm]))
print("attrs are copies:", g._ds["node_x"].attrs is not ux.conventions.ugrid.NODE_X_ATTRS,
      g._ds["node_z"].attrs == ux.conventions.ugrid.NODE_Z_ATTRS)
print("unit length", float(np.max(np.abs(g.node_x.values ** 2 + g.node_y.values ** 2 + g.node_z.values ** 2 - 1))))

# float32 / integer lon-lat sources
for dt in (np.float32, np.int64):
    g = ux.Grid.from_topology(
        np.array([0, 90, 180, 270, 359, 0], dtype=dt), np.array([0, 0, 10, -10, 45, 90], dtype=dt),
        np.array([[0, 1, 5, F], [1, 2, 3, 4]], dtype=np.int64), fill_value=F,
    )
    report("lonlat dtype %s" % np.dtype(dt).name, g, ALL[:5])


# failure modes of the populators
class Bare:
    pass


show("latlon on bare obj", lambda: C._populate_node_latlon(Bare()))
show("xyz on bare obj", lambda: C._populate_node_xyz(Bare()))

# normalisation changes lengths only
g = ux.Grid(cart_ds(ux_ * scale, uy_ * scale, uz_ * scale), source_grid_spec="UGRID")
lon0, lat0 = g.node_lon.values.copy(), g.node_lat.values.copy()
g.normalize_cartesian_coordinates()
print("after normalise", dig(g.node_x), dig(g.node_y), dig(g.node_z))
print("lonlat unchanged", np.array_equal(lon0, g.node_lon.values), np.array_equal(lat0, g.node_lat.values))
print("DONE")
