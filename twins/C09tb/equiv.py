import sys, os

sys.path.insert(0, os.getcwd())

import hashlib
import warnings

import numpy as np

import uxarray as ux

assert os.path.abspath(ux.__file__).startswith(os.path.abspath(os.getcwd()) + os.sep), ux.__file__

warnings.filterwarnings("ignore")

MESH = os.path.join(os.getcwd(), "test", "meshfiles")
GRIDS = {
    "quadhex": os.path.join(MESH, "ugrid", "quad-hexagon", "grid.nc"),
    "mixed": os.path.join(MESH, "exodus", "mixed", "mixed.exo"),
    "mpas": os.path.join(MESH, "mpas", "QU", "mesh.QU.1920km.151026.nc"),
    "ne8": os.path.join(MESH, "scrip", "outCSne8", "outCSne8.nc"),
    "ne30": os.path.join(MESH, "ugrid", "outCSne30", "outCSne30.ug"),
}
ELEMENTS = ("nodes", "face centers", "edge centers")


def digest(arr):
    arr = np.ascontiguousarray(np.asarray(arr))
    return "%s %s %s" % (arr.dtype, arr.shape, hashlib.sha1(arr.tobytes()).hexdigest()[:16])


# log the exact index argument every selection hands to Grid.isel
_orig_isel = ux.Grid.isel


def _logging_isel(self, **kw):
    for k, v in kw.items():
        print("      isel(%s=%s %s)" % (k, type(v).__name__, digest(v)))
    return _orig_isel(self, **kw)


ux.Grid.isel = _logging_isel


def describe(g):
    out = []
    for name in ("subgrid_face_indices", "subgrid_node_indices", "subgrid_edge_indices"):
        out.append("%s=%s" % (name[8:12], digest(g._ds[name].values)))
    out.append("fnc=" + digest(g.face_node_connectivity.values))
    out.append("lon=" + digest(g.node_lon.values))
    out.append("lat=" + digest(g.node_lat.values))
    out.append("enc=" + digest(g.edge_node_connectivity.values))
    out.append("first_faces=%s" % g._ds["subgrid_face_indices"].values.tolist()[:12])
    return " ".join(out)


def attempt(label, fn):
    print("  [%s]" % label)
    try:
        r = fn()
    except Exception as e:  # noqa
        print("      EXC %s: %s" % (type(e).__name__, e))
        return
    if isinstance(r, ux.UxDataArray):
        print("      data dims=%s %s" % (r.dims, digest(r.values)))
        r = r.uxgrid
    print("      " + describe(r))


for gname, path in GRIDS.items():
    for history in ("fresh", "edges-built"):
        print("=== %s / %s" % (gname, history))
        grid = ux.open_grid(path)
        if history == "edges-built":
            grid.edge_node_connectivity
            grid.face_edge_connectivity
            grid.edge_face_connectivity
            grid.node_face_connectivity
            grid.edge_lon
            grid.face_lon
        nlon, nlat = grid.node_lon.values, grid.node_lat.values
        lo0, lo1 = float(nlon.min()), float(nlon.max())
        la0, la1 = float(nlat.min()), float(nlat.max())
        mlo, mla = 0.5 * (lo0 + lo1), 0.5 * (la0 + la1)
        wlo, wla = (lo1 - lo0), (la1 - la0)
        boxes = {
            "everything": ((-180.0, 180.0), (-90.0, 90.0)),
            "whole+margin": ((lo0 - 1, lo1 + 1), (la0 - 1, la1 + 1)),
            "exact extent (strict)": ((lo0, lo1), (la0, la1)),
            "centre half": ([mlo - wlo / 4, mlo + wlo / 4], [mla - wla / 4, mla + wla / 4]),
            "centre tenth ndarray": (np.array([mlo - wlo / 20, mlo + wlo / 20]), np.array([mla - wla / 20, mla + wla / 20])),
            "int bounds": ((-45, 45), (-30, 60)),
            "antimeridian wide": ((170.0, -170.0), (-90.0, 90.0)),
            "antimeridian inner gap": ((mlo + wlo / 8, mlo - wlo / 8), (la0 - 1, la1 + 1)),
            "antimeridian tiny": ((179.999, -179.999), (-90, 90)),
            "antimeridian on node lon": ((float(nlon[0]), float(nlon[0]) - 1e-9), (-90, 90)),
            "edge on first node": ((float(nlon[0]), lo1 + 1), (float(nlat[0]), la1 + 1)),
            "just around first node": ((float(nlon[0]) - 1e-6, float(nlon[0]) + 1e-6), (float(nlat[0]) - 1e-6, float(nlat[0]) + 1e-6)),
            "degenerate equal bounds": ((mlo, mlo), (mla, mla)),
            "lat reversed": ((lo0 - 1, lo1 + 1), (la1, la0)),
            "empty": ((lo1 + 2, lo1 + 3), (la0, la1)),
            "nan bound": ((float("nan"), lo1), (la0 - 1, la1 + 1)),
            "short lon bounds": ((lo0,), (la0, la1)),
            "short lat bounds": ((lo0, lo1), (la0,)),
        }
        for bname, (lonb, latb) in boxes.items():
            for element in ELEMENTS:
                attempt("box %s / %s" % (bname, element), lambda: grid.subset.bounding_box(lonb, latb, element=element))
        attempt("box default element", lambda: grid.subset.bounding_box((-180, 180), (-90, 90)))
        attempt("box bad element", lambda: grid.subset.bounding_box((-180, 180), (-90, 90), element="faces"))
        attempt("box None element", lambda: grid.subset.bounding_box((-180, 180), (-90, 90), element=None))
        attempt("box bad method", lambda: grid.subset.bounding_box((-180, 180), (-90, 90), method="overlap"))
        attempt("box bad method+element", lambda: grid.subset.bounding_box((-180, 180), (-90, 90), element="x", method=None))
        attempt("box bad method+bounds", lambda: grid.subset.bounding_box((), (), method="x"))
        attempt("box positional", lambda: grid.subset.bounding_box((-180, 180), (-90, 90), "face centers", "coords", extra=1))

        # neighbouring selections that share _index_grid
        for element in ELEMENTS:
            attempt("circle / %s" % element, lambda: grid.subset.bounding_circle((mlo, mla), max(wlo, wla) / 6 + 1e-3, element=element))
            attempt("knn3 / %s" % element, lambda: grid.subset.nearest_neighbor((mlo, mla), 3, element=element))
            attempt("knn1 / %s" % element, lambda: grid.subset.nearest_neighbor([mlo, mla], 1, element=element))

        # data carried along
        nf, nn, ne = grid.n_face, grid.n_node, grid.n_edge
        das = [
            ux.UxDataArray(np.arange(2 * nf).reshape(2, nf), dims=["t", "n_face"], uxgrid=grid, name="f"),
            ux.UxDataArray(np.arange(nn) * 0.5, dims=["n_node"], uxgrid=grid, name="n"),
            ux.UxDataArray(np.arange(3 * ne).reshape(ne, 3), dims=["n_edge", "k"], uxgrid=grid, name="e"),
        ]
        for da in das:
            for element in ELEMENTS:
                attempt(
                    "data %s box centre half / %s" % (da.name, element),
                    lambda: da.subset.bounding_box(boxes["centre half"][0], boxes["centre half"][1], element=element),
                )
                attempt(
                    "data %s box antimeridian / %s" % (da.name, element),
                    lambda: da.subset.bounding_box((170.0, -170.0), (-90, 90), element=element),
                )
        print("  source vars after: %s" % sorted(grid._ds.variables))
