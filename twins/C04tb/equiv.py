import sys, os; sys.path.insert(0, os.getcwd())
import hashlib
import warnings
import numpy as np
import xarray as xr

warnings.simplefilter("ignore")
import uxarray
import uxarray as ux

assert os.path.abspath(uxarray.__file__).startswith(os.path.abspath(os.getcwd()) + os.sep), uxarray.__file__

from uxarray.constants import INT_FILL_VALUE, INT_DTYPE
from uxarray.grid import coordinates as C
from uxarray.grid.validation import _check_normalization

F = INT_FILL_VALUE


def dig(name, a):
    """exact digest of an array-like: type, dtype, shape, sha of the bytes, a few values."""
    kind = type(a).__name__
    if isinstance(a, xr.DataArray):
        extra = " dims=%s attrs=%s" % (a.dims, sorted(a.attrs.items()))
        a = a.values
    else:
        extra = ""
    a = np.asarray(a)
    h = hashlib.sha256(np.ascontiguousarray(a).tobytes()).hexdigest()[:16]
    print("%-34s %s %s %s %s %s%s" % (name, kind, a.dtype, a.shape, h,
                                      np.array2string(a.ravel()[:4], precision=17, max_line_width=10**6), extra))


# ----------------------------------------------------------------------------
# synthetic mixed grid: poles, antimeridian, prime meridian, lon in 0..360
# ----------------------------------------------------------------------------
node_lon = np.array([0.0, 90.0, 180.0, 270.0, 0.0, 0.0, 359.0, 1.0, 179.5, 181.0, 200.0, 340.0, 45.0, 135.0])
node_lat = np.array([0.0, 0.0, 0.0, 0.0, 90.0, -90.0, 10.0, -10.0, 45.0, -45.0, 60.0, -60.0, 89.9999999999, -30.0])
faces = np.array([
    [0, 1, 4, F, F, F],
    [1, 2, 4, F, F, F],
    [2, 3, 10, 4, F, F],
    [3, 0, 6, 12, 4, F],
    [0, 7, 5, 11, 3, 6],
    [8, 2, 9, 13, F, F],
    [1, 13, 5, F, F, F],
    [9, 2, 3, 10, 8, F],
], dtype=INT_DTYPE)
nlon_r, nlat_r = np.deg2rad(node_lon), np.deg2rad(node_lat)
nx = np.cos(nlon_r) * np.cos(nlat_r)
ny = np.sin(nlon_r) * np.cos(nlat_r)
nz = np.sin(nlat_r)
SCALE = np.linspace(0.5, 3.0, node_lon.size)  # non-unit cartesian input

rng = np.random.default_rng(1234)
n_face = faces.shape[0]
fc_lon = rng.uniform(0, 360, n_face)
fc_lat = rng.uniform(-90, 90, n_face)
fc_lat[0] = 90.0
fc_lon[1] = 180.0
fc_lon[2] = 360.0
fcx = np.cos(np.deg2rad(fc_lon)) * np.cos(np.deg2rad(fc_lat)) * 2.5
fcy = np.sin(np.deg2rad(fc_lon)) * np.cos(np.deg2rad(fc_lat)) * 2.5
fcz = np.sin(np.deg2rad(fc_lat)) * 2.5


def base_ds(nodes):
    ds = xr.Dataset()
    if nodes in ("lonlat", "both"):
        ds["node_lon"] = xr.DataArray(node_lon.copy(), dims=["n_node"])
        ds["node_lat"] = xr.DataArray(node_lat.copy(), dims=["n_node"])
    if nodes in ("xyz", "both"):
        ds["node_x"] = xr.DataArray(nx.copy(), dims=["n_node"])
        ds["node_y"] = xr.DataArray(ny.copy(), dims=["n_node"])
        ds["node_z"] = xr.DataArray(nz.copy(), dims=["n_node"])
    if nodes == "xyz_scaled":
        ds["node_x"] = xr.DataArray(nx * SCALE, dims=["n_node"])
        ds["node_y"] = xr.DataArray(ny * SCALE, dims=["n_node"])
        ds["node_z"] = xr.DataArray(nz * SCALE, dims=["n_node"])
    ds["face_node_connectivity"] = xr.DataArray(
        faces.copy(), dims=["n_face", "n_max_face_nodes"],
        attrs={"cf_role": "face_node_connectivity", "_FillValue": F, "start_index": 0})
    return ds


def make(nodes, centres, elem="face"):
    ds = base_ds(nodes)
    g0 = None
    if elem == "edge":
        # edge centres need the edge count: take it from a throw-away grid
        g0 = ux.Grid(base_ds("lonlat"), source_grid_spec="synthetic")
        n = g0.n_edge
        r2 = np.random.default_rng(99)
        lo, la = r2.uniform(0, 360, n), r2.uniform(-90, 90, n)
        la[0] = -90.0
        lo[1] = 180.0
        ds["edge_node_connectivity"] = xr.DataArray(
            g0.edge_node_connectivity.values.copy(), dims=["n_edge", "two"],
            attrs=dict(g0.edge_node_connectivity.attrs))
    else:
        lo, la = fc_lon, fc_lat
    x = np.cos(np.deg2rad(lo)) * np.cos(np.deg2rad(la)) * 2.5
    y = np.sin(np.deg2rad(lo)) * np.cos(np.deg2rad(la)) * 2.5
    z = np.sin(np.deg2rad(la)) * 2.5
    dim = "n_" + elem
    if centres in ("lonlat", "both"):
        ds[elem + "_lon"] = xr.DataArray(lo.copy(), dims=[dim])
        ds[elem + "_lat"] = xr.DataArray(la.copy(), dims=[dim])
    if centres in ("xyz", "both"):
        ds[elem + "_x"] = xr.DataArray(x.copy(), dims=[dim])
        ds[elem + "_y"] = xr.DataArray(y.copy(), dims=[dim])
        ds[elem + "_z"] = xr.DataArray(z.copy(), dims=[dim])
    return ux.Grid(ds, source_grid_spec="synthetic")


ALL = ["node_lon", "node_lat", "node_x", "node_y", "node_z",
       "edge_lon", "edge_lat", "edge_x", "edge_y", "edge_z",
       "face_lon", "face_lat", "face_x", "face_y", "face_z"]
ORDERS = {
    "fwd": ALL,
    "rev": ALL[::-1],
    "xyz1": [n for n in ALL if n[-1] in "xyz"] + [n for n in ALL if n[-1] not in "xyz"],
}


def report(tag, g, order):
    got = {}
    for name in ORDERS[order]:
        got[name] = getattr(g, name)
    for name in ALL:
        dig("%s/%s/%s" % (tag, order, name), got[name])
    print("%s/%s vars: %s" % (tag, order, sorted(g._ds.data_vars)))


print("== synthetic grid, all provenance combinations and access orders")
for nodes in ("lonlat", "xyz", "both", "xyz_scaled"):
    for elem in ("face", "edge"):
        for centres in ("none", "lonlat", "xyz", "both"):
            for order in ORDERS:
                g = make(nodes, centres, elem)
                report("%s-%s:%s" % (nodes, elem, centres), g, order)

print("== normalisation")
for nodes in ("lonlat", "xyz", "xyz_scaled"):
    for elem in ("face", "edge"):
        for centres in ("none", "xyz", "both"):
            g = make(nodes, centres, elem)
            print(nodes, elem, centres, "check0", repr(_check_normalization(g)), repr(g._normalized))
            before = {k: g._ds[k].values.copy() for k in g._ds.data_vars}
            ret = g.normalize_cartesian_coordinates()
            print(" ret", repr(ret), "normalized flag", repr(g._normalized), "vars", sorted(g._ds.data_vars))
            for k in sorted(g._ds.data_vars):
                if k[-2:] in ("_x", "_y", "_z"):
                    dig(" norm/" + k, g._ds[k])
            print(" check1", repr(_check_normalization(g)), repr(g._normalized))
            g.normalize_cartesian_coordinates()
            print(" check2", repr(_check_normalization(g)), repr(g._normalized))
            report("afternorm-%s-%s:%s" % (nodes, elem, centres), g, "fwd")

print("== repopulate (construct_face_center) and direct helper calls")
for nodes in ("lonlat", "xyz_scaled"):
    for centres in ("none", "lonlat", "xyz", "both"):
        g = make(nodes, centres, "face")
        g.construct_face_centers(method="cartesian average")
        report("repop-%s:%s" % (nodes, centres), g, "fwd")
        g = make(nodes, centres, "edge")
        C._populate_edge_centroids(g, repopulate=True)
        report("repop-edge-%s:%s" % (nodes, centres), g, "rev")

print("== _construct_face_centroids / _construct_edge_centroids direct, random mixed faces")
for seed, (n_node, n_f, width) in enumerate([(50, 40, 3), (50, 1, 4), (200, 300, 6), (500, 64, 9), (1000, 30, 17),
                                              (3000, 12, 130), (7, 0, 4), (1000, 5, 300)]):
    r = np.random.default_rng(seed)
    v = r.normal(size=(3, n_node)) * r.uniform(0.1, 10, size=n_node)
    if n_f:
        npf = r.integers(3, width + 1, size=n_f)
        npf[r.integers(0, n_f)] = width
    else:
        npf = np.zeros(0, dtype=INT_DTYPE)
    conn = np.full((n_f, width), F, dtype=INT_DTYPE)
    for i, k in enumerate(npf):
        conn[i, :k] = r.choice(n_node, size=k, replace=False)
    for npf_dtype in (np.int64, np.int32):
        out = C._construct_face_centroids(v[0], v[1], v[2], conn, npf.astype(npf_dtype))
        for nm, arr in zip("xyz", out):
            dig("cfc[%d,%s]/%s" % (seed, np.dtype(npf_dtype).name, nm), arr)
    # non-contiguous node coordinate views
    big = np.ascontiguousarray(v.T)
    out = C._construct_face_centroids(big[:, 0], big[:, 1], big[:, 2], conn, npf)
    for nm, arr in zip("xyz", out):
        dig("cfc-strided[%d]/%s" % (seed, nm), arr)
    econn = r.integers(0, n_node, size=(max(n_f, 1) * 2, 2)).astype(INT_DTYPE)
    out = C._construct_edge_centroids(v[0], v[1], v[2], econn)
    for nm, arr in zip("xyz", out):
        dig("cec[%d]/%s" % (seed, nm), arr)

print("== conversion helpers")
pts = np.array([[1, 0, 0], [0, 1, 0], [0, 0, 1], [0, 0, -1], [-1, 0, 0], [-1, -1e-17, 0], [-1, 1e-17, 0],
                [1e-9, 0, 1], [1e-5, 0, 1], [3, -4, 12], [-2, -2, 1e-3], [0.5, -0.5, 0.70710678]], dtype=float).T
for norm in (True, False):
    src = pts / np.linalg.norm(pts, axis=0) if not norm else pts
    x, y, z = src[0].copy(), src[1].copy(), src[2].copy()
    lo, la = C._xyz_to_lonlat_rad(x, y, z, normalize=norm)
    dig("rad/%s/lon" % norm, lo); dig("rad/%s/lat" % norm, la)
    lo, la = C._xyz_to_lonlat_deg(x, y, z, normalize=norm)
    dig("deg/%s/lon" % norm, lo); dig("deg/%s/lat" % norm, la)
    dig("input-untouched/%s" % norm, np.array([x, y, z]))
for arr in C._normalize_xyz(pts[0], pts[1], pts[2]):
    dig("normalize_xyz", arr)
for arr in C._lonlat_rad_to_xyz(np.deg2rad(node_lon), np.deg2rad(node_lat)):
    dig("lonlat_rad_to_xyz", arr)
ds = xr.Dataset({"node_lon": ("n_node", node_lon.copy()), "face_lon": ("n_face", np.array([-10.0, 180.0, 170.0])),
                 "edge_lon": ("n_edge", np.array([180.0, 180.5, 360.0, 0.0]))})
C._set_desired_longitude_range(ds)
for k in ds.data_vars:
    dig("setrange/" + k, ds[k])

print("== sample files")
HERE = os.path.join(os.getcwd(), "test", "meshfiles")
for rel in ["ugrid/quad-hexagon/grid.nc", "ugrid/geoflow-small/grid.nc", "ugrid/outCSne30/outCSne30.ug",
            "scrip/outCSne8/outCSne8.nc", "esmf/ne30/ne30pg3.grid.nc", "mpas/QU/mesh.QU.1920km.151026.nc",
            "exodus/mixed/mixed.exo", "ugrid/fesom/fesom.mesh.diag.nc"]:
    p = os.path.join(HERE, rel)
    if not os.path.exists(p):
        print("missing", rel)
        continue
    try:
        for order in ("fwd", "xyz1"):
            g = ux.open_grid(p)
            report(rel, g, order)
        g = ux.open_grid(p)
        for n in ("node_x", "face_x", "edge_x"):
            getattr(g, n)
        print(rel, "check", repr(_check_normalization(g)))
        g.normalize_cartesian_coordinates()
        report(rel + "+norm", g, "rev")
    except Exception as e:  # the exception is part of the observable behaviour
        print(rel, "EXCEPTION", type(e).__name__, str(e)[:300].replace("\n", " | "))
