import sys, os; sys.path.insert(0, os.getcwd())
import hashlib
import warnings

warnings.filterwarnings("ignore")

import numpy as np
import xarray as xr
import uxarray as ux

assert os.path.abspath(ux.__file__).startswith(os.path.abspath(os.getcwd()) + os.sep), ux.__file__
from uxarray.core.dataarray import UxDataArray


def h(a):
    a = np.ascontiguousarray(np.asarray(a))
    return f"{a.dtype}{a.shape}:{hashlib.sha1(a.tobytes()).hexdigest()[:12]}"


def grid_digest(g):
    if g is None:
        return "None"
    parts = [f"nf={g.n_face} nn={g.n_node} ne={g.n_edge}"]
    for name in sorted(g._ds.variables):
        parts.append(f"{name}={h(g._ds[name].values)}")
    return " ".join(parts)


def describe(tag, res, src):
    print(f"[{tag}] type={type(res).__name__} dims={res.dims} shape={res.shape} dtype={res.dtype} name={res.name!r}")
    small = repr(np.asarray(res.values).tolist()) if res.size <= 24 else ""
    print(f"    values={h(res.values)} {small}")
    print(f"    attrs={dict(res.attrs)} coords={[(c, h(res.coords[c].values)) for c in sorted(res.coords)]}")
    if not isinstance(res, UxDataArray):
        print("    (plain xarray object, no uxgrid)")
        return
    g, sg = res.uxgrid, src.uxgrid
    print(f"    same_grid_object={g is sg} grid_type={type(g).__name__}")
    if g is not None:
        print(f"    grid={grid_digest(g)}")
        print(f"    fnc={g.face_node_connectivity.values.tolist() if g.n_face <= 6 else h(g.face_node_connectivity.values)}")
        for d in ("n_face", "n_node", "n_edge"):
            if d in res.dims:
                print(f"    len[{d}]={res.sizes[d]} grid.{d}={getattr(g, d)}")


def attempt(tag, fn, src):
    try:
        res = fn()
    except Exception as e:  # noqa
        print(f"[{tag}] RAISED {type(e).__name__}: {e}")
        return None
    describe(tag, res, src)
    return res


def grids():
    out = {}
    out["quadhex"] = ux.open_grid("test/meshfiles/ugrid/quad-hexagon/grid.nc")
    # hand-made mixed grid: quad + pentagon + triangle, padded with fill values
    lon = np.array([0.0, 10.0, 10.0, 0.0, 20.0, 25.0, 20.0, 5.0])
    lat = np.array([0.0, 0.0, 10.0, 10.0, 0.0, 5.0, 10.0, 20.0])
    fnc = np.array([[0, 1, 2, 3, -1], [1, 4, 5, 6, 2], [3, 2, 7, -1, -1]])
    out["mixed"] = ux.Grid.from_topology(lon, lat, fnc, fill_value=-1)
    out["mpas"] = ux.open_grid("test/meshfiles/mpas/QU/mesh.QU.1920km.151026.nc")
    return out


def arrays(name, g):
    rng = np.random.default_rng(11)
    _ = g.n_edge
    yield f"{name}/face", UxDataArray(
        rng.random((2, g.n_face)), dims=["time", "n_face"], uxgrid=g, name="a",
        coords={"time": [10, 20], "fid": ("n_face", np.arange(g.n_face))}, attrs={"units": "K"})
    yield f"{name}/face-nocoord", UxDataArray(
        rng.random((2, g.n_face)), dims=["time", "n_face"], uxgrid=g, name="a2",
        coords={"time": [10, 20]}, attrs={"units": "K"})
    yield f"{name}/node", UxDataArray(
        np.arange(g.n_node, dtype=np.int32) * 3, dims=["n_node"], uxgrid=g, name="b")
    yield f"{name}/edge", UxDataArray(
        rng.random((g.n_edge, 3)).astype(np.float32), dims=["n_edge", "lev"], uxgrid=g)
    yield f"{name}/face+node", UxDataArray(
        rng.random((g.n_face, g.n_node)), dims=["n_face", "n_node"], uxgrid=g, name="fn")
    yield f"{name}/node+edge", UxDataArray(
        rng.random((g.n_node, g.n_edge)), dims=["n_node", "n_edge"], uxgrid=g, name="ne")
    yield f"{name}/nogriddim", UxDataArray(
        np.arange(4.0), dims=["x"], uxgrid=g, name="c")


def indexers(n):
    last = n - 1
    yield "list", [0, last]
    yield "list-unsorted", [last, 0, 1][: max(1, min(3, n))]
    yield "list-dup", [1, 1, 0]
    yield "ndarray", np.array([1], dtype=np.int64)
    yield "ndarray-i32", np.array([0, 1], dtype=np.int32)
    yield "empty", []
    yield "scalar", 1
    yield "slice", slice(0, 2)
    yield "bool-mask", np.arange(n) % 2 == 0
    yield "negative", [-1]
    yield "out-of-range", [n + 5]
    yield "dataarray", xr.DataArray([0, 1], dims="k")


def main():
    for gname, g in grids().items():
        sizes = {"n_face": g.n_face, "n_node": g.n_node, "n_edge": g.n_edge}
        for tag, da in arrays(gname, g):
            for dim, n in sizes.items():
                for iname, idx in indexers(n):
                    attempt(f"{tag} isel({dim}={iname})", lambda: da.isel(**{dim: idx}), da)
                    attempt(f"{tag} isel({{{dim}:{iname}}})", lambda: da.isel({dim: idx}), da)
                    attempt(f"{tag} isel({dim}={iname},ignore_grid)",
                            lambda: da.isel(**{dim: idx}, ignore_grid=True, missing_dims="ignore"), da)
            # more than one grid dimension
            attempt(f"{tag} isel(n_face,n_node)", lambda: da.isel(n_face=[0], n_node=[0]), da)
            attempt(f"{tag} isel(n_node,n_edge,n_face)", lambda: da.isel(n_node=[0], n_edge=[0], n_face=[0]), da)
            attempt(f"{tag} isel(n_face,n_node,ignore_grid)",
                    lambda: da.isel(n_face=[0], n_node=[0], ignore_grid=True, missing_dims="ignore"), da)
            # grid dimension together with an ordinary one
            attempt(f"{tag} isel(n_face,time)", lambda: da.isel(n_face=[0, 1], time=0), da)
            attempt(f"{tag} isel(n_node,lev,drop)", lambda: da.isel(n_node=[2], lev=1, drop=True), da)
            # ordinary dimensions only
            attempt(f"{tag} isel(time=0)", lambda: da.isel(time=0), da)
            attempt(f"{tag} isel(time=0,missing ignore)", lambda: da.isel(time=0, missing_dims="ignore"), da)
            attempt(f"{tag} isel(time=[1],drop)", lambda: da.isel(time=[1], drop=True), da)
            attempt(f"{tag} isel(lev=slice)", lambda: da.isel({"lev": slice(1, None)}), da)
            attempt(f"{tag} isel(x=[0,3])", lambda: da.isel(x=[0, 3]), da)
            attempt(f"{tag} isel()", lambda: da.isel(), da)
            attempt(f"{tag} isel(dict+kwargs)", lambda: da.isel({"n_face": [0]}, n_face=[0]), da)
            attempt(f"{tag} isel(non-mapping)", lambda: da.isel([0, 1]), da)
            # _slice_from_grid directly, with grids sliced along each dimension
            for dim in sizes:
                try:
                    sg = g.isel(**{dim: [0, 1]})
                except Exception as e:  # noqa
                    print(f"[{tag}] grid.isel({dim}) RAISED {type(e).__name__}: {e}")
                    continue
                r = attempt(f"{tag} _slice_from_grid(grid.isel({dim}))", lambda: da._slice_from_grid(sg), da)
                if r is not None:
                    print(f"    attached_is_sliced_grid={r.uxgrid is sg}")
            # composition: slice, then an xarray operation, then slice again
            attempt(f"{tag} isel.isel", lambda: (da.isel(n_face=[0, 1, 2]) * 2).isel(n_face=[1]), da)
            attempt(f"{tag} isel.copy(deep).isel", lambda: da.isel(n_node=[0, 1]).copy(deep=True).isel(n_face=[0]), da)

    nog = UxDataArray(np.arange(3.0), dims=["n_face"], name="nog")
    attempt("nogrid isel(n_face)", lambda: nog.isel(n_face=[0]), nog)
    attempt("nogrid isel(n_face,ignore_grid)", lambda: nog.isel(n_face=[0], ignore_grid=True), nog)
    attempt("nogrid isel(x)", lambda: nog.isel(x=[0]), nog)


main()
