import sys, os; sys.path.insert(0, os.getcwd())
import hashlib, warnings
import numpy as np
import xarray as xr
warnings.filterwarnings("ignore")
import uxarray
assert os.path.abspath(uxarray.__file__).startswith(os.path.abspath(os.getcwd()) + os.sep), uxarray.__file__
import uxarray as ux
from uxarray.io._mpas import _read_mpas
from uxarray.io import _mpas


def digest_ds(tag, ds):
    print("==", tag, "attrs", sorted((k, repr(v)) for k, v in ds.attrs.items()))
    print("   dims", sorted(ds.sizes.items()))
    for name in list(ds.variables):          # insertion order matters too
        v = ds[name]
        a = np.ascontiguousarray(v.values)
        h = hashlib.sha1(a.tobytes()).hexdigest()[:16]
        print("  ", name, v.dims, a.dtype, a.shape, h, sorted((k, repr(x)) for k, x in v.attrs.items()))
        if a.size <= 40:
            print("      ", repr(a.tolist()))


def synthetic(pad, conn_dtype, lon0360=False, with_extras=True, dims=("nCells", "nVertices", "nEdges", "maxEdges")):
    nC, nV, nE, mE = dims
    # 4 cells: a triangle, a quad, a pentagon, a hexagon (maxEdges = 6); 9 vertices; 10 edges
    nedges = np.array([3, 4, 5, 6], dtype=np.int32)
    voc = np.array([[1, 2, 3, 0, 0, 0],
                    [2, 4, 5, 3, 0, 0],
                    [3, 5, 6, 7, 8, 0],
                    [4, 9, 6, 5, 2, 1]])
    eoc = np.array([[1, 2, 3, 0, 0, 0],
                    [4, 5, 6, 2, 0, 0],
                    [6, 7, 8, 9, 10, 0],
                    [10, 9, 8, 7, 5, 4]])
    coc = np.array([[2, 0, 3, 0, 0, 0],
                    [1, 4, 3, 0, 0, 0],
                    [2, 4, 0, 0, 1, 0],
                    [1, 2, 3, 0, 0, 0]])
    if pad == "repeat":
        for arr in (voc, eoc, coc):
            for i, n in enumerate(nedges):
                arr[i, n:] = arr[i, n - 1] if arr[i, n - 1] != 0 else 7
    elif pad == "garbage":
        for arr in (voc, eoc, coc):
            for i, n in enumerate(nedges):
                arr[i, n:] = 99
    cov = np.array([[1, 2, 0], [1, 2, 4], [1, 2, 3], [2, 4, 0], [2, 3, 4],
                    [3, 4, 0], [3, 0, 0], [0, 3, 0], [4, 0, 0]])
    eov = np.array([[1, 2, 0], [3, 4, 5], [1, 2, 3], [2, 4, 0], [2, 3, 4],
                    [8, 9, 0], [7, 0, 0], [0, 10, 0], [6, 0, 0]])
    voe = np.array([[1, 2], [2, 3], [3, 1], [2, 4], [4, 5], [5, 3], [5, 6], [6, 7], [7, 8], [8, 3]])
    coe = np.array([[1, 4], [1, 2], [1, 0], [2, 4], [2, 4], [2, 3], [3, 4], [3, 0], [0, 3], [3, 0]])
    rng = np.random.default_rng(5)
    def lon(n):
        x = rng.uniform(0, 2 * np.pi, n)
        x[0] = np.pi            # antimeridian
        x[-1] = 0.0
        return x if lon0360 else x - np.pi
    def lat(n):
        y = rng.uniform(-np.pi / 2, np.pi / 2, n)
        y[0] = np.pi / 2
        y[-1] = -np.pi / 2
        return y
    d = {
        "verticesOnCell": ((nC, mE), voc.astype(conn_dtype)),
        "nEdgesOnCell": ((nC,), nedges),
        "cellsOnVertex": ((nV, "vertexDegree"), cov.astype(conn_dtype)),
        "lonVertex": ((nV,), lon(9)), "latVertex": ((nV,), lat(9)),
        "lonCell": ((nC,), lon(4)), "latCell": ((nC,), lat(4)),
    }
    if with_extras:
        d.update({
            "edgesOnCell": ((nC, mE), eoc.astype(conn_dtype)),
            "cellsOnCell": ((nC, mE), coc.astype(conn_dtype)),
            "edgesOnVertex": ((nV, "vertexDegree"), eov.astype(conn_dtype)),
            "verticesOnEdge": ((nE, "TWO"), voe.astype(conn_dtype)),
            "cellsOnEdge": ((nE, "TWO"), coe.astype(conn_dtype)),
            "lonEdge": ((nE,), lon(10)), "latEdge": ((nE,), lat(10)),
            "xVertex": ((nV,), rng.normal(size=9)), "yVertex": ((nV,), rng.normal(size=9)), "zVertex": ((nV,), rng.normal(size=9)),
            "xCell": ((nC,), rng.normal(size=4)), "yCell": ((nC,), rng.normal(size=4)), "zCell": ((nC,), rng.normal(size=4)),
            "xEdge": ((nE,), rng.normal(size=10)), "yEdge": ((nE,), rng.normal(size=10)), "zEdge": ((nE,), rng.normal(size=10)),
            "dvEdge": ((nE,), rng.uniform(size=10)), "dcEdge": ((nE,), rng.uniform(size=10)),
            "areaCell": ((nC,), rng.uniform(size=4)), "areaTriangle": ((nV,), rng.uniform(size=9)),
        })
    return xr.Dataset({k: xr.DataArray(v, dims=dd) for k, (dd, v) in d.items()},
                      attrs={"sphere_radius": 1.0, "mesh_spec": "1.0"})


def snapshot(ds):
    return {k: (ds[k].values.copy(), ds[k].values.dtype) for k in ds.variables}


def check_untouched(tag, ds, snap):
    ok = all(ds[k].values.dtype == dt and np.array_equal(ds[k].values, a, equal_nan=True) for k, (a, dt) in snap.items())
    print("   input untouched:", tag, ok)


cases = []
for pad in ("zeros", "repeat", "garbage"):
    for dt in (np.int32, np.int64, np.float64):
        cases.append((pad, dt, False, True, ("nCells", "nVertices", "nEdges", "maxEdges")))
cases.append(("zeros", np.int32, True, True, ("ncol", "nvert", "nedge", "maxE")))
cases.append(("repeat", np.int64, True, False, ("nCells", "nVertices", "nEdges", "maxEdges")))

for pad, dt, l360, extras, dims in cases:
    for dual in (False, True):
        tag = f"synthetic pad={pad} dtype={np.dtype(dt).name} lon360={l360} extras={extras} dims={dims[0]} dual={dual}"
        src = synthetic(pad, dt, l360, extras, dims)
        snap = snapshot(src)
        out, dim_map = _read_mpas(src, use_dual=dual)
        digest_ds("reader " + tag, out)
        print("   dim map", sorted(dim_map.items()))
        check_untouched(tag, src, snap)
        # outputs must not share memory with the inputs for the index arrays
        for name in ("edge_face_connectivity", "face_face_connectivity", "face_node_connectivity"):
            if name in out:
                shares = any(np.shares_memory(out[name].values, src[k].values) for k in src.variables)
                print("   shares memory", name, shares)
        g = ux.Grid.from_dataset(src, use_dual=dual)
        digest_ds("grid " + tag, g._ds)
        print("   spec", g.source_grid_spec, "n_face", g.n_face, "n_node", g.n_node)
        check_untouched(tag + " (grid)", src, snap)

# direct calls of the touched parsers on minimal datasets (incl. missing nEdgesOnCell -> KeyError)
src = synthetic("zeros", np.int32)
for dual in ("primal", "dual", "something-else"):
    o = xr.Dataset()
    _mpas._parse_edge_faces(src, o, dual)
    digest_ds("direct _parse_edge_faces " + dual, o)
o = xr.Dataset()
_mpas._parse_face_faces(src, o)
digest_ds("direct _parse_face_faces", o)
try:
    _mpas._parse_face_faces(src.drop_vars("nEdgesOnCell"), xr.Dataset())
except Exception as e:
    print("missing nEdgesOnCell:", type(e).__name__, e)
try:
    _mpas._parse_face_faces(src.drop_vars("cellsOnCell"), xr.Dataset())
except Exception as e:
    print("missing cellsOnCell:", type(e).__name__, e)
try:
    _read_mpas(src.drop_vars("latEdge"))
except Exception as e:
    print("missing latEdge:", type(e).__name__, e)
try:
    _read_mpas(src.drop_vars("latVertex"), use_dual=True)
except Exception as e:
    print("missing latVertex:", type(e).__name__, e)

# real file
path = os.path.join(os.getcwd(), "test", "meshfiles", "mpas", "QU", "mesh.QU.1920km.151026.nc")
if os.path.getsize(path) > 0:
    for dual in (False, True):
        g = ux.open_grid(path, use_dual=dual)
        digest_ds(f"file QU1920 dual={dual}", g._ds)
        print("   n_face", g.n_face, "n_node", g.n_node, "n_edge", g.n_edge, sorted(g._source_dims_dict.items()))
else:
    print("QU file empty")
