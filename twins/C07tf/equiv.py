import sys, os; sys.path.insert(0, os.getcwd())
import hashlib
import tempfile
import warnings

warnings.filterwarnings("ignore")

import numpy as np
import xarray as xr
import uxarray as ux

assert os.path.abspath(ux.__file__).startswith(os.path.abspath(os.getcwd()) + os.sep), ux.__file__

from uxarray.io import _ugrid, _exodus, _scrip
import uxarray.conventions.ugrid as conv

MESH = os.path.join(os.getcwd(), "test", "meshfiles")
# variables / attributes whose content depends on the wall clock
VOLATILE_VARS = {"qa_records"}
VOLATILE_ATTRS = {"title"}


def h(arr):
    arr = np.asarray(arr)
    if arr.dtype.kind in "OUS":
        return "repr:" + hashlib.sha1(repr(arr.tolist()).encode()).hexdigest()[:12]
    return hashlib.sha1(np.ascontiguousarray(arr).tobytes()).hexdigest()[:12]


def attr_repr(attrs):
    out = []
    for k, v in attrs.items():
        if k in VOLATILE_ATTRS:
            out.append((k, "<volatile>"))
        elif isinstance(v, np.ndarray):
            out.append((k, "ndarray", str(v.dtype), v.shape, h(v)))
        elif isinstance(v, (str, int, float, np.generic, list, tuple, bool)):
            out.append((k, type(v).__name__, repr(v)))
        else:
            out.append((k, type(v).__name__))
    return out


def digest_ds(tag, ds):
    print(f"  [{tag}] dims={dict(ds.sizes)}")
    print(f"  [{tag}] attrs={attr_repr(ds.attrs)}")
    print(f"  [{tag}] coords={list(ds.coords)} data_vars={list(ds.data_vars)}")
    for name in ds.variables:
        v = ds[name]
        if name in VOLATILE_VARS:
            print(f"  [{tag}] {name}: dims={v.dims} dtype={v.dtype} shape={v.shape} <volatile>")
            continue
        print(
            f"  [{tag}] {name}: dims={v.dims} dtype={v.dtype} shape={v.shape} "
            f"hash={h(v.values)} type={type(v.variable._data).__name__} attrs={attr_repr(v.attrs)}"
        )


def faces_of(grid):
    """list of faces as tuples of rounded (lon, lat) corners, in face order"""
    conn = grid.face_node_connectivity.values
    lon = grid.node_lon.values
    lat = grid.node_lat.values
    faces = []
    for row in conn:
        row = row[row != ux.INT_FILL_VALUE]
        faces.append(tuple((round(float(lon[i]) % 360, 9), round(float(lat[i]), 9)) for i in row))
    return faces


def shares(a, b):
    try:
        return bool(np.shares_memory(np.asarray(a), np.asarray(b)))
    except Exception as e:  # pragma: no cover
        return "err:" + type(e).__name__


def topology_template_digest():
    return repr(sorted(conv.BASE_GRID_TOPOLOGY_ATTRS.items())), id(conv.BASE_GRID_TOPOLOGY_ATTRS)


TEMPLATE_BEFORE = topology_template_digest()


def make_grids():
    grids = {}
    grids["exo_mixed"] = lambda: ux.open_grid(os.path.join(MESH, "exodus", "mixed", "mixed.exo"))
    grids["exo_ne8"] = lambda: ux.open_grid(os.path.join(MESH, "exodus", "outCSne8", "outCSne8.g"))
    grids["quadhex"] = lambda: ux.open_grid(os.path.join(MESH, "ugrid", "quad-hexagon", "grid.nc"))
    grids["scrip_ne8"] = lambda: ux.open_grid(os.path.join(MESH, "scrip", "outCSne8", "outCSne8.nc"))
    grids["ugrid_rll10"] = lambda: ux.open_grid(
        os.path.join(MESH, "ugrid", "ov_RLL10deg_CSne4", "ov_RLL10deg_CSne4.ug")
    )

    def topo():
        # tri + quad + pentagon, fill value -1, one-based
        node_lon = np.array([0.0, 10.0, 10.0, 0.0, 20.0, 25.0, 20.0, 5.0])
        node_lat = np.array([0.0, 0.0, 10.0, 10.0, 0.0, 5.0, 10.0, 18.0])
        conn = np.array(
            [[1, 2, 3, 4, -1], [2, 5, 6, 7, 3], [4, 3, 8, -1, -1]], dtype=np.int32
        )
        return ux.Grid.from_topology(node_lon, node_lat, conn, fill_value=-1, start_index=1)

    grids["topo_mixed"] = topo

    def verts():
        return ux.Grid.from_face_vertices(
            [
                [[-5.0, -5.0], [5.0, -5.0], [5.0, 5.0], [-5.0, 5.0]],
                [[5.0, -5.0], [15.0, -5.0], [15.0, 5.0], [5.0, 5.0]],
            ],
            latlon=True,
        )

    grids["verts"] = verts

    def single_tri():
        return ux.Grid.from_topology(
            np.array([350.0, 10.0, 0.0]),
            np.array([-5.0, -5.0, 8.0]),
            np.array([[0, 1, 2]]),
        )

    grids["single_tri"] = single_tri
    return grids


DERIVED = {
    "none": [],
    "edges": ["edge_node_connectivity"],
    "many": [
        "edge_node_connectivity",
        "face_edge_connectivity",
        "face_lon",
        "edge_lon",
        "node_x",
        "face_areas",
        "n_nodes_per_face",
        "node_face_connectivity",
        "edge_face_connectivity",
    ],
    "bounds": ["bounds"],
}


def materialise(grid, names):
    for n in names:
        try:
            getattr(grid, n)
        except Exception as e:
            print(f"    materialise {n}: {type(e).__name__}")


def run_case(gname, factory, dname, tmpdir):
    print(f"== grid={gname} derived={dname}")
    grid = factory()
    materialise(grid, DERIVED[dname])
    ref_faces = faces_of(grid)
    print(f"  n_face={grid.n_face} n_node={grid.n_node} faces_hash={h(np.array(repr(ref_faces)))}")
    for fmt in ("ugrid", "exodus", "scrip"):
        try:
            out = grid.to_xarray(fmt)
        except Exception as e:
            print(f"  to_xarray({fmt}) raised {type(e).__name__}: {e}")
            continue
        digest_ds(fmt, out)
        # aliasing with the grid's own arrays
        alias = {}
        for name in out.variables:
            if name in grid._ds.variables:
                alias[name] = shares(out[name].values, grid._ds[name].values)
        print(f"  [{fmt}] shares_with_grid={alias} is_grid_ds={out is grid._ds}")
        if fmt == "scrip":
            print(f"  [{fmt}] area_shared={shares(out['grid_area'].values, grid.face_areas.values)}")
        # internal attrs of the grid survive the encoding
        for vname in ("edge_node_connectivity", "bounds"):
            if vname in grid._ds:
                print(f"  [{fmt}] grid attrs {vname}: {sorted(grid._ds[vname].attrs)}")
        # round trip in memory and via file
        for how in ("mem", "file"):
            try:
                if how == "mem":
                    back = ux.open_grid(out)
                else:
                    path = os.path.join(tmpdir, f"{gname}_{dname}_{fmt}.nc")
                    out.to_netcdf(path)
                    back = ux.open_grid(path)
                faces = faces_of(back)
                same_order = faces == ref_faces
                same_multiset = sorted(faces) == sorted(ref_faces)
                print(
                    f"  [{fmt}/{how}] spec={back.source_grid_spec} n_face={back.n_face} n_node={back.n_node} "
                    f"fnc_dtype={back.face_node_connectivity.dtype} fnc_hash={h(back.face_node_connectivity.values)} "
                    f"lon_hash={h(back.node_lon.values)} lat_hash={h(back.node_lat.values)} "
                    f"same_order={same_order} same_multiset={same_multiset} dims_dict={back._source_dims_dict}"
                )
            except Exception as e:
                print(f"  [{fmt}/{how}] raised {type(e).__name__}: {e}")
    # deprecated spelling
    for gt in ("UGRID", "Exodus", "SCRIP", "bogus"):
        try:
            out = grid.encode_as(gt)
            print(f"  encode_as({gt}): vars={sorted(out.variables)} dims={dict(out.sizes)}")
        except Exception as e:
            print(f"  encode_as({gt}) raised {type(e).__name__}: {e.args}")
    print(f"  template_unchanged={topology_template_digest() == TEMPLATE_BEFORE}")


def direct_reader_checks():
    print("== direct reader / helper calls")
    # _read_exodus on the two sample files
    for p in ("exodus/mixed/mixed.exo", "exodus/outCSne8/outCSne8.g"):
        ext = xr.open_dataset(os.path.join(MESH, p))
        ds, dims = _exodus._read_exodus(ext)
        digest_ds("read_exodus:" + p, ds)
        print("  dims_dict", dims)
    # _read_exodus on encoded output of a lon/lat-only mixed grid (coord variable instead of coordx/y/z)
    g = make_grids()["topo_mixed"]()
    enc = _exodus._encode_exodus(g._ds)
    ds, dims = _exodus._read_exodus(enc)
    digest_ds("read_exodus:encoded", ds)
    enc2 = _exodus._encode_exodus(g._ds, outfile="/some/dir/out.exo")
    print("  outfile attrs", sorted(enc2.attrs), enc2.attrs["title"].startswith("uxarray(out.exo)"))
    # two-dimensional exodus (num_dim == 2): node_z is skipped, conversion then fails
    ext2 = xr.Dataset(
        {
            "coordx": ("num_nodes", np.array([0.0, 1.0, 0.0])),
            "coordy": ("num_nodes", np.array([0.0, 0.0, 1.0])),
            "coordz": ("num_nodes", np.array([0.0, 0.0, 0.0])),
            "connect1": (("num_el_in_blk1", "num_nod_per_el1"), np.array([[1, 2, 3]])),
            "dummy": (("num_dim",), np.array([0, 0])),
        }
    )
    try:
        ds, dims = _exodus._read_exodus(ext2)
        digest_ds("read_exodus:2d", ds)
    except Exception as e:
        print("  read_exodus 2d raised", type(e).__name__, e.args)
    # exodus with no connect/no dims
    try:
        _exodus._read_exodus(xr.Dataset({"coordx": ("num_nodes", np.array([0.0]))}))
    except Exception as e:
        print("  read_exodus empty raised", type(e).__name__, e.args)
    # element types
    for n in range(0, 11):
        try:
            print("  element_type", n, _exodus._get_element_type(n))
        except Exception as e:
            print("  element_type", n, "raised", type(e).__name__, e.args)
    try:
        print("  element_type np.int64(4)", _exodus._get_element_type(np.int64(4)))
    except Exception as e:
        print("  raised", type(e).__name__)

    # _read_scrip
    ext = xr.open_dataset(os.path.join(MESH, "scrip", "outCSne8", "outCSne8.nc"))
    ds, dims = _scrip._read_scrip(ext)
    digest_ds("read_scrip", ds)
    print("  dims_dict", dims)
    out = xr.Dataset()
    ret = _scrip._to_ugrid(ext, out)
    print("  _to_ugrid ret", ret, sorted(out.variables))
    try:
        g.to_xarray("scrip")
        print("  mixed scrip encoded")
    except Exception as e:
        print("  mixed scrip raised", type(e).__name__, e.args)
    enc = make_grids()["verts"]().to_xarray("scrip")
    ds, dims = _scrip._read_scrip(enc)
    digest_ds("read_scrip:encoded", ds)
    print("  dims_dict", dims)
    # structured (an area of zero) is refused
    bad = enc.copy(deep=True)
    bad["grid_area"].values[0] = 0.0
    for fn in (_scrip._read_scrip, lambda d: _scrip._to_ugrid(d, xr.Dataset())):
        try:
            fn(bad)
            print("  structured scrip accepted")
        except Exception as e:
            print("  structured scrip raised", type(e).__name__, type(e) is Exception, e.args)
    # missing variables
    for drop in ("grid_area", "grid_corner_lat", "grid_center_lon"):
        try:
            _scrip._read_scrip(enc.drop_vars(drop))
            print("  no", drop, "accepted")
        except Exception as e:
            print("  no", drop, "raised", type(e).__name__, e.args)
    c = _scrip.grid_center_lat_lon(enc)
    print("  centers", type(c[0]).__name__, h(np.asarray(c[0])), h(np.asarray(c[1])))

    # _read_ugrid / _standardize_connectivity
    for p in ("ugrid/quad-hexagon/grid.nc", "ugrid/geoflow-small/grid.nc", "ugrid/outCSne30/outCSne30.ug"):
        ext = xr.open_dataset(os.path.join(MESH, p))
        before = {k: h(ext[k].values) for k in ext.variables}
        ds, dims = _ugrid._read_ugrid(ext)
        digest_ds("read_ugrid:" + p, ds)
        print("  dims_dict", dims)
        print("  source untouched", before == {k: h(ext[k].values) for k in ext.variables})
    # hand-made ugrid: one-based, float connectivity with NaN fill, no start_index, no _FillValue
    hand = xr.Dataset(
        {
            "mesh": ((), 0, {"cf_role": "mesh_topology", "topology_dimension": 2,
                            "node_coordinates": "x y", "face_node_connectivity": "fn"}),
            "x": ("nn", np.array([0.0, 10.0, 10.0, 0.0, 20.0])),
            "y": ("nn", np.array([0.0, 0.0, 10.0, 10.0, 5.0])),
            "fn": (("nf", "mx"), np.array([[1.0, 2.0, 3.0, 4.0], [2.0, 5.0, 3.0, np.nan]])),
        }
    )
    ds, dims = _ugrid._read_ugrid(hand)
    digest_ds("read_ugrid:hand", ds)
    print("  dims_dict", dims, "fn", ds["face_node_connectivity"].values.tolist())
    hand2 = hand.copy(deep=True)
    hand2["fn"] = (("nf", "mx"), np.array([[1, 2, 3, 4], [2, 5, 3, -9]], dtype=np.int32),
                   {"_FillValue": -9, "start_index": 1})
    ds, dims = _ugrid._read_ugrid(hand2)
    digest_ds("read_ugrid:hand2", ds)
    print("  fn", ds["face_node_connectivity"].values.tolist())
    for d in (hand, hand2):
        ds2 = _ugrid._standardize_connectivity(d.copy(deep=True), "fn")
        print("  std", ds2["fn"].dtype, ds2["fn"].values.tolist(), attr_repr(ds2["fn"].attrs))
    # all-fill connectivity
    hand3 = hand.copy(deep=True)
    hand3["fn"] = (("nf", "mx"), np.full((2, 4), np.nan))
    ds3 = _ugrid._standardize_connectivity(hand3, "fn")
    print("  std allfill", ds3["fn"].dtype, ds3["fn"].values.tolist(), attr_repr(ds3["fn"].attrs))

    # _encode_ugrid directly: input dataset is not modified, output independent
    g = make_grids()["quadhex"]()
    _ = g.edge_node_connectivity
    _ = g.bounds
    src = g._ds
    before_attrs = {k: sorted(src[k].attrs) for k in src.variables}
    before_vals = {k: h(src[k].values) for k in src.variables}
    out = _ugrid._encode_ugrid(src)
    digest_ds("encode_ugrid:direct", out)
    print("  src attrs same", before_attrs == {k: sorted(src[k].attrs) for k in src.variables})
    print("  src vals same", before_vals == {k: h(src[k].values) for k in src.variables})
    print("  out is src", out is src, "topology attrs is template",
          out["grid_topology"].attrs is conv.BASE_GRID_TOPOLOGY_ATTRS)
    out["grid_topology"].attrs["cf_role"] = "tampered"
    out["node_lon"].values[:] = -1.0
    out2 = _ugrid._encode_ugrid(src)
    print("  after tamper:", out2["grid_topology"].attrs["cf_role"], h(out2["node_lon"].values),
          topology_template_digest() == TEMPLATE_BEFORE)
    # dataset without grid_topology, without edges
    bare = xr.Dataset({"node_lon": ("n_node", np.array([0.0, 1.0, 2.0])),
                       "node_lat": ("n_node", np.array([0.0, 1.0, 0.0])),
                       "face_node_connectivity": (("n_face", "n_max_face_nodes"), np.array([[0, 1, 2]]))})
    digest_ds("encode_ugrid:bare", _ugrid._encode_ugrid(bare))
    print("  helper table", sorted((k, tuple(v)) for k, v in _ugrid._INTERNAL_HELPER_ATTRS.items()))


def extra_scrip_checks(tmpdir):
    print("== extra scrip reader cases")

    def scrip(corner_lon, corner_lat, area=None, dims=("grid_size", "grid_corners"), dtype=float):
        corner_lon = np.array(corner_lon, dtype=dtype)
        corner_lat = np.array(corner_lat, dtype=dtype)
        n = corner_lon.shape[0]
        area = np.full(n, 0.01) if area is None else np.array(area)
        return xr.Dataset(
            {
                "grid_corner_lon": (dims, corner_lon),
                "grid_corner_lat": (dims, corner_lat),
                "grid_center_lon": (dims[0], corner_lon.mean(axis=1)),
                "grid_center_lat": (dims[0], corner_lat.mean(axis=1)),
                "grid_area": (dims[0], area),
                "grid_imask": (dims[0], np.ones(n, dtype=int)),
                "grid_dims": ("grid_rank", np.array([n])),
            }
        )

    # quad + triangle padded by repeating its last corner + a face crossing the dateline
    lon = [[0.0, 10.0, 10.0, 0.0], [10.0, 20.0, 10.0, 10.0], [350.0, 0.0, 0.0, 350.0]]
    lat = [[0.0, 0.0, 10.0, 10.0], [0.0, 0.0, 10.0, 10.0], [0.0, 0.0, 10.0, 10.0]]
    cases = {
        "padded_mixed": scrip(lon, lat),
        "other_dim_names": scrip(lon, lat, dims=("ncells", "nv")),
        "float32": scrip(lon, lat, dtype=np.float32),
        "nan_area": scrip(lon, lat, area=[np.nan, 1.0, 2.0]),
        "negative_area": scrip(lon, lat, area=[-1.0, 1.0, 2.0]),
        "int_area": scrip(lon, lat, area=[1, 2, 3]),
        "single_face": scrip(lon[:1], lat[:1]),
        "all_same_point": scrip([[5.0, 5.0, 5.0]], [[1.0, 1.0, 1.0]]),
        "zero_area_last": scrip(lon, lat, area=[1.0, 1.0, 0.0]),
        "bool_area_false": scrip(lon, lat, area=[True, False, True]),
    }
    for cname, ext in cases.items():
        before = {k: h(ext[k].values) for k in ext.variables}
        out = xr.Dataset()
        try:
            ret = _scrip._to_ugrid(ext, out)
            digest_ds("scrip:" + cname, out)
            print("  ret", ret, type(ret).__name__)
            print("  fnc", out["face_node_connectivity"].values.tolist())
            print("  lon", out["node_lon"].values.tolist(), out["node_lon"].values.flags["C_CONTIGUOUS"],
                  out["node_lon"].values.strides)
            ds2, dims2 = _scrip._read_scrip(ext)
            print("  read_scrip identical", ds2.identical(out), dims2)
            g = ux.open_grid(ext)
            print("  grid", g.source_grid_spec, g.n_face, g.n_node, g._source_dims_dict, faces_of(g))
            path = os.path.join(tmpdir, f"xs_{cname}.nc")
            g.to_xarray("scrip").to_netcdf(path)
            back = ux.open_grid(path)
            print("  rt", back.n_face, back.n_node, faces_of(back) == faces_of(g))
        except Exception as e:
            print(f"  scrip:{cname} raised {type(e).__name__} exact={type(e) is Exception}: {e.args}; out has {sorted(out.variables)}")
        print("  source untouched", before == {k: h(ext[k].values) for k in ext.variables})
    # missing pieces: what has been put into the output dataset by the time it fails
    full = cases["padded_mixed"]
    for drop in ("grid_area", "grid_corner_lat", "grid_corner_lon", "grid_center_lon", "grid_center_lat"):
        out = xr.Dataset()
        try:
            _scrip._to_ugrid(full.drop_vars(drop), out)
            print("  drop", drop, "accepted", sorted(out.variables))
        except Exception as e:
            print("  drop", drop, "raised", type(e).__name__, "out has", list(out.variables))
    # structured and incomplete at the same time: which error wins
    both = full.drop_vars("grid_corner_lat")
    both["grid_area"] = ("grid_size", np.zeros(3))
    try:
        _scrip._to_ugrid(both, xr.Dataset())
    except Exception as e:
        print("  structured+incomplete raised", type(e).__name__, e.args)
    # the output dataset that is passed in already holds something
    out = xr.Dataset({"keep": ("k", np.arange(2))}, attrs={"a": 1})
    _scrip._to_ugrid(full, out)
    print("  prefilled", list(out.variables), out.attrs)


def history_checks(tmpdir):
    print("== history: big grid encoded first, then small ones")
    grids = make_grids()
    big = grids["exo_ne8"]()
    _ = big.edge_node_connectivity
    for fmt in ("ugrid", "exodus", "scrip"):
        big.to_xarray(fmt)
    for name in ("single_tri", "topo_mixed"):
        g = grids[name]()
        ref = faces_of(g)
        for fmt in ("ugrid", "exodus", "scrip"):
            try:
                out = g.to_xarray(fmt)
                print(f"  {name}/{fmt}: topo={attr_repr(out['grid_topology'].attrs) if 'grid_topology' in out else None}")
                path = os.path.join(tmpdir, f"hist_{name}_{fmt}.nc")
                out.to_netcdf(path)
                back = ux.open_grid(path)
                print(f"  {name}/{fmt}: n_face={back.n_face} order={faces_of(back) == ref} "
                      f"multiset={sorted(faces_of(back)) == sorted(ref)}")
            except Exception as e:
                print(f"  {name}/{fmt}: raised {type(e).__name__}: {e.args}")
    print(f"  template_unchanged={topology_template_digest() == TEMPLATE_BEFORE}")


def main():
    grids = make_grids()
    with tempfile.TemporaryDirectory() as tmpdir:
        for gname, factory in grids.items():
            for dname in DERIVED:
                if dname == "bounds" and gname in ("exo_mixed", "exo_ne8", "scrip_ne8", "ugrid_rll10"):
                    continue
                run_case(gname, factory, dname, tmpdir)
        direct_reader_checks()
        extra_scrip_checks(tmpdir)
        history_checks(tmpdir)


main()
