import sys, os

sys.path.insert(0, os.getcwd())

import hashlib
import warnings

import numpy as np

warnings.filterwarnings("ignore")

import uxarray as ux

assert os.path.abspath(ux.__file__).startswith(os.path.abspath(os.getcwd()) + os.sep), ux.__file__

from uxarray.constants import INT_FILL_VALUE
from uxarray.grid import neighbors as nb


def digest(obj):
    """Type-, dtype-, shape-, layout- and value-sensitive description."""
    if isinstance(obj, tuple):
        return "tuple(" + ", ".join(digest(o) for o in obj) + ")"
    if isinstance(obj, list):
        return "list[" + ", ".join(digest(o) for o in obj) + "]"
    if isinstance(obj, np.ndarray):
        if obj.dtype == object:
            return "objarr%s[" % (obj.shape,) + ", ".join(digest(o) for o in obj) + "]"
        h = hashlib.sha1(np.ascontiguousarray(obj).tobytes()).hexdigest()[:12]
        body = np.array2string(obj, precision=17, threshold=40, max_line_width=10**6).replace("\n", " ")
        return "nd(%s,%s,strides=%s,C=%s,F=%s,own=%s,w=%s,%s,%s)" % (
            obj.dtype,
            obj.shape,
            obj.strides,
            obj.flags.c_contiguous,
            obj.flags.f_contiguous,
            obj.flags.owndata,
            obj.flags.writeable,
            h,
            body,
        )
    if isinstance(obj, np.generic):
        return "%s(%r)" % (type(obj).__name__, obj.item())
    return "%s(%r)" % (type(obj).__name__, obj)


def attempt(label, fn):
    try:
        res = fn()
        print(label, "->", digest(res))
        return res
    except BaseException as e:  # noqa
        print(label, "-> RAISED", type(e).__name__, str(e))
        return None


# --------------------------------------------------------------------------
# 1. the two prepare helpers, called directly
# --------------------------------------------------------------------------
print("== prepare helpers ==")

a2 = np.array([[10.0, -20.0], [179.5, 89.0], [-179.5, -90.0]])
a3 = np.array([[1.0, 0.0, 0.0], [0.0, 0.0, -1.0]])
f_order = np.asfortranarray(a2)
strided = np.arange(24, dtype=np.float64).reshape(4, 6)[:, ::3]
xy_inputs = {
    "list1": [10.0, -20.0],
    "tuple1": (181.0, 90.0),
    "int_list1": [10, -20],
    "list2": [[10.0, -20.0], [0.0, 0.0]],
    "arr2": a2,
    "arr2_f": f_order,
    "arr2_strided": strided,
    "arr2_int": np.array([[1, 2], [3, 4]], dtype=np.int32),
    "arr2_f32": a2.astype(np.float32),
    "one_row": a2[:1],
    "empty_0x2": np.empty((0, 2)),
    "empty_1d": [],
    "three_wide_1d": [1.0, 0.0, 0.0],
    "three_wide_2d": a3,
    "four_wide": [1.0, 2.0, 3.0, 4.0],
    "one_wide": [[1.0], [2.0]],
    "scalar": 3.0,
    "nd3": np.zeros((2, 2, 2)),
    "nd3_bad": np.zeros((2, 3, 2)),
    "nd3_bad5": np.zeros((2, 5, 2)),
    "nan_inf": [[np.nan, np.inf], [-np.inf, 0.0]],
    "bools": [True, False],
    "strings": ["a", "b"],
    "none": None,
    "masked": np.ma.masked_array([[1.0, 2.0]], mask=[[True, False]]),
    "ragged_obj": np.array([[1.0, 2.0], [3.0, 4.0]], dtype=object),
}

for name, val in xy_inputs.items():
    for use_rad in (False, True, 0, 1, None):
        for metric in ("haversine", "minkowski", "euclidean", None):
            res = attempt(
                "xy %s rad=%r metric=%r" % (name, use_rad, metric),
                lambda: nb._prepare_xy_for_query(val, use_rad, metric),
            )
            if isinstance(res, np.ndarray) and isinstance(val, np.ndarray):
                print("    same_obj=%s shares=%s base_is_in=%s" % (res is val, np.shares_memory(res, val), res.base is val))

# keyword form used by the library
attempt("xy kw", lambda: nb._prepare_xy_for_query(a2, False, distance_metric="haversine"))
attempt("xy kw2", lambda: nb._prepare_xy_for_query(xy=a2, use_radians=True, distance_metric="haversine"))
attempt("xy missing metric", lambda: nb._prepare_xy_for_query(a2, False))

xyz_inputs = dict(xy_inputs)
xyz_inputs.update(
    {
        "xyz1": [1.0, 0.0, 0.0],
        "xyz1_t": (0.0, 0.0, -1.0),
        "xyz2": a3,
        "xyz2_f": np.asfortranarray(a3),
        "xyz2_int": np.array([[1, 0, 0]], dtype=np.int64),
        "xyz_strided": np.arange(24, dtype=np.float64).reshape(4, 6)[:, ::2],
        "xyz_empty": np.empty((0, 3)),
        "xyz_nd3": np.zeros((2, 3, 4)),
        "xyz_nd3_2": np.zeros((4, 2, 3)),
    }
)
for name, val in xyz_inputs.items():
    res = attempt("xyz %s" % name, lambda: nb._prepare_xyz_for_query(val))
    if isinstance(res, np.ndarray) and isinstance(val, np.ndarray):
        print("    same_obj=%s shares=%s base_is_in=%s" % (res is val, np.shares_memory(res, val), res.base is val))
attempt("xyz kw", lambda: nb._prepare_xyz_for_query(xyz=a3))

# inputs are never modified
print("inputs untouched:", digest(a2), digest(a3), digest(strided))

# --------------------------------------------------------------------------
# 2. grids: a hand-made mixed triangle/quad/pentagon mesh that straddles the
#    antimeridian and touches both poles (padded connectivity), plus files
# --------------------------------------------------------------------------
print("== grids ==")


def mixed_grid():
    node_lon = np.array([170.0, -170.0, -170.0, 170.0, 180.0, 0.0, 0.0, 150.0, -150.0, 175.0])
    node_lat = np.array([-10.0, -10.0, 10.0, 10.0, 30.0, 90.0, -90.0, -40.0, -40.0, 0.0])
    F = INT_FILL_VALUE
    fnc = np.array(
        [
            [0, 1, 2, 3, F],  # quad across the antimeridian
            [3, 2, 4, F, F],  # triangle
            [3, 4, 5, F, F],  # triangle with the north pole
            [7, 8, 1, 9, 0],  # pentagon
            [7, 6, 8, F, F],  # triangle with the south pole
        ]
    )
    return ux.Grid.from_topology(node_lon, node_lat, fnc, fill_value=F)


grid_makers = {
    "mixed": mixed_grid,
    "quadhex": lambda: ux.open_grid("test/meshfiles/ugrid/quad-hexagon/grid.nc"),
    "mpas": lambda: ux.open_grid("test/meshfiles/mpas/QU/mesh.QU.1920km.151026.nc"),
    "csne4": lambda: ux.open_grid("test/meshfiles/ugrid/ov_RLL10deg_CSne4/ov_RLL10deg_CSne4.ug"),
}

sph_points = {
    "origin": [0.0, 0.0],
    "am_east": [179.9, 1.0],
    "am_west": [-179.9, -1.0],
    "npole": [45.0, 90.0],
    "spole": (-120.0, -90.0),
    "lon360": [359.0, 12.0],
    "int": [170, -10],
    "batch1": np.array([[170.0, -10.0]]),
    "batch3": np.array([[170.0, -10.0], [-179.0, 89.0], [10.0, -89.0]]),
    "batch_f": np.asfortranarray(np.array([[170.0, -10.0], [-179.0, 89.0], [10.0, -89.0], [0.0, 0.0]])),
    "xyz_by_mistake": [1.0, 0.0, 0.0],
    "empty": np.empty((0, 2)),
}


def to_xyz(lon, lat):
    lon, lat = np.deg2rad(lon), np.deg2rad(lat)
    return [np.cos(lat) * np.cos(lon), np.cos(lat) * np.sin(lon), np.sin(lat)]


cart_points = {
    "x": [1.0, 0.0, 0.0],
    "am": to_xyz(180.0, 0.5),
    "npole": (0.0, 0.0, 1.0),
    "spole": [0.0, 0.0, -1.0],
    "off_sphere": [0.3, -0.2, 0.1],
    "int": [0, 1, 0],
    "batch1": np.array([to_xyz(170.0, -10.0)]),
    "batch3": np.array([to_xyz(170.0, -10.0), to_xyz(-179.0, 89.0), to_xyz(10.0, -89.0)]),
    "batch_f": np.asfortranarray(np.array([to_xyz(1.0, 2.0), to_xyz(-179.0, 89.0), to_xyz(10.0, -89.0), to_xyz(0.0, 0.0)])),
    "latlon_by_mistake": [10.0, 20.0],
    "empty": np.empty((0, 3)),
}

KINDS = ("nodes", "face centers", "edge centers")


def run_queries(tag, tree, points, spherical, full):
    n = tree._n_elements
    ks = sorted({1, 2, min(3, n), n})
    for pname, p in points.items():
        rads = (False, True) if spherical else (False,)
        for in_rad in rads:
            q = np.deg2rad(p) if (in_rad and spherical) else p
            for k in ks:
                attempt("%s query %s rad=%s k=%d" % (tag, pname, in_rad, k), lambda: tree.query(q, k=k, in_radians=in_rad))
                attempt(
                    "%s query-nodist %s rad=%s k=%d" % (tag, pname, in_rad, k),
                    lambda: tree.query(q, k=k, in_radians=in_rad, return_distance=False),
                )
            if full:
                attempt(
                    "%s query opts %s rad=%s" % (tag, pname, in_rad),
                    lambda: tree.query(q, k=min(2, n), in_radians=in_rad, dualtree=True, breadth_first=True, sort_results=False),
                )
            radii = (0.0, 0.5, 25.0, 400.0) if spherical else (0.0, 0.01, 0.5, 2.5)
            for r in radii:
                attempt(
                    "%s radius %s rad=%s r=%s" % (tag, pname, in_rad, r),
                    lambda: tree.query_radius(q, r=r, in_radians=in_rad),
                )
                attempt(
                    "%s radius-dist-sorted %s rad=%s r=%s" % (tag, pname, in_rad, r),
                    lambda: tree.query_radius(q, r=r, in_radians=in_rad, return_distance=True, sort_results=True),
                )
                attempt(
                    "%s radius-count %s rad=%s r=%s" % (tag, pname, in_rad, r),
                    lambda: tree.query_radius(q, r=r, in_radians=in_rad, count_only=True),
                )
            if full:
                attempt(
                    "%s radius-dist-unsorted %s rad=%s" % (tag, pname, in_rad),
                    lambda: [np.sort(x) for x in tree.query_radius(q, r=radii[2], in_radians=in_rad, return_distance=True)[0]]
                    if np.ndim(q) == 2
                    else np.sort(tree.query_radius(q, r=radii[2], in_radians=in_rad, return_distance=True)[0]),
                )
                attempt(
                    "%s radius sort-without-dist %s" % (tag, pname),
                    lambda: tree.query_radius(q, r=radii[2], in_radians=in_rad, sort_results=True),
                )
                attempt(
                    "%s radius count+dist %s" % (tag, pname),
                    lambda: tree.query_radius(q, r=radii[2], in_radians=in_rad, count_only=True, return_distance=True),
                )
    # argument validation
    p0 = next(iter(points.values()))
    attempt(tag + " k=0", lambda: tree.query(p0, k=0))
    attempt(tag + " k=n+1", lambda: tree.query(p0, k=n + 1))
    attempt(tag + " k=-1 nodist", lambda: tree.query(p0, k=-1, return_distance=False))
    attempt(tag + " r<0", lambda: tree.query_radius(p0, r=-0.5))
    attempt(tag + " r=-0.0", lambda: tree.query_radius(p0, r=-0.0))
    attempt(tag + " r int", lambda: tree.query_radius(p0, r=1))
    attempt(tag + " r np.float32", lambda: tree.query_radius(p0, r=np.float32(3.0), return_distance=True, sort_results=True))
    attempt(tag + " positional", lambda: tree.query(p0, 1, True))
    attempt(tag + " positional2", lambda: tree.query(p0, 1, False))
    attempt(tag + " positional radius", lambda: tree.query_radius(p0, 1.0, True, True))


for gname, make in grid_makers.items():
    full = gname in ("mixed", "quadhex")
    pts_s = sph_points if full else {k: sph_points[k] for k in ("am_east", "npole", "batch3")}
    pts_c = cart_points if full else {k: cart_points[k] for k in ("am", "spole", "batch3")}

    # a fresh tree per request
    for kind in KINDS:
        g = make()
        t = attempt("%s ball sph %s build" % (gname, kind), lambda: type(g.get_ball_tree(coordinates=kind)).__name__)
        if t is not None:
            run_queries("%s/ball/sph/%s" % (gname, kind), g.get_ball_tree(coordinates=kind), pts_s, True, full)
        g = make()
        t = attempt(
            "%s ball cart %s build" % (gname, kind),
            lambda: type(g.get_ball_tree(coordinates=kind, coordinate_system="cartesian", distance_metric="euclidean")).__name__,
        )
        if t is not None:
            run_queries(
                "%s/ball/cart/%s" % (gname, kind),
                g.get_ball_tree(coordinates=kind, coordinate_system="cartesian", distance_metric="euclidean"),
                pts_c,
                False,
                full,
            )
        g = make()
        t = attempt("%s kd cart %s build" % (gname, kind), lambda: type(g.get_kd_tree(coordinates=kind)).__name__)
        if t is not None:
            run_queries("%s/kd/cart/%s" % (gname, kind), g.get_kd_tree(coordinates=kind), pts_c, False, full)
        g = make()
        t = attempt(
            "%s kd sph %s build" % (gname, kind),
            lambda: type(g.get_kd_tree(coordinates=kind, coordinate_system="spherical")).__name__,
        )
        if t is not None:
            run_queries(
                "%s/kd/sph/%s" % (gname, kind), g.get_kd_tree(coordinates=kind, coordinate_system="spherical"), pts_s, True, full
            )

    # request histories on ONE grid object (cached trees, kind switching)
    g = make()
    history = [
        ("ball", dict(coordinates="nodes")),
        ("ball", dict(coordinates="face centers")),
        ("kd", dict(coordinates="face centers")),
        ("ball", dict(coordinates="face centers", coordinate_system="cartesian", distance_metric="euclidean")),
        ("kd", dict(coordinates="nodes", coordinate_system="spherical")),
        ("ball", dict(coordinates="edge centers")),
        ("kd", dict(coordinates="edge centers", coordinate_system="spherical")),
        ("kd", dict(coordinates="nodes")),
        ("ball", dict(coordinates="nodes", reconstruct=True)),
        ("kd", dict(coordinates="face centers", coordinate_system="spherical", distance_metric="chebyshev")),
        ("ball", dict(coordinates="nodes", coordinate_system="spherical", distance_metric="haversine")),
    ]
    for i, (which, kw) in enumerate(history):
        getter = g.get_ball_tree if which == "ball" else g.get_kd_tree
        before = (g._ball_tree, g._kd_tree)
        ok = attempt("%s hist %d %s %r" % (gname, i, which, kw), lambda: type(getter(**kw)).__name__)
        if ok is None:
            continue
        tree = getter(**kw)
        print("   reused:", tree is before[0], tree is before[1], tree is g._ball_tree, tree is g._kd_tree)
        sph = tree.coordinate_system == "spherical"
        print("   state:", tree._coordinates, tree.coordinate_system, tree.distance_metric, tree._n_elements)
        pts = {"am": sph_points["am_east"], "b": sph_points["batch3"]} if sph else {"am": cart_points["am"], "b": cart_points["batch3"]}
        run_queries("%s/hist%d" % (gname, i), tree, pts, sph, False)

# trees constructed directly with odd parameters
g = mixed_grid()
attempt("direct bad kind ball", lambda: nb.BallTree(g, coordinates="faces"))
attempt("direct bad kind kd", lambda: nb.KDTree(g, coordinates="faces"))
attempt("direct bad system kd", lambda: nb.KDTree(g, coordinate_system="polar"))
attempt("direct bad system ball", lambda: nb.BallTree(g, coordinate_system="polar"))
t = nb.KDTree(g)
t.coordinate_system = "polar"
attempt("kd odd system query", lambda: t.query([1.0, 0.0, 0.0]))
attempt("kd odd system radius", lambda: t.query_radius([1.0, 0.0, 0.0]))
t = nb.BallTree(g)
t.coordinate_system = "polar"
attempt("ball odd system query arr", lambda: t.query(np.deg2rad(np.array([[10.0, 170.0]])), k=2))
attempt("ball odd system query list", lambda: t.query([0.1, 0.2]))
attempt("ball odd system radius arr", lambda: t.query_radius(np.deg2rad(np.array([[10.0, 170.0]])), r=0.5, return_distance=True))
t = nb.BallTree(g)
t._coordinates = "faces"
attempt("ball odd kind query", lambda: t.query([0.0, 0.0]))
attempt("ball odd kind radius", lambda: t.query_radius([0.0, 0.0]))
t = nb.KDTree(g)
t._coordinates = "faces"
attempt("kd odd kind query", lambda: t.query([1.0, 0.0, 0.0]))
attempt("kd odd kind radius", lambda: t.query_radius([1.0, 0.0, 0.0], count_only=True))
print("done")
