import sys, os

sys.path.insert(0, os.getcwd())
import hashlib
import warnings
import numpy as np
import xarray as xr
import uxarray
import uxarray as ux

assert os.path.abspath(uxarray.__file__).startswith(os.path.abspath(os.getcwd()) + os.sep), uxarray.__file__

from uxarray.grid.connectivity import _replace_fill_values
from uxarray.constants import INT_DTYPE, INT_FILL_VALUE
from uxarray.io._topology import _process_connectivity

warnings.simplefilter("ignore")
np.set_printoptions(threshold=sys.maxsize, precision=17, linewidth=200)


def show(label, fn):
    """Run fn, print a digest of its result or of the exception."""
    try:
        res = fn()
    except Exception as e:  # noqa
        print(f"{label}: EXC {type(e).__name__}: {e}")
        return
    if isinstance(res, np.ndarray):
        print(f"{label}: dtype={res.dtype} shape={res.shape} sha={hashlib.sha1(np.ascontiguousarray(res).tobytes()).hexdigest()[:12]}")
        print(repr(res))
    else:
        print(f"{label}: {res!r}")


# ---------------------------------------------------------------- direct calls
FV = INT_FILL_VALUE
mixed = [[0, 1, 2, -1, -1], [2, 1, 3, 4, -1], [4, 3, 5, 6, 7], [-1, -1, -1, -1, -1]]

cases = []
for dt in (np.int8, np.int16, np.int32, np.int64, np.uint8, np.uint32, np.float32, np.float64):
    arr = np.array(mixed).astype(dt) if np.issubdtype(dt, np.signedinteger) or np.issubdtype(dt, np.floating) else np.where(np.array(mixed) < 0, 200, np.array(mixed)).astype(dt)
    ofill = -1 if not np.issubdtype(dt, np.unsignedinteger) else 200
    for new_fill, new_dtype in (
        (FV, INT_DTYPE),
        (FV, np.int32),
        (FV, np.int16),
        (-1, np.int8),
        (300, np.int8),
        (-300, np.int8),
        (999, np.float32),
        (1e300, np.float32),
        (-1e300, np.float32),
        (np.nan, np.float64),
        (np.nan, INT_DTYPE),
        (FV, None),
        (7, None),
        (FV, np.uint64),
        (5, np.uint8),
        (-5, np.uint8),
        (1, np.bool_),
        (1, np.complex128),
        (1, "U4"),
    ):
        cases.append((f"{np.dtype(dt).name} of={ofill} nf={new_fill} nd={new_dtype if new_dtype is None or isinstance(new_dtype, str) else np.dtype(new_dtype).name}", arr, ofill, new_fill, new_dtype))

# nan original fill in float storage, None original fill, fill value absent from the data
nanarr = np.array(mixed, dtype=np.float64)
nanarr[nanarr < 0] = np.nan
for nd in (INT_DTYPE, np.int32, np.float32, None):
    cases.append((f"nanfill nd={nd}", nanarr, np.nan, FV, nd))
    cases.append((f"nanfill-np.float32 nd={nd}", nanarr.astype(np.float32), np.float32("nan"), FV, nd))
    cases.append((f"nonefill nd={nd}", np.array(mixed), None, FV, nd))
    cases.append((f"absentfill nd={nd}", np.array(mixed), -99, FV, nd))
    cases.append((f"fill-is-FV nd={nd}", np.where(np.array(mixed) < 0, FV, np.array(mixed)), FV, FV, nd))
    cases.append((f"float-orig-fill-on-int nd={nd}", np.array(mixed), -1.0, FV, nd))
    cases.append((f"empty nd={nd}", np.empty((0, 4), dtype=np.int32), -1, FV, nd))
    cases.append((f"1d nd={nd}", np.array([3, -1, 2, -1]), -1, FV, nd))
cases.append(("strfill", np.array(mixed), "x", FV, INT_DTYPE))
cases.append(("new_fill numpy int", np.array(mixed), -1, np.int64(FV), INT_DTYPE))
cases.append(("new_fill float inf", np.array(mixed, dtype=float), -1, np.inf, np.float64))
cases.append(("new_fill float -inf", np.array(mixed, dtype=float), -1, -np.inf, np.float64))
cases.append(("new_fill nan int", np.array(mixed, dtype=float), -1, np.nan, np.int64))
cases.append(("xr.DataArray input", xr.DataArray(np.array(mixed), dims=["a", "b"]), -1, FV, INT_DTYPE))

for label, arr, ofill, nfill, ndt in cases:
    src = arr.copy()
    holder = {}

    def run():
        out = _replace_fill_values(src, ofill, nfill, ndt) if ndt is not None else _replace_fill_values(src, ofill, nfill)
        holder["alias"] = out is src
        return out.values if isinstance(out, xr.DataArray) else out

    show("RFV " + label, run)
    # in-place / aliasing behaviour and effect on the input array
    srcv = src.values if isinstance(src, xr.DataArray) else src
    arrv = arr.values if isinstance(arr, xr.DataArray) else arr
    print("   alias:", holder.get("alias"), "input modified:", not np.array_equal(srcv, arrv, equal_nan=True) if srcv.dtype.kind in "fc" else not np.array_equal(srcv, arrv))

# keyword form used by the readers
show("RFV kw", lambda: _replace_fill_values(grid_var=np.array(mixed, dtype=np.int32), original_fill=-1, new_fill=FV, new_dtype=INT_DTYPE))

# ---------------------------------------------------------------- through the readers
lon = np.array([350.0, 10.0, 0.0, 20.0, 15.0, 30.0, 40.0, 25.0, 179.0, 181.0, 200.0, 359.5])
lat = np.array([-5.0, -5.0, 5.0, -4.0, 6.0, -3.0, 2.0, 9.0, 88.0, 89.0, -89.5, -90.0])
faces = [[0, 1, 2], [2, 1, 3, 4], [4, 3, 5, 6, 7], [8, 9, 10, 11, 0, 1], [7, 6, 5, 3, 1, 0, 2], [0, 1, 3, 5, 6, 7, 4, 2]]
W = 8


def padded(fill, base, dtype):
    out = np.full((len(faces), W), fill, dtype=np.float64)
    for i, f in enumerate(faces):
        out[i, : len(f)] = np.array(f) + base
    return out.astype(dtype)


def grid_digest(label, make):
    def run():
        g = make()
        ds = g._ds
        parts = [f"n_face={g.n_face} n_node={g.n_node} spec={g.source_grid_spec}"]
        for name in sorted(ds.variables):
            v = ds[name]
            attrs = {k: (repr(a)) for k, a in sorted(v.attrs.items()) if k in ("_FillValue", "start_index", "cf_role")}
            parts.append(f"{name} dims={v.dims} dtype={v.dtype} attrs={attrs}\n{v.values!r}")
        return "\n".join(parts)

    try:
        print(f"GRID {label}:\n{run()}")
    except Exception as e:  # noqa
        print(f"GRID {label}: EXC {type(e).__name__}: {e}")


def ugrid_ds(fill, base, dtype, with_fill_attr=True, with_start=True, lon360=True, extra=False):
    ds = xr.Dataset()
    attrs = {"cf_role": "mesh_topology", "topology_dimension": 2, "node_coordinates": "vx vy", "face_node_connectivity": "fn"}
    if extra:
        attrs["edge_node_connectivity"] = "en"
    ds["mesh"] = xr.DataArray(np.int32(0), attrs=attrs)
    ds["vx"] = xr.DataArray(lon if lon360 else ((lon + 180) % 360) - 180, dims=["nv"])
    ds["vy"] = xr.DataArray(lat, dims=["nv"])
    cattrs = {"cf_role": "face_node_connectivity"}
    if with_fill_attr:
        cattrs["_FillValue"] = np.array(fill).astype(dtype)[()] if not (isinstance(fill, float) and np.isnan(fill)) else np.nan
    if with_start:
        cattrs["start_index"] = np.int32(base)
    ds["fn"] = xr.DataArray(padded(fill, base, dtype), dims=["nc", "mx"], attrs=cattrs)
    if extra:
        en = np.array([[0, 1], [1, 2], [2, 0], [1, 3], [3, 4], [4, 2]]) + base
        ds["en"] = xr.DataArray(en.astype(dtype), dims=["ne", "two"], attrs={"cf_role": "edge_node_connectivity", "start_index": np.int32(base)})
    return ds


for fill, base, dtype in (
    (-1, 0, np.int32),
    (-1, 0, np.int64),
    (0, 1, np.int32),
    (-999, 1, np.int16),
    (FV, 0, INT_DTYPE),
    (FV, 1, INT_DTYPE),
    (np.nan, 0, np.float64),
    (np.nan, 1, np.float32),
    (-1.0, 1, np.float64),
    (99, 0, np.int8),
    (255, 1, np.uint8),
):
    for wf, ws in ((True, True), (False, True), (True, False)):
        if isinstance(fill, float) and np.isnan(fill) or wf:
            grid_digest(f"ugrid fill={fill} base={base} dtype={np.dtype(dtype).name} fillattr={wf} start={ws}", lambda: ux.open_grid(ugrid_ds(fill, base, dtype, wf, ws)))
grid_digest("ugrid extra conn -180..180", lambda: ux.open_grid(ugrid_ds(-1, 1, np.int32, lon360=False, extra=True)))

# source dataset must not be modified by reading it
src = ugrid_ds(-7, 1, np.int32)
before = src["fn"].values.copy()
ux.open_grid(src)
print("ugrid source untouched:", np.array_equal(before, src["fn"].values), dict(src["fn"].attrs))


# explicit topology arrays
for fill, base, dtype in ((-1, 0, np.int64), (0, 1, np.int32), (-5, 1, np.int16), (np.nan, 0, np.float64), (FV, 0, INT_DTYPE), (None, 0, None)):
    if fill is None:
        fn = np.array([[0, 1, 2, 4], [2, 1, 3, 4]])
    else:
        fn = padded(fill, base, dtype)
    grid_digest(
        f"topology fill={fill} base={base} dtype={dtype}",
        lambda: ux.Grid.from_topology(node_lon=lon, node_lat=lat, face_node_connectivity=fn, fill_value=fill, start_index=base),
    )
    show(f"_process_connectivity fill={fill} base={base}", lambda: _process_connectivity(fn, fill, base))
grid_digest(
    "topology dict + extra conn",
    lambda: ux.open_grid(
        {
            "node_lon": lon,
            "node_lat": lat,
            "face_node_connectivity": padded(-1, 1, np.int32),
            "fill_value": -1,
            "start_index": 1,
            "edge_node_connectivity": np.array([[1, 2], [2, 3], [3, 1], [-1, -1]]),
        }
    ),
)


# SCRIP (np.unique rebuild of nodes, then _replace_fill_values)
def scrip_ds(lon360):
    nl = lon if lon360 else ((lon + 180) % 360) - 180
    cl = np.zeros((len(faces), W))
    ct = np.zeros((len(faces), W))
    for i, f in enumerate(faces):
        idx = f + [f[-1]] * (W - len(f))
        cl[i] = nl[idx]
        ct[i] = lat[idx]
    ds = xr.Dataset()
    ds["grid_corner_lon"] = xr.DataArray(cl, dims=["grid_size", "grid_corners"])
    ds["grid_corner_lat"] = xr.DataArray(ct, dims=["grid_size", "grid_corners"])
    ds["grid_center_lon"] = xr.DataArray(cl.mean(axis=1), dims=["grid_size"])
    ds["grid_center_lat"] = xr.DataArray(ct.mean(axis=1), dims=["grid_size"])
    ds["grid_area"] = xr.DataArray(np.full(len(faces), 0.01), dims=["grid_size"])
    ds["grid_imask"] = xr.DataArray(np.ones(len(faces), dtype=np.int32), dims=["grid_size"])
    return ds


grid_digest("scrip 0..360", lambda: ux.open_grid(scrip_ds(True)))
grid_digest("scrip -180..180", lambda: ux.open_grid(scrip_ds(False)))


# Exodus (one-based, 0 padding -> -1 -> fill value), one and several blocks
def exo_ds(blocks, split_coords, conn_dtype=np.int32):
    lo, la = np.deg2rad(lon), np.deg2rad(lat)
    xyz = np.array([np.cos(la) * np.cos(lo), np.cos(la) * np.sin(lo), np.sin(la)])
    ds = xr.Dataset()
    if split_coords:
        ds["coordx"] = xr.DataArray(xyz[0], dims=["num_nodes"])
        ds["coordy"] = xr.DataArray(xyz[1], dims=["num_nodes"])
        ds["coordz"] = xr.DataArray(xyz[2], dims=["num_nodes"])
        ds["dummy"] = xr.DataArray(np.zeros(3), dims=["num_dim"])
    else:
        ds["coord"] = xr.DataArray(xyz, dims=["num_dim", "num_nodes"])
    for b, blk in enumerate(blocks, start=1):
        w = max(len(f) for f in blk)
        arr = np.zeros((len(blk), w), dtype=conn_dtype)
        for i, f in enumerate(blk):
            arr[i, : len(f)] = np.array(f) + 1
        ds[f"connect{b}"] = xr.DataArray(arr, dims=[f"num_el_in_blk{b}", f"num_nod_per_el{b}"], attrs={"elem_type": "SHELL"})
    return ds


grid_digest("exodus one block", lambda: ux.open_grid(exo_ds([faces], False)))
grid_digest("exodus three blocks coordx", lambda: ux.open_grid(exo_ds([faces[:1], faces[1:3], faces[3:]], True)))
grid_digest("exodus blocks wide-first int64", lambda: ux.open_grid(exo_ds([faces[3:], faces[:3]], False, np.int64)))

for path in ("test/meshfiles/exodus/mixed/mixed.exo", "test/meshfiles/exodus/outCSne8/outCSne8.g", "test/meshfiles/scrip/outCSne8/outCSne8.nc", "test/meshfiles/ugrid/quad-hexagon/grid.nc", "test/meshfiles/ugrid/outCSne30/outCSne30.ug"):
    def run():
        g = ux.open_grid(path)
        fn = g.face_node_connectivity
        h = hashlib.sha1(fn.values.tobytes() + g.node_lon.values.tobytes() + g.node_lat.values.tobytes()).hexdigest()
        return (g.n_face, g.n_node, str(fn.dtype), fn.attrs.get("_FillValue"), h)

    show("FILE " + path, run)
