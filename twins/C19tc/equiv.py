import sys, os

sys.path.insert(0, os.getcwd())

import hashlib
import warnings

import numpy as np
import xarray as xr

import uxarray
import uxarray as ux

assert os.path.abspath(uxarray.__file__).startswith(os.path.abspath(os.getcwd()) + os.sep)

from uxarray.constants import INT_FILL_VALUE

warnings.simplefilter("ignore")


def digest(a):
    a = np.asarray(a)
    h = hashlib.sha256(np.ascontiguousarray(a).tobytes()).hexdigest()[:16]
    return f"{a.dtype}{a.shape}:{h}"


def geom_digest(gdf):
    geom = gdf["geometry"]
    try:
        # geopandas
        txt = [g.wkt for g in geom]
    except Exception:  # noqa
        txt = [repr(g) for g in geom]
    return hashlib.sha256("|".join(txt).encode()).hexdigest()[:16]


def describe(tag, gdf):
    cols = list(gdf.columns)
    print(tag, type(gdf).__module__.split(".")[0], type(gdf).__name__, "cols:", cols, "len:", len(gdf))
    print("    geometry:", geom_digest(gdf))
    for c in cols:
        if c != "geometry":
            print("    ", c, digest(gdf[c].values), np.asarray(gdf[c].values).tolist()[:12])
    print("    index:", list(gdf.index)[:12])


def make_grid():
    # mixed face sizes; the last face crosses the antimeridian
    lon = np.array([0.0, 10.0, 10.0, 0.0, 20.0, 25.0, 175.0, -175.0, -175.0, 175.0])
    lat = np.array([0.0, 0.0, 10.0, 10.0, 5.0, 15.0, 0.0, 0.0, 10.0, 10.0])
    fnc = np.array(
        [[0, 1, 2, 3], [1, 4, 2, -1], [2, 4, 5, -1], [6, 7, 8, 9]], dtype=np.int64
    )
    return ux.Grid.from_topology(lon, lat, fnc, fill_value=-1)


def face_data(g, name="t", offset=0.0):
    return ux.UxDataArray(
        xr.DataArray(np.arange(g.n_face, dtype=np.float64) * 1.5 + offset, dims=["n_face"], name=name),
        uxgrid=g,
    )


def cached(g):
    return g._gdf_cached_parameters["gdf"]


def run(tag, f):
    try:
        r = f()
        describe(tag, r)
        return r
    except Exception as e:  # noqa
        print(tag, "EXC", type(e).__name__, str(e)[:400])
        return None


print("== hand made mixed grid, all option combinations (fresh grid each) ==")
for engine in ("spatialpandas", "geopandas"):
    for pe in ("exclude", "split", "ignore"):
        g = make_grid()
        da = face_data(g)
        vals_before = da.values.copy()
        run(f"{engine}/{pe}", lambda: da.to_geodataframe(periodic_elements=pe, engine=engine))
        print("    data unchanged:", np.array_equal(vals_before, da.values))
    for ea in (True, False):
        for pe in ("exclude", "split", "ignore"):
            g = make_grid()
            da = face_data(g)
            run(
                f"{engine}/exclude_antimeridian={ea}/pe={pe}",
                lambda: da.to_geodataframe(periodic_elements=pe, exclude_antimeridian=ea, engine=engine),
            )
    g = make_grid()
    run(f"{engine}/bad_pe", lambda: face_data(g).to_geodataframe(periodic_elements="bogus", engine=engine))
run("bad_engine", lambda: face_data(make_grid()).to_geodataframe(engine="bogus"))

print("== naming: unnamed, named 'var', named 'geometry', integer and bool data ==")
for engine in ("spatialpandas", "geopandas"):
    g = make_grid()
    unnamed = ux.UxDataArray(xr.DataArray(np.arange(g.n_face), dims=["n_face"]), uxgrid=g)
    run(f"{engine}/unnamed", lambda: unnamed.to_geodataframe(engine=engine))
    run(f"{engine}/named_var", lambda: face_data(g, name="var", offset=3).to_geodataframe(engine=engine))
    boolean = ux.UxDataArray(
        xr.DataArray(np.array([True, False, True, False]), dims=["n_face"], name="flag"), uxgrid=g
    )
    run(f"{engine}/bool", lambda: boolean.to_geodataframe(engine=engine, periodic_elements="split"))
    # the data need not use the n_face dimension name, only the size counts
    other_dim = ux.UxDataArray(xr.DataArray(np.arange(4.0), dims=["whatever"], name="w"), uxgrid=g)
    run(f"{engine}/other_dim_name", lambda: other_dim.to_geodataframe(engine=engine))

print("== the Grid's cached GeoDataFrame is not polluted, exports are independent ==")
for engine in ("spatialpandas", "geopandas"):
    for pe in ("exclude", "split", "ignore"):
        g = make_grid()
        a = face_data(g, "a")
        b = face_data(g, "b", offset=100.0)
        grid_gdf = g.to_geodataframe(periodic_elements=pe, engine=engine)
        cols0 = list(grid_gdf.columns)
        ga = a.to_geodataframe(periodic_elements=pe, engine=engine)
        gb = b.to_geodataframe(periodic_elements=pe, engine=engine)
        print(
            f"{engine}/{pe}",
            "a cols:", list(ga.columns),
            "b cols:", list(gb.columns),
            "grid cols before/after:", cols0, list(grid_gdf.columns),
            "cached cols:", list(cached(g).columns) if cached(g) is not None else None,
        )
        print(
            "    distinct objects:", ga is not gb, ga is not grid_gdf, ga is not cached(g),
            "grid export is the cache:", grid_gdf is cached(g),
        )
        # edit an export, then export again
        ga["a"] = -1.0
        ga["junk"] = 0
        ga2 = a.to_geodataframe(periodic_elements=pe, engine=engine)
        describe("    re-export after edit", ga2)
        print(
            "    cached parameters:",
            sorted(
                (k, v.tolist() if isinstance(v, np.ndarray) else repr(v))
                for k, v in g._gdf_cached_parameters.items()
                if k != "gdf"
            ),
        )
        # cache / override flags
        ga3 = a.to_geodataframe(periodic_elements=pe, engine=engine, cache=False, override=True)
        describe("    override,no-cache", ga3)

print("== size / shape errors and their side effects on the grid ==")
g = make_grid()
print("edges derived before:", "edge_node_connectivity" in g._ds)
node_sized = ux.UxDataArray(xr.DataArray(np.zeros(g.n_node), dims=["n_node"], name="n"), uxgrid=g)
run("node sized", lambda: node_sized.to_geodataframe())
print("edges derived after node-sized error:", "edge_node_connectivity" in g._ds)
odd = ux.UxDataArray(xr.DataArray(np.zeros(7), dims=["k"], name="k"), uxgrid=g)
run("odd sized", lambda: odd.to_geodataframe())
print("edges derived after odd-sized error:", "edge_node_connectivity" in g._ds, g._ds.sizes.get("n_edge"))
edge_sized = ux.UxDataArray(
    xr.DataArray(np.zeros(g._ds.sizes["n_edge"]), dims=["n_edge"], name="e"), uxgrid=g
)
run("edge sized", lambda: edge_sized.to_geodataframe())
empty = ux.UxDataArray(xr.DataArray(np.zeros(0), dims=["z"], name="z"), uxgrid=g)
run("empty", lambda: empty.to_geodataframe())
scalar = ux.UxDataArray(xr.DataArray(1.0, name="s"), uxgrid=g)
run("scalar", lambda: scalar.to_geodataframe())
two_d = ux.UxDataArray(xr.DataArray(np.zeros((2, g.n_face)), dims=["time", "n_face"], name="td"), uxgrid=g)
run("2d", lambda: two_d.to_geodataframe())
two_d_face_total = ux.UxDataArray(xr.DataArray(np.zeros((2, 2)), dims=["p", "q"], name="pq"), uxgrid=g)
run("2d size==n_face", lambda: two_d_face_total.to_geodataframe())
run("2d slice ok", lambda: two_d.isel(time=1).to_geodataframe())
print("cached gdf columns:", None if cached(g) is None else list(cached(g).columns))

# grid where node and edge counts coincide with the face count in various ways
print("== a single triangle: n_face=1, n_node=3, n_edge=3 ==")
tri = ux.Grid.from_topology(
    np.array([0.0, 10.0, 5.0]), np.array([0.0, 0.0, 8.0]), np.array([[0, 1, 2]]), fill_value=-1
)
for n in (1, 3, 2):
    d = ux.UxDataArray(xr.DataArray(np.arange(float(n)), dims=["d"], name="d"), uxgrid=tri)
    run(f"triangle size {n}", lambda: d.to_geodataframe(engine="geopandas"))
    print("   edges derived:", "edge_node_connectivity" in tri._ds)

print("== grids from files ==")
for gpath, dpath, var in (
    ("test/meshfiles/ugrid/outCSne30/outCSne30.ug", "test/meshfiles/ugrid/outCSne30/outCSne30_vortex.nc", "psi"),
    ("test/meshfiles/ugrid/geoflow-small/grid.nc", "test/meshfiles/ugrid/geoflow-small/v1.nc", "v1"),
    ("test/meshfiles/mpas/QU/mesh.QU.1920km.151026.nc", "test/meshfiles/mpas/QU/mesh.QU.1920km.151026.nc", "areaCell"),
    ("test/meshfiles/mpas/QU/mesh.QU.1920km.151026.nc", "test/meshfiles/mpas/QU/mesh.QU.1920km.151026.nc", "areaTriangle"),
    ("test/meshfiles/mpas/QU/mesh.QU.1920km.151026.nc", "test/meshfiles/mpas/QU/mesh.QU.1920km.151026.nc", "dcEdge"),
):
    try:
        grid = ux.open_grid(gpath)
        raw = xr.open_dataset(dpath)[var].load()
        da = ux.UxDataArray(raw, uxgrid=grid)
    except Exception as e:  # noqa
        print(gpath, "open EXC", type(e).__name__, str(e)[:200])
        continue
    print(gpath, var, da.dims, da.shape, "n_face", grid.n_face, "n_node", grid.n_node)
    for engine in ("spatialpandas", "geopandas"):
        for pe in ("exclude", "split"):

            def call():
                d = da
                while d.ndim > 1:
                    d = d[0]
                return d.to_geodataframe(periodic_elements=pe, engine=engine)

            run(f"  {engine}/{pe}", call)
    run("  as-is (maybe multi-dimensional)", lambda: da.to_geodataframe())
    print("  grid cached gdf cols:", None if cached(grid) is None else list(cached(grid).columns))
    print("  data untouched:", digest(raw.values) == digest(da.values))
