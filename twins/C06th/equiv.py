import sys, os; sys.path.insert(0, os.getcwd())
import hashlib
import warnings

warnings.filterwarnings("ignore")

import numpy as np
import uxarray as ux

assert os.path.abspath(ux.__file__).startswith(os.getcwd() + os.sep), ux.__file__

from uxarray.constants import INT_FILL_VALUE, INT_DTYPE
from uxarray.grid import area as A

MESH = os.path.join(os.getcwd(), "test", "meshfiles")
F = INT_FILL_VALUE


def dig(a):
    a = np.asarray(a)
    return f"{a.dtype}{a.shape}:{hashlib.sha256(np.ascontiguousarray(a).tobytes()).hexdigest()[:16]}"


def hexes(a):
    return [float(v).hex() for v in np.ravel(a)]


def call(label, f, *args, full=True, **kw):
    try:
        out = f(*args, **kw)
    except BaseException as e:  # noqa
        # numba typing errors carry line numbers of the source file: only their type is stable
        msg = "" if type(e).__name__ == "TypingError" else str(e)
        print(label, "RAISES", type(e).__name__, msg)
        return None
    parts = []
    for o in out:
        parts.append(dig(o) + (" " + ",".join(hexes(o)) if full and np.size(o) <= 40 else ""))
    print(label, "->", " | ".join(parts))
    return out


# ------------------------------------------------------------------ quadrature tables
for n in range(1, 11):
    call(f"gauss {n}", A.get_gauss_quadratureDG, n)
    # a second call must give a fresh, equally scaled table (no double scaling of shared state)
    call(f"gauss {n} again", A.get_gauss_quadratureDG, n)
for n in (1, 4, 8, 10, 12):
    call(f"tri {n}", A.get_tri_quadratureDG, n)
dG, dW = A.get_gauss_quadratureDG(4)
dG[0, 0] = 99.0
print("gauss table is private to the caller:", hexes(A.get_gauss_quadratureDG(4)[0])[:1])

# ------------------------------------------------------------------ single face
lon = np.array([0.0, 10.0, 10.0, 0.0, 5.0, 20.0, 20.0, 15.0, -8.0, 179.0, -179.0, -179.0, 179.0])
lat = np.array([0.0, 0.0, 10.0, 10.0, 17.0, 0.0, 10.0, 16.0, 5.0, -1.0, -1.0, 1.0, 1.0])
zer = np.zeros_like(lon)
lonr, latr = np.deg2rad(lon), np.deg2rad(lat)
cx, cy, cz = np.cos(latr) * np.cos(lonr), np.cos(latr) * np.sin(lonr), np.sin(latr)

conn = np.array(
    [
        [0, 1, 2, 3, F, F],  # quad
        [3, 2, 4, F, F, F],  # triangle
        [1, 5, 6, 7, 2, F],  # pentagon
        [8, 0, 3, F, F, F],  # triangle
        [9, 10, 11, 12, F, F],  # quad across the antimeridian
        [0, 1, 5, 6, 2, 3],  # hexagon (no padding)
    ],
    dtype=INT_DTYPE,
)
npf = np.array([4, 3, 5, 3, 4, 6], dtype=INT_DTYPE)

RULES = [("triangular", o) for o in (1, 4, 8, 10, 12)] + [("gaussian", o) for o in range(1, 11)]

for rule, order in RULES:
    for i in (0, 2, 5):
        ids = conn[i, : npf[i]]
        call(f"face{i} sph {rule} {order}", A.calculate_face_area, lon[ids], lat[ids], zer[ids], rule, order, "spherical")
        call(f"face{i} cart {rule} {order}", A.calculate_face_area, cx[ids], cy[ids], cz[ids], rule, order, "cartesian")

# ------------------------------------------------------------------ all faces
for rule, order in RULES:
    call(f"all sph {rule} {order}", A.get_all_face_area_from_coords, lon, lat, zer, conn, npf, 2, rule, order, "spherical")
    call(f"all cart {rule} {order}", A.get_all_face_area_from_coords, cx, cy, cz, conn, npf, 3, rule, order, "cartesian")

# defaults of the keyword arguments
call("all defaults", A.get_all_face_area_from_coords, lon, lat, zer, conn, npf, 2)
call("all default order", A.get_all_face_area_from_coords, lon, lat, zer, conn, npf, 2, "gaussian")
call("all kw coords_type", A.get_all_face_area_from_coords, cx, cy, cz, conn, npf, 3, coords_type="cartesian")
# z is ignored when dim == 2, even if it holds garbage
call("all sph garbage z", A.get_all_face_area_from_coords, lon, lat, zer + 7.5, conn, npf, 2, "triangular", 4, "spherical")
# dim == 3 with spherical coordinates (z gathered but unused), dim == 2 with cartesian (z := 0)
call("all sph dim3", A.get_all_face_area_from_coords, lon, lat, zer + 7.5, conn, npf, 3, "triangular", 4, "spherical")
call("all cart dim2", A.get_all_face_area_from_coords, cx, cy, cz, conn, npf, 2, "triangular", 4, "cartesian")
# mixed precision
call("all f32 xy / f64 z", A.get_all_face_area_from_coords, lon.astype(np.float32), lat.astype(np.float32), zer, conn, npf, 2, "triangular", 4, "spherical")
call("all f32 xyz dim2", A.get_all_face_area_from_coords, lon.astype(np.float32), lat.astype(np.float32), zer.astype(np.float32), conn, npf, 2, "triangular", 4, "spherical")
call("all f32 xyz dim3 cart", A.get_all_face_area_from_coords, cx.astype(np.float32), cy.astype(np.float32), cz.astype(np.float32), conn, npf, 3, "gaussian", 4, "cartesian")
# other integer dtypes for the connectivity
call("all int32 conn", A.get_all_face_area_from_coords, lon, lat, zer, np.where(conn == F, -1, conn).astype(np.int32), npf.astype(np.int32), 2, "triangular", 4, "spherical")
# non-contiguous connectivity (column slice of a wider table)
wide = np.concatenate([conn, np.full((conn.shape[0], 3), F, dtype=INT_DTYPE)], axis=1)
call("all wide conn view", A.get_all_face_area_from_coords, lon, lat, zer, wide[:, :6], npf, 2, "triangular", 4, "spherical")
call("all fortran conn", A.get_all_face_area_from_coords, lon, lat, zer, np.asfortranarray(conn), npf, 2, "triangular", 4, "spherical")
# boundary cases: no face, a single face, a degenerate two-node and an empty "face"
call("no faces", A.get_all_face_area_from_coords, lon, lat, zer, conn[:0], npf[:0], 2, "triangular", 4, "spherical")
call("one face", A.get_all_face_area_from_coords, lon, lat, zer, conn[:1], npf[:1], 2, "gaussian", 5, "spherical")
call("degenerate sizes", A.get_all_face_area_from_coords, lon, lat, zer, conn, np.array([2, 0, 1, 3, 4, 6], dtype=INT_DTYPE), 2, "triangular", 4, "spherical")
# fewer sizes than rows: the remaining faces keep area 0
call("short geometry", A.get_all_face_area_from_coords, lon, lat, zer, conn, npf[:3], 2, "triangular", 4, "spherical")
# special values
nanlon = lon.copy(); nanlon[2] = np.nan
call("nan coordinate", A.get_all_face_area_from_coords, nanlon, lat, zer, conn, npf, 2, "triangular", 4, "spherical")
call("negated cart", A.get_all_face_area_from_coords, -cx, -cy, -cz, conn, npf, 3, "gaussian", 2, "cartesian")
call("bad rule", A.get_all_face_area_from_coords, lon, lat, zer, conn, npf, 2, "simpson", 4, "spherical")
# inputs are not modified
print("inputs untouched:", dig(lon), dig(lat), dig(zer), dig(conn), dig(npf))

# ------------------------------------------------------------------ through Grid / UxDataArray
rng = np.random.default_rng(606)


def through_grid(tag, grid):
    print("==", tag, "n_face", grid.n_face, "n_node", grid.n_node, "sizes", np.unique(grid.n_nodes_per_face.values).tolist())
    for rule, order in (("triangular", 4), ("triangular", 12), ("gaussian", 1), ("gaussian", 4), ("gaussian", 9)):
        out = call(f"{tag} compute_face_areas {rule} {order}", grid.compute_face_areas, rule, order, full=False)
        print("   cache is result:", out[0] is grid._face_areas, out[1] is grid._face_jacobian)
    call(f"{tag} compute_face_areas cartesian", grid.compute_face_areas, "triangular", 4, False, full=False)
    call(f"{tag} compute_face_areas defaults", grid.compute_face_areas, full=False)
    vals = rng.standard_normal((2, 3, grid.n_face))
    da = ux.UxDataArray(vals, dims=("t", "lev", "n_face"), name=tag, uxgrid=grid)
    for rule, order in (("triangular", 4), ("gaussian", 7)):
        r = da.integrate(rule, order)
        print(f"   integrate {rule} {order}:", type(r).__name__, r.dims, r.name, r.uxgrid is grid, dig(r.values), hexes(r.values)[:2])
    one = ux.UxDataArray(np.ones(grid.n_face), dims=("n_face",), uxgrid=grid).integrate()
    print("   integrate(1):", float(one.values).hex(), "sum(face_areas):", float(grid.compute_face_areas()[0].sum()).hex())


through_grid("hand", ux.Grid.from_topology(lon, lat, conn, fill_value=F))
for tag, rel in (
    ("quad-hexagon", ("ugrid", "quad-hexagon", "grid.nc")),
    ("mpas", ("mpas", "QU", "mesh.QU.1920km.151026.nc")),
    ("exo-mixed", ("exodus", "mixed", "mixed.exo")),
    ("ov-rll-cs", ("ugrid", "ov_RLL10deg_CSne4", "ov_RLL10deg_CSne4.ug")),
    ("outCSne30", ("ugrid", "outCSne30", "outCSne30.ug")),
    ("geoflow", ("ugrid", "geoflow-small", "grid.nc")),
):
    through_grid(tag, ux.open_grid(os.path.join(MESH, *rel)))
