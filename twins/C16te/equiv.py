import sys, os; sys.path.insert(0, os.getcwd())
import hashlib, warnings
import numpy as np, xarray as xr
import uxarray as ux
assert os.path.abspath(ux.__file__).startswith(os.path.abspath(os.getcwd()) + os.sep), ux.__file__
from uxarray.constants import INT_FILL_VALUE, INT_DTYPE
from uxarray.core.gradient import (
    _calculate_edge_face_difference,
    _calculate_edge_node_difference,
    _calculate_grad_on_edge_from_faces,
)

np.set_printoptions(precision=17, linewidth=200)


def dig(a):
    a = np.asarray(a)
    return f"{a.dtype} {a.shape} {hashlib.sha256(np.ascontiguousarray(a).tobytes()).hexdigest()[:16]}"


def run(tag, fn, *a, **k):
    with warnings.catch_warnings(record=True) as w:
        warnings.simplefilter("always")
        try:
            r = fn(*a, **k)
            out = dig(r) + " flags(C,own,write)=" + str((r.flags.c_contiguous, r.flags.owndata, r.flags.writeable))
            if r.size <= 24:
                out += " " + repr(r)
        except Exception as e:
            out = f"{type(e).__name__}: {str(e)[:100]}"
    print(tag, "->", out, "| warnings:", sorted({x.category.__name__ for x in w}))


F = INT_FILL_VALUE
# ---------------------------------------------------------------- raw helpers
ef_mixed = np.array([[0, F], [0, 1], [1, 3], [3, F], [0, 2], [2, F], [2, 1]], dtype=INT_DTYPE)
ef_all_boundary = np.array([[0, F], [1, F], [2, F]], dtype=INT_DTYPE)
ef_closed = np.array([[0, 1], [1, 2], [2, 3], [3, 0], [0, 2], [1, 3]], dtype=INT_DTYPE)
ef_empty = np.zeros((0, 2), dtype=INT_DTYPE)
tables = {"mixed": ef_mixed, "all_boundary": ef_all_boundary, "closed": ef_closed, "empty": ef_empty}
rng = np.random.default_rng(16)

for tname, ef in tables.items():
    n_edge = ef.shape[0]
    dist = rng.uniform(0.1, 2.0, size=n_edge)
    dist[ef[:, 1] == F] = 0.0
    for dt in (np.float64, np.float32, np.int64, np.int32, np.uint8, np.complex128, np.bool_):
        for shape in ((4,), (2, 4), (2, 3, 4), (0, 4), (1, 1, 1, 4)):
            d = (rng.normal(size=shape) * 50).astype(dt)
            before = d.copy()
            tag = f"{tname} {np.dtype(dt).name} {shape}"
            run(tag + " face_diff", _calculate_edge_face_difference, d, ef, n_edge)
            for nz in (False, True, None):
                run(tag + f" grad norm={nz}", _calculate_grad_on_edge_from_faces,
                    d_var=d, edge_faces=ef, edge_face_distances=dist, n_edge=n_edge, normalize=nz)
            run(tag + " grad positional", _calculate_grad_on_edge_from_faces, d, ef, n_edge, dist)
            assert np.array_equal(d, before, equal_nan=True) if dt is not np.bool_ else np.array_equal(d, before)

# constant field, zero distance on a saddle edge, nan / inf data
d = np.full((2, 4), 3.5)
dist = np.array([0.0, 0.5, 0.0, 0.0, 0.25, 0.0, 0.0])  # last saddle edge has zero distance
run("const diff", _calculate_edge_face_difference, d, ef_mixed, 7)
run("const grad", _calculate_grad_on_edge_from_faces, d, ef_mixed, 7, dist)
run("const grad norm", _calculate_grad_on_edge_from_faces, d, ef_mixed, 7, dist, True)
d = np.array([[1.0, np.nan, np.inf, -np.inf], [0.0, -0.0, 1e308, -1e308]])
run("nonfinite diff", _calculate_edge_face_difference, d, ef_mixed, 7)
run("nonfinite grad", _calculate_grad_on_edge_from_faces, d, ef_mixed, 7, dist)
run("nonfinite grad norm", _calculate_grad_on_edge_from_faces, d, ef_mixed, 7, dist, True)

# malformed input: identical exceptions
d = rng.normal(size=(2, 4))
run("n_edge too small", _calculate_edge_face_difference, d, ef_mixed, 5)
run("n_edge too large", _calculate_edge_face_difference, d, ef_mixed, 9)
run("n_edge too small grad", _calculate_grad_on_edge_from_faces, d, ef_mixed, 5, dist)
run("n_edge float", _calculate_edge_face_difference, d, ef_mixed, 7.0)
run("n_edge negative", _calculate_edge_face_difference, d, ef_mixed, -1)
run("d_var list", _calculate_edge_face_difference, d.tolist(), ef_mixed, 7)
run("d_var list grad", _calculate_grad_on_edge_from_faces, d.tolist(), ef_mixed, 7, dist)
run("d_var 0-d", _calculate_edge_face_difference, np.float64(1.0), ef_mixed, 7)
run("edge_faces 1-d", _calculate_edge_face_difference, d, ef_mixed[:, 0], 7)
run("edge_faces 1-d grad", _calculate_grad_on_edge_from_faces, d, ef_mixed[:, 0], 7, dist)
run("both bad", _calculate_edge_face_difference, d.tolist(), ef_mixed[:, 0], 7)
run("both bad grad", _calculate_grad_on_edge_from_faces, d.tolist(), ef_mixed[:, 0], 7, dist)
run("face index out of range", _calculate_edge_face_difference, d[:, :3], ef_mixed, 7)
run("dist wrong length", _calculate_grad_on_edge_from_faces, d, ef_mixed, 7, dist[:5])
run("edge_faces list", _calculate_edge_face_difference, d, ef_mixed.tolist(), 7)
run("first column fill", _calculate_edge_face_difference, d, np.array([[F, 1], [0, 1]], dtype=INT_DTYPE), 2)
run("non-contiguous data", _calculate_edge_face_difference, np.asfortranarray(rng.normal(size=(3, 4))), ef_mixed, 7)
run("node diff", _calculate_edge_node_difference, rng.normal(size=(2, 5)), np.array([[0, 1], [1, 2], [4, 0]]))

# ---------------------------------------------------------------- public API
warnings.filterwarnings("ignore")


def grids():
    lon = np.array([0.0, 10, 20, 0, 10, 20, 5, 30])
    lat = np.array([0.0, 0, 0, 10, 10, 10, 20, 5])
    fnc = np.array([[0, 1, 4, 3], [1, 2, 5, 4], [3, 4, 6, -1], [2, 7, 5, -1]])
    yield "patch tri+quad (boundary, n_node>n_face)", ux.Grid.from_topology(lon, lat, fnc, fill_value=-1)
    lon = np.array([0.0, 90, 180, 270, 0, 0])
    lat = np.array([0.0, 0, 0, 0, 90, -90])
    fnc = np.array([[0, 1, 4], [1, 2, 4], [2, 3, 4], [3, 0, 4], [1, 0, 5], [2, 1, 5], [3, 2, 5], [0, 3, 5]])
    yield "octahedron (closed, n_face>n_node)", ux.Grid.from_topology(lon, lat, fnc)
    yield "single triangle", ux.Grid.from_face_vertices([[[10.0, 10.0], [20.0, 10.0], [15.0, 25.0]]], latlon=True)
    yield "quad-hexagon file", ux.open_grid("test/meshfiles/ugrid/quad-hexagon/grid.nc")
    yield "mpas primal (supplied distances)", ux.open_grid("test/meshfiles/mpas/QU/mesh.QU.1920km.151026.nc")
    yield "mpas dual (supplied distances)", ux.open_grid("test/meshfiles/mpas/QU/mesh.QU.1920km.151026.nc", use_dual=True)
    yield "CSne30", ux.open_grid("test/meshfiles/ugrid/outCSne30/outCSne30.ug")


for name, g in grids():
    print("==", name, g.n_node, g.n_face, g.n_edge, "boundary edges:",
          int((g.edge_face_connectivity.values[:, 1] == F).sum()))
    print("   end", dig(g.edge_node_distances.values), "efd", dig(g.edge_face_distances.values))
    r = np.random.default_rng(g.n_edge)
    for shape, dims in (((g.n_face,), ["n_face"]), ((3, g.n_face), ["time", "n_face"]),
                        ((2, 3, g.n_face), ["time", "lev", "n_face"])):
        for dt in (np.float64, np.float32, np.int64):
            for nm in ("t2m", None):
                v = ux.UxDataArray((r.normal(size=shape) * 10).astype(dt), dims=dims, uxgrid=g, name=nm)
                for call in (lambda: v.gradient(), lambda: v.gradient(normalize=True), lambda: v.gradient(normalize=None),
                             lambda: v.difference(), lambda: v.difference(destination="edge")):
                    try:
                        o = call()
                        print("  ", np.dtype(dt).name, dims, nm, "->", o.name, o.dims, dig(o.values), o.uxgrid is g)
                    except Exception as e:
                        print("  ", np.dtype(dt).name, dims, nm, "->", type(e).__name__, str(e)[:80])
    c = ux.UxDataArray(np.full((2, g.n_face), 7.25), dims=["time", "n_face"], uxgrid=g, name="c")
    print("   constant field: grad all zero:", bool((c.gradient().values == 0).all()), dig(c.gradient(normalize=True).values))
    nd = ux.UxDataArray(r.normal(size=(2, g.n_node)), dims=["time", "n_node"], uxgrid=g, name="nd")
    print("   node diff", dig(nd.difference().values))
    try:
        nd.gradient()
    except Exception as e:
        print("   node grad", type(e).__name__)
