import sys, os; sys.path.insert(0, os.getcwd())
import hashlib
import warnings

import numpy as np
import xarray as xr

with warnings.catch_warnings():
    warnings.simplefilter("ignore")
    import uxarray as ux

assert os.path.abspath(ux.__file__).startswith(os.path.abspath(os.getcwd()) + os.sep), ux.__file__

from uxarray.remap.nearest_neighbor import (
    _nearest_neighbor,
    _nearest_neighbor_uxda,
    _nearest_neighbor_uxds,
)
from uxarray.remap.inverse_distance_weighted import (
    _inverse_distance_weighted_remap,
    _inverse_distance_weighted_remap_uxda,
    _inverse_distance_weighted_remap_uxds,
)

MESH = os.path.join(os.getcwd(), "test", "meshfiles")


def digest(a):
    a = np.asarray(a)
    h = hashlib.sha256(np.ascontiguousarray(a).tobytes()).hexdigest()[:16]
    return f"{type(a).__name__} dtype={a.dtype} shape={a.shape} sha={h}"


def describe(obj):
    """Everything the property can observe on a remapped UxDataArray."""
    if isinstance(obj, ux.UxDataset):
        out = [f"UxDataset vars={list(obj.data_vars)} dims={dict(obj.sizes)} coords={sorted(obj.coords)}"]
        for name in obj.data_vars:
            out.append(f"  [{name}] " + describe(obj[name]))
        return "\n".join(out)
    if isinstance(obj, ux.UxDataArray):
        coords = {c: digest(obj.coords[c].values) for c in sorted(obj.coords)}
        return (
            f"UxDataArray name={obj.name!r} dims={obj.dims} "
            f"data_type={type(obj.data).__name__} {digest(obj.values)} "
            f"coords={coords} attrs={dict(obj.attrs)}"
        )
    return f"{type(obj).__name__} " + (digest(obj) if isinstance(obj, (np.ndarray, np.generic)) else repr(obj))


def run(label, fn, dest=None):
    """Call fn, print its result/exception and every warning it raised."""
    with warnings.catch_warnings(record=True) as caught:
        warnings.simplefilter("always")
        try:
            res = fn()
            text = describe(res)
            if dest is not None:
                if isinstance(res, (ux.UxDataArray, ux.UxDataset)):
                    text += f"\n  uxgrid_is_destination={res.uxgrid is dest}"
                if isinstance(res, ux.UxDataset):
                    for name in res.data_vars:
                        text += f" [{name}].uxgrid_is_destination={res[name].uxgrid is dest}"
        except Exception as e:  # noqa
            text = f"EXC {type(e).__name__}: {e}"
    warns = [
        f"{w.category.__name__}: {w.message} @{os.path.basename(w.filename)}"
        for w in caught
        if "uxarray" + os.sep + "remap" in w.filename
    ]
    print(f"--- {label}")
    print(text)
    print(f"  warnings={warns}")


def tetra():
    # 4 nodes, 4 faces, 6 edges: n_node == n_face
    v = np.array([[0.0, 90.0], [0.0, -19.47], [120.0, -19.47], [-120.0, -19.47]])
    faces = [[0, 1, 2], [0, 2, 3], [0, 3, 1], [1, 3, 2]]
    return ux.open_grid(np.array([[v[i] for i in f] for f in faces]), latlon=True)


def open_grids():
    with warnings.catch_warnings():
        warnings.simplefilter("ignore")
        return {
            "tetra": tetra(),
            "quadhex": ux.open_grid(os.path.join(MESH, "ugrid", "quad-hexagon", "grid.nc")),
            "mpas": ux.open_grid(os.path.join(MESH, "mpas", "QU", "mesh.QU.1920km.151026.nc")),
            "mixed": ux.open_grid(os.path.join(MESH, "exodus", "mixed", "mixed.exo")),
            "csne8": ux.open_grid(os.path.join(MESH, "scrip", "outCSne8", "outCSne8.nc")),
        }


def field(grid, dim, lead=(), dtype=np.float64, seed=0):
    n = {"n_node": grid.n_node, "n_face": grid.n_face, "n_edge": grid.n_edge}[dim]
    rng = np.random.default_rng(seed + n + len(lead))
    data = rng.normal(size=tuple(s for _, s in lead) + (n,)) * 100
    data = data.astype(dtype)
    dims = [d for d, _ in lead] + [dim]
    coords = {d: np.arange(s) * 1.5 for d, s in lead}
    return ux.UxDataArray(data, dims=dims, coords=coords, name=f"v_{dim}", uxgrid=grid,
                          attrs={"units": "K"})


def main():
    grids = open_grids()
    for name, g in grids.items():
        n_fill = int((g.face_node_connectivity.values == ux.INT_FILL_VALUE).sum())
        print(f"grid {name}: n_node={g.n_node} n_face={g.n_face} n_edge={g.n_edge} "
              f"n_max_face_nodes={g.n_max_face_nodes} fill_entries={n_fill}")

    pairs = [("mpas", "mixed"), ("mixed", "mpas"), ("quadhex", "tetra"), ("tetra", "quadhex"),
             ("csne8", "mpas"), ("mpas", "mpas"), ("tetra", "tetra")]
    remaps = ["nodes", "edge centers", "face centers"]
    ctypes = ["spherical", "cartesian"]

    # ---- accessor level, DataArray: every element kind x destination x coord type
    for s, d in pairs:
        src, dst = grids[s], grids[d]
        for dim in ["n_node", "n_edge", "n_face"]:
            for lead in [(), (("time", 3),), (("time", 2), ("lev", 3))]:
                uxda = field(src, dim, lead)
                for rt in remaps:
                    for ct in ctypes:
                        run(f"NN  {s}->{d} {dim} lead={lead} {rt} {ct}",
                            lambda: uxda.remap.nearest_neighbor(dst, rt, ct), dst)
                        if lead != (("time", 2), ("lev", 3)):
                            for k, p in [(2, 2), (3, 1), (4, 6)]:
                                if k > src.n_node:
                                    continue
                                run(f"IDW {s}->{d} {dim} lead={lead} {rt} {ct} k={k} p={p}",
                                    lambda: uxda.remap.inverse_distance_weighted(dst, rt, ct, p, k), dst)

    src, dst = grids["mpas"], grids["mixed"]

    # ---- defaults and keyword passing through the accessors
    uxda = field(src, "n_face", (("time", 2),))
    run("NN defaults", lambda: uxda.remap.nearest_neighbor(dst), dst)
    run("NN kw", lambda: uxda.remap.nearest_neighbor(destination_grid=dst, coord_type="cartesian", remap_to="nodes"), dst)
    run("IDW defaults", lambda: uxda.remap.inverse_distance_weighted(dst), dst)
    run("IDW kw", lambda: uxda.remap.inverse_distance_weighted(k=3, power=1, destination_grid=dst,
                                                             coord_type="cartesian", remap_to="edge centers"), dst)
    run("NN fn defaults", lambda: _nearest_neighbor_uxda(uxda, dst), dst)
    run("IDW fn defaults", lambda: _inverse_distance_weighted_remap_uxda(uxda, dst), dst)
    run("IDW float power/k", lambda: uxda.remap.inverse_distance_weighted(dst, "nodes", "spherical", 2.5, 5), dst)
    run("IDW power 5 (no warn)", lambda: uxda.remap.inverse_distance_weighted(dst, "face centers", "spherical", 5, 3), dst)
    run("IDW power 5.5 (warn)", lambda: uxda.remap.inverse_distance_weighted(dst, "face centers", "spherical", 5.5, 3), dst)

    # ---- dtypes, constant fields, integer data, dims that are not grid dims
    for dt in [np.float32, np.int32, np.int64, bool]:
        u = field(src, "n_node", (("time", 2),), dtype=dt)
        run(f"NN dtype={np.dtype(dt)}", lambda: u.remap.nearest_neighbor(dst, "nodes"), dst)
        run(f"IDW dtype={np.dtype(dt)}", lambda: u.remap.inverse_distance_weighted(dst, "nodes", k=3), dst)
    const = ux.UxDataArray(np.full((2, src.n_edge), 7.25), dims=["t", "n_edge"], uxgrid=src)
    run("NN const unnamed", lambda: const.remap.nearest_neighbor(dst, "edge centers"), dst)
    run("IDW const unnamed", lambda: const.remap.inverse_distance_weighted(dst, "edge centers", k=4), dst)
    # element dimension not last / foreign last dim name (kind inferred from length)
    odd = ux.UxDataArray(np.arange(src.n_face * 2.0).reshape(src.n_face, 2), dims=["n_face", "two"], uxgrid=src)
    run("NN elem-dim-not-last", lambda: odd.remap.nearest_neighbor(dst, "nodes"), dst)
    run("IDW elem-dim-not-last", lambda: odd.remap.inverse_distance_weighted(dst, "nodes", k=2), dst)
    foreign = ux.UxDataArray(np.arange(2.0 * src.n_node).reshape(2, src.n_node), dims=["t", "cells"], uxgrid=src)
    run("NN foreign dim", lambda: foreign.remap.nearest_neighbor(dst, "nodes"), dst)
    run("IDW foreign dim", lambda: foreign.remap.inverse_distance_weighted(dst, "nodes", k=2), dst)
    bad_len = ux.UxDataArray(np.arange(7.0), dims=["cells"], uxgrid=src)
    run("NN bad length", lambda: bad_len.remap.nearest_neighbor(dst, "nodes"), dst)
    run("IDW bad length", lambda: bad_len.remap.inverse_distance_weighted(dst, "nodes", k=2), dst)
    zero_d = ux.UxDataArray(np.float64(3.0), uxgrid=src)
    run("NN 0-d", lambda: zero_d.remap.nearest_neighbor(dst, "nodes"), dst)
    run("IDW 0-d", lambda: zero_d.remap.inverse_distance_weighted(dst, "nodes", k=2), dst)
    # a coordinate along the element dimension of the source
    with_coord = ux.UxDataArray(np.arange(float(src.n_face)), dims=["n_face"],
                                coords={"n_face": np.arange(src.n_face)}, uxgrid=src, name="c")
    run("NN elem coord", lambda: with_coord.remap.nearest_neighbor(dst, "face centers"), dst)
    run("NN elem coord same grid", lambda: with_coord.remap.nearest_neighbor(src, "face centers"), src)
    run("IDW elem coord", lambda: with_coord.remap.inverse_distance_weighted(dst, "face centers", k=2), dst)

    # ---- invalid arguments: same exceptions, raised at the same point
    u = field(src, "n_face", (("time", 2),))
    run("NN bad remap_to", lambda: u.remap.nearest_neighbor(dst, "faces"), dst)
    run("NN bad coord_type", lambda: u.remap.nearest_neighbor(dst, "nodes", "polar"), dst)
    run("NN None remap_to", lambda: u.remap.nearest_neighbor(dst, None), dst)
    run("IDW bad remap_to", lambda: u.remap.inverse_distance_weighted(dst, "faces"), dst)
    run("IDW bad coord_type", lambda: u.remap.inverse_distance_weighted(dst, "nodes", "polar"), dst)
    run("IDW None remap_to", lambda: u.remap.inverse_distance_weighted(dst, None), dst)
    run("IDW k=1", lambda: u.remap.inverse_distance_weighted(dst, "nodes", k=1), dst)
    run("IDW k=0", lambda: u.remap.inverse_distance_weighted(dst, "nodes", k=0), dst)
    run("IDW k>n_node", lambda: u.remap.inverse_distance_weighted(dst, "nodes", k=src.n_node + 1), dst)
    run("IDW k>n_node, power>5", lambda: u.remap.inverse_distance_weighted(dst, "edge centers", power=9, k=src.n_node + 1), dst)
    run("IDW k==n_face+1 on faces", lambda: u.remap.inverse_distance_weighted(dst, "nodes", k=src.n_face + 1), dst)
    t = grids["tetra"]
    ut = field(t, "n_face")
    run("IDW tetra k=4 faces", lambda: ut.remap.inverse_distance_weighted(grids["quadhex"], "nodes", k=4), grids["quadhex"])
    run("IDW tetra k=5", lambda: ut.remap.inverse_distance_weighted(grids["quadhex"], "nodes", k=5), grids["quadhex"])

    # ---- Dataset accessors
    # (with the pinned xarray, item assignment on a UxDataset raises TypeError; the digest records
    #  which exception comes first: the one of the first variable's remap, or that TypeError)
    ds = ux.UxDataset(
        {
            "a_face": field(src, "n_face", (("time", 2),)),
            "b_node": field(src, "n_node"),
            "c_edge": field(src, "n_edge", (("time", 2), ("lev", 2))),
        },
        uxgrid=src,
    )
    print("ds vars:", list(ds.data_vars), [type(ds[v]).__name__ for v in ds.data_vars])
    for rt in remaps:
        for ct in ctypes:
            run(f"DS NN {rt} {ct}", lambda: ds.remap.nearest_neighbor(dst, rt, ct), dst)
            run(f"DS IDW {rt} {ct}", lambda: ds.remap.inverse_distance_weighted(dst, rt, ct, 3, 4), dst)
    run("DS NN defaults", lambda: ds.remap.nearest_neighbor(dst), dst)
    run("DS IDW defaults", lambda: ds.remap.inverse_distance_weighted(dst), dst)
    run("DS NN kw", lambda: ds.remap.nearest_neighbor(coord_type="cartesian", destination_grid=dst, remap_to="nodes"), dst)
    run("DS IDW kw", lambda: ds.remap.inverse_distance_weighted(k=2, power=1, coord_type="cartesian", destination_grid=dst, remap_to="nodes"), dst)
    run("DS NN fn defaults", lambda: _nearest_neighbor_uxds(ds, dst), dst)
    run("DS IDW fn defaults", lambda: _inverse_distance_weighted_remap_uxds(ds, dst), dst)
    run("DS NN same grid", lambda: ds.remap.nearest_neighbor(src, "nodes"), src)
    run("DS NN bad remap_to", lambda: ds.remap.nearest_neighbor(dst, "faces"), dst)
    run("DS IDW k=1", lambda: ds.remap.inverse_distance_weighted(dst, "nodes", k=1), dst)
    empty = ux.UxDataset(uxgrid=src)
    run("DS NN empty", lambda: empty.remap.nearest_neighbor(dst, "nodes"), dst)
    run("DS IDW empty", lambda: empty.remap.inverse_distance_weighted(dst, "nodes"), dst)
    run("DS NN empty bad args", lambda: empty.remap.nearest_neighbor(dst, "faces", "polar"), dst)
    run("DS IDW empty bad args", lambda: empty.remap.inverse_distance_weighted(dst, "faces", "polar", 9, 0), dst)
    only_coords = ux.UxDataset(coords={"time": [1, 2, 3]}, uxgrid=src, attrs={"title": "x"})
    run("DS NN only coords", lambda: only_coords.remap.nearest_neighbor(dst, "nodes"), dst)
    run("DS IDW only coords", lambda: only_coords.remap.inverse_distance_weighted(dst, "nodes"), dst)
    second_fails = ux.UxDataset(
        {"ok": field(src, "n_face"), "bad": xr.DataArray(np.arange(7.0), dims=["cells"])}, uxgrid=src
    )
    first_fails = ux.UxDataset(
        {"bad": xr.DataArray(np.arange(7.0), dims=["cells"]), "ok": field(src, "n_face")}, uxgrid=src
    )
    run("DS NN first var fails", lambda: first_fails.remap.nearest_neighbor(dst, "nodes"), dst)
    run("DS IDW first var fails", lambda: first_fails.remap.inverse_distance_weighted(dst, "nodes", k=2), dst)
    run("DS NN second var fails", lambda: second_fails.remap.nearest_neighbor(dst, "nodes"), dst)
    run("DS IDW second var fails", lambda: second_fails.remap.inverse_distance_weighted(dst, "nodes", k=2), dst)

    # ---- plain-array entry points (element kind inferred from the length)
    for dim, n in [("n_node", src.n_node), ("n_face", src.n_face), ("n_edge", src.n_edge)]:
        arr1 = np.linspace(-5, 5, n)
        arr2 = np.arange(3 * n, dtype=np.float32).reshape(3, n)
        for rt in remaps:
            run(f"raw NN 1d {dim}->{rt}", lambda: _nearest_neighbor(src, dst, arr1, rt))
            run(f"raw NN list {dim}->{rt}", lambda: _nearest_neighbor(src, dst, list(arr1), rt, "cartesian"))
            run(f"raw NN 2d {dim}->{rt}", lambda: _nearest_neighbor(src, dst, arr2, rt))
            run(f"raw IDW 1d {dim}->{rt}", lambda: _inverse_distance_weighted_remap(src, dst, arr1, rt, k=3))
            run(f"raw IDW 2d {dim}->{rt}", lambda: _inverse_distance_weighted_remap(src, dst, arr2, rt, "cartesian", 3, 2))
    # tetra: n_node == n_face, explicit kind versus inferred kind
    arr = np.array([10.0, 20.0, 30.0, 40.0])
    q = grids["quadhex"]
    run("raw NN tetra inferred", lambda: _nearest_neighbor(t, q, arr, "nodes"))
    run("raw NN tetra faces", lambda: _nearest_neighbor(t, q, arr, "nodes", source_data_mapping="face centers"))
    run("raw IDW tetra inferred", lambda: _inverse_distance_weighted_remap(t, q, arr, "nodes", k=3))
    run("raw IDW tetra faces", lambda: _inverse_distance_weighted_remap(t, q, arr, "nodes", k=3, source_data_mapping="face centers"))
    # single destination point (index array squeezed to 0-d)
    one = ux.open_grid(np.array([[[10.0, 10.0], [20.0, 10.0], [15.0, 20.0]]]), latlon=True)
    run("raw NN 1d -> single face", lambda: _nearest_neighbor(src, one, np.arange(float(src.n_face)), "face centers"))
    run("raw NN 2d -> single face", lambda: _nearest_neighbor(src, one, np.arange(2.0 * src.n_face).reshape(2, -1), "face centers"))
    run("NN uxda -> single face", lambda: field(src, "n_face").remap.nearest_neighbor(one, "face centers"), one)
    run("NN uxda 2d -> single face", lambda: field(src, "n_face", (("time", 2),)).remap.nearest_neighbor(one, "face centers"), one)
    run("IDW uxda -> single face", lambda: field(src, "n_face").remap.inverse_distance_weighted(one, "face centers", k=3), one)
    run("IDW uxda 2d -> single face", lambda: field(src, "n_face", (("time", 2),)).remap.inverse_distance_weighted(one, "face centers", k=3), one)

    # ---- inputs left untouched
    u = field(src, "n_face", (("time", 2),))
    before = u.values.copy()
    res = u.remap.nearest_neighbor(dst, "nodes")
    res2 = u.remap.inverse_distance_weighted(dst, "nodes", k=3)
    print("source untouched:", np.array_equal(before, u.values), u.dims, u.uxgrid is src)
    print("result shares memory with source:", np.shares_memory(res.values, u.values),
          np.shares_memory(res2.values, u.values))
    print("accessor reprs:", repr(u.remap), repr(ds.remap))


if __name__ == "__main__":
    main()
