import sys, os

sys.path.insert(0, os.getcwd())
import hashlib
import warnings

warnings.filterwarnings("ignore")

import numpy as np
import xarray as xr
import uxarray
import uxarray as ux

assert os.path.abspath(uxarray.__file__).startswith(os.path.abspath(os.getcwd()) + os.sep), uxarray.__file__

from uxarray.constants import INT_FILL_VALUE, INT_DTYPE
from uxarray.grid import connectivity as C
from uxarray.conventions import ugrid

F = INT_FILL_VALUE


def digest(a):
    a = np.ascontiguousarray(a)
    return f"{a.dtype}{a.shape}#{hashlib.sha1(a.tobytes()).hexdigest()[:16]}"


def show(name, a, full=True):
    a = np.asarray(a)
    if full and a.size <= 80:
        print(f"  {name}: dtype={a.dtype} shape={a.shape} {a.tolist()}")
    else:
        print(f"  {name}: {digest(a)}")


def attrs_summary(da):
    out = []
    for k, v in da.attrs.items():
        if isinstance(v, np.ndarray):
            out.append((k, digest(v)))
        else:
            out.append((k, repr(v)))
    return out


def make_grid(fnc, n_node=None, fill_value=F, start_index=0):
    fnc = np.asarray(fnc)
    if n_node is None:
        valid = fnc[fnc != fill_value] if fill_value is not None else fnc.ravel()
        n_node = int(valid.max()) - start_index + 1
    rng = np.random.default_rng(n_node)
    lon = rng.uniform(-180, 180, n_node)
    lat = rng.uniform(-90, 90, n_node)
    return ux.Grid.from_topology(lon, lat, fnc, fill_value=fill_value, start_index=start_index)


def report(label, g, order="nefp"):
    """Access the derived tables in a given order (n: n_edge, e: edge_node_connectivity,
    f: face_edge_connectivity, p: n_nodes_per_face, m: n_max_face_edges) and print them all."""
    print(f"== {label} [order={order}]")
    for ch in order:
        if ch == "n":
            print("  n_edge:", g.n_edge, type(g.n_edge).__name__)
        elif ch == "e":
            show("edge_node_connectivity", g.edge_node_connectivity.values)
        elif ch == "f":
            show("face_edge_connectivity", g.face_edge_connectivity.values)
        elif ch == "p":
            show("n_nodes_per_face", g.n_nodes_per_face.values)
        elif ch == "m":
            print("  n_max_face_edges:", g.n_max_face_edges)
        print("   ds keys:", sorted(k for k in g._ds.variables))
    en = g.edge_node_connectivity
    fe = g.face_edge_connectivity
    npf = g.n_nodes_per_face
    print("  n_edge/n_face/n_node/n_max_face_nodes/n_max_face_edges:", g.n_edge, g.n_face, g.n_node,
          g.n_max_face_nodes, g.n_max_face_edges)
    print("  dims:", en.dims, fe.dims, npf.dims, dict(g._ds.sizes))
    print("  edge_node attrs:", attrs_summary(en))
    print("  face_edge attrs:", attrs_summary(fe))
    print("  n_nodes_per_face attrs:", attrs_summary(npf))
    show("edge_node_connectivity", en.values, full=False)
    show("face_edge_connectivity", fe.values, full=False)
    show("n_nodes_per_face", npf.values, full=False)
    if "inverse_indices" in en.attrs:
        inv = en.attrs["inverse_indices"]
        show("inverse_indices", inv)
        show("fill_value_mask", en.attrs["fill_value_mask"])
        print("  face_edges shares memory with inverse_indices:", np.shares_memory(fe.values, inv))
        print("  inverse_indices flags:", inv.flags["OWNDATA"], inv.flags["WRITEABLE"], inv.shape)
    # attrs of the library table are not polluted
    print("  ugrid table clean:", sorted(ugrid.EDGE_NODE_CONNECTIVITY_ATTRS), sorted(ugrid.FACE_EDGE_CONNECTIVITY_ATTRS),
          sorted(ugrid.N_NODES_PER_FACE_ATTRS))
    # identity / caching: repeated access returns data backed by the same buffers
    print("  cached:", np.shares_memory(g.edge_node_connectivity.values, en.values),
          np.shares_memory(g.face_edge_connectivity.values, fe.values),
          np.shares_memory(g.n_nodes_per_face.values, npf.values))
    # Euler count
    print("  euler:", g.n_node - g.n_edge + g.n_face)


TABLES = {
    "single triangle": [[0, 1, 2]],
    "single quad": [[3, 1, 0, 2]],
    "single padded tri": [[2, 0, 1, F, F]],
    "two tris sharing edge": [[0, 1, 2], [2, 1, 3]],
    "tri+quad mixed": [[0, 1, 2, F], [1, 3, 4, 2]],
    "quad+tri mixed (pad last)": [[1, 3, 4, 2], [0, 1, 2, F]],
    "pentagon among quads": [[0, 1, 2, 3, F], [3, 2, 4, 5, 6], [6, 5, 7, 8, F]],
    "tri/quad/pent/hex": [
        [0, 1, 2, F, F, F],
        [2, 1, 3, 4, F, F],
        [4, 3, 5, 6, 7, F],
        [7, 6, 8, 9, 10, 11],
    ],
    "all padded (max never reached)": [[0, 1, 2, F, F], [2, 1, 3, F, F]],
    "faces sharing two edges": [[0, 1, 2, 3], [0, 3, 2, 4]],
    "tetrahedron (global)": [[0, 1, 2], [0, 3, 1], [1, 3, 2], [2, 3, 0]],
    "cube (global)": [
        [0, 1, 2, 3],
        [7, 6, 5, 4],
        [0, 4, 5, 1],
        [1, 5, 6, 2],
        [2, 6, 7, 3],
        [3, 7, 4, 0],
    ],
    "pyramid (global, mixed)": [[0, 1, 2, 3], [1, 0, 4, F], [2, 1, 4, F], [3, 2, 4, F], [0, 3, 4, F]],
    "rotated start corners": [[2, 3, 0, 1], [4, 2, 1, F], [5, 4, 1, 6]],
    "disconnected faces": [[0, 1, 2, F], [3, 4, 5, 6]],
    "reversed numbering": [[9, 8, 7, F], [7, 8, 6, 5], [5, 6, 4, F], [4, 6, 3, 2], [2, 3, 1, 0]],
}

ORDERS = ["nefpm", "fenpm", "pmfen", "mfpne", "efnpm"]


def random_table(rng, n_face, n_max, n_node):
    rows = []
    for _ in range(n_face):
        k = int(rng.integers(3, n_max + 1))
        nodes = rng.choice(n_node, size=k, replace=False)
        rows.append(list(nodes) + [F] * (n_max - k))
    return np.array(rows, dtype=INT_DTYPE)


def main():
    for i, (label, tab) in enumerate(TABLES.items()):
        g = make_grid(np.array(tab, dtype=INT_DTYPE))
        report(label, g, ORDERS[i % len(ORDERS)])

    # other fill values / start indices / dtypes handed to the reader
    tab = np.array([[1, 2, 3, -1], [2, 4, 5, 3], [5, 4, 6, -1]], dtype=np.int32)
    report("fill=-1 start_index=1 int32", make_grid(tab, fill_value=-1, start_index=1), "fenpm")
    tab = np.array([[0, 1, 2, 99], [1, 3, 4, 2]], dtype=np.int64)
    report("fill=99 start_index=0", make_grid(tab, n_node=5, fill_value=99), "pmnef")
    tab = np.array([[0, 1, 2], [2, 1, 3]], dtype=np.uint8)
    report("no fill value uint8", make_grid(tab, fill_value=None), "nfepm")
    report("python list input", ux.Grid.from_topology([0.0, 10.0, 10.0, 0.0], [0.0, 0.0, 10.0, 10.0],
                                                      [[0, 1, 2, 3]], fill_value=F), "mnefp")

    # random mixed meshes (larger)
    rng = np.random.default_rng(12345)
    for k in range(6):
        n_face = int(rng.integers(1, 40))
        n_max = int(rng.integers(3, 9))
        n_node = int(rng.integers(n_max, 60))
        tab = random_table(rng, n_face, n_max, n_node)
        report(f"random {k} n_face={n_face} n_max={n_max} n_node={n_node}", make_grid(tab, n_node=n_node),
               ORDERS[k % len(ORDERS)])

    # direct helper calls
    print("== helpers")
    tab = np.array(TABLES["tri/quad/pent/hex"], dtype=INT_DTYPE)
    en, inv, mask = C._build_edge_node_connectivity(tab, 4, 6)
    show("en", en)
    show("inv", inv)
    show("mask", mask)
    fe = C._build_face_edge_connectivity(inv, 4, 6)
    show("fe", fe)
    print("  fe view of inv:", np.shares_memory(fe, inv), fe.base is inv or fe.base is inv.base)
    try:
        C._build_face_edge_connectivity(inv, 5, 6)
    except Exception as e:
        print("  reshape error:", type(e).__name__, e)
    show("npf", C._build_n_nodes_per_face(tab, 4, 6))

    # pre-existing edge_node_connectivity without side tables (e.g. read from a file): the lazy
    # face_edge construction replaces it with the derived one
    print("== preset edge_node_connectivity without side tables")
    g = make_grid(np.array(TABLES["tri+quad mixed"], dtype=INT_DTYPE))
    preset = xr.DataArray(np.array([[4, 3], [2, 4], [1, 2], [0, 2], [0, 1], [1, 3]], dtype=INT_DTYPE),
                          dims=["n_edge", "two"], attrs={"cf_role": "edge_node_connectivity"})
    g.edge_node_connectivity = preset
    print("  n_edge (preset):", g.n_edge)
    show("edge_node (preset)", g.edge_node_connectivity.values)
    print("  attrs (preset):", attrs_summary(g.edge_node_connectivity))
    show("face_edge", g.face_edge_connectivity.values)
    show("edge_node (after)", g.edge_node_connectivity.values)
    print("  attrs (after):", attrs_summary(g.edge_node_connectivity))
    print("  n_edge (after):", g.n_edge)

    # user supplied tables through from_topology kwargs are kept as they are
    print("== user supplied derived tables")
    lon = np.array([0.0, 10.0, 10.0, 0.0, 20.0])
    lat = np.array([0.0, 0.0, 10.0, 10.0, 5.0])
    g = ux.Grid.from_topology(lon, lat, np.array([[0, 1, 2, 3], [1, 4, 2, -1]]), fill_value=-1,
                              edge_node_connectivity=np.array([[0, 1], [1, 2], [2, 3], [3, 0], [1, 4], [4, 2]]),
                              face_edge_connectivity=np.array([[0, 1, 2, 3], [4, 5, 1, -1]]))
    report("user supplied", g, "fenpm")
    print("  ds order:", list(g._ds.variables))

    # setters
    print("== setters")
    g = make_grid(np.array(TABLES["tri+quad mixed"], dtype=INT_DTYPE))
    for name in ("n_nodes_per_face", "edge_node_connectivity", "face_edge_connectivity"):
        try:
            setattr(g, name, np.zeros(3))
        except Exception as e:
            print(" ", name, "setter:", type(e).__name__)
    g.n_nodes_per_face = xr.DataArray(np.array([4, 4]), dims=["n_face"])
    show("npf preset", g.n_nodes_per_face.values)
    show("face_edge", g.face_edge_connectivity.values)

    # real meshes
    print("== files")
    base = os.path.join(os.getcwd(), "test", "meshfiles")
    for rel in ["ugrid/outCSne30/outCSne30.ug", "ugrid/quad-hexagon/grid.nc", "ugrid/geoflow-small/grid.nc",
                "mpas/QU/mesh.QU.1920km.151026.nc", "exodus/mixed/mixed.exo", "scrip/outCSne8/outCSne8.nc",
                "ugrid/outRLL1deg/outRLL1deg.ug"]:
        p = os.path.join(base, rel)
        if not os.path.exists(p):
            print("  missing", rel)
            continue
        g = ux.open_grid(p)
        pre = "edge_node_connectivity" in g._ds
        fe = g.face_edge_connectivity.values
        en = g.edge_node_connectivity.values
        npf = g.n_nodes_per_face.values
        print(" ", rel, "preset_en:", pre, "n_edge:", g.n_edge, "euler:", g.n_node - g.n_edge + g.n_face,
              digest(en), digest(fe), digest(npf), sorted(g.edge_node_connectivity.attrs))


def extra():
    """Lazy population bookkeeping of the Grid properties: how often each populate function runs,
    in which order variables get stored, and that stored / assigned variables are never rebuilt."""
    import uxarray.grid.grid as G

    names = ["_populate_edge_node_connectivity", "_populate_face_edge_connectivity", "_populate_n_nodes_per_face",
             "_populate_edge_face_connectivity", "_populate_node_face_connectivity",
             "_populate_face_face_connectivity"]
    calls = []
    originals = {n: getattr(G, n) for n in names}

    def wrap(n):
        def f(grid, *a, **k):
            calls.append(n)
            return originals[n](grid, *a, **k)
        return f

    for n in names:
        setattr(G, n, wrap(n))
    try:
        print("== populate call counts")
        for label in ["tri/quad/pent/hex", "cube (global)", "single padded tri", "pyramid (global, mixed)"]:
            for order in ["n n e e f f p p m", "f f m e n p", "p m f e n n", "ef nf ff e f p n", "m ef ef nf ff ff"]:
                g = make_grid(np.array(TABLES[label], dtype=INT_DTYPE))
                calls.clear()
                out = []
                for tok in order.split():
                    if tok == "n":
                        out.append(g.n_edge)
                    elif tok == "e":
                        out.append(digest(g.edge_node_connectivity.values))
                    elif tok == "f":
                        out.append(digest(g.face_edge_connectivity.values))
                    elif tok == "p":
                        out.append(digest(g.n_nodes_per_face.values))
                    elif tok == "m":
                        out.append(g.n_max_face_edges)
                    elif tok == "ef":
                        out.append(g.edge_face_connectivity.values.tolist())
                    elif tok == "nf":
                        out.append(g.node_face_connectivity.values.tolist())
                    elif tok == "ff":
                        out.append(g.face_face_connectivity.values.tolist())
                print(f"  {label} | {order} | calls={calls} | stored={list(g._ds.variables)}")
                print("     ", out)
        # assigned variables are returned as they are and never rebuilt
        g = make_grid(np.array(TABLES["tri+quad mixed"], dtype=INT_DTYPE))
        calls.clear()
        da = xr.DataArray(np.array([3, 4]), dims=["n_face"])
        g.n_nodes_per_face = da
        print("  assigned npf:", g.n_nodes_per_face.values.tolist(), calls, g.n_nodes_per_face.identical(da))
        en = xr.DataArray(np.zeros((6, 2), dtype=INT_DTYPE), dims=["n_edge", "two"])
        g.edge_node_connectivity = en
        print("  assigned en:", g.n_edge, g.edge_node_connectivity.values.tolist(), calls)
        print("  then face_edge:", g.face_edge_connectivity.values.tolist(), calls, g.n_edge,
              g.edge_node_connectivity.values.tolist())
        # return types
        print("  types:", type(g.n_edge).__name__, type(g.edge_node_connectivity).__name__,
              type(g.face_edge_connectivity).__name__, type(g.n_nodes_per_face).__name__,
              type(g.n_max_face_edges).__name__)
        # a populate function that fails leaves nothing behind and propagates its exception
        def boom(grid):
            raise RuntimeError("boom")
        G._populate_edge_node_connectivity = boom
        g = make_grid(np.array(TABLES["tri+quad mixed"], dtype=INT_DTYPE))
        for attr in ("n_edge", "edge_node_connectivity"):
            try:
                getattr(g, attr)
            except Exception as e:
                print("  failing populate:", attr, type(e).__name__, e, list(g._ds.variables))
    finally:
        for n in names:
            setattr(G, n, originals[n])


main()
extra()
