import sys, os; sys.path.insert(0, os.getcwd())
import warnings
import hashlib
import copy

import numpy as np
import xarray as xr
import uxarray as ux

assert os.path.abspath(ux.__file__).startswith(os.path.abspath(os.getcwd()) + os.sep), ux.__file__

warnings.simplefilter("always")
np.set_printoptions(precision=17, linewidth=200, threshold=10_000)

FOCUS = "a: UxDataArray.isel and UxDataArray._slice_from_grid (table-driven grid-dimension dispatch)"


def norm_msg(msg):
    """xarray prints Python sets of dimension names in its error messages; their
    order depends on per-process string hash randomisation, so sort them."""
    import re

    def _sort(m):
        return "{" + ", ".join(sorted(x.strip() for x in m.group(1).split(","))) + "}"

    return re.sub(r"\{([^{}]*)\}", _sort, str(msg))


def h(arr):
    arr = np.ascontiguousarray(np.asarray(arr))
    return hashlib.sha256(arr.tobytes()).hexdigest()[:16]


def grid_digest(g):
    parts = [f"nf={g.n_face} nn={g.n_node} ne={g.n_edge}"]
    for k in sorted(g._ds.variables):
        v = g._ds[k]
        parts.append(f"{k}:{v.dims}:{v.dtype}:{h(v.values)}")
    return " | ".join(parts)


def digest(label, res, src=None):
    if isinstance(res, xr.DataArray):
        rel = "n/a"
        if src is not None and hasattr(res, "uxgrid"):
            rel = "same-object" if res.uxgrid is src.uxgrid else "other-object"
        g = getattr(res, "uxgrid", "NO-ATTR")
        gd = grid_digest(g) if isinstance(g, ux.Grid) else repr(g)
        consistent = []
        if isinstance(g, ux.Grid):
            for d, n in (("n_face", g.n_face), ("n_node", g.n_node), ("n_edge", g.n_edge)):
                if d in res.dims:
                    consistent.append((d, res.sizes[d] == n))
        print(
            f"{label}: type={type(res).__name__} name={res.name!r} dims={res.dims} shape={res.shape} "
            f"dtype={res.dtype} vals={h(res.values)} coords={sorted(map(str, res.coords))} "
            f"attrs={dict(res.attrs)} gridrel={rel} consistent={consistent}"
        )
        print(f"    grid: {hashlib.sha256(gd.encode()).hexdigest()[:16]} {gd[:60]}")
        if res.size <= 40:
            print("    values:", repr(res.values))
    elif isinstance(res, xr.Dataset):
        print(f"{label}: type={type(res).__name__} vars={sorted(map(str, res.data_vars))} dims={dict(res.sizes)}")
    else:
        print(f"{label}: {type(res).__name__} {res!r}")


def attempt(label, fn, src=None):
    with warnings.catch_warnings(record=True) as w:
        warnings.simplefilter("always")
        try:
            res = fn()
        except Exception as e:  # noqa
            print(f"{label}: RAISED {type(e).__name__}: {norm_msg(e)}")
            res = None
        else:
            digest(label, res, src)
        for wi in w:
            if "uxarray" in str(wi.filename) or issubclass(wi.category, (UserWarning, Warning)):
                msg = str(wi.message)
                if "uxarray" in str(wi.filename):
                    print(f"    warning[{wi.category.__name__}]: {msg[:120]}")
    return res


def make_mixed_grid():
    # 3 quads + 1 triangle (fill value in connectivity), partial mesh with boundary edges
    lon = np.array([0.0, 10.0, 20.0, 0.0, 10.0, 20.0, 0.0, 10.0])
    lat = np.array([0.0, 0.0, 0.0, 10.0, 10.0, 10.0, 20.0, 20.0])
    fnc = np.array([[0, 1, 4, 3], [1, 2, 5, 4], [3, 4, 7, 6], [4, 5, 7, -1]])
    return ux.Grid.from_topology(lon, lat, fnc, fill_value=-1)


def make_single_face_grid():
    lon = np.array([0.0, 10.0, 5.0])
    lat = np.array([0.0, 0.0, 10.0])
    return ux.Grid.from_topology(lon, lat, np.array([[0, 1, 2]]))


def make_tri_quad_pent_grid():
    # triangle, quad, pentagon sharing edges
    lon = np.array([0.0, 10.0, 10.0, 0.0, 20.0, 25.0, 20.0, 5.0])
    lat = np.array([0.0, 0.0, 10.0, 10.0, -5.0, 5.0, 15.0, 18.0])
    fnc = np.array(
        [
            [0, 1, 2, 3, -1],
            [1, 4, 5, 6, 2],
            [3, 2, 7, -1, -1],
        ]
    )
    return ux.Grid.from_topology(lon, lat, fnc, fill_value=-1)


GRIDS = {
    "mixed": make_mixed_grid(),
    "single": make_single_face_grid(),
    "tqp": make_tri_quad_pent_grid(),
    "mpas": ux.open_grid("test/meshfiles/mpas/QU/mesh.QU.1920km.151026.nc"),
    "geoflow": ux.open_grid("test/meshfiles/ugrid/geoflow-small/grid.nc"),
}


def arrays_for(gname, g):
    rng = np.random.default_rng(abs(hash(gname)) % 1000 if False else len(gname))
    out = {}
    for elem, n in (("face", g.n_face), ("node", g.n_node), ("edge", g.n_edge)):
        dim = f"n_{elem}"
        out[f"{elem}_1d_f64"] = ux.UxDataArray(
            rng.normal(size=n), dims=[dim], uxgrid=g, name=f"{elem}v", attrs={"units": "K"}
        )
        out[f"{elem}_2d_f32"] = ux.UxDataArray(
            rng.normal(size=(3, n)).astype(np.float32),
            dims=["time", dim],
            coords={"time": [10, 20, 30]},
            uxgrid=g,
            name=f"{elem}w",
        )
        out[f"{elem}_3d_i64_noname"] = ux.UxDataArray(
            rng.integers(-5, 5, size=(2, 2, n)), dims=["t", "lev", dim], uxgrid=g
        )
        out[f"{elem}_lead_last_swapped"] = ux.UxDataArray(
            rng.normal(size=(n, 2)), dims=[dim, "lev"], uxgrid=g, name=f"{elem}T"
        )
        out[f"{elem}_bool"] = ux.UxDataArray(
            rng.normal(size=n) > 0, dims=[dim], uxgrid=g, name=f"{elem}b"
        )
    out["nogrid_dim"] = ux.UxDataArray(np.arange(3.0), dims=["x"], uxgrid=g, name="plain")
    return out


def idx_sets(n):
    sets = {
        "first": [0],
        "last": [n - 1],
        "neg": [-1],
        "slice": slice(0, max(1, n // 2)),
        "arr": np.array(sorted({0, n // 2, n - 1})),
        "dup_unsorted": [n - 1, 0, 0] if n > 1 else [0, 0],
        "scalar": 0,
        "empty": [],
        "all": np.arange(n),
    }
    return sets


def exercise_isel(gname, g, arrs):
    print(f"--- isel [{gname}]")
    for aname, a in arrs.items():
        for dim, n in (("n_face", g.n_face), ("n_node", g.n_node), ("n_edge", g.n_edge)):
            for iname, idx in idx_sets(n).items():
                if gname in ("mpas", "geoflow") and iname in ("all",) and dim != "n_face":
                    continue
                lab = f"isel {gname}/{aname} {dim}={iname}"
                r = attempt(lab, lambda: a.isel({dim: idx}), a)
                if r is not None and iname == "arr":
                    # composition: xarray op after grid isel, then grid isel again
                    attempt(lab + " >> *2 >> isel n_face=[0]", lambda: (r * 2).isel(n_face=[0]), r)
                attempt(lab + " (kw)", lambda: a.isel(**{dim: idx}), a)
                attempt(lab + " ignore_grid", lambda: a.isel({dim: idx}, ignore_grid=True), a)
        # two grid dims at once, mixed with non-grid dims
        attempt(f"isel {gname}/{aname} two-grid-dims", lambda: a.isel(n_face=[0], n_node=[0]), a)
        attempt(f"isel {gname}/{aname} three-grid-dims", lambda: a.isel(n_face=[0], n_node=[0], n_edge=[0]), a)
        attempt(f"isel {gname}/{aname} two-grid-dims ignore", lambda: a.isel(n_face=[0], n_node=[0], ignore_grid=True), a)
        attempt(f"isel {gname}/{aname} two-grid-dims ignore missing=ignore", lambda: a.isel(n_face=[0], n_node=[0], ignore_grid=True, missing_dims="ignore"), a)
        attempt(f"isel {gname}/{aname} nongrid time", lambda: a.isel(time=0), a)
        attempt(f"isel {gname}/{aname} nongrid time missing=ignore", lambda: a.isel(time=0, missing_dims="ignore"), a)
        attempt(f"isel {gname}/{aname} nongrid lev drop", lambda: a.isel(lev=0, drop=True, missing_dims="warn"), a)
        attempt(f"isel {gname}/{aname} grid+nongrid", lambda: a.isel(n_face=[0], time=0), a)
        attempt(f"isel {gname}/{aname} both dict&kw", lambda: a.isel({"n_face": [0]}, n_face=[0]), a)
        attempt(f"isel {gname}/{aname} none", lambda: a.isel(), a)
        # direct _slice_from_grid with each kind of sliced grid
        for dim in ("n_face", "n_node", "n_edge"):
            attempt(
                f"_slice_from_grid {gname}/{aname} via grid.isel({dim}=[0])",
                lambda: a._slice_from_grid(g.isel(**{dim: [0]})),
                a,
            )


def exercise_ops(gname, g, arrs):
    print(f"--- operators [{gname}]")
    for aname, a in arrs.items():
        for dest in ("edge", "node", "face", "bogus", None):
            attempt(f"difference {gname}/{aname} dest={dest}", lambda: a.difference(dest), a)
        attempt(f"difference {gname}/{aname} default", lambda: a.difference(), a)
        for norm in (False, True):
            for mag in (True, False):
                attempt(
                    f"gradient {gname}/{aname} normalize={norm} use_magnitude={mag}",
                    lambda: a.gradient(normalize=norm, use_magnitude=mag),
                    a,
                )
        attempt(f"integrate {gname}/{aname}", lambda: a.integrate(), a)
        attempt(f"integrate {gname}/{aname} gaussian", lambda: a.integrate("gaussian", 3), a)
        for agg in ("mean", "max", "min", "prod", "sum", "std", "var", "median", "all", "any"):
            for dest in ("face", "edge", "node", "bogus", None):
                attempt(
                    f"topological_{agg} {gname}/{aname} dest={dest}",
                    lambda: getattr(a, f"topological_{agg}")(destination=dest),
                    a,
                )
        attempt(f"topological_mean {gname}/{aname} kwargs keepdims", lambda: a.topological_mean("face", keepdims=True), a)
        attempt(f"topological_std {gname}/{aname} ddof=1", lambda: a.topological_std("edge", ddof=1), a)
        attempt(f"topological_sum {gname}/{aname} dtype", lambda: a.topological_sum("face", dtype=np.float32), a)
        attempt(f"topological_mean {gname}/{aname} bad kw", lambda: a.topological_mean("face", nonsense=1), a)
        # compositions
        attempt(
            f"compose {gname}/{aname} (a+1).T.difference.cumsum",
            lambda: (a + 1).transpose(..., a.dims[-1]).difference().cumsum(a.dims[0] if a.ndim > 1 and not a.dims[0].startswith("n_") else None),
            a,
        )
        attempt(
            f"compose {gname}/{aname} node->face mean -> gradient -> isel",
            lambda: a.topological_mean("face").gradient().isel(n_edge=[0, 1]),
            a,
        )
        attempt(
            f"compose {gname}/{aname} node->edge max -> copy(deep) -> isel",
            lambda: a.topological_max("edge").copy(deep=True).isel(n_edge=[0]),
            a,
        )


def exercise_dask(gname, g):
    print(f"--- dask-backed [{gname}]")
    a = ux.UxDataArray(np.arange(2.0 * g.n_node).reshape(2, g.n_node), dims=["t", "n_node"], uxgrid=g, name="d").chunk({"t": 1})
    attempt(f"dask topological_mean face {gname}", lambda: a.topological_mean("face"), a)
    attempt(f"dask topological_min edge {gname}", lambda: a.topological_min("edge"), a)
    f = ux.UxDataArray(np.arange(2.0 * g.n_face).reshape(2, g.n_face), dims=["t", "n_face"], uxgrid=g, name="df").chunk({"t": 1})
    attempt(f"dask difference {gname}", lambda: f.difference(), f)
    attempt(f"dask gradient {gname}", lambda: f.gradient(), f)
    attempt(f"dask isel {gname}", lambda: f.isel(n_face=[0]).compute(), f)


def exercise_copy(gname, g, arrs):
    print(f"--- copy/replace plumbing [{gname}]")
    a = arrs["face_2d_f32"]
    attempt("copy shallow", lambda: a.copy(), a)
    d = attempt("copy deep", lambda: a.copy(deep=True), a)
    attempt("copy.copy", lambda: copy.copy(a), a)
    attempt("copy.deepcopy", lambda: copy.deepcopy(a), a)
    attempt("astype", lambda: a.astype(np.float64), a)
    attempt("where", lambda: a.where(a > 0, -1.0), a)
    attempt("mean time", lambda: a.mean("time"), a)
    attempt("rolling", lambda: a.rolling(time=2).mean(), a)
    attempt("rename", lambda: a.rename("zz").rename(time="tt"), a)
    attempt("assign_coords", lambda: a.assign_coords(time=[1, 2, 3]), a)
    attempt("concat", lambda: xr.concat([a, a], "time"), a)
    attempt("np.sin", lambda: np.sin(a), a)
    attempt("to_dataset", lambda: a.to_dataset(), a)


def main():
    print("FOCUS:", FOCUS)
    for gname, g in GRIDS.items():
        print(f"=== grid {gname}: {grid_digest(g)[:50]}")
        arrs = arrays_for(gname, g)
        exercise_isel(gname, g, arrs)
        exercise_ops(gname, g, arrs)
        exercise_dask(gname, g)
        exercise_copy(gname, g, arrs)


main()
