import sys, os; sys.path.insert(0, os.getcwd())
import hashlib
import tempfile
import warnings

import numpy as np
import xarray as xr

import uxarray
import uxarray as ux

assert os.path.abspath(uxarray.__file__).startswith(os.path.abspath(os.getcwd()) + os.sep), uxarray.__file__

from uxarray.constants import INT_DTYPE, INT_FILL_VALUE

MESH = os.path.join(os.getcwd(), "test", "meshfiles")


def h(a):
    a = np.ascontiguousarray(np.asarray(a))
    return f"{a.dtype}{a.shape}:{hashlib.sha256(a.tobytes()).hexdigest()[:16]}"


def digest(tag, g):
    print(f"[{tag}] type={type(g).__name__} source={g.source_grid_spec} "
          f"n_face={g.n_face} n_node={g.n_node} n_max={g.n_max_face_nodes}")
    fnc = g.face_node_connectivity
    print(f"   fnc {h(fnc.values)} fill={fnc.attrs.get('_FillValue')} "
          f"start_index={fnc.attrs.get('start_index')} dims={fnc.dims}")
    print(f"   node_lon {h(g.node_lon.values)} node_lat {h(g.node_lat.values)}")
    print(f"   lon range [{float(g.node_lon.min())!r}, {float(g.node_lon.max())!r}]")
    print(f"   ds vars={sorted(g._ds.variables)} dims={dict(g._ds.sizes)}")
    for name in ("edge_node_connectivity", "face_edge_connectivity", "edge_face_connectivity",
                 "face_face_connectivity", "node_face_connectivity", "face_lon", "face_lat",
                 "edge_lon", "edge_lat", "face_areas"):
        if name in g._ds:
            print(f"   {name} {h(g._ds[name].values)}")


def attempt(tag, fn):
    with warnings.catch_warnings(record=True) as w:
        warnings.simplefilter("always")
        try:
            g = fn()
            digest(tag, g)
        except BaseException as e:  # noqa
            ctx = e.__context__
            print(f"[{tag}] RAISED {type(e).__name__}: {str(e)[:200]!r} "
                  f"context={type(ctx).__name__ if ctx is not None else None} "
                  f"cause={type(e.__cause__).__name__ if e.__cause__ is not None else None}")
        for x in w:
            print(f"   warning {x.category.__name__}: {str(x.message)[:120]!r} "
                  f"file={os.path.basename(x.filename)}")


# ---- 1. path inputs, every non-empty sample format -------------------------
paths = [
    "ugrid/quad-hexagon/grid.nc",
    "ugrid/geoflow-small/grid.nc",
    "ugrid/outCSne30/outCSne30.ug",
    "ugrid/fesom/fesom.mesh.diag.nc",
    "mpas/QU/mesh.QU.1920km.151026.nc",
    "scrip/outCSne8/outCSne8.nc",
    "exodus/outCSne8/outCSne8.g",
    "exodus/mixed/mixed.exo",
    "esmf/ne30/ne30pg3.grid.nc",
    "geos-cs/c12/test-c12.native.nc4",
]
for p in paths:
    full = os.path.join(MESH, p)
    attempt("path str " + p, lambda: ux.open_grid(full))

from pathlib import Path

attempt("pathlib", lambda: ux.open_grid(Path(MESH) / "ugrid/quad-hexagon/grid.nc"))
attempt("mpas dual", lambda: ux.open_grid(os.path.join(MESH, "mpas/QU/mesh.QU.1920km.151026.nc"), use_dual=True))
attempt("mpas dual positional",
        lambda: ux.open_grid(os.path.join(MESH, "mpas/QU/mesh.QU.1920km.151026.nc"), False, True))

# ---- 2. keyword arguments reaching xarray.open_dataset ---------------------
qh = os.path.join(MESH, "ugrid/quad-hexagon/grid.nc")
attempt("kw engine", lambda: ux.open_grid(qh, engine="netcdf4"))
attempt("kw engine scipy/h5 (may fail)", lambda: ux.open_grid(qh, engine="h5netcdf"))
attempt("kw decode_times+mask_and_scale", lambda: ux.open_grid(qh, decode_times=False, mask_and_scale=False))
attempt("kw chunks", lambda: ux.open_grid(qh, chunks={}))
attempt("kw decode_cf False", lambda: ux.open_grid(os.path.join(MESH, "scrip/outCSne8/outCSne8.nc"), decode_cf=False))
attempt("kw drop_variables (breaks format)",
        lambda: ux.open_grid(os.path.join(MESH, "scrip/outCSne8/outCSne8.nc"),
                             drop_variables=["grid_center_lon"]))
attempt("kw drop_variables mpas", lambda: ux.open_grid(os.path.join(MESH, "mpas/QU/mesh.QU.1920km.151026.nc"),
                                                        drop_variables=["cellsOnCell", "edgesOnCell"]))
attempt("kw bogus", lambda: ux.open_grid(qh, not_a_kwarg=1))
attempt("kw source_grid", lambda: ux.open_grid(qh, source_grid="x"))
attempt("kw bad engine", lambda: ux.open_grid(qh, engine="nope"))
attempt("kw filename_or_obj clash", lambda: ux.open_grid(qh, filename_or_obj=qh))
attempt("kw use_dual on ugrid", lambda: ux.open_grid(qh, use_dual=True))
attempt("kw latlon on path", lambda: ux.open_grid(qh, latlon=True))

# the caller's own dict is not modified
kw = {"decode_times": False}
attempt("kw dict splat", lambda: ux.open_grid(qh, **kw))
print("kw after:", kw)

# ---- 3. failing path inputs -----------------------------------------------
attempt("missing file", lambda: ux.open_grid(os.path.join(MESH, "does/not/exist.nc")))
attempt("empty icon file", lambda: ux.open_grid(os.path.join(MESH, "icon/icon_grid_0010_R02B04_G.nc")))
attempt("shp path", lambda: ux.open_grid(os.path.join(MESH, "shp/5poly/5poly.shp")))
attempt("int input", lambda: ux.open_grid(12345))
attempt("None input", lambda: ux.open_grid(None))
attempt("float input", lambda: ux.open_grid(1.5))
attempt("set input", lambda: ux.open_grid({1, 2, 3}))
attempt("bytes input", lambda: ux.open_grid(b"not a netcdf"))

# unrecognised content written to a file -> RuntimeError from format sniffing (not wrapped)
tmpd = os.path.join(os.path.dirname(os.path.abspath(__file__)), "tmp_equiv")
os.makedirs(tmpd, exist_ok=True)
junk = os.path.join(tmpd, "junk.nc")
xr.Dataset({"a": ("x", np.arange(3.0))}).to_netcdf(junk)
attempt("unrecognised file", lambda: ux.open_grid(junk))

# ---- 4. Dataset inputs -----------------------------------------------------
ds_qh = xr.open_dataset(qh)
attempt("dataset ugrid", lambda: ux.open_grid(ds_qh))
attempt("dataset ugrid kwargs ignored", lambda: ux.open_grid(ds_qh, decode_times=False))
attempt("dataset ugrid source_grid", lambda: ux.open_grid(ds_qh, source_grid="x"))
ds_mp = xr.open_dataset(os.path.join(MESH, "mpas/QU/mesh.QU.1920km.151026.nc"))
attempt("dataset mpas primal", lambda: ux.open_grid(ds_mp))
attempt("dataset mpas dual", lambda: ux.open_grid(ds_mp, use_dual=True))
attempt("dataset junk", lambda: ux.open_grid(xr.Dataset({"a": ("x", np.arange(3.0))})))
attempt("dataset empty", lambda: ux.open_grid(xr.Dataset()))

# synthetic UGRID dialects: one-based, int32, own fill value, 0..360 longitudes, mixed faces
def synth_ugrid(start_index, dtype, fill, lon360, dimnames=("nMesh2_node", "nMesh2_face", "nMaxMesh2_face_nodes")):
    lon = np.array([350.0, 10.0, 10.0, 350.0, 0.0, 20.0, 20.0]) if lon360 else \
        np.array([-10.0, 10.0, 10.0, -10.0, 0.0, 20.0, 20.0])
    lat = np.array([-10.0, -10.0, 10.0, 10.0, 25.0, -5.0, 5.0])
    conn = np.array([[0, 1, 2, 3], [3, 2, 4, -1], [1, 5, 6, 2]], dtype=np.int64)
    pad = conn < 0
    conn = conn + start_index
    conn = conn.astype(dtype)
    conn[pad] = fill
    nd, fd, md = dimnames
    ds = xr.Dataset()
    ds["Mesh2"] = xr.DataArray(0, attrs={"cf_role": "mesh_topology", "topology_dimension": 2,
                                         "node_coordinates": "Mesh2_node_x Mesh2_node_y",
                                         "face_node_connectivity": "Mesh2_face_nodes"})
    ds["Mesh2_node_x"] = xr.DataArray(lon, dims=[nd], attrs={"standard_name": "longitude"})
    ds["Mesh2_node_y"] = xr.DataArray(lat, dims=[nd], attrs={"standard_name": "latitude"})
    attrs = {"cf_role": "face_node_connectivity", "_FillValue": fill}
    if start_index is not None:
        attrs["start_index"] = start_index
    ds["Mesh2_face_nodes"] = xr.DataArray(conn, dims=[fd, md], attrs=attrs)
    return ds


for si, dt, fv, l360 in [(0, np.int32, -1, False), (1, np.int32, -999, True), (1, np.int64, 0, True),
                         (0, np.float64, np.nan, True), (1, np.float64, -1.0, False)]:
    ds_s = synth_ugrid(si, dt, fv, l360)
    attempt(f"synth ugrid si={si} dt={np.dtype(dt)} fill={fv} lon360={l360}", lambda: ux.open_grid(ds_s))
    pth = os.path.join(tmpd, f"synth_{si}_{np.dtype(dt)}_{l360}.nc")
    try:
        ds_s.to_netcdf(pth)
        attempt(f"   same via file", lambda: ux.open_grid(pth))
        attempt(f"   same via file, mask_and_scale False", lambda: ux.open_grid(pth, mask_and_scale=False))
    except Exception as e:
        print("   could not write:", type(e).__name__)

# ---- 5. dict (topology) inputs --------------------------------------------
topo = {
    "node_lon": np.array([-10.0, 10.0, 10.0, -10.0, 0.0]),
    "node_lat": np.array([-10.0, -10.0, 10.0, 10.0, 25.0]),
    "face_node_connectivity": np.array([[0, 1, 2, 3], [3, 2, 4, -1]]),
    "fill_value": -1,
}
attempt("dict topology", lambda: ux.open_grid(topo))
attempt("dict topology + ignored kwargs", lambda: ux.open_grid(topo, latlon=True, use_dual=True, engine="x"))
topo1 = dict(topo)
topo1["face_node_connectivity"] = np.array([[1, 2, 3, 4], [4, 3, 5, 0]], dtype=np.int32)
topo1["fill_value"] = 0
topo1["start_index"] = 1
attempt("dict topology one-based", lambda: ux.open_grid(topo1))
attempt("dict bad key", lambda: ux.open_grid({"nonsense": 1}))
attempt("dict empty", lambda: ux.open_grid({}))
attempt("dict missing fill", lambda: ux.open_grid({k: v for k, v in topo.items() if k != "fill_value"}))

# ---- 6. face-vertex inputs -------------------------------------------------
fv_list = [[[-10.0, -10.0], [10.0, -10.0], [10.0, 10.0], [-10.0, 10.0]],
           [[10.0, -10.0], [30.0, -10.0], [30.0, 10.0], [10.0, 10.0]]]
attempt("list latlon", lambda: ux.open_grid(fv_list, latlon=True))
attempt("list latlon positional", lambda: ux.open_grid(fv_list, True))
attempt("tuple latlon", lambda: ux.open_grid(tuple(map(tuple, (tuple(map(tuple, f)) for f in fv_list))), latlon=True))
attempt("ndarray latlon", lambda: ux.open_grid(np.array(fv_list), latlon=True))
attempt("ndarray single face latlon", lambda: ux.open_grid(np.array(fv_list[0]), latlon=True))
attempt("ndarray 350 lon", lambda: ux.open_grid(np.array(fv_list) + np.array([350.0, 0.0]), latlon=True))
cart = np.array([[[1.0, 0.0, 0.0], [0.0, 1.0, 0.0], [0.0, 0.0, 1.0]],
                 [[1.0, 0.0, 0.0], [0.0, 0.0, 1.0], [0.0, -1.0, 0.0]]])
attempt("ndarray cartesian", lambda: ux.open_grid(cart))
attempt("ndarray cartesian latlon False", lambda: ux.open_grid(cart, latlon=False))
attempt("DataArray", lambda: ux.open_grid(xr.DataArray(np.array(fv_list)), latlon=True))
attempt("ragged list", lambda: ux.open_grid([fv_list[0], fv_list[1][:3]], latlon=True))
attempt("1-d array", lambda: ux.open_grid(np.arange(3.0)))
attempt("empty list", lambda: ux.open_grid([]))
attempt("list + ignored kwargs", lambda: ux.open_grid(fv_list, latlon=True, engine="netcdf4", source_grid=1))

# ---- 7. open_dataset / open_mfdataset go through open_grid ------------------
def attempt_ds(tag, fn):
    with warnings.catch_warnings(record=True) as w:
        warnings.simplefilter("always")
        try:
            d = fn()
            print(f"[{tag}] {type(d).__name__} vars={sorted(d.data_vars)}")
            digest(tag + " .uxgrid", d.uxgrid)
        except BaseException as e:  # noqa
            print(f"[{tag}] RAISED {type(e).__name__}: {str(e)[:200]!r}")
        for x in w:
            print(f"   warning {x.category.__name__}: {str(x.message)[:120]!r}")


qd = os.path.join(MESH, "ugrid/quad-hexagon/data.nc")
attempt_ds("open_dataset", lambda: ux.open_dataset(qh, qd))
attempt_ds("open_dataset grid_kwargs", lambda: ux.open_dataset(qh, qd, grid_kwargs={"decode_times": False}))
attempt_ds("open_dataset bad grid_kwargs", lambda: ux.open_dataset(qh, qd, grid_kwargs={"bogus": 1}))
attempt_ds("open_mfdataset", lambda: ux.open_mfdataset(qh, [qd]))
attempt_ds("open_dataset dict grid", lambda: ux.open_dataset(topo, qd))

import inspect

print("signature:", inspect.signature(ux.open_grid))
print("public api:", [n for n in ("open_grid", "open_dataset", "open_mfdataset") if hasattr(ux, n)])

import shutil

shutil.rmtree(tmpd, ignore_errors=True)
