import sys, os; sys.path.insert(0, os.getcwd())
import hashlib
import warnings

warnings.filterwarnings("ignore")

import numba
import numpy as np
import xarray as xr
import uxarray as ux

assert os.path.abspath(ux.__file__).startswith(os.path.abspath(os.getcwd()) + os.sep), ux.__file__

MPAS = "test/meshfiles/mpas/QU/mesh.QU.1920km.151026.nc"  # ships its own edge tables
MIXED = "test/meshfiles/exodus/mixed/mixed.exo"  # triangles + quads (fill values)
QUADHEX = "test/meshfiles/ugrid/quad-hexagon/grid.nc"  # 4 faces, quads + hexagons
CSNE8 = "test/meshfiles/scrip/outCSne8/outCSne8.nc"
GEOFLOW = "test/meshfiles/ugrid/geoflow-small/grid.nc"


def h(a):
    a = np.ascontiguousarray(np.asarray(a))
    return f"{a.dtype}{list(a.shape)}:{hashlib.sha1(a.tobytes()).hexdigest()[:12]}"


def grid_digest(g):
    out = [f"nf={g.n_face} nn={g.n_node} ne={g.n_edge}"]
    for name in ("subgrid_face_indices", "subgrid_node_indices", "subgrid_edge_indices"):
        out.append(f"{name}={h(g._ds[name].values) if name in g._ds else None}")
    for name in (
        "face_node_connectivity",
        "edge_node_connectivity",
        "face_edge_connectivity",
        "edge_face_connectivity",
        "node_face_connectivity",
        "node_lon",
        "node_lat",
        "node_z",
        "edge_node_z",
        "face_lon",
        "edge_lat",
        "face_areas",
    ):
        try:
            v = getattr(g, name)
            out.append(f"{name}={h(v.values)}{list(v.dims)}{sorted(v.attrs)}")
        except Exception as e:  # noqa
            out.append(f"{name}=EXC {type(e).__name__}: {e}")
    out.append("vars=" + ",".join(map(str, g._ds.variables)))
    return " | ".join(out)


def show(r):
    if isinstance(r, tuple):
        return "(" + ", ".join(show(x) for x in r) + ")"
    if isinstance(r, ux.Grid):
        return "Grid: " + grid_digest(r)
    if isinstance(r, (ux.UxDataArray, xr.DataArray)):
        s = f"{type(r).__name__} name={r.name!r} dims={r.dims} data={h(r.values)}"
        if getattr(r, "uxgrid", None) is not None:
            s += " / " + grid_digest(r.uxgrid)
        return s
    if isinstance(r, np.ndarray):
        return f"ndarray {h(r)} {r.tolist() if r.size <= 24 else ''}"
    return repr(r)


def run(label, fn):
    try:
        print(label, "->", show(fn()))
    except Exception as e:  # noqa
        print(label, "-> EXC", type(e).__name__, str(e)[:300])


def prepare(g, history):
    if history == "edge_node_z":
        _ = g.edge_node_z
    elif history == "edges":
        _ = g.edge_node_connectivity, g.face_edge_connectivity, g.edge_face_connectivity
    elif history == "all":
        _ = g.node_z, g.edge_node_connectivity, g.edge_face_connectivity
        _ = g.node_face_connectivity, g.edge_lon, g.face_lon, g.edge_node_z
        _ = g.n_nodes_per_face, g.face_areas


for path in (QUADHEX, MIXED, MPAS, CSNE8, GEOFLOW):
    for history in ("fresh", "edge_node_z", "edges", "all"):
        print("=" * 20, path, history)
        g = ux.open_grid(path)
        vars_before = list(g._ds.variables)
        prepare(g, history)
        print("vars after history:", [v for v in g._ds.variables if v not in vars_before])

        node_lat = g.node_lat.values
        lats = [
            0.0,
            0.3,
            -0.3,
            45.0,
            -42.0,
            89.0,
            -89.0,
            89.9999,
            -89.9999,
            float(node_lat[0]),  # exactly a node's latitude
            float(node_lat[len(node_lat) // 2]),
            float(np.rad2deg(np.arcsin(g.node_z.values[3]))),
            float(node_lat.max()),
            float(node_lat.min()),
            np.float32(12.5),
            7,
        ]
        if path == QUADHEX:
            lats += [-4.98, -5.0, -5.1, -4.9]
        for lat in lats:
            for nthreads in (1, 2, 4):
                numba.set_num_threads(nthreads)
                run(f"edges lat={lat!r} t={nthreads}", lambda: g.get_edges_at_constant_latitude(lat))
                run(f"faces lat={lat!r} t={nthreads}", lambda: g.get_faces_at_constant_latitude(lat))
            numba.set_num_threads(4)
            run(f"edges fast kw lat={lat!r}", lambda: g.get_edges_at_constant_latitude(lat=lat, method="fast"))
            run(
                f"grid xsec lat={lat!r}",
                lambda: g.cross_section.constant_latitude(lat, return_face_indices=True),
            )
        print("vars after scans:", [v for v in g._ds.variables if v not in vars_before])

        # method handling
        for method in ("accurate", "Fast", "", None, 0, "slow"):
            run(f"edges method={method!r}", lambda: g.get_edges_at_constant_latitude(1.0, method))
            run(f"faces method={method!r}", lambda: g.get_faces_at_constant_latitude(1.0, method))
            run(f"xsec method={method!r}", lambda: g.cross_section.constant_latitude(1.0, method=method))
        # awkward latitudes
        for lat in (90.0, -90.0, 120.0, np.nan, np.inf, "10", None, [1.0, 2.0]):
            run(f"edges lat={lat!r}", lambda: g.get_edges_at_constant_latitude(lat))
            run(f"faces lat={lat!r}", lambda: g.get_faces_at_constant_latitude(lat))

        # edge_node_z caching / aliasing
        z1 = g.edge_node_z
        z2 = g.edge_node_z
        print(
            "edge_node_z:",
            h(z1.values),
            z1.dims,
            dict(z1.attrs),
            z1.name,
            "same data:", np.shares_memory(z1.values, z2.values),
            "in ds:", "edge_node_z" in g._ds,
            "shares node_z:", np.shares_memory(z1.values, g.node_z.values),
        )
        print(
            "agrees with node_z:",
            np.array_equal(z1.values, g.node_z.values[g.edge_node_connectivity.values]),
        )

        # data carried along a cross-section, and a cross-section of a subset
        rng = np.random.default_rng(3)
        fd = ux.UxDataArray(rng.random((2, g.n_face)), dims=["time", "n_face"], name="fd", uxgrid=g)
        ed = ux.UxDataArray(np.arange(g.n_edge), dims=["n_edge"], name="ed", uxgrid=g)
        for lat in (0.3, 33.0, 89.9999, float(node_lat[0])):
            run(f"fd xsec {lat!r}", lambda: fd.cross_section.constant_latitude(lat))
            run(f"ed xsec {lat!r}", lambda: ed.cross_section.constant_latitude(lat))
        sub = g.isel(n_face=np.arange(g.n_face)[::-1][: max(3, g.n_face // 2)])
        print("sub:", grid_digest(sub))
        for lat in (0.3, -10.0, float(sub.node_lat.values[0])):
            run(f"sub edges {lat!r}", lambda: sub.get_edges_at_constant_latitude(lat))
            run(f"sub faces {lat!r}", lambda: sub.get_faces_at_constant_latitude(lat))
            run(f"sub xsec {lat!r}", lambda: sub.cross_section.constant_latitude(lat, True))
        print("source after:", grid_digest(g))

# tiny hand-made grids: a single triangle (boundary edges only) and two faces sharing an edge
tri = ux.Grid.from_topology(
    node_lon=np.array([0.0, 10.0, 5.0]),
    node_lat=np.array([-5.0, -5.0, 5.0]),
    face_node_connectivity=np.array([[0, 1, 2]]),
)
two = ux.Grid.from_topology(
    node_lon=np.array([0.0, 10.0, 10.0, 0.0, 20.0]),
    node_lat=np.array([-5.0, -5.0, 5.0, 5.0, 0.0]),
    face_node_connectivity=np.array([[0, 1, 2, 3], [1, 4, 2, ux.INT_FILL_VALUE]]),
    fill_value=ux.INT_FILL_VALUE,
)
for name, g in (("tri", tri), ("two", two)):
    for lat in (0.0, 4.999, 5.0, -5.0, -4.0, 2.5, 6.0):
        run(f"{name} edges {lat}", lambda: g.get_edges_at_constant_latitude(lat))
        run(f"{name} faces {lat}", lambda: g.get_faces_at_constant_latitude(lat))
        run(f"{name} xsec {lat}", lambda: g.cross_section.constant_latitude(lat, return_face_indices=True))
    print(name, grid_digest(g))
