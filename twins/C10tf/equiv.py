import sys, os; sys.path.insert(0, os.getcwd())
# set iteration order (it shows up in some xarray error messages) depends on string hashing: pin it
if os.environ.get("PYTHONHASHSEED") != "0":
    os.environ["PYTHONHASHSEED"] = "0"
    os.execv(sys.executable, [sys.executable] + sys.argv)
import warnings; warnings.filterwarnings("ignore")
import hashlib
import numpy as np
import xarray as xr
import dask.array as da
import uxarray as ux
assert os.path.abspath(ux.__file__).startswith(os.path.abspath(os.getcwd()) + os.sep), ux.__file__
from uxarray.constants import INT_FILL_VALUE as F


def digest(a):
    a = np.asarray(a)
    return f"{a.dtype}{a.shape}:{hashlib.sha1(np.ascontiguousarray(a).tobytes()).hexdigest()[:16]}"


def grid_digest(g):
    parts = [f"n_node={g.n_node} n_edge={g.n_edge} n_face={g.n_face}", f"vars={sorted(map(str, g._ds.variables))}"]
    for name in ("face_node_connectivity", "node_lon", "node_lat", "subgrid_node_indices", "subgrid_edge_indices",
                 "subgrid_face_indices"):
        if name in g._ds:
            parts.append(f"{name}={digest(g._ds[name].values)}")
    return " ".join(parts)


def show(tag, r, grid=None):
    line = f"{tag}: {type(r).__module__}.{type(r).__name__}"
    if isinstance(r, xr.DataArray):
        line += f" name={r.name!r} dims={r.dims} sizes={dict(r.sizes)}"
        line += f" coords={[(str(k), v.dims, digest(v.values)) for k, v in sorted(r.coords.items(), key=lambda kv: str(kv[0]))]}"
        line += f" attrs={dict(r.attrs)} chunked={r.chunks is not None} {digest(r.values)}"
        if r.size <= 16:
            line += f" vals={np.asarray(r.values).tolist()!r}"
        g = getattr(r, "uxgrid", None)
        if grid is not None:
            line += f" same_grid={g is grid}"
        if g is not None:
            for dim, n in (("n_node", g.n_node), ("n_edge", g.n_edge), ("n_face", g.n_face)):
                if dim in r.dims:
                    line += f" {dim}_ok={r.sizes[dim] == n}"
            if g is not grid:
                line += " GRID[" + grid_digest(g) + "]"
    elif isinstance(r, ux.Grid):
        line += " GRID[" + grid_digest(r) + "]"
    else:
        line += f" {r!r}"
    print(line)


def attempt(tag, fn, grid=None):
    try:
        r = fn()
    except Exception as e:  # noqa
        print(f"{tag}: RAISED {type(e).__name__}: {str(e)[:200]}")
        return None
    show(tag, r, grid)
    return r


def mixed_grid():
    lon = np.array([0.0, 10.0, 20.0, 0.0, 10.0, 20.0, 5.0, 15.0])
    lat = np.array([0.0, 0.0, 0.0, 10.0, 10.0, 10.0, 18.0, 18.0])
    fnc = np.array([[0, 1, 4, 3], [1, 2, 5, 4], [3, 4, 6, F], [4, 5, 7, F]])
    return ux.Grid.from_topology(lon, lat, fnc, fill_value=F)


def tri_grid():
    lon = np.array([1.0, 11.0, 6.0, 16.0])
    lat = np.array([1.0, 1.0, 9.0, 9.0])
    fnc = np.array([[0, 1, 2], [1, 3, 2]])
    return ux.Grid.from_topology(lon, lat, fnc)


def penta_grid():
    lon = np.array([0.0, 10.0, 14.0, 5.0, -4.0, 20.0, 24.0, 30.0])
    lat = np.array([0.0, 0.0, 9.0, 15.0, 9.0, 0.0, 9.0, 4.0])
    fnc = np.array([[0, 1, 2, 3, 4], [1, 5, 6, 2, F], [5, 7, 6, F, F]])
    return ux.Grid.from_topology(lon, lat, fnc, fill_value=F)


rng = np.random.default_rng(2010)
grids = {"mixed": mixed_grid, "tri": tri_grid, "penta": penta_grid,
         "geoflow": lambda: ux.open_grid("test/meshfiles/ugrid/geoflow-small/grid.nc")}

for gname, make in grids.items():
    g = make()
    print(f"== grid {gname}: n_node={g.n_node} n_edge={g.n_edge} n_face={g.n_face}")
    sizes = {"n_node": g.n_node, "n_edge": g.n_edge, "n_face": g.n_face}
    arrays = {}
    for dim, n in sizes.items():
        arrays[f"{dim}/1d"] = ux.UxDataArray(rng.normal(size=n), dims=[dim], uxgrid=g, name="a")
        arrays[f"{dim}/2d"] = ux.UxDataArray(rng.integers(-9, 9, size=(3, n)).astype(np.int16), dims=["time", dim], uxgrid=g,
                                             name="b", coords={"time": [10, 20, 30], "eid": (dim, np.arange(n) * 10)},
                                             attrs={"units": "K"})
        arrays[f"{dim}/2dnc"] = ux.UxDataArray(rng.integers(-9, 9, size=(3, n)).astype(np.int16), dims=["time", dim], uxgrid=g,
                                               name="c", coords={"time": [10, 20, 30]}, attrs={"units": "K"})
        arrays[f"{dim}/T"] = ux.UxDataArray(rng.normal(size=(n, 2)), dims=[dim, "lev"], uxgrid=g)
        arrays[f"{dim}/dask"] = ux.UxDataArray(da.from_array(rng.normal(size=(2, n)), chunks=(1, n)), dims=["step", dim],
                                               uxgrid=g, name="d")
    arrays["face+node"] = ux.UxDataArray(rng.normal(size=(g.n_face, g.n_node)), dims=["n_face", "n_node"], uxgrid=g, name="fn")
    arrays["node+edge"] = ux.UxDataArray(rng.normal(size=(g.n_node, g.n_edge)), dims=["n_node", "n_edge"], uxgrid=g, name="ne")
    arrays["nogrid"] = ux.UxDataArray(np.arange(6.0).reshape(2, 3), dims=["x", "y"], uxgrid=g, name="xy")
    if gname == "geoflow":
        arrays = {k: v for k, v in arrays.items() if k.endswith("/2dnc") or k in ("face+node", "n_face/2d")}

    def indexers(n):
        return {
            "list": [0, n - 1], "first": [0], "scalar": 1, "npint": np.int64(0), "neg": [-1], "dup": [1, 1, 0],
            "array": np.array([1, 0]), "slice": slice(0, 2), "slice_step": slice(None, None, 2), "empty": [],
            "bool": np.arange(n) % 2 == 0, "oob": [n + 5], "float": [0.0], "tuple": (0, 1),
            "xr": xr.DataArray([0, 1], dims=["k"]), "all": np.arange(n), "2d": np.array([[0, 1]]),
        }

    for aname, uxda in arrays.items():
        for dim, n in sizes.items():
            for iname, idx in indexers(n).items():
                if gname == "geoflow" and iname not in ("list", "scalar", "slice", "array", "empty"):
                    continue
                attempt(f"{gname}/{aname}/isel({dim}={iname})", lambda: uxda.isel(**{dim: idx}), g)
            # dictionary form, ignore_grid, drop, missing_dims
            attempt(f"{gname}/{aname}/isel(dict {dim})", lambda: uxda.isel({dim: [0, 1]}), g)
            attempt(f"{gname}/{aname}/isel({dim}, ignore_grid)", lambda: uxda.isel(**{dim: [0, 1]}, ignore_grid=True), g)
            attempt(f"{gname}/{aname}/isel({dim}, ignore_grid, missing ignore)",
                    lambda: uxda.isel(**{dim: [0, 1]}, ignore_grid=True, missing_dims="ignore"), g)
            attempt(f"{gname}/{aname}/isel({dim}, ignore_grid=1)", lambda: uxda.isel({dim: [0]}, False, "raise", 1), g)
            attempt(f"{gname}/{aname}/isel({dim}+time)", lambda: uxda.isel(**{dim: [0, 1]}, time=0), g)
            attempt(f"{gname}/{aname}/isel({dim} drop)", lambda: uxda.isel(**{dim: 0}, drop=True), g)
        attempt(f"{gname}/{aname}/isel(two grid dims)", lambda: uxda.isel(n_face=[0], n_node=[0]), g)
        attempt(f"{gname}/{aname}/isel(three grid dims)", lambda: uxda.isel(n_face=[0], n_node=[0], n_edge=[0]), g)
        attempt(f"{gname}/{aname}/isel(two grid dims ignore)", lambda: uxda.isel(n_face=[0], n_node=[0], ignore_grid=True), g)
        attempt(f"{gname}/{aname}/isel(both dict+kw)", lambda: uxda.isel({"n_face": [0]}, n_node=[0]), g)
        attempt(f"{gname}/{aname}/isel(time)", lambda: uxda.isel(time=[0, 2]), g)
        attempt(f"{gname}/{aname}/isel(time scalar drop)", lambda: uxda.isel(time=1, drop=True), g)
        attempt(f"{gname}/{aname}/isel(bogus)", lambda: uxda.isel(bogus=0), g)
        attempt(f"{gname}/{aname}/isel(bogus ignore)", lambda: uxda.isel(bogus=0, missing_dims="ignore"), g)
        attempt(f"{gname}/{aname}/isel()", lambda: uxda.isel(), g)
        attempt(f"{gname}/{aname}/isel(non-dict)", lambda: uxda.isel([0, 1]), g)
        attempt(f"{gname}/{aname}/getitem", lambda: uxda[..., 0:2], g)
        # _slice_from_grid directly and through the subset accessor
        sg = g.isel(n_face=[0, 1])
        attempt(f"{gname}/{aname}/_slice_from_grid", lambda: uxda._slice_from_grid(sg), g)
        attempt(f"{gname}/{aname}/_slice_from_grid(unsliced)", lambda: uxda._slice_from_grid(g), g)
        attempt(f"{gname}/{aname}/subset.nn nodes", lambda: uxda.subset.nearest_neighbor((5.0, 5.0), k=2, element="nodes"), g)
        attempt(f"{gname}/{aname}/subset.nn faces", lambda: uxda.subset.nearest_neighbor((5.0, 5.0), k=1, element="face centers"), g)
        attempt(f"{gname}/{aname}/subset.circle", lambda: uxda.subset.bounding_circle((5.0, 5.0), 9.0, element="nodes"), g)
        attempt(f"{gname}/{aname}/subset.box", lambda: uxda.subset.bounding_box((-1.0, 12.0), (-1.0, 12.0), element="nodes"), g)
        # compositions
        attempt(f"{gname}/{aname}/comp1", lambda: (uxda * 2).isel(n_face=[0, 1]).isel(n_node=[0]), g)
        attempt(f"{gname}/{aname}/comp2", lambda: uxda.isel(n_edge=[0]).isel(n_face=[0]) + 1, g)
        attempt(f"{gname}/{aname}/comp3", lambda: uxda.isel(n_face=[1, 0]).copy(deep=True).isel(n_face=[0]), g)
        attempt(f"{gname}/{aname}/comp4", lambda: uxda.isel(n_node=[0, 1, 2]).transpose().isel(n_face=slice(0, 1)), g)
    a = arrays.get("n_face/2dnc")
    attempt(f"{gname}/comp5", lambda: a.isel(n_face=[0, 1]).gradient(), g)
    attempt(f"{gname}/comp6", lambda: a.isel(n_face=[0, 1]).difference("edge").isel(n_edge=[0]), g)
    attempt(f"{gname}/comp7", lambda: a.isel(n_face=[0, 1]).integrate(), g)
    attempt(f"{gname}/comp8", lambda: arrays["n_node/2dnc"].isel(n_node=[0]).topological_mean("face").isel(time=0), g)
    attempt(f"{gname}/comp9", lambda: a.isel(n_face=[0, 1]).remap.nearest_neighbor(g, "nodes").isel(n_node=[3]), g)
    attempt(f"{gname}/comp10", lambda: xr.concat([a, a], "time").cumsum("time").isel(n_face=[1]).mean("time"), g)
    # Grid.isel itself
    for dim, n in sizes.items():
        for iname, idx in indexers(n).items():
            if gname == "geoflow" and iname not in ("list", "scalar", "slice", "array", "empty"):
                continue
            attempt(f"{gname}/Grid.isel({dim}={iname})", lambda: g.isel(**{dim: idx}))
    attempt(f"{gname}/Grid.isel()", lambda: g.isel())
    attempt(f"{gname}/Grid.isel(two)", lambda: g.isel(n_face=[0], n_node=[0]))
    attempt(f"{gname}/Grid.isel(bogus)", lambda: g.isel(bogus=[0]))
    attempt(f"{gname}/Grid.isel(time)", lambda: g.isel(time=0))
    attempt(f"{gname}/Grid.isel(positional)", lambda: g.isel({"n_face": [0]}))
    attempt(f"{gname}/Grid.isel(nested)", lambda: g.isel(n_face=[0, 1]).isel(n_node=[0]).isel(n_edge=[0]))
    # the source grid is left as it was
    print(f"{gname}/source grid after: {grid_digest(g)}")
