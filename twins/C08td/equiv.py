import sys, os; sys.path.insert(0, os.getcwd())
import hashlib, warnings
import numpy as np
import xarray as xr
import uxarray as ux

assert os.path.abspath(ux.__file__).startswith(os.path.abspath(os.getcwd()) + os.sep), ux.__file__
warnings.simplefilter("ignore")

M = os.path.join(os.getcwd(), "test", "meshfiles")
PATHS = {
    "mixed_exo": os.path.join(M, "exodus", "mixed", "mixed.exo"),
    "scrip_ne8": os.path.join(M, "scrip", "outCSne8", "outCSne8.nc"),
    "ugrid_quadhex": os.path.join(M, "ugrid", "quad-hexagon", "grid.nc"),
    "ugrid_geoflow": os.path.join(M, "ugrid", "geoflow-small", "grid.nc"),
    "mpas_QU1920": os.path.join(M, "mpas", "QU", "mesh.QU.1920km.151026.nc"),
}


def h(a):
    a = np.asarray(a)
    if a.dtype == object:
        return "obj:" + repr(a.tolist())[:200]
    return "%s%s:%s" % (a.dtype, a.shape, hashlib.sha1(np.ascontiguousarray(a).tobytes()).hexdigest()[:16])


def attr_digest(attrs):
    out = []
    for k in sorted(attrs):
        v = attrs[k]
        if isinstance(v, np.ndarray):
            out.append((k, h(v)))
        elif isinstance(v, str) and ("uxarray" in v.lower() or ":" in v and "/" in v):
            # creation stamps (date/time) are not deterministic
            out.append((k, "<stamp>"))
        else:
            out.append((k, repr(v)[:120]))
    return out


def ds_digest(ds):
    lines = ["  dims=%r" % dict(sorted(ds.sizes.items()))]
    for name in sorted(ds.variables):
        v = ds[name]
        # qa_records holds the creation date and time: only its dtype/shape are deterministic
        val = "%s%s:<stamp>" % (v.dtype, v.shape) if name == "qa_records" else h(v.values)
        lines.append("  %s %r %s coord=%s attrs=%r" % (name, v.dims, val, name in ds.coords, attr_digest(v.attrs)))
    lines.append("  gattrs=%r" % sorted(ds.attrs))
    return "\n".join(lines)


def hand_made():
    # mixed triangle / quad / pentagon faces, fill values, longitudes above 180
    lon = np.array([350.0, 10.0, 10.0, 350.0, 0.0, 20.0, 20.0, 30.0])
    lat = np.array([-5.0, -5.0, 5.0, 5.0, 12.0, 0.0, 8.0, 4.0])
    fv = ux.INT_FILL_VALUE
    conn = np.array([[0, 1, 2, 3, fv], [3, 2, 4, fv, fv], [1, 5, 7, 6, 2]], dtype=ux.INT_DTYPE)
    return ux.Grid.from_topology(lon, lat, conn, fill_value=fv)


def open_grid(name):
    if name == "hand":
        return hand_made()
    return ux.open_grid(PATHS[name])


def attempt(label, fn):
    try:
        r = fn()
    except Exception as e:  # the exception type and message are part of the behaviour
        print(label, "RAISED", type(e).__name__, repr(e.args)[:300])
        return None
    print(label)
    print(ds_digest(r))
    return r


names = ["hand", "mixed_exo", "scrip_ne8", "ugrid_quadhex", "ugrid_geoflow", "mpas_QU1920"]

# 1. every format on a fresh grid, both entry points
for name in names:
    for fmt in ["ugrid", "exodus", "scrip"]:
        attempt("to_xarray %s %s" % (name, fmt), lambda: open_grid(name).to_xarray(fmt))
    for fmt in ["UGRID", "Exodus", "SCRIP"]:
        attempt("encode_as %s %s" % (name, fmt), lambda: open_grid(name).encode_as(fmt))

# 2. invalid names: each entry point keeps its own error; the other entry point's spelling is not accepted
g = hand_made()
for bad in ["UGRID", "Exodus", "SCRIP", "esmf", "", None, 3, ("ugrid",), ["ugrid"], np.str_("ugrid"), np.array(["ugrid"])]:
    attempt("to_xarray bad %r" % (bad,), lambda: g.to_xarray(bad))
for bad in ["ugrid", "exodus", "scrip", "EXODUS", "Scrip", "", None, 3, ("UGRID",), ["UGRID"], np.str_("SCRIP"), np.array(["UGRID"])]:
    attempt("encode_as bad %r" % (bad,), lambda: g.encode_as(bad))
attempt("to_xarray default", lambda: g.to_xarray())

# 3. warnings emitted by encode_as (category and text), none by to_xarray
with warnings.catch_warnings(record=True) as w:
    warnings.simplefilter("always")
    hand_made().encode_as("UGRID")
    try:
        hand_made().encode_as("nope")
    except RuntimeError:
        pass
    n_encode = len(w)
    hand_made().to_xarray("ugrid")
    print("warnings", [(x.category.__name__, str(x.message)) for x in w if "encode_as" in str(x.message)], n_encode, len(w))

# 4. history: exports after derived variables were computed; exports do not share memory with the grid
for name in ["hand", "mixed_exo", "ugrid_quadhex", "mpas_QU1920"]:
    g = open_grid(name)
    before = sorted(g._ds.variables)
    _ = g.edge_node_connectivity, g.face_edge_connectivity, g.face_areas, g.face_lon, g.node_x, g.n_nodes_per_face
    mid = sorted(g._ds.variables)
    u1 = attempt("hist %s ugrid(to_xarray)" % name, lambda: g.to_xarray("ugrid"))
    u2 = attempt("hist %s ugrid(encode_as)" % name, lambda: g.encode_as("UGRID"))
    s1 = attempt("hist %s scrip(to_xarray)" % name, lambda: g.to_xarray("scrip"))
    s2 = attempt("hist %s scrip(encode_as)" % name, lambda: g.encode_as("SCRIP"))
    e1 = attempt("hist %s exodus(to_xarray)" % name, lambda: g.to_xarray("exodus"))
    after = sorted(g._ds.variables)
    print("hist", name, "vars before/mid/after", before, mid, after, mid == after)
    shared = []
    for out in (u1, u2, s1, s2, e1):
        if out is None:
            continue
        for vn in out.variables:
            for gn in g._ds.variables:
                if np.shares_memory(out[vn].values, g._ds[gn].values):
                    shared.append((vn, gn))
    print("hist", name, "shared", shared)
    print("hist", name, "attrs of grid edge_node_connectivity", sorted(g._ds["edge_node_connectivity"].attrs))
    print("hist", name, "grid state")
    print(ds_digest(g._ds))
    # mutating an export leaves the grid alone
    if u1 is not None:
        u1["node_lon"].values[:] = -999.0
        u1["face_node_connectivity"].values[:] = 7
        print("hist", name, "after mutation", h(g.node_lon.values), h(g.face_node_connectivity.values))

# 5. module-level templates untouched
import uxarray.conventions.ugrid as cu, uxarray.conventions.descriptors as cd
for mod in (cu, cd):
    for k in sorted(vars(mod)):
        if k.isupper():
            print(mod.__name__, k, repr(getattr(mod, k)))
