import sys, os

sys.path.insert(0, os.getcwd())

import hashlib
import warnings

import numpy as np

import uxarray as ux

assert os.path.abspath(ux.__file__).startswith(os.path.abspath(os.getcwd()) + os.sep), ux.__file__

warnings.filterwarnings("ignore")

from uxarray.grid.slice import (
    _slice_face_indices,
    _slice_node_indices,
    _slice_edge_indices,
)

MESH = os.path.join(os.getcwd(), "test", "meshfiles")
GRIDS = {
    "quadhex": os.path.join(MESH, "ugrid", "quad-hexagon", "grid.nc"),
    "mixed": os.path.join(MESH, "exodus", "mixed", "mixed.exo"),
    "mpas": os.path.join(MESH, "mpas", "QU", "mesh.QU.1920km.151026.nc"),
    "ne8": os.path.join(MESH, "scrip", "outCSne8", "outCSne8.nc"),
    "geoflow": os.path.join(MESH, "ugrid", "geoflow-small", "grid.nc"),
}


def digest(arr):
    arr = np.ascontiguousarray(np.asarray(arr))
    return "%s %s %s" % (arr.dtype, arr.shape, hashlib.sha1(arr.tobytes()).hexdigest()[:16])


def describe(label, g):
    """Print everything stored in a (sub)grid's dataset plus a few derived quantities."""
    print("  [%s] dims=%s" % (label, sorted((k, int(v)) for k, v in g._ds.sizes.items())))
    for name in sorted(g._ds.variables):
        var = g._ds[name]
        attrs = {}
        for k in sorted(var.attrs):
            v = var.attrs[k]
            attrs[k] = digest(v) if isinstance(v, np.ndarray) else repr(v)
        print("    %-28s %s dims=%s attrs=%s" % (name, digest(var.values), var.dims, attrs))
    for derived in (
        "edge_node_connectivity",
        "face_edge_connectivity",
        "edge_face_connectivity",
        "node_face_connectivity",
        "n_nodes_per_face",
        "face_areas",
        "edge_node_distances",
    ):
        try:
            print("    derived %-24s %s" % (derived, digest(getattr(g, derived).values)))
        except Exception as e:  # noqa
            print("    derived %-24s EXC %s: %s" % (derived, type(e).__name__, e))


def attempt(label, fn, full=True):
    try:
        g = fn()
    except Exception as e:  # noqa
        print("  [%s] EXC %s: %s" % (label, type(e).__name__, e))
        return None
    if full:
        describe(label, g)
    else:
        for name in ("subgrid_face_indices", "subgrid_node_indices", "subgrid_edge_indices"):
            print("  [%s] %s %s" % (label, name, g._ds[name].values.tolist()[:40]))
    return g


for gname, path in GRIDS.items():
    for history in ("fresh", "edges-built"):
        print("=== %s / %s" % (gname, history))
        grid = ux.open_grid(path)
        if history == "edges-built":
            # materialise derived variables on the source before slicing
            grid.edge_node_connectivity
            grid.face_edge_connectivity
            grid.edge_face_connectivity
            grid.node_face_connectivity
            grid.edge_node_distances
            grid.edge_face_distances
            grid.edge_node_z
            try:
                grid.hole_edge_indices
            except Exception:
                pass
        nf, nn = grid.n_face, grid.n_node
        rng = np.random.default_rng(7)

        # face selections: unsorted, scalar, single element, numpy scalar, all, duplicated, empty
        sel = rng.permutation(nf)[: max(1, min(5, nf))]
        attempt("face unsorted %s" % sel.tolist(), lambda: grid.isel(n_face=sel))
        attempt("face scalar", lambda: grid.isel(n_face=nf - 1))
        attempt("face np scalar", lambda: grid.isel(n_face=np.int32(0)))
        attempt("face single list", lambda: grid.isel(n_face=[0]))
        attempt("face all", lambda: grid.isel(n_face=np.arange(nf)), full=(nf < 200))
        attempt("face tuple dup", lambda: grid.isel(n_face=(0, 0, nf - 1)))
        attempt("face empty", lambda: grid.isel(n_face=[]))
        attempt("face out of range", lambda: grid.isel(n_face=[nf]))
        attempt("face direct", lambda: _slice_face_indices(grid, [nf - 1, 0]))
        attempt("face exclusive", lambda: _slice_face_indices(grid, [0], inclusive=False))

        # node selections
        nsel = rng.permutation(nn)[: max(1, min(4, nn))]
        attempt("node unsorted %s" % nsel.tolist(), lambda: grid.isel(n_node=nsel))
        attempt("node scalar", lambda: grid.isel(n_node=0))
        attempt("node single", lambda: grid.isel(n_node=[nn - 1]))
        attempt("node all", lambda: grid.isel(n_node=np.arange(nn)), full=False)
        attempt("node empty", lambda: grid.isel(n_node=[]))
        attempt("node exclusive", lambda: _slice_node_indices(grid, [0], inclusive=False))
        attempt("node direct", lambda: _slice_node_indices(grid, np.array([1, 0])), full=False)

        # edge selections
        ne = grid.n_edge
        esel = rng.permutation(ne)[: max(1, min(4, ne))]
        attempt("edge unsorted %s" % esel.tolist(), lambda: grid.isel(n_edge=esel))
        attempt("edge scalar", lambda: grid.isel(n_edge=ne - 1))
        attempt("edge single", lambda: grid.isel(n_edge=[0]))
        attempt("edge all", lambda: grid.isel(n_edge=np.arange(ne)), full=False)
        attempt("edge empty", lambda: grid.isel(n_edge=[]))
        attempt("edge exclusive", lambda: _slice_edge_indices(grid, [0], inclusive=False))
        attempt("edge direct", lambda: _slice_edge_indices(grid, (0, 1)), full=False)

        # a subset of a subset
        sub = grid.isel(n_face=sel)
        attempt("nested", lambda: sub.isel(n_node=[0]))

        # the source must not be modified by slicing
        print("  source after: %s" % sorted(grid._ds.variables))
        for name in ("face_node_connectivity", "edge_node_connectivity"):
            if name in grid._ds:
                print("  source %s %s attrs=%s" % (name, digest(grid._ds[name].values), sorted(grid._ds[name].attrs)))

# data stays attached
print("=== data")
for gname in ("quadhex", "mixed", "mpas"):
    grid = ux.open_grid(GRIDS[gname])
    nf, nn, ne = grid.n_face, grid.n_node, grid.n_edge
    das = {
        "face1d": ux.UxDataArray(np.arange(nf) * 1.5, dims=["n_face"], uxgrid=grid, name="face1d"),
        "face2d": ux.UxDataArray(np.arange(3 * nf).reshape(3, nf), dims=["time", "n_face"], uxgrid=grid, name="face2d"),
        "node2d": ux.UxDataArray(np.arange(2 * nn).reshape(nn, 2), dims=["n_node", "lev"], uxgrid=grid, name="node2d"),
        "edge1d": ux.UxDataArray(np.arange(ne, dtype=np.float32), dims=["n_edge"], uxgrid=grid, name="edge1d"),
        "other": ux.UxDataArray(np.arange(4), dims=["x"], uxgrid=grid, name="other"),
    }
    for vname, da in das.items():
        for kw in ({"n_face": [nf - 1, 1]}, {"n_node": [0]}, {"n_edge": [2]}, {"n_face": 2}, {"n_face": [0], "n_node": [0]}):
            try:
                r = da.isel(**kw)
                print("  %s %s %s -> dims=%s %s faces=%s" % (gname, vname, kw, r.dims, digest(r.values), r.uxgrid._ds["subgrid_face_indices"].values.tolist()[:20]))
            except Exception as e:  # noqa
                print("  %s %s %s -> EXC %s: %s" % (gname, vname, kw, type(e).__name__, e))
