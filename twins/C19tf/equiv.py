import sys, os

sys.path.insert(0, os.getcwd())

import copy
import hashlib
import warnings

import numpy as np
import xarray as xr

import uxarray as ux
from uxarray.constants import INT_FILL_VALUE, INT_DTYPE

assert os.path.abspath(ux.__file__).startswith(os.path.abspath(os.getcwd()) + os.sep), ux.__file__

warnings.simplefilter("ignore")

MESH = os.path.join(os.getcwd(), "test", "meshfiles")


def h(arr):
    arr = np.asarray(arr)
    if arr.dtype.kind in "OUS":
        return "obj:" + hashlib.md5(repr(arr.tolist()).encode()).hexdigest()[:12]
    return hashlib.md5(np.ascontiguousarray(arr).tobytes()).hexdigest()[:12]


def attr_digest(attrs):
    out = []
    for k, v in attrs.items():
        if isinstance(v, np.ndarray):
            out.append((k, "ndarray", str(v.dtype), v.shape, h(v)))
        else:
            out.append((k, type(v).__name__, repr(v)[:60]))
    return out


def grid_digest(g):
    lines = ["  spec=%r dims_dict=%s" % (g.source_grid_spec, sorted((str(k), str(v)) for k, v in g._source_dims_dict.items()) if isinstance(g._source_dims_dict, dict) else repr(g._source_dims_dict))]
    lines.append("  ds dims=%s coords=%s attrs=%s" % (sorted(g._ds.sizes.items()), sorted(g._ds.coords), attr_digest(g._ds.attrs)))
    for name in g._ds.variables:
        v = g._ds[name]
        lines.append("  var %s dims=%s dtype=%s shape=%s hash=%s attrs=%s" % (
            name, v.dims, v.dtype, v.shape, h(v.values), attr_digest(v.attrs)))
    return "\n".join(lines)


def snapshot(ds):
    snap = {"attrs": repr(sorted((k, repr(v)) for k, v in ds.attrs.items())), "attr_order": list(ds.attrs), "vars": {}}
    for name in ds.variables:
        v = ds[name]
        snap["vars"][name] = (v.dims, str(v.dtype), h(v.values), repr(list(v.attrs.items())))
    snap["dims"] = sorted(ds.sizes.items())
    snap["coords"] = sorted(ds.coords)
    return snap


def shared(ds_a, ds_b):
    out = []
    for na in ds_a.variables:
        a = ds_a[na].values
        if a.dtype.kind in "OUS":
            continue
        for nb in ds_b.variables:
            b = ds_b[nb].values
            if b.dtype.kind in "OUS":
                continue
            if np.shares_memory(a, b):
                out.append((na, nb))
    return out


def attrs_identity(g, ds_in):
    out = ["ds.attrs" if g._ds.attrs is ds_in.attrs else None]
    for n in g._ds.variables:
        for m in ds_in.variables:
            if g._ds[n].attrs is ds_in[m].attrs:
                out.append((n, m))
    return [x for x in out if x]


def check(label, ds_in, **kw):
    print("=" * 12, label, kw)
    before = snapshot(ds_in)
    try:
        g = ux.Grid.from_dataset(ds_in, **kw)
    except Exception as e:
        print("  EXC", type(e).__name__, e.args)
        print("  input unchanged:", before == snapshot(ds_in))
        return None
    print(grid_digest(g))
    print("  grid._ds is input:", g._ds is ds_in)
    print("  input unchanged by constructor:", before == snapshot(ds_in))
    print("  shares memory with input:", shared(g._ds, ds_in))
    print("  attrs objects shared with input:", attrs_identity(g, ds_in))
    # lazy derivation + mutators
    try:
        _ = g.n_nodes_per_face
        _ = g.edge_node_connectivity
        _ = g.face_lon
        g.construct_face_centers()
        g.normalize_cartesian_coordinates()
    except Exception as e:
        print("  derivation EXC", type(e).__name__, str(e)[:80])
    print("  derived vars:", sorted(g._ds.variables))
    print("  input unchanged by derivations:", before == snapshot(ds_in))
    # copy
    g2 = g.copy()
    print("  copy shares with original:", shared(g2._ds, g._ds), " copy._ds is g._ds:", g2._ds is g._ds)
    g2._ds.attrs["copy_only"] = 1
    print("  attr written on copy visible in original/input:", "copy_only" in g._ds.attrs, "copy_only" in ds_in.attrs)
    g._ds.attrs.pop("copy_only", None)
    ds_in.attrs.pop("copy_only", None)
    return g


def small_ugrid_like():
    """Dataset that already follows the internal conventions (for custom source_grid_spec)."""
    return xr.Dataset(
        {
            "node_lon": (("n_node",), np.array([0.0, 190.0, 190.0, 0.0, 350.0])),
            "node_lat": (("n_node",), np.array([0.0, 0.0, 10.0, 10.0, 5.0])),
            "face_node_connectivity": (
                ("n_face", "n_max_face_nodes"),
                np.array([[0, 1, 2, 3], [1, 4, 2, INT_FILL_VALUE]], dtype=INT_DTYPE),
                {"_FillValue": INT_FILL_VALUE, "start_index": 0},
            ),
        },
        attrs={"origin": "equiv"},
    )


def small_icon():
    """Two triangles sharing an edge, in the layout of an ICON grid file (the ICON test file is
    empty in this checkout): transposed, one-based tables, entries <= 0 for missing neighbours."""
    vlon = np.deg2rad(np.array([0.0, 10.0, 10.0, 0.0]))
    vlat = np.deg2rad(np.array([0.0, 0.0, 10.0, 10.0]))
    return xr.Dataset(
        {
            "vlon": (("vertex",), vlon),
            "vlat": (("vertex",), vlat),
            "elon": (("edge",), np.deg2rad(np.array([5.0, 10.0, 5.0, 0.0, 5.0]))),
            "elat": (("edge",), np.deg2rad(np.array([0.0, 5.0, 10.0, 5.0, 5.0]))),
            "clon": (("cell",), np.deg2rad(np.array([6.6, 3.3]))),
            "clat": (("cell",), np.deg2rad(np.array([3.3, 6.6]))),
            "vertex_of_cell": (("nv", "cell"), np.array([[1, 1], [2, 3], [3, 4]], dtype=np.int32)),
            "edge_of_cell": (("nv", "cell"), np.array([[1, 5], [2, 3], [5, 4]], dtype=np.int32)),
            "neighbor_cell_index": (("nv", "cell"), np.array([[0, 1], [-1, 0], [2, -1]], dtype=np.int32)),
            "adjacent_cell_of_edge": (("nc", "edge"), np.array([[1, 1, 2, 2, 1], [0, 0, -1, 0, 2]], dtype=np.int32)),
            "edge_vertices": (("nc", "edge"), np.array([[1, 2, 3, 4, 1], [2, 3, 4, 1, 3]], dtype=np.int32)),
        },
        attrs={"grid_file_uri": "synthetic", "number_of_grid_used": 0},
    )


def main():
    files = {
        "exodus_mixed": ("exodus", "mixed", "mixed.exo"),
        "exodus_ne8": ("exodus", "outCSne8", "outCSne8.g"),
        "scrip_ne8": ("scrip", "outCSne8", "outCSne8.nc"),
        "ugrid_quad_hexagon": ("ugrid", "quad-hexagon", "grid.nc"),
        "ugrid_geoflow": ("ugrid", "geoflow-small", "grid.nc"),
        "mpas": ("mpas", "QU", "mesh.QU.1920km.151026.nc"),
        "esmf": ("esmf", "ne30", "ne30pg3.grid.nc"),
        "geos_cs": ("geos-cs", "c12", "test-c12.native.nc4"),
    }
    for label, rel in files.items():
        path = os.path.join(MESH, *rel)
        ds_in = xr.open_dataset(path)
        ds_in.load()
        check(label, ds_in)
        if label in ("mpas", "ugrid_quad_hexagon", "scrip_ne8"):
            # use_dual is honoured by MPAS/ICON and ignored elsewhere
            ds_in2 = xr.open_dataset(path)
            ds_in2.load()
            check(label + " use_dual", ds_in2, use_dual=True)
        # open_grid goes through from_dataset as well
        try:
            g = ux.open_grid(path)
            print("  open_grid:", g.source_grid_spec, [(n, h(g._ds[n].values)) for n in sorted(g._ds.variables)][:6])
        except Exception as e:
            print("  open_grid EXC", type(e).__name__, e.args)

    # ICON: primal mesh, dual mesh is refused by the reader
    check("icon synthetic", small_icon())
    check("icon synthetic use_dual False", small_icon(), use_dual=False)
    check("icon synthetic use_dual", small_icon(), use_dual=True)

    # custom source grid spec: Dataset object is not adopted, arrays of a shallow copy
    ds = small_ugrid_like()
    g = check("custom spec", ds, source_grid_spec="My Format")
    print("  longitudes of input after construction:", ds["node_lon"].values.tolist())
    print("  longitudes of grid:", g.node_lon.values.tolist())
    check("custom spec None", small_ugrid_like(), source_grid_spec=None)
    check("custom spec + use_dual", small_ugrid_like(), source_grid_spec="X", use_dual=True)
    check("custom spec positional use_dual", small_ugrid_like(), use_dual=False, source_grid_spec="UGRID")
    # extra keyword arguments are ignored
    check("unknown kwargs", small_ugrid_like(), source_grid_spec="Y", something_else=3)

    # invalid custom dataset: ValueError from Grid.__init__
    bad = small_ugrid_like().drop_vars("node_lon")
    check("custom spec, not a minimum grid", bad, source_grid_spec="Z")

    # not recognisable: detection fails before any reader is chosen
    check("unrecognised", small_ugrid_like())
    check("empty", xr.Dataset())
    check("unknown kwargs no spec", small_ugrid_like(), something_else=3)

    # non-dataset inputs
    for obj in [None, "path.nc", small_ugrid_like()["node_lon"], {"node_lon": 1}, 5]:
        try:
            ux.Grid.from_dataset(obj)
            print("non-dataset accepted?!", type(obj).__name__)
        except Exception as e:
            print("non-dataset %s -> %s %r" % (type(obj).__name__, type(e).__name__, e.args))
        try:
            ux.Grid.from_dataset(obj, source_grid_spec="Q")
        except Exception as e:
            print("non-dataset %s with spec -> %s %r" % (type(obj).__name__, type(e).__name__, e.args))

    # UxDataset wraps xr.Dataset: accepted as a Dataset
    path = os.path.join(MESH, "ugrid", "quad-hexagon", "grid.nc")
    try:
        uxds = ux.open_dataset(path, os.path.join(MESH, "ugrid", "quad-hexagon", "data.nc"))
        print("uxds grid:", uxds.uxgrid.source_grid_spec, sorted(uxds.uxgrid._ds.variables))
    except Exception as e:
        print("open_dataset EXC", type(e).__name__, str(e)[:80])

    # readers are looked up when from_dataset is called (module attribute patched afterwards)
    import uxarray.grid.grid as gridmod

    calls = []
    orig = gridmod._read_ugrid

    def spy(dsx):
        calls.append("ugrid")
        return orig(dsx)

    gridmod._read_ugrid = spy
    try:
        dsq = xr.open_dataset(path)
        g = ux.Grid.from_dataset(dsq)
        print("patched reader used:", calls, g.source_grid_spec)
    finally:
        gridmod._read_ugrid = orig

    # a reader that reports an unsupported kind
    orig_parse = gridmod._parse_grid_type
    for fake in ["Shapefile", "Nonsense", "ugrid", None]:
        gridmod._parse_grid_type = lambda d, fake=fake: fake
        try:
            ux.Grid.from_dataset(xr.open_dataset(path))
            print("fake spec %r accepted" % (fake,))
        except Exception as e:
            print("fake spec %r -> %s %r" % (fake, type(e).__name__, e.args))
        finally:
            gridmod._parse_grid_type = orig_parse


if __name__ == "__main__":
    main()
