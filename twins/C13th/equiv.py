import sys, os

sys.path.insert(0, os.getcwd())

import hashlib
import warnings

import numpy as np

import uxarray
import uxarray as ux

assert os.path.abspath(uxarray.__file__).startswith(os.path.abspath(os.getcwd()) + os.sep), uxarray.__file__

warnings.filterwarnings("ignore")

from uxarray.constants import ERROR_TOLERANCE, INT_FILL_VALUE
from uxarray.grid import geometry as geo
from uxarray.grid import utils as gutils
from uxarray.grid.coordinates import _lonlat_rad_to_xyz

FV = INT_FILL_VALUE


def digest(a):
    a = np.ascontiguousarray(a)
    return "%s %s %s" % (a.dtype, a.shape, hashlib.sha256(a.tobytes()).hexdigest()[:20])


def hexes(a):
    return [float(v).hex() for v in np.asarray(a, dtype=np.float64).ravel()]


def show_bounds(tag, b):
    print(tag, "type", type(b).__name__, "dims", b.dims, "dtype", b.dtype, "shape", b.shape)
    for i, row in enumerate(b.values):
        print(tag, "face", i, hexes(row))
    for k in ["cf_role", "_FillValue", "long_name", "start_index"]:
        print(tag, "attr", k, repr(b.attrs[k]), type(b.attrs[k]).__name__)
    ii = b.attrs["latitude_intervalsIndex"]
    print(tag, "intervals", ii.closed, ii.dtype, hexes(ii.left), hexes(ii.right))
    df = b.attrs["latitude_intervals_name_map"]
    print(tag, "map", list(df.columns), df["face_id"].dtype, df["face_id"].tolist(), df.index.equals(ii))


def attempt(tag, fn):
    try:
        return fn()
    except BaseException as e:  # noqa
        print(tag, "EXC", type(e).__name__, str(e)[:120])
        return None


# ---------------------------------------------------------------- grids
def topo_grid(lon, lat, conn):
    return ux.Grid.from_topology(
        np.asarray(lon, dtype=np.float64),
        np.asarray(lat, dtype=np.float64),
        np.asarray(conn, dtype=np.int64),
        fill_value=-1,
    )


GRIDS = {}

# mixed face sizes: triangle, quad, hexagon, pentagon; padding with fill values
lon = [10, 50, 50, 10, 30, 70, 90, 90, 70, 55, 355, 5, 5, 355, 0, 175, 185, 185, 175, 200, 215, 222, 210, 196]
lat = [10, 10, 60, 60, 75, 20, 30, 45, 55, 40, -20, -20, 20, 20, 35, -50, -50, -30, -30, 5, 3, 12, 20, 14]
conn = [
    [0, 1, 2, 3, -1, -1],
    [3, 2, 4, -1, -1, -1],
    [1, 5, 6, 7, 8, 9],
    [10, 11, 12, 14, 13, -1],
    [15, 16, 17, 18, -1, -1],
    [19, 20, 21, 22, 23, -1],
]
GRIDS["mixed"] = topo_grid(lon, lat, conn)

# same faces, reversed orientation and rotated start
conn_r = []
for row in conn:
    v = [x for x in row if x != -1][::-1]
    v = v[2:] + v[:2]
    conn_r.append(v + [-1] * (6 - len(v)))
GRIDS["mixed_reversed"] = topo_grid(lon, lat, conn_r)

# polar faces: enclosing north pole, enclosing south pole, corner at north pole, corner at south pole
lon = [10, 100, 190, 280, 20, 140, 260, 0, 30, 60, 0, 100, 130, 45, 135, 225, 315, 300]
lat = [80, 80, 80, 80, -70, -75, -72, 90, 70, 70, -90, -60, -60, 85, 86, 84, 87, 83]
conn = [
    [0, 1, 2, 3, -1],
    [6, 5, 4, -1, -1],
    [7, 8, 9, -1, -1],
    [10, 12, 11, -1, -1],
    [13, 14, 15, 17, 16],
]
GRIDS["polar"] = topo_grid(lon, lat, conn)

# short arcs whose bulge is around ERROR_TOLERANCE, high latitude, and equator-straddling faces
d = 0.02
lon = [100, 100 + d, 100 + d, 100, 40, 40.5, 40.5, 40, 300, 330, 330, 300, 0.0, 2.0, 2.0, 0.0, 359, 1, 0]
lat = [60, 60, 60 + d, 60 + d, 88, 88, 88.2, 88.2, -10, -10, 10, 10, 0.0, 0.0, 3.0, 3.0, -40, -40, -38]
conn = [
    [0, 1, 2, 3],
    [4, 5, 6, 7],
    [8, 9, 10, 11],
    [12, 13, 14, 15],
    [16, 17, 18, -1],
]
GRIDS["short_arcs"] = topo_grid(lon, lat, conn)

# grid without any padding, and single-face grids from face vertices
GRIDS["fv_quad"] = ux.Grid.from_face_vertices(
    [[[10.0, 60.0], [10.0, 10.0], [50.0, 10.0], [50.0, 60.0]],
     [[350, 60.0], [350, 10.0], [50.0, 10.0], [50.0, 60.0]],
     [[210.0, 80.0], [350.0, 60.0], [10.0, 60.0], [30.0, 80.0]],
     [[200.0, 80.0], [350.0, 60.0], [10.0, 60.0], [40.0, 80.0]]],
    latlon=True,
)
GRIDS["fv_single"] = ux.Grid.from_face_vertices(
    [[0.0, -89.0], [120.0, -88.0], [240.0, -89.5]], latlon=True
)

rng = np.random.default_rng(13)
# random small convex-ish quads around random centres
lon, lat, conn = [], [], []
for k in range(12):
    c_lon = rng.uniform(0, 360)
    c_lat = rng.uniform(-80, 80)
    r = rng.uniform(0.01, 6.0)
    n = int(rng.integers(3, 7))
    ang = np.sort(rng.uniform(0, 2 * np.pi, n))
    if np.min(np.diff(np.concatenate([ang, [ang[0] + 2 * np.pi]]))) < 0.2:
        ang = np.linspace(0, 2 * np.pi, n, endpoint=False) + rng.uniform(0, 1)
    base = len(lon)
    for a in ang:
        lon.append((c_lon + r * np.cos(a) / max(np.cos(np.deg2rad(c_lat)), 0.2)) % 360)
        lat.append(np.clip(c_lat + r * np.sin(a), -89.5, 89.5))
    conn.append(list(range(base, base + n)) + [-1] * (6 - n))
GRIDS["random"] = topo_grid(lon, lat, conn)

for name, g in GRIDS.items():
    b = attempt("bounds:" + name, lambda: g.bounds)
    if b is not None:
        show_bounds("bounds:" + name, b)
        # cached: second access returns the stored variable
        print("bounds:" + name, "cached", "bounds" in g._ds, g.bounds.equals(b))

# ---------------------------------------------------------------- _populate_bounds variants
for name in ["mixed", "fv_quad", "short_arcs", "polar"]:
    g = GRIDS[name]
    for latlonface in (False, True):
        tag = "pb:%s:latlon=%s" % (name, latlonface)
        r = attempt(tag, lambda: geo._populate_bounds(g, is_latlonface=latlonface, return_array=True))
        if r is not None:
            show_bounds(tag, r)
    nf, ne = g.n_face, g.n_max_face_edges
    gl = np.zeros((nf, ne), dtype=bool)
    gl[:, ::2] = True
    tag = "pb:%s:gcalist" % name
    r = attempt(tag, lambda: geo._populate_bounds(g, is_face_GCA_list=gl, return_array=True))
    if r is not None:
        show_bounds(tag, r)
    tag = "pb:%s:gcalist_pylist" % name
    r = attempt(tag, lambda: geo._populate_bounds(g, is_latlonface=True, is_face_GCA_list=gl.tolist(), return_array=True))
    if r is not None:
        show_bounds(tag, r)

# return_array=False stores and returns None
g = topo_grid([10, 50, 50, 10], [10, 10, 60, 60], [[0, 1, 2, 3]])
print("pb:store", geo._populate_bounds(g), "bounds" in g._ds, hexes(g._ds["bounds"].values))

# degenerate faces: assertion paths
g = topo_grid([10, 10, 10], [0, 10, 20], [[0, 1, 2]])
attempt("pb:degenerate_lon", lambda: show_bounds("pb:degenerate_lon", geo._populate_bounds(g, return_array=True)))
g = topo_grid([10, 20, 30], [0, 0, 0], [[0, 1, 2]])
attempt("pb:degenerate_lat", lambda: show_bounds("pb:degenerate_lat", geo._populate_bounds(g, return_array=True)))

# ---------------------------------------------------------------- edge-node arrays
for name, g in GRIDS.items():
    fnc = g.face_node_connectivity.values
    ll = gutils._get_lonlat_rad_face_edge_nodes(fnc, g.n_face, g.n_max_face_edges, g.node_lon.values, g.node_lat.values)
    xc = gutils._get_cartesian_face_edge_nodes(fnc, g.n_face, g.n_max_face_edges, g.node_x.values, g.node_y.values, g.node_z.values)
    print("edges:" + name, "lonlat", digest(ll), "cart", digest(xc), "fill", int((ll == FV).sum()), int((xc == FV).sum()))
    print("edges:" + name, "conn untouched", digest(fnc))

fnc = np.array([[0, 1, 2, 3, 4], [0, 1, 3, 4, FV], [0, 1, 3, FV, FV], [FV, FV, FV, FV, FV]], dtype=np.int64)
nlon = np.array([0.0, 10.0, 20.0, 30.0, 359.5, -20.0])
nlat = np.array([0.0, -10.0, 20.0, 89.0, -89.5, 45.0])
ll = gutils._get_lonlat_rad_face_edge_nodes(fnc, 4, 5, nlon, nlat)
print("edges:direct", digest(ll), hexes(ll))
print("edges:direct conn", fnc.tolist())
ll = attempt("edges:empty", lambda: gutils._get_lonlat_rad_face_edge_nodes(fnc[:0], 0, 5, nlon, nlat))
print("edges:empty", None if ll is None else digest(ll))
ll = gutils._get_lonlat_rad_face_edge_nodes(fnc, 4, 5, nlon.astype(np.float32), nlat.astype(np.float32))
print("edges:f32", digest(ll))
ll = gutils._get_lonlat_rad_face_edge_nodes(fnc, 4, 5, nlon.astype(np.int64), nlat.astype(np.int64))
print("edges:int", digest(ll))

# ---------------------------------------------------------------- _populate_face_latlon_bound direct
def face_arrays(pts_deg, pad=0):
    pts = np.deg2rad(np.asarray(pts_deg, dtype=np.float64))
    n = len(pts)
    cart = np.array([_lonlat_rad_to_xyz(p[0], p[1]) for p in pts])
    ec = np.array([[cart[i], cart[(i + 1) % n]] for i in range(n)])
    el = np.array([[pts[i], pts[(i + 1) % n]] for i in range(n)])
    if pad:
        ec = np.concatenate([ec, np.full((pad, 2, 3), FV, dtype=np.float64)])
        el = np.concatenate([el, np.full((pad, 2, 2), FV, dtype=np.float64)])
    return ec, el


FACES = {
    "quad": [[10.0, 60.0], [10.0, 10.0], [50.0, 10.0], [50.0, 60.0]],
    "antimeridian": [[350, 60.0], [350, 10.0], [50.0, 10.0], [50.0, 60.0]],
    "north_encl": [[0, 80.0], [90, 80.0], [180.0, 80.0], [270.0, 80.0]],
    "south_encl": [[270, -80.0], [180, -80.0], [90.0, -80.0], [0.0, -80.0]],
    "north_encl2": [[10, 80.0], [100, 82.0], [190.0, 79.0], [280.0, 81.0]],
    "south_encl2": [[280, -80.0], [190, -81.0], [100.0, -79.0], [10.0, -80.0], [330.0, -84.0]],
    "north_corner": [[0.0, 90.0], [30.0, 70.0], [60.0, 70.0]],
    "south_corner": [[0.0, -90.0], [60.0, -70.0], [30.0, -70.0]],
    "pole_on_edge": [[0.0, 80.0], [90.0, 70.0], [180.0, 80.0]],
    "tiny": [[100.0, 60.0], [100.0 + 1e-3, 60.0], [100.0 + 1e-3, 60.0 + 1e-3], [100.0, 60.0 + 1e-3]],
    "tinier": [[100.0, 60.0], [100.0 + 2e-2, 60.0], [100.0 + 2e-2, 60.0 + 2e-2], [100.0, 60.0 + 2e-2]],
    "equator": [[300.0, -10.0], [330.0, -10.0], [330.0, 10.0], [300.0, 10.0]],
    "lowest_corner_bulge": [[0.0, -40.0], [60.0, -41.0], [30.0, -20.0]],
    "hex": [[50, 10], [70, 20], [90, 30], [90, 45], [70, 55], [55, 40]],
    "wide_high": [[0.0, 85.0], [120.0, 85.0], [60.0, 60.0]],
}
for name, pts in FACES.items():
    for pad in (0, 2):
        ec, el = face_arrays(pts, pad)
        n = ec.shape[0]
        variants = {
            "default": {},
            "latlon": {"is_latlonface": True},
            "gca_alt": {"is_GCA_list": [i % 2 == 0 for i in range(n)]},
            "gca_np": {"is_latlonface": True, "is_GCA_list": np.array([i % 3 != 0 for i in range(n)])},
            "gca_none_true": {"is_GCA_list": np.zeros(n, dtype=bool)},
        }
        for vn, kw in variants.items():
            tag = "face:%s:pad%d:%s" % (name, pad, vn)
            ec0, el0 = ec.copy(), el.copy()
            r = attempt(tag, lambda: geo._populate_face_latlon_bound(ec, el, **kw))
            if r is not None:
                print(tag, r.dtype, r.shape, hexes(r), "inputs untouched", np.array_equal(ec, ec0), np.array_equal(el, el0))

# ---------------------------------------------------------------- helpers
box = np.full((2, 2), FV, dtype=np.float64)
for pt in ([0.3, 6.0], [0.5, 0.1], [1.2, 3.0], [np.pi / 2, FV], [-0.2, 6.2], [FV, FV]):
    box = geo._insert_pt_in_latlonbox(box, np.array(pt, dtype=np.float64))
    print("insert", pt, hexes(box), hexes([geo._get_latlonbox_width(box)]))

pts = [[1.0, 0.0, 0.0], [1.0, 5e-9, 0.0], [0.0, 1.0, 0.0], [1.0, 0.0, 2e-8], (0.0, 1.0, 0.0), np.array([0.0, 0.0, 1.0])]
u = geo._unique_points(pts)
print("unique", len(u), [hexes(p) for p in u], [type(p).__name__ for p in u])
u = geo._unique_points(pts, tolerance=1e-7)
print("unique tol", len(u), [hexes(p) for p in u])
print("unique empty", geo._unique_points([]))
for name in ("north_encl", "north_encl2", "south_encl2", "quad", "equator", "pole_on_edge", "south_corner"):
    ec, el = face_arrays(FACES[name])
    print("pole", name,
          attempt("pole N", lambda: bool(geo._pole_point_inside_polygon("North", ec))),
          attempt("pole S", lambda: bool(geo._pole_point_inside_polygon("South", ec))))
