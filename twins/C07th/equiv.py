import sys, os

sys.path.insert(0, os.getcwd())

import hashlib
import tempfile
import warnings

import numpy as np
import xarray as xr

import uxarray
import uxarray as ux

assert os.path.abspath(uxarray.__file__).startswith(os.path.abspath(os.getcwd()) + os.sep), (
    uxarray.__file__
)

import uxarray.io._ugrid as _ug
import uxarray.io._scrip as _sc
import uxarray.conventions.ugrid as conv
from uxarray.constants import INT_DTYPE, INT_FILL_VALUE

warnings.filterwarnings("ignore")


def h(a):
    a = np.ascontiguousarray(np.asarray(a))
    return hashlib.sha256(a.tobytes()).hexdigest()[:16]


def show_attr(v):
    if isinstance(v, np.ndarray):
        return ("ndarray", str(v.dtype), v.shape, h(v))
    if isinstance(v, (str, int, float, np.generic)):
        return (type(v).__name__, repr(v))
    return (type(v).__name__,)


def digest_ds(tag, ds):
    print(f"== {tag}")
    if ds is None:
        print("  None")
        return
    print("  type", type(ds).__name__)
    print("  dims", [(k, int(v)) for k, v in ds.sizes.items()])
    print("  coords", list(ds.coords))
    print("  data_vars", list(ds.data_vars))
    print("  attrs", [(k, show_attr(v)) for k, v in ds.attrs.items()])
    for name in ds.variables:
        v = ds[name]
        arr = np.asarray(v.values)
        small = repr(arr.tolist()) if arr.size <= 16 else ""
        print(
            "  var", name, v.dims, arr.dtype, arr.shape, type(v.data).__name__, h(arr),
            [(k, show_attr(a)) for k, a in v.attrs.items()], small,
        )


def attempt(tag, fn):
    try:
        return fn()
    except Exception as e:  # digest the exception type and message too
        print(f"== {tag}\n  RAISES {type(e).__name__}: {e}")
        return None


def faces_in_order(grid):
    lon = np.round(grid.node_lon.values, 9)
    lat = np.round(grid.node_lat.values, 9)
    faces = []
    for row in grid.face_node_connectivity.values:
        pts = [(float(lon[i]) % 360.0, float(lat[i])) for i in row if i != INT_FILL_VALUE]
        # SCRIP repeats / pads corners: drop consecutive duplicates
        dedup = [p for k, p in enumerate(pts) if p != pts[k - 1] or len(pts) == 1]
        k = dedup.index(min(dedup))
        faces.append(tuple(dedup[k:] + dedup[:k]))
    return faces


def topology_consistent(ds):
    """every variable / dimension named by grid_topology exists in the dataset"""
    if "grid_topology" not in ds:
        return "no grid_topology"
    missing = []
    for k, v in ds["grid_topology"].attrs.items():
        if k.endswith("_dimension"):
            if v not in ds.dims:
                missing.append((k, v))
        elif k.endswith("_coordinates") or k.endswith("_connectivity"):
            for name in str(v).split():
                if name not in ds:
                    missing.append((k, name))
    return missing


def roundtrip(tag, grid, formats=("ugrid", "scrip")):
    for fmt in formats:
        t = f"{tag} [{fmt}]"
        enc = attempt(t + " encode", lambda: grid.to_xarray(fmt))
        if enc is None:
            continue
        digest_ds(t + " encoded", enc)
        if fmt == "ugrid":
            print("  topology missing", topology_consistent(enc))
            print("  shares memory with grid",
                  [n for n in enc.variables if n in grid._ds.variables
                   and np.shares_memory(enc[n].values, grid._ds[n].values)])
        back = attempt(t + " reopen", lambda: ux.open_grid(enc))
        if back is not None:
            print("  reopened n_face", back.n_face, "n_node", back.n_node, "n_max", back.n_max_face_nodes)
            print("  fnc", h(back.face_node_connectivity.values), back.face_node_connectivity.dtype)
            print("  same faces in order", attempt(t + " cmp", lambda: faces_in_order(back) == faces_in_order(grid)))
        with tempfile.TemporaryDirectory() as td:
            p = os.path.join(td, "out.nc")
            attempt(t + " to_netcdf", lambda: enc.to_netcdf(p))
            if os.path.exists(p):
                back2 = attempt(t + " reopen file", lambda: ux.open_grid(p))
                if back2 is not None:
                    print("  file fnc", h(back2.face_node_connectivity.values))
                    print("  file same faces in order",
                          attempt(t + " cmp2", lambda: faces_in_order(back2) == faces_in_order(grid)))
                    digest_ds(t + " file internal ds", back2._ds)


def template_state(tag):
    print("template", tag, list(conv.BASE_GRID_TOPOLOGY_ATTRS.items()))


here = os.getcwd()
mesh = os.path.join(here, "test", "meshfiles")
template_state("start")

# ---------------------------------------------------------------- 1. hand made grids
lon = np.array([0.0, 10.0, 20.0, 30.0, 0.0, 10.0, 20.0, 30.0, 15.0, 25.0, 5.0])
lat = np.array([0.0, 0.0, 0.0, 0.0, 10.0, 10.0, 10.0, 10.0, 20.0, 18.0, 22.0])
F = INT_FILL_VALUE

cases = {
    "tri_only": np.array([[0, 1, 5], [0, 5, 4], [1, 2, 6]], dtype=INT_DTYPE),
    "quad_only": np.array([[0, 1, 5, 4], [1, 2, 6, 5], [2, 3, 7, 6]], dtype=INT_DTYPE),
    "mixed_tri_quad": np.array(
        [[0, 1, 5, 4], [1, 2, 6, F], [2, 3, 7, 6], [5, 6, 8, F]], dtype=INT_DTYPE
    ),
    "mixed_3_4_5_6": np.array(
        [
            [0, 1, 5, 4, F, F],
            [5, 6, 9, 8, 10, 4],
            [1, 2, 6, F, F, F],
            [2, 3, 7, 9, 6, F],
            [6, 7, 9, F, F, F],
        ],
        dtype=INT_DTYPE,
    ),
    "padded_quads": np.array([[0, 1, 5, 4, F], [1, 2, 6, 5, F]], dtype=INT_DTYPE),
    "single_face": np.array([[4, 5, 8]], dtype=INT_DTYPE),
}


def make(name):
    return ux.Grid.from_topology(
        node_lon=lon, node_lat=lat, face_node_connectivity=cases[name], fill_value=F
    )


for name in cases:
    roundtrip("lonlat " + name, make(name))
template_state("after hand made")

# derived quantities materialised before encoding, one at a time and all together
derived = [
    "edge_node_connectivity", "face_edge_connectivity", "node_face_connectivity", "edge_face_connectivity",
    "face_face_connectivity", "node_edge_connectivity", "node_x", "face_lon", "face_x", "edge_lon", "edge_x",
    "face_areas", "bounds", "edge_node_distances", "n_nodes_per_face",
]
for name in ("quad_only", "mixed_3_4_5_6"):
    for attr in derived:
        g = make(name)
        if attempt(f"derive {attr} on {name}", lambda: getattr(g, attr)) is None:
            continue
        roundtrip(f"derived {attr} {name}", g)
    g = make(name)
    for attr in derived:
        attempt(f"derive-all {attr} on {name}", lambda: getattr(g, attr))
    roundtrip(f"derived all {name}", g)
    # twice in a row from the same grid, and the grid's own dataset afterwards
    roundtrip(f"derived all again {name}", g)
    digest_ds(f"grid internal ds after encodings {name}", g._ds)
template_state("after derived")

# ---------------------------------------------------------------- 2. direct calls
base = xr.Dataset(
    {
        "node_lon": (("n_node",), lon),
        "node_lat": (("n_node",), lat),
        "face_node_connectivity": (("n_face", "n_max_face_nodes"), cases["mixed_tri_quad"]),
    }
)
variants = {"minimal": base}
d = base.copy(deep=True)
d["grid_topology"] = xr.DataArray(-1, attrs={"cf_role": "mesh_topology", "stale": "yes", "edge_coordinates": "a b"})
variants["stale topology"] = d
d = base.copy(deep=True)
d["edge_node_connectivity"] = xr.DataArray(
    np.array([[0, 1], [1, 5], [4, 5]], dtype=INT_DTYPE), dims=("n_edge", "two"),
    attrs={"cf_role": "edge_node_connectivity", "inverse_indices": (np.arange(3), np.arange(3)),
           "fill_value_mask": np.zeros(3, dtype=bool), "long name": "kept", "start_index": 0},
)
variants["helper attrs on edges"] = d
d = d.copy(deep=True)
d["bounds"] = xr.DataArray(
    np.zeros((4, 2, 2)), dims=("n_face", "lon_lat", "min_max"),
    attrs={"latitude_intervalsIndex": object(), "latitude_intervals_name_map": {"a": 1}, "cf_role": "face_latlon_bounds"},
)
d["edge_lon"] = (("n_edge",), np.array([1.0, 2.0, 3.0]))
d["edge_lat"] = (("n_edge",), np.array([1.0, 2.0, 3.0]))
variants["bounds and edge coords"] = d
d = base.copy(deep=True)
d["face_lon"] = (("n_face",), np.arange(4.0))
d["face_lat"] = (("n_face",), np.arange(4.0))
variants["face coords"] = d
d = base.copy(deep=True)
d["edge_lat"] = (("n_edge",), np.arange(3.0))  # edge dimension without edge_lon
variants["edge dim only"] = d
d = base.copy(deep=True)
for cn in reversed(conv.CONNECTIVITY_NAMES):
    if cn not in d:
        d[cn] = (("n_face", "n_max_face_nodes"), cases["mixed_tri_quad"])
variants["every connectivity"] = d
d = base.copy(deep=True).set_coords(["node_lon", "node_lat"])
d.attrs["source"] = "test"
variants["coords and global attrs"] = d
variants["empty"] = xr.Dataset()

for name, d in variants.items():
    before = {k: (h(v.values), sorted(v.attrs)) for k, v in d.variables.items()}
    out = attempt("direct ugrid " + name, lambda: _ug._encode_ugrid(d))
    digest_ds("direct ugrid " + name, out)
    if out is not None:
        print("  topology missing", topology_consistent(out))
        print("  is new object", out is not d, "source untouched",
              before == {k: (h(v.values), sorted(v.attrs)) for k, v in d.variables.items()},
              "shares", [n for n in out.variables if n in d.variables and np.shares_memory(out[n].values, d[n].values)])
        with tempfile.TemporaryDirectory() as td:
            attempt("direct ugrid " + name + " to_netcdf", lambda: out.to_netcdf(os.path.join(td, "o.nc")))
    template_state("after direct " + name)

# scrip encoder called directly
def scrip_direct(tag, conn, nlon, nlat, areas):
    out = attempt("direct scrip " + tag, lambda: _sc._encode_scrip(conn, nlon, nlat, areas))
    digest_ds("direct scrip " + tag, out)
    if out is not None and isinstance(areas, np.ndarray):
        print("  area shares memory", np.shares_memory(out["grid_area"].values, areas))
    return out


da_lon = xr.DataArray(lon, dims="n_node")
da_lat = xr.DataArray(lat, dims="n_node")
for name, conn in cases.items():
    c = xr.DataArray(conn, dims=("n_face", "n_max_face_nodes"))
    areas = np.linspace(0.1, 0.2, conn.shape[0])
    scrip_direct(name, c, da_lon, da_lat, areas)
    scrip_direct(name + " int32 conn", c.astype(np.int32) if F not in conn else c, da_lon, da_lat, areas)
    scrip_direct(name + " DataArray areas", c, da_lon, da_lat, xr.DataArray(areas, dims="n_face"))
    scrip_direct(name + " list areas", c, da_lon, da_lat, areas.tolist())
c = xr.DataArray(cases["quad_only"], dims=("n_face", "n_max_face_nodes"))
scrip_direct("negative lon", c, xr.DataArray(lon - 180.0, dims="n_node"), da_lat, np.ones(3))
scrip_direct("wrong area length", c, da_lon, da_lat, np.ones(5))
scrip_direct("index out of range", c + 20, da_lon, da_lat, np.ones(3))
scrip_direct("no faces", xr.DataArray(np.zeros((0, 4), dtype=INT_DTYPE), dims=("n_face", "n_max_face_nodes")),
             da_lon, da_lat, np.ones(0))
scrip_direct("1-d conn", xr.DataArray(np.array([0, 1, 5], dtype=INT_DTYPE), dims=("n_face",)), da_lon, da_lat, np.ones(3))
scrip_direct("float conn", c.astype(float), da_lon, da_lat, np.ones(3))
scrip_direct("float32 coords", c, da_lon.astype(np.float32), da_lat.astype(np.float32), np.ones(3, dtype=np.float32))

# centre helper on its own
cds = xr.Dataset({
    "grid_corner_lon": (("grid_size", "grid_corners"), np.array([[350.0, 10.0, 10.0, 350.0], [170.0, 190.0, 190.0, 170.0]])),
    "grid_corner_lat": (("grid_size", "grid_corners"), np.array([[-5.0, -5.0, 5.0, 5.0], [80.0, 80.0, 85.0, 85.0]])),
})
out = _sc.grid_center_lat_lon(cds)
print("centres", [type(o).__name__ for o in out], [h(np.asarray(o)) for o in out], [np.asarray(o).tolist() for o in out])

# ---------------------------------------------------------------- 3. file based grids and history
files = [
    "exodus/mixed/mixed.exo",
    "exodus/outCSne8/outCSne8.g",
    "scrip/outCSne8/outCSne8.nc",
    "ugrid/quad-hexagon/grid.nc",
    "ugrid/geoflow-small/grid.nc",
    "ugrid/outCSne30/outCSne30.ug",
    "mpas/QU/mesh.QU.1920km.151026.nc",
]
for rel in files:
    p = os.path.join(mesh, rel)
    if not os.path.exists(p):
        print("missing file", rel)
        continue
    g = attempt("open " + rel, lambda: ux.open_grid(p))
    if g is None:
        continue
    roundtrip("file " + rel, g)
    _ = attempt("edges " + rel, lambda: g.edge_node_connectivity)
    _ = attempt("bounds " + rel, lambda: g.bounds) if g.n_face < 2000 else None
    _ = attempt("face_lon " + rel, lambda: g.face_lon)
    roundtrip("file derived " + rel, g)
    template_state("after " + rel)

# a smaller grid after the big ones
roundtrip("after history tri_only", make("tri_only"))
g = make("mixed_tri_quad")
with warnings.catch_warnings():
    warnings.simplefilter("ignore")
    digest_ds("encode_as UGRID", attempt("encode_as UGRID", lambda: g.encode_as("UGRID")))
    digest_ds("encode_as SCRIP", attempt("encode_as SCRIP", lambda: g.encode_as("SCRIP")))
template_state("end")
