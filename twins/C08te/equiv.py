import sys, os; sys.path.insert(0, os.getcwd())
import hashlib, warnings
import numpy as np
import uxarray as ux
import cartopy.crs as ccrs

assert os.path.abspath(ux.__file__).startswith(os.path.abspath(os.getcwd()) + os.sep), ux.__file__
warnings.simplefilter("ignore")

M = os.path.join(os.getcwd(), "test", "meshfiles")
PATHS = {
    "mixed_exo": os.path.join(M, "exodus", "mixed", "mixed.exo"),
    "ugrid_quadhex": os.path.join(M, "ugrid", "quad-hexagon", "grid.nc"),
    "ugrid_geoflow": os.path.join(M, "ugrid", "geoflow-small", "grid.nc"),
    "mpas_QU1920": os.path.join(M, "mpas", "QU", "mesh.QU.1920km.151026.nc"),
}


def h(a):
    a = np.asarray(a)
    return "%s%s:%s" % (a.dtype, a.shape, hashlib.sha1(np.ascontiguousarray(a).tobytes()).hexdigest()[:16])


def hand_made():
    # mixed triangle / quad / pentagon faces with fill values, one face across the antimeridian
    lon = np.array([350.0, 10.0, 10.0, 350.0, 0.0, 20.0, 20.0, 30.0, 170.0, 190.0, 180.0])
    lat = np.array([-5.0, -5.0, 5.0, 5.0, 12.0, 0.0, 8.0, 4.0, 0.0, 0.0, 10.0])
    fv = ux.INT_FILL_VALUE
    conn = np.array(
        [[0, 1, 2, 3, fv], [3, 2, 4, fv, fv], [1, 5, 7, 6, 2], [8, 9, 10, fv, fv]], dtype=ux.INT_DTYPE
    )
    return ux.Grid.from_topology(lon, lat, conn, fill_value=fv)


def open_grid(name):
    return hand_made() if name == "hand" else ux.open_grid(PATHS[name])


def gdf_digest(gdf):
    geom = gdf["geometry"]
    try:  # spatialpandas
        flat = np.asarray(geom.values.buffer_values)
        extra = h(np.asarray(geom.values.buffer_offsets[0])) if hasattr(geom.values, "buffer_offsets") else ""
        return "%s n=%d %s %s" % (type(gdf).__module__.split(".")[0], len(gdf), h(flat), extra)
    except AttributeError:  # geopandas
        wkb = b"".join(g.wkb for g in geom.values)
        return "%s n=%d %s" % (type(gdf).__module__.split(".")[0], len(gdf), hashlib.sha1(wkb).hexdigest()[:16])


def coll_digest(c):
    paths = c.get_paths()
    verts = np.concatenate([p.vertices for p in paths]) if len(paths) else np.zeros((0, 2))
    tr = getattr(c, "_uxequiv", None)
    return "%s n=%d %s" % (type(c).__name__, len(paths), h(verts))


def val_digest(v):
    if v is None or isinstance(v, (str, bool)):
        return repr(v)
    if isinstance(v, np.ndarray):
        return h(v)
    if isinstance(v, ccrs.Projection):
        return "proj:" + type(v).__name__ + ":" + hashlib.sha1(v.proj4_init.encode()).hexdigest()[:8]
    if hasattr(v, "get_paths"):
        return coll_digest(v)
    if hasattr(v, "columns"):
        return gdf_digest(v)
    return repr(v)[:80]


def cache_state(g):
    out = []
    for attr in ("_gdf_cached_parameters", "_poly_collection_cached_parameters", "_line_collection_cached_parameters"):
        d = getattr(g, attr)
        out.append("   %s: %s" % (attr, [(k, val_digest(v)) for k, v in d.items()]))
    return "\n".join(out)


PROJ = {
    "none": None,
    "robin": ccrs.Robinson(),
    "robin2": ccrs.Robinson(),  # equal to, but not the same object as, "robin"
    "ortho": ccrs.Orthographic(central_longitude=30.0),
    "pc180": ccrs.PlateCarree(central_longitude=180.0),
}


def run(label, g, fn, ret):
    """ret: how to digest the result."""
    ids_before = [id(d) for d in (g._gdf_cached_parameters, g._poly_collection_cached_parameters, g._line_collection_cached_parameters)]
    try:
        r = fn()
    except Exception as e:
        print(label, "RAISED", type(e).__name__, repr(e.args)[:200])
        print(cache_state(g))
        return None
    parts = r if isinstance(r, tuple) else (r,)
    print(label, "->", [val_digest(p) for p in parts])
    # identity relations between what was returned and what is cached
    first = parts[0]
    print("   is-cached:", first is g._gdf_cached_parameters["gdf"], first is g._poly_collection_cached_parameters["poly_collection"],
          first is g._line_collection_cached_parameters["line_collection"],
          "second-is-cached:", (len(parts) > 1 and (parts[1] is g._gdf_cached_parameters["non_nan_polygon_indices"]
                                                    or parts[1] is g._poly_collection_cached_parameters["corrected_to_original_faces"])),
          "dicts-kept:", ids_before == [id(d) for d in (g._gdf_cached_parameters, g._poly_collection_cached_parameters, g._line_collection_cached_parameters)])
    print(cache_state(g))
    return r


GDF_CALLS = [
    dict(),
    dict(),
    dict(periodic_elements="split"),
    dict(periodic_elements="split", cache=False),
    dict(periodic_elements="ignore", cache=False),
    dict(periodic_elements="split"),
    dict(periodic_elements="ignore"),
    dict(engine="geopandas"),
    dict(engine="geopandas", override=True),
    dict(engine="geopandas", periodic_elements="split"),
    dict(engine="spatialpandas", periodic_elements="exclude", projection="robin"),
    dict(engine="spatialpandas", periodic_elements="exclude", projection="robin2"),
    dict(periodic_elements="exclude", projection="robin", return_non_nan_polygon_indices=True),
    dict(periodic_elements="exclude", projection="robin", project=False),
    dict(periodic_elements="exclude", projection="robin", project=False, return_non_nan_polygon_indices=True),
    dict(periodic_elements="exclude", projection="ortho", exclude_nan_polygons=False, return_non_nan_polygon_indices=True),
    dict(periodic_elements="exclude", projection="ortho", exclude_nan_polygons=True, return_non_nan_polygon_indices=True),
    dict(periodic_elements="exclude", projection="ortho", exclude_nan_polygons=True),
    dict(periodic_elements="split", projection="robin"),
    dict(periodic_elements="split", projection="robin", project=False),
    dict(periodic_elements="bogus"),
    dict(engine="bogus"),
    dict(exclude_antimeridian=True),
    dict(exclude_antimeridian=False),
    dict(exclude_antimeridian=False, periodic_elements="ignore", cache=False),
    dict(),
]

POLY_CALLS = [
    dict(),
    dict(),
    dict(return_indices=True),
    dict(periodic_elements="split", return_indices=True),
    dict(periodic_elements="split", cache=False),
    dict(periodic_elements="ignore", cache=False, return_indices=True),
    dict(periodic_elements="ignore"),
    dict(periodic_elements="ignore", override=True),
    dict(periodic_elements="exclude", projection="robin"),
    dict(periodic_elements="exclude", projection="robin2", return_indices=True),
    dict(periodic_elements="exclude", projection="ortho", return_indices=True),
    dict(periodic_elements="exclude", projection="pc180"),
    dict(periodic_elements="split", projection="pc180", return_indices=True),
    dict(periodic_elements="exclude", linewidths=2.0),
    dict(periodic_elements="exclude"),
    dict(periodic_elements="bogus"),
    dict(),
]

LINE_CALLS = [
    dict(),
    dict(),
    dict(periodic_elements="split"),
    dict(periodic_elements="split", cache=False),
    dict(periodic_elements="ignore", cache=False),
    dict(periodic_elements="ignore"),
    dict(periodic_elements="ignore", override=True),
    dict(periodic_elements="exclude", projection="robin"),
    dict(periodic_elements="exclude", projection="robin2"),
    dict(periodic_elements="exclude", projection="pc180"),
    dict(periodic_elements="exclude", linewidths=2.0),
    dict(periodic_elements="exclude"),
    dict(periodic_elements="bogus"),
    dict(),
]


def resolve(kw):
    kw = dict(kw)
    if "projection" in kw:
        kw["projection"] = PROJ[kw["projection"]]
    return kw


for name in ["hand", "mixed_exo", "ugrid_quadhex", "ugrid_geoflow", "mpas_QU1920"]:
    # one long history per grid and method
    g = open_grid(name)
    print("== %s fresh" % name)
    print(cache_state(g))
    for i, kw in enumerate(GDF_CALLS):
        run("%s gdf[%d] %r" % (name, i, kw), g, lambda: g.to_geodataframe(**resolve(kw)), "gdf")
    for i, kw in enumerate(POLY_CALLS):
        run("%s poly[%d] %r" % (name, i, kw), g, lambda: g.to_polycollection(**resolve(kw)), "poly")
    for i, kw in enumerate(LINE_CALLS):
        run("%s line[%d] %r" % (name, i, kw), g, lambda: g.to_linecollection(**resolve(kw)), "line")
    print("== %s antimeridian_face_indices" % name, h(g.antimeridian_face_indices), sorted(g._ds.variables))

    # every single call on a fresh grid (reference values), and two grids interleaved
    for i, kw in enumerate(GDF_CALLS):
        f = open_grid(name)
        run("%s fresh gdf[%d]" % (name, i), f, lambda: f.to_geodataframe(**resolve(kw)), "gdf")
    for i, kw in enumerate(POLY_CALLS):
        f = open_grid(name)
        run("%s fresh poly[%d]" % (name, i), f, lambda: f.to_polycollection(**resolve(kw)), "poly")
    for i, kw in enumerate(LINE_CALLS):
        f = open_grid(name)
        run("%s fresh line[%d]" % (name, i), f, lambda: f.to_linecollection(**resolve(kw)), "line")

a, b = open_grid("hand"), open_grid("ugrid_quadhex")
for i, (ka, kb) in enumerate(zip(POLY_CALLS, reversed(POLY_CALLS))):
    run("interleave a poly[%d]" % i, a, lambda: a.to_polycollection(**resolve(ka)), "poly")
    run("interleave b poly[%d]" % i, b, lambda: b.to_polycollection(**resolve(kb)), "poly")
    run("interleave a gdf[%d]" % i, a, lambda: a.to_geodataframe(**resolve(GDF_CALLS[i])), "gdf")
    run("interleave b line[%d]" % i, b, lambda: b.to_linecollection(**resolve(LINE_CALLS[i % len(LINE_CALLS)])), "line")
