import sys, os

sys.path.insert(0, os.getcwd())

import hashlib
import warnings

import numpy as np
import xarray as xr

import uxarray
import uxarray as ux

assert os.path.abspath(uxarray.__file__).startswith(os.path.abspath(os.getcwd()) + os.sep), (
    uxarray.__file__
)

warnings.filterwarnings("ignore")

from uxarray.constants import INT_DTYPE, INT_FILL_VALUE

M = os.path.join(os.getcwd(), "test", "meshfiles")
PATHS = {
    "mixed": os.path.join(M, "exodus", "mixed", "mixed.exo"),
    "mpas": os.path.join(M, "mpas", "QU", "mesh.QU.1920km.151026.nc"),
    "quadhex": os.path.join(M, "ugrid", "quad-hexagon", "grid.nc"),
    "csne30": os.path.join(M, "ugrid", "outCSne30", "outCSne30.ug"),
    "scrip": os.path.join(M, "scrip", "outCSne8", "outCSne8.nc"),
    "geos": os.path.join(M, "geos-cs", "c12", "test-c12.native.nc4"),
    "ov": os.path.join(M, "ugrid", "ov_RLL10deg_CSne4", "ov_RLL10deg_CSne4.ug"),
}


def h(a):
    a = np.ascontiguousarray(np.asarray(a))
    return hashlib.sha1(a.tobytes()).hexdigest()[:16]


def digest_ds(ds, label):
    print(f"  [{label}] dims={dict(sorted(ds.sizes.items()))}")
    for name in sorted(ds.variables):
        v = ds[name]
        vals = v.values
        print(
            f"    {name}: dtype={vals.dtype} shape={vals.shape} dims={v.dims} "
            f"sha={h(vals)} attrs={sorted(v.attrs)} writeable={vals.flags.writeable}"
        )


def digest_grid(g, label):
    digest_ds(g._ds, label)
    print(f"    source_grid_spec={g.source_grid_spec}")


def attempt(label, fn):
    try:
        out = fn()
    except Exception as e:  # noqa
        print(f"  {label}: EXC {type(e).__name__} {e.args!r}")
        return None
    return out


def run_case(name, prep, dim, idx, after=()):
    print(f"== {name} prep={prep} {dim}={idx!r}")
    g = ux.open_grid(PATHS[name])
    for p in prep:
        attempt("prep " + p, lambda: getattr(g, p))
    before = {k: h(g._ds[k].values) for k in g._ds.variables}
    sub = attempt("isel", lambda: g.isel(**{dim: idx}))
    if sub is not None:
        digest_grid(sub, "sub")
        for a in after:
            r = attempt("after " + a, lambda: getattr(sub, a))
            if r is not None:
                vals = np.asarray(r.values if hasattr(r, "values") else r)
                print(f"    after {a}: dtype={vals.dtype} shape={vals.shape} sha={h(vals)}")
    # the source grid must not have been touched
    now = {k: h(g._ds[k].values) for k in g._ds.variables}
    print(f"  source unchanged: {before == now} nvars={len(now)}")


ALL_CONN = [
    "edge_node_connectivity",
    "face_edge_connectivity",
    "node_face_connectivity",
    "edge_face_connectivity",
    "face_face_connectivity",
    "node_edge_connectivity",
    "hole_edge_indices",
    "edge_face_distances",
    "edge_node_distances",
    "face_lon",
    "edge_lon",
]
AFTER = ["n_nodes_per_face", "edge_node_connectivity", "face_edge_connectivity", "face_areas"]

for name in ["mixed", "mpas", "quadhex", "csne30", "scrip", "geos", "ov"]:
    g0 = ux.open_grid(PATHS[name])
    nf, nn = g0.n_face, g0.n_node
    rng = np.random.default_rng(7)
    some = sorted(rng.choice(nf, size=min(5, nf), replace=False).tolist())
    unsorted_dup = [some[-1], some[0], some[0]] if len(some) > 1 else some
    run_case(name, [], "n_face", some, AFTER)
    run_case(name, ALL_CONN, "n_face", some, AFTER)
    run_case(name, ["edge_node_connectivity"], "n_face", unsorted_dup)
    run_case(name, ["face_edge_connectivity"], "n_face", 0)
    run_case(name, [], "n_face", np.int32(nf - 1))
    run_case(name, [], "n_face", [-1])
    run_case(name, ["edge_node_connectivity"], "n_face", [])
    run_case(name, ["edge_node_connectivity"], "n_face", list(range(nf)))
    run_case(name, ALL_CONN, "n_node", [0, nn - 1], AFTER[:2])
    run_case(name, ["face_edge_connectivity"], "n_edge", [0, 1, 2])
    run_case(name, [], "n_face", [nf + 3])
    del g0

# subset through the public subset accessor (bounding circle / nearest neighbour)
print("== subset accessors")
for name in ["mpas", "csne30", "mixed"]:
    g = ux.open_grid(PATHS[name])
    _ = g.edge_node_connectivity
    for label, fn in [
        ("bc", lambda: g.subset.bounding_circle((0.0, 0.0), 25.0)),
        ("nn", lambda: g.subset.nearest_neighbor((10.0, -20.0), k=4, element="nodes")),
        ("bb", lambda: g.subset.bounding_box((-40, 40), (-30, 30))),
    ]:
        sub = attempt(f"{name} {label}", fn)
        if sub is not None:
            digest_grid(sub, f"{name} {label}")

# a node-to-node table set by the user refers to nodes outside a slice
print("== node_node_connectivity set by user")
for name in ["quadhex", "mixed"]:
    g = ux.open_grid(PATHS[name])
    nn = g.n_node
    tbl = np.stack([(np.arange(nn) + 1) % nn, (np.arange(nn) - 1) % nn], axis=1).astype(INT_DTYPE)
    tbl[0, 1] = INT_FILL_VALUE
    g.node_node_connectivity = xr.DataArray(tbl, dims=["n_node", "n_max_node_nodes"])
    attempt("partial", lambda: digest_grid(g.isel(n_face=[0]), "partial"))
    attempt("all", lambda: digest_grid(g.isel(n_face=list(range(g.n_face))), "all"))

# module-level templates are not altered
from uxarray.conventions import ugrid as _u

print("== conventions")
for k in sorted(vars(_u)):
    if k.isupper():
        print("  ", k, repr(getattr(_u, k)))
