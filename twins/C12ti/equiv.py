import sys, os; sys.path.insert(0, os.getcwd())
import hashlib, warnings
import numpy as np
import xarray as xr
import uxarray as ux
assert os.path.abspath(ux.__file__).startswith(os.path.abspath(os.getcwd()) + os.sep), ux.__file__
from uxarray.core.utils import _map_dims_to_ugrid
warnings.filterwarnings("ignore")

M = os.path.join(os.getcwd(), "test", "meshfiles")


def h(a):
    a = np.ascontiguousarray(np.asarray(a))
    if a.dtype.kind == "O":
        return f"object{a.shape}:{hashlib.sha1(repr(a.tolist()).encode()).hexdigest()[:12]}"
    return f"{a.dtype}{a.shape}:{hashlib.sha1(a.tobytes()).hexdigest()[:12]}"


def show_ds(tag, ds):
    print(tag, "dims", sorted((str(k), int(v)) for k, v in ds.sizes.items()))
    for name in sorted(map(str, list(ds.coords) + list(ds.data_vars))):
        v = ds[name]
        print("   ", name, v.dims, h(v.values))
    print("   indexes", sorted(map(str, ds.indexes)))


def show_dict(tag, d):
    print(tag, "dict", None if d is None else sorted((str(k), str(v)) for k, v in d.items()))


class FakeGrid:
    """records which size attributes are read (laziness of the if/elif chain)"""

    def __init__(self, n_face, n_node, n_edge, spec="UGRID"):
        self._n = dict(n_face=n_face, n_node=n_node, n_edge=n_edge)
        self.source_grid_spec = spec
        self.reads = []

    def __getattr__(self, name):
        if name in ("n_face", "n_node", "n_edge"):
            self.reads.append(name)
            v = self._n[name]
            if isinstance(v, Exception):
                raise v
            return v
        raise AttributeError(name)


def run_fake(tag, ds, sdd, grid):
    sdd_in = sdd
    ds_in = ds
    try:
        out = _map_dims_to_ugrid(ds, sdd, grid)
    except Exception as e:
        print(tag, "EXC", type(e).__name__, str(e)[:150])
        show_dict(tag, sdd_in)
        print(tag, "reads(sorted)", sorted(grid.reads), "count", len(grid.reads))
        return
    show_ds(tag, out)
    show_dict(tag, sdd_in)
    print(tag, "same-ds-object", out is ds_in, "reads", grid.reads if len(ds_in.dims) <= 1 else sorted(grid.reads))
    show_ds(tag + "/input-after", ds_in)


# --- 1. synthetic datasets against fake grids ---------------------------------
rng = np.random.default_rng(0)

# single unparsed dim, matches n_face (n_node/n_edge must not be read)
ds = xr.Dataset({"a": (("t", "cells"), rng.random((2, 6)))})
run_fake("S1", ds, {}, FakeGrid(6, 8, 12))
# matches n_node
ds = xr.Dataset({"a": (("cells",), rng.random(8))})
run_fake("S2", ds, {}, FakeGrid(6, 8, 12))
# matches n_edge
ds = xr.Dataset({"a": (("cells",), rng.random(12))})
run_fake("S3", ds, {}, FakeGrid(6, 8, 12))
# matches nothing
ds = xr.Dataset({"a": (("cells",), rng.random(5))})
run_fake("S4", ds, {}, FakeGrid(6, 8, 12))
# n_face == n_node == n_edge coincide: face wins
ds = xr.Dataset({"a": (("cells",), rng.random(4))})
run_fake("S5", ds, {}, FakeGrid(4, 4, 4))
# n_node == n_edge coincide
ds = xr.Dataset({"a": (("cells",), rng.random(4))})
run_fake("S6", ds, {}, FakeGrid(3, 4, 4))
# pre-parsed dict with keys absent from ds (dropped) and present (kept)
ds = xr.Dataset({"a": (("nCells", "lev"), rng.random((6, 3))), "b": (("nVertices",), rng.random(8))})
sdd = {"nCells": "n_face", "nVertices": "n_node", "nEdges": "n_edge", "maxEdges": "n_max_face_nodes"}
run_fake("S7", ds, sdd, FakeGrid(6, 8, 12))
# several unparsed dims, with a coordinate variable on one of them
ds = xr.Dataset(
    {"a": (("time", "cell", "vert"), rng.random((2, 6, 8))), "e": (("edge",), rng.random(12))},
    coords={"cell": np.arange(6) * 10, "time": [0.5, 1.5]},
)
run_fake("S8", ds, {"nCells": "n_face"}, FakeGrid(6, 8, 12))
# n_edge raises when it is reached
ds = xr.Dataset({"a": (("cells",), rng.random(12))})
run_fake("S9", ds, {}, FakeGrid(6, 8, RuntimeError("no edges")))
# n_edge would raise but is never reached
ds = xr.Dataset({"a": (("cells",), rng.random(8))})
run_fake("S10", ds, {}, FakeGrid(6, 8, RuntimeError("no edges")))
# dataset already in UGRID names
ds = xr.Dataset({"a": (("n_face",), rng.random(6))})
run_fake("S11", ds, {"n_face": "n_face"}, FakeGrid(6, 8, 12))
# empty dataset
run_fake("S12", xr.Dataset(), {"nCells": "n_face"}, FakeGrid(6, 8, 12))
# swap target exists as a non-matching variable -> xarray ValueError
ds = xr.Dataset({"a": (("cells",), rng.random(6)), "n_face": (("other",), rng.random(3))})
run_fake("S13", ds, {}, FakeGrid(6, 8, 12))

# GEOS-CS style, synthetic
ds = xr.Dataset(
    {
        "T": (("time", "nf", "Ydim", "Xdim"), rng.random((2, 6, 2, 2))),
        "c": (("nf", "YCdim", "XCdim"), rng.random((6, 3, 3))),
        "s": (("time",), rng.random(2)),
        "partial": (("nf", "Ydim"), rng.random((6, 2))),
    },
    coords={"lons": (("nf", "Ydim", "Xdim"), rng.random((6, 2, 2)))},
)
sdd = {"junk": "n_face"}
g = FakeGrid(24, 54, 0, spec="GEOS-CS")
run_fake("G1", ds, sdd, g)

# --- 2. real files ------------------------------------------------------------
cases = [
    ("ugrid/outCSne30/outCSne30.ug", "ugrid/outCSne30/outCSne30_vortex.nc"),
    ("ugrid/outCSne30/outCSne30.ug", "ugrid/outCSne30/outCSne30_var2.nc"),
    ("ugrid/geoflow-small/grid.nc", "ugrid/geoflow-small/v1.nc"),
    ("ugrid/outRLL1deg/outRLL1deg.ug", "ugrid/outRLL1deg/outRLL1deg_vortex.nc"),
    ("ugrid/ov_RLL10deg_CSne4/ov_RLL10deg_CSne4.ug", "ugrid/ov_RLL10deg_CSne4/ov_RLL10deg_CSne4_vortex.nc"),
    ("mpas/QU/mesh.QU.1920km.151026.nc", "mpas/QU/mesh.QU.1920km.151026.nc"),
    ("mpas/QU/oQU480.231010.nc", "mpas/QU/oQU480.231010.nc"),
    ("esmf/ne30/ne30pg3.grid.nc", "esmf/ne30/ne30pg3.data.nc"),
    ("geos-cs/c12/test-c12.native.nc4", "geos-cs/c12/test-c12.native.nc4"),
    ("exodus/mixed/mixed.exo", "exodus/mixed/mixed.exo"),
    ("ugrid/fesom/fesom.mesh.diag.nc", "ugrid/fesom/sst.fesom.1948.nc"),
]
for gp, dp in cases:
    tag = "R:" + os.path.basename(dp)
    try:
        grid = ux.open_grid(os.path.join(M, gp))
        ds = xr.open_dataset(os.path.join(M, dp))
        sdd = grid._source_dims_dict
        print(tag, "sizes n_face/n_node", grid.n_face, grid.n_node)
        show_dict(tag + "/before", sdd)
        out = _map_dims_to_ugrid(ds, sdd, grid)
    except Exception as e:
        print(tag, "EXC", type(e).__name__, str(e)[:150])
        continue
    print(tag, "dims", sorted((str(k), int(v)) for k, v in out.sizes.items()))
    for name in sorted(map(str, out.data_vars))[:10]:
        v = out[name]
        print("   ", name, v.dims, h(v.values) if v.dtype.kind in "fiub" else v.dtype)
    show_dict(tag + "/after", sdd)
    print("   dict-is-grid-dict", sdd is grid._source_dims_dict, "out-is-ds", out is ds)
    # a second mapping with the now-updated dict
    ds2 = xr.open_dataset(os.path.join(M, dp))
    out2 = _map_dims_to_ugrid(ds2, sdd, grid)
    print("   again-equal-dims", dict(out2.sizes) == dict(out.sizes))
    show_dict(tag + "/after2", sdd)

# public entry points (fail in this environment after the mapping step; same failure expected on both trees)
for fn, args in (
    (ux.open_dataset, (os.path.join(M, "ugrid/geoflow-small/grid.nc"), os.path.join(M, "ugrid/geoflow-small/v1.nc"))),
    (ux.open_mfdataset, (os.path.join(M, "ugrid/geoflow-small/grid.nc"), [os.path.join(M, "ugrid/geoflow-small", f) for f in ("v1.nc", "v2.nc")])),
):
    try:
        r = fn(*args)
        print("API", fn.__name__, sorted((str(k), int(v)) for k, v in r.sizes.items()))
    except Exception as e:
        print("API", fn.__name__, "EXC", type(e).__name__, str(e)[:100])

# --- 3. remap end-to-end on file data mapped by _map_dims_to_ugrid (the property's observation point) --
sgrid = ux.open_grid(os.path.join(M, "ugrid/geoflow-small/grid.nc"))
sds = _map_dims_to_ugrid(xr.open_dataset(os.path.join(M, "ugrid/geoflow-small/v1.nc")), sgrid._source_dims_dict, sgrid)
dst = ux.open_grid(os.path.join(M, "ugrid/outCSne30/outCSne30.ug"))
v1 = ux.UxDataArray(sds["v1"], uxgrid=sgrid)
print("v1 dims", v1.dims)
for remap_to in ("nodes", "face centers"):
    for ct in ("spherical", "cartesian"):
        r = v1.remap.nearest_neighbor(dst, remap_to=remap_to, coord_type=ct)
        print("NN", remap_to, ct, r.dims, h(r.values), r.uxgrid is dst)
        r = v1.remap.inverse_distance_weighted(dst, remap_to=remap_to, coord_type=ct, power=2, k=3)
        print("IDW", remap_to, ct, r.dims, h(np.round(r.values, 10)), r.uxgrid is dst)
