import sys, os

sys.path.insert(0, os.getcwd())

import copy
import hashlib
import warnings

import numpy as np
import xarray as xr

import uxarray
import uxarray as ux

assert os.path.abspath(uxarray.__file__).startswith(os.path.abspath(os.getcwd()) + os.sep), uxarray.__file__

from uxarray.constants import INT_DTYPE, INT_FILL_VALUE
from uxarray.io._vertices import _read_face_vertices
from uxarray.io._scrip import _encode_scrip

warnings.filterwarnings("ignore")

F = INT_FILL_VALUE


def h(a):
    a = np.ascontiguousarray(np.asarray(a))
    return f"{a.dtype}{a.shape}:{hashlib.sha1(a.tobytes()).hexdigest()[:16]}"


def ds_digest(ds, full=False):
    lines = []
    for name in ds.variables:  # order matters
        v = ds[name]
        body = repr(v.values.tolist()) if full else h(v.values)
        lines.append(f"  {name} dims={v.dims} dtype={v.dtype} {body} attrs={sorted((k, repr(x)) for k, x in v.attrs.items())}")
    lines.append(f"  ds.attrs={sorted((k, repr(x)) for k, x in ds.attrs.items())}")
    return "\n".join(lines)


def attrs_identity(ds):
    names = list(ds.variables)
    shared = []
    for i, a in enumerate(names):
        for b in names[i + 1:]:
            if ds[a].attrs is ds[b].attrs or ds[a].variable._attrs is ds[b].variable._attrs:
                shared.append((a, b))
    return shared


def buffers_shared(ds, arr):
    return [n for n in ds.variables if np.shares_memory(ds[n].values, arr)]


# ---------------------------------------------------------------- face vertices
tri = [[0.0, 0.0], [10.0, 0.0], [5.0, 8.0]]
quad = [[10.0, 0.0], [20.0, 0.0], [20.0, 9.0], [5.0, 8.0]]
pent = [[20.0, 0.0], [30.0, 1.0], [33.0, 6.0], [27.0, 11.0], [20.0, 9.0]]


def pad(face, n, width):
    return [list(p) for p in face] + [[F] * width] * (n - len(face))


def xyz(face):
    out = []
    for lon, lat in face:
        lo, la = np.deg2rad(lon), np.deg2rad(lat)
        out.append([np.cos(la) * np.cos(lo), np.cos(la) * np.sin(lo), np.sin(la)])
    return out


cases = {
    "one tri (2-d input)": np.array(tri),
    "one tri (3-d input)": np.array([tri]),
    "tri+tri shared edge": np.array([tri, [[10.0, 0.0], [5.0, 8.0], [15.0, 9.0]]]),
    "mixed tri/quad/pent with fill": np.array([pad(tri, 5, 2), pad(quad, 5, 2), pent], dtype=float),
    "mixed, fill rows of two kinds": np.array(
        [pad(tri, 5, 2), [list(p) for p in quad] + [[F, 1.0]], pent], dtype=float
    ),
    "mixed, three kinds of fill rows": np.array(
        [[*tri, [F, F], [F, 7.0]], [*quad, [3.0, F]], pent], dtype=float
    ),
    "integer vertices with fill": np.array([pad([[0, 0], [4, 0], [2, 3]], 4, 2), [[4, 0], [8, 0], [8, 4], [2, 3]]]),
    "float32": np.array([tri, [[10.0, 0.0], [5.0, 8.0], [15.0, 9.0]]], dtype=np.float32),
    "xyz quad+tri with fill": np.array([pad(xyz(tri), 4, 3), xyz(quad)], dtype=float),
    "xyz, fill only in z": np.array([[*xyz(tri), [0.5, 0.5, F]], xyz(quad)], dtype=float),
    "duplicate vertex inside a face": np.array([[tri[0], tri[1], tri[1], tri[2]]]),
    "non-contiguous input": np.array([pad(tri, 5, 2), pad(quad, 5, 2), pent], dtype=float)[::-1],
}

print("== _read_face_vertices")
for tag, fv in cases.items():
    fv3 = fv if fv.ndim == 3 else np.array([fv])
    for latlon in (True, False):
        keep = fv3.copy()
        try:
            ds = _read_face_vertices(fv3, latlon)
        except Exception as e:  # noqa
            print(f"[{tag} latlon={latlon}] EXC {type(e).__name__}: {e}")
            continue
        print(f"[{tag} latlon={latlon}]")
        print(ds_digest(ds, full=True))
        print("  input unchanged:", np.array_equal(keep, fv3), h(fv3),
              "| buffers shared with input:", buffers_shared(ds, fv3),
              "| attrs objects shared:", attrs_identity(ds))
        # edits of the returned dataset do not reach the input or another variable
        first = list(ds.data_vars)[0]
        snap = {n: ds[n].values.copy() for n in ds.data_vars if n != first}
        ds[first].values[...] = -1
        ds[first].attrs["units"] = "changed"
        print("  other variables untouched:", all(np.array_equal(snap[n], ds[n].values) for n in snap),
              [ds[n].attrs.get("units") for n in ds.data_vars if n != "face_node_connectivity"],
              "| input unchanged:", np.array_equal(keep, fv3))

for bad in (np.zeros((0, 3, 2)), np.zeros((2, 3, 1)), np.zeros((2, 0, 2))):
    for latlon in (True, False):
        try:
            ds = _read_face_vertices(bad, latlon)
            print(f"[bad {bad.shape} latlon={latlon}]")
            print(ds_digest(ds, full=True))
        except Exception as e:  # noqa
            print(f"[bad {bad.shape} latlon={latlon}] EXC {type(e).__name__}: {e}")

print("== Grid.from_face_vertices")
for tag, fv in cases.items():
    for container in ("ndarray", "list", "tuple"):
        for latlon in (True, False):
            if container == "ndarray":
                arg = fv.copy()
            elif container == "list":
                arg = fv.tolist()
            else:
                arg = tuple(tuple(tuple(p) if isinstance(p, list) else p for p in f) if isinstance(f, list) else f
                            for f in fv.tolist())
            keep = copy.deepcopy(arg)
            try:
                g = ux.Grid.from_face_vertices(arg, latlon=latlon)
                line = (f"n_face={g.n_face} n_node={g.n_node} n_max={g.n_max_face_nodes} "
                        f"fnc={g.face_node_connectivity.values.tolist()} lon={h(g.node_lon.values)} "
                        f"lat={h(g.node_lat.values)} x={h(g.node_x.values)} n_nodes_per_face={g.n_nodes_per_face.values.tolist()}")
            except Exception as e:  # noqa
                line = f"EXC {type(e).__name__}: {e}"
                g = None
            same = np.array_equal(np.asarray(keep), np.asarray(arg)) and type(keep) is type(arg)
            print(f"[{tag} {container} latlon={latlon}] {line} | input unchanged: {same}")
            if g is not None:
                c = g.copy()
                c.node_lon.values[...] = 77.0
                c.face_node_connectivity.values[0, 0] = 5
                print("   copy independent:", not np.any(g.node_lon.values == 77.0), h(g.face_node_connectivity.values),
                      "| input still unchanged:", np.array_equal(np.asarray(keep), np.asarray(arg)))

# ---------------------------------------------------------------- scrip export
print("== _encode_scrip")


def scrip_case(tag, g):
    for how in ("to_xarray", "encode_as"):
        before = (h(g.face_node_connectivity.values), h(g.node_lon.values), h(g.node_lat.values))
        try:
            out = g.to_xarray("scrip") if how == "to_xarray" else g.encode_as("SCRIP")
        except Exception as e:  # noqa
            print(f"[{tag} {how}] EXC {type(e).__name__}: {e}")
            continue
        print(f"[{tag} {how}]")
        print(ds_digest(out, full=out["grid_corner_lat"].size <= 40))
        areas = h(g.face_areas.values)
        shared = [(a, b) for a in out.variables for b in g._ds.variables
                  if np.shares_memory(out[a].values, g._ds[b].values)]
        print("  shares memory with the grid:", shared)
        for n in out.data_vars:
            out[n].values[...] = 0
        out.attrs["edited"] = True
        after = (h(g.face_node_connectivity.values), h(g.node_lon.values), h(g.node_lat.values))
        print("  grid unchanged after edits of the export:", before == after, areas == h(g.face_areas.values),
              "edited" in g._ds.attrs)


scrip_case("tri+tri", ux.Grid.from_face_vertices(cases["tri+tri shared edge"], latlon=True))
scrip_case("one tri", ux.Grid.from_face_vertices(cases["one tri (2-d input)"], latlon=True))
scrip_case("xyz quads", ux.Grid.from_face_vertices(np.array([xyz(quad), xyz([[20.0, 0.0], [30.0, 1.0], [27.0, 11.0], [20.0, 9.0]])]), latlon=False))
scrip_case("mixed with fill", ux.Grid.from_face_vertices(cases["mixed tri/quad/pent with fill"], latlon=True))
scrip_case("float32", ux.Grid.from_face_vertices(cases["float32"], latlon=True))

path = "test/meshfiles/ugrid/quad-hexagon/grid.nc"
if os.path.exists(path) and os.path.getsize(path) > 0:
    scrip_case("quad-hexagon", ux.open_grid(path))
else:
    print("missing", path)
path = "test/meshfiles/mpas/QU/mesh.QU.1920km.151026.nc"
if os.path.exists(path) and os.path.getsize(path) > 0:
    scrip_case("mpas QU (padded hexagons/pentagons)", ux.open_grid(path))
else:
    print("missing", path)

# direct calls: connectivity of another integer dtype, a list of areas, a lazily chunked coordinate
lon = xr.DataArray(np.array([0.0, 10.0, 5.0, 15.0]), dims=["n_node"])
lat = xr.DataArray(np.array([0.0, 0.0, 8.0, 9.0]), dims=["n_node"])
for conn_dtype in (np.int32, np.int64, np.float64):
    conn = xr.DataArray(np.array([[0, 1, 2], [1, 3, 2]], dtype=conn_dtype), dims=["n_face", "n_max_face_nodes"])
    for areas in (np.array([0.1, 0.2]), [0.1, 0.2], xr.DataArray(np.array([0.1, 0.2]), dims=["n_face"])):
        keep = np.array(areas)
        out = _encode_scrip(conn, lon, lat, areas)
        print(f"[direct {np.dtype(conn_dtype).name} {type(areas).__name__}]")
        print(ds_digest(out, full=True))
        out["grid_area"].values[...] = 9.0
        out["grid_corner_lat"].values[...] = 9.0
        print("  areas/lat/conn unchanged:", np.array_equal(keep, np.array(areas)), lat.values.tolist(), h(conn.values))
for bad_conn in (xr.DataArray(np.array([0, 1, 2]), dims=["n"]),
                 xr.DataArray(np.array([[0, 1, 9]]), dims=["a", "b"]),
                 xr.DataArray(np.array([[0, 1, F]]), dims=["a", "b"]),
                 xr.DataArray(np.zeros((0, 3), dtype=int), dims=["a", "b"])):
    try:
        out = _encode_scrip(bad_conn, lon, lat, np.array([0.1]))
        print(f"[direct bad {bad_conn.shape}]")
        print(ds_digest(out, full=True))
    except Exception as e:  # noqa
        print(f"[direct bad {bad_conn.shape}] EXC {type(e).__name__}: {e}")
