import sys, os

sys.path.insert(0, os.getcwd())

import hashlib
import inspect
import warnings

import numpy as np

import uxarray

assert os.path.abspath(uxarray.__file__).startswith(os.path.abspath(os.getcwd()) + os.sep), uxarray.__file__

import uxarray.constants as C
from uxarray.utils import computing as K
from uxarray.grid.arcs import point_within_gca, extreme_gca_latitude
from uxarray.grid.intersections import gca_gca_intersection


def show(tag, v):
    if isinstance(v, np.ndarray):
        h = hashlib.sha256(np.ascontiguousarray(v).tobytes()).hexdigest()[:16]
        print(tag, "ndarray", v.dtype, v.shape, h, repr(v.tolist()))
    else:
        print(tag, type(v).__name__, repr(v))


def attempt(tag, f, *a, **k):
    with warnings.catch_warnings(record=True) as w:
        warnings.simplefilter("always")
        try:
            with np.errstate(all="ignore"):
                r = f(*a, **k)
            show(tag, r)
        except Exception as e:  # noqa
            # numba typing errors quote source line numbers: keep the first line only
            print(tag, "EXC", type(e).__name__, str(e).splitlines()[0][:120])
        for x in w:
            print(tag, "WARN", x.category.__name__, str(x.message)[:60])


def ll(lon, lat):
    lon, lat = np.deg2rad(lon), np.deg2rad(lat)
    return np.array([np.cos(lat) * np.cos(lon), np.cos(lat) * np.sin(lon), np.sin(lat)])


def slerp(a, b, t):
    om = np.arccos(np.clip(np.dot(a, b), -1, 1))
    return (np.sin((1 - t) * om) * a + np.sin(t * om) * b) / np.sin(om)


# ---- constants
for name in ("INT_DTYPE", "INT_FILL_VALUE", "ERROR_TOLERANCE", "MACHINE_EPSILON",
             "ENABLE_JIT_CACHE", "ENABLE_JIT", "ENABLE_FMA", "GRID_DIMS", "WGS84_CRS"):
    v = getattr(C, name)
    print("const", name, type(v).__name__, repr(v), v.hex() if isinstance(v, float) else "")

# ---- wrappers: signature defaults and values
for fn in (K.isclose, K.allclose):
    sig = inspect.signature(fn.py_func)
    print("sig", fn.py_func.__name__, [(p.name, repr(p.default), type(p.default).__name__) for p in sig.parameters.values()])

eps = C.MACHINE_EPSILON
tol = C.ERROR_TOLERANCE
pairs = [
    (1.0, 1.0), (1.0, 1.0 + 1e-9), (1.0, 1.0 + 9.9e-6), (1.0, 1.0 + 1.1e-5), (0.0, 1e-8), (0.0, 1.0000001e-8),
    (0.0, 9.9e-9), (1e10, 1e10 + 1e5), (1e10, 1e10 + 1.1e5), (np.nan, np.nan), (np.inf, np.inf), (np.inf, -np.inf),
    (0, 0.0), (1, 1.0 + 2e-16), (np.float64(1.0), np.float32(1.0000001)), (-1e-8, 0.0), (3.0, 3.00003),
]
for n, (a, b) in enumerate(pairs):
    attempt(f"isclose[{n}] default", K.isclose, a, b)
    attempt(f"isclose[{n}] atol=tol", K.isclose, a, b, atol=tol)
    attempt(f"isclose[{n}] eps/eps", K.isclose, a, b, rtol=eps, atol=eps)
    attempt(f"isclose[{n}] pos", K.isclose, a, b, 0.0, 1e-9)
    attempt(f"allclose[{n}] default", K.allclose, a, b)
    attempt(f"allclose[{n}] atol=eps", K.allclose, a, b, atol=eps)
    attempt(f"allclose[{n}] pos rtol, kw atol", K.allclose, a, b, 0.0, atol=eps)
    attempt(f"allclose[{n}] rtol=0 atol=eps", K.allclose, a, b, rtol=0.0, atol=eps)

arr_a = np.array([1.0, 2.0, 3.0, 0.0, np.nan])
arr_b = np.array([1.0 + 1e-9, 2.0 + 3e-5, 3.0, 1e-8, np.nan])
attempt("isclose arr default", K.isclose, arr_a, arr_b)
attempt("isclose arr scalar", K.isclose, arr_a, 1.0)
attempt("isclose arr tight", K.isclose, arr_a, arr_b, rtol=eps, atol=eps)
attempt("allclose arr default", K.allclose, arr_a[:3], arr_b[:3])
attempt("allclose arr loose", K.allclose, arr_a[:3], arr_b[:3], rtol=1e-4)
attempt("allclose arr zero", K.allclose, np.array([1e-17, -1e-17, 0.0]), 0.0, atol=eps)
attempt("allclose arr zero2", K.allclose, np.array([1e-15, -1e-17, 0.0]), 0.0, atol=eps)
attempt("all", K.all, np.array([True, True]))
attempt("cross", K.cross, ll(10, 20), ll(50, -30))
attempt("dot", K.dot, ll(10, 20), ll(50, -30))
attempt("norm", K.norm, np.array([1.0, 2.0, 2.0]))

# ---- arcs
arcs = {
    "generic": (ll(10, 20), ll(50, 40)),
    "short": (ll(10, 60), ll(10.5, 60)),
    "tiny": (ll(10, 60), ll(10.001, 60.0)),
    "equator": (ll(-20, 0), ll(70, 0)),
    "meridian": (ll(30, -40), ll(30, 65)),
    "through_npole": (ll(30, 70), ll(210, 60)),
    "through_spole": (ll(100, -80), ll(280, -50)),
    "antimeridian": (ll(170, 10), ll(-160, 35)),
    "antimeridian_s": (ll(-175, -60), ll(175, -55)),
    "sym_lat": (ll(0, 45), ll(120, 45)),
    "sym_lat_s": (ll(-60, -70), ll(100, -70)),
    "opp_lat": (ll(0, 30), ll(90, -30)),
    "endpoint_pole": (ll(0, 90), ll(45, 10)),
    "near_pole": (ll(0, 89.9999), ll(179, 89.9999)),
    "wide": (ll(0, 10), ll(179, 12)),
    "unnormalised": (2.5 * ll(10, 20), 0.5 * ll(50, 40)),
    "antipodal": (ll(0, 10), -ll(0, 10)),
    "identical": (ll(33, 44), ll(33, 44)),
}
rng = np.random.default_rng(20240914)
for k in range(25):
    p = rng.normal(size=3)
    q = rng.normal(size=3)
    arcs[f"rand{k}"] = (p / np.linalg.norm(p), q / np.linalg.norm(q))

for name, (a, b) in arcs.items():
    g = np.array([a, b])
    for et in ("max", "min", "MAX", "Min"):
        attempt(f"extreme {name} {et}", extreme_gca_latitude, g, et)
        attempt(f"extreme-swap {name} {et}", extreme_gca_latitude, g[::-1], et)
    attempt(f"extreme-list {name}", extreme_gca_latitude, [a, b], "max")
    attempt(f"extreme-tuple {name}", extreme_gca_latitude, (a, b), "min")
attempt("extreme bad type", extreme_gca_latitude, np.array([ll(1, 2), ll(3, 4)]), "mid")
attempt("extreme bad type2", extreme_gca_latitude, np.array([ll(1, 2), ll(3, 4)]), "")
attempt("extreme nonstr", extreme_gca_latitude, np.array([ll(1, 2), ll(3, 4)]), 3)
attempt("extreme three rows", extreme_gca_latitude, np.array([ll(1, 2), ll(3, 4), ll(5, 6)]), "max")
attempt("extreme one row", extreme_gca_latitude, np.array([ll(1, 2)]), "max")
attempt("extreme 2d vectors", extreme_gca_latitude, np.array([[1.0, 0.0], [0.0, 1.0]]), "max")
attempt("extreme lists of lists", extreme_gca_latitude, [list(ll(10, 20)), list(ll(50, 40))], "max")
attempt("extreme int", extreme_gca_latitude, np.array([[1, 0, 0], [0, 1, 0]]), "max")
attempt("extreme int2", extreme_gca_latitude, np.array([[1, 0, 1], [0, 1, 1]]), "max")

for name, (a, b) in arcs.items():
    if name in ("identical",):
        pts = {"a": a}
    else:
        na, nb = a / np.linalg.norm(a), b / np.linalg.norm(b)
        pts = {"a": a, "b": b}
        if name != "antipodal":
            mid = slerp(na, nb, 0.5)
            pts.update({
                "mid": mid, "q": slerp(na, nb, 0.25), "beyond": slerp(na, nb, 1.2), "before": slerp(na, nb, -0.3),
                "anti": -mid, "off": ll(123, -45),
                "tilt": (mid + 1e-12 * np.cross(na, nb)) / np.linalg.norm(mid + 1e-12 * np.cross(na, nb)),
            })
    for pn, p in pts.items():
        for d in (False, True):
            attempt(f"pwg {name} {pn} dir={d}", point_within_gca, p, np.array([a, b]), d)
            attempt(f"pwg-swap {name} {pn} dir={d}", point_within_gca, p, np.array([b, a]), d)
        attempt(f"pwg-list {name} {pn}", point_within_gca, p, [a, b])

names = list(arcs)
for i1, n1 in enumerate(names[:22]):
    for n2 in names[i1 + 1:24]:
        g1 = np.array(arcs[n1])
        g2 = np.array(arcs[n2])
        attempt(f"ggi {n1} x {n2}", gca_gca_intersection, g1, g2)
        attempt(f"ggi-swap {n2} x {n1}", gca_gca_intersection, g2, g1)
attempt("ggi crossing", gca_gca_intersection, np.array([ll(-10, 0), ll(10, 0)]), np.array([ll(0, -10), ll(0, 10)]))
attempt("ggi crossing lists", gca_gca_intersection, [ll(-10, 0), ll(10, 0)], [ll(0, -10), ll(0, 10)])
attempt("ggi overlap", gca_gca_intersection, np.array([ll(-10, 0), ll(10, 0)]), np.array([ll(0, 0), ll(20, 0)]))
attempt("ggi shared endpoint", gca_gca_intersection, np.array([ll(0, 0), ll(10, 10)]), np.array([ll(0, 0), ll(-10, 10)]))
attempt("ggi bad shape", gca_gca_intersection, np.zeros((2, 2)), np.zeros((2, 3)))
