"""Equivalence digest for property C11 (neighbour queries / cached trees).

Run with cwd = worktree root:  /venv/bin/python /tmp/refout/C11/<x>/equiv.py
Prints a deterministic digest of everything the refactored code returns,
raises, or caches.  Output must be byte-identical on clean and patched trees.
"""
import sys, os; sys.path.insert(0, os.getcwd())
import hashlib
import itertools
import warnings

warnings.filterwarnings("ignore")

import numpy as np
import uxarray
import uxarray as ux

assert os.path.abspath(uxarray.__file__).startswith(os.getcwd() + os.sep), uxarray.__file__

from uxarray.grid import neighbors as nb
from uxarray.grid.neighbors import (
    BallTree,
    KDTree,
    _prepare_xy_for_query,
    _prepare_xyz_for_query,
)

np.set_printoptions(precision=17, linewidth=200, threshold=40)


def h(arr):
    arr = np.ascontiguousarray(arr)
    return hashlib.sha1(arr.tobytes()).hexdigest()[:16]


def desc(x):
    """Structural + content digest of a query result."""
    if isinstance(x, tuple):
        return "tuple(" + ", ".join(desc(e) for e in x) + ")"
    if isinstance(x, list):
        inner = ", ".join(desc(e) for e in x[:4])
        allh = hashlib.sha1("|".join(desc(e) for e in x).encode()).hexdigest()[:16]
        return f"list[n={len(x)} all={allh}]({inner}{', ...' if len(x) > 4 else ''})"
    if isinstance(x, np.ndarray):
        flags = f"C{int(x.flags.c_contiguous)}F{int(x.flags.f_contiguous)}O{int(x.flags.owndata)}W{int(x.flags.writeable)}"
        head = np.array2string(x.ravel()[:6], separator=",") if x.dtype != object else "obj"
        if x.dtype == object:
            return f"objarr{x.shape}(" + ", ".join(desc(e) for e in x.ravel()[:3]) + ")"
        return f"nd({x.dtype},{x.shape},{x.strides},{flags},{h(x)},{head})"
    if isinstance(x, np.generic):
        return f"npscalar({type(x).__name__},{x!r})"
    return f"{type(x).__name__}({x!r})"


def attempt(label, fn):
    try:
        out = fn()
        print(f"{label} -> {desc(out)}")
        return out
    except BaseException as e:  # noqa
        print(f"{label} !! {type(e).__name__}: {e}")
        return None


# ---------------------------------------------------------------------------
# 1. the two query-preparation helpers, directly
# ---------------------------------------------------------------------------
print("== prepare helpers ==")
xy_inputs = {
    "list1d": [10.0, -45.0],
    "tuple1d": (179.5, 89.0),
    "int1d": [180, -90],
    "arr1d": np.array([-180.0, 90.0]),
    "arr2d": np.array([[0.0, 0.0], [179.99, 1.0], [-179.99, -1.0], [33.0, 90.0]]),
    "list2d": [[1.0, 2.0], [3.0, 4.0]],
    "f32": np.array([[1.5, 2.5]], dtype=np.float32),
    "fortran": np.asfortranarray(np.array([[1.0, 2.0], [3.0, 4.0], [5.0, 6.0]])),
    "strided": np.arange(24.0).reshape(6, 4)[::2, ::2],
    "empty2": np.zeros((0, 2)),
    "width3": [1.0, 2.0, 3.0],
    "width3_2d": np.ones((2, 3)),
    "width1": [1.0],
    "width4": np.ones((2, 4)),
    "empty1d": [],
    "scalar": 3.0,
    "nd3": np.ones((2, 2, 2)),
    "nd3_w3": np.ones((2, 3, 2)),
    "strings": ["a", "b"],
}
for name, val in xy_inputs.items():
    for use_rad in (False, True):
        for metric in ("haversine", "minkowski", "euclidean"):
            src = np.asarray(val) if not isinstance(val, np.ndarray) else val

            def run(val=val, use_rad=use_rad, metric=metric, src=src):
                out = _prepare_xy_for_query(val, use_rad, distance_metric=metric)
                shares = isinstance(val, np.ndarray) and np.shares_memory(out, val)
                same = out is val
                return (out, bool(shares), bool(same))

            attempt(f"xy[{name},rad={use_rad},{metric}]", run)
    # positional call form too
    attempt(f"xy-pos[{name}]", lambda val=val: _prepare_xy_for_query(val, False, "haversine"))

xyz_inputs = {
    "list1d": [1.0, 0.0, 0.0],
    "tuple1d": (0.0, 0.0, -1.0),
    "int1d": [0, 1, 0],
    "arr2d": np.array([[1.0, 0.0, 0.0], [0.0, 0.0, 1.0]]),
    "fortran": np.asfortranarray(np.arange(12.0).reshape(4, 3)),
    "strided": np.arange(36.0).reshape(6, 6)[::2, ::2],
    "empty3": np.zeros((0, 3)),
    "width2": [1.0, 2.0],
    "width2_2d": np.ones((3, 2)),
    "width1": [1.0],
    "width4": np.ones((2, 4)),
    "empty1d": [],
    "scalar": 1.0,
    "nd3": np.ones((2, 3, 3)),
    "nd3_w2": np.ones((2, 2, 3)),
}
for name, val in xyz_inputs.items():
    def run(val=val):
        out = _prepare_xyz_for_query(val)
        shares = isinstance(val, np.ndarray) and np.shares_memory(out, val)
        return (out, bool(shares), bool(out is val))

    attempt(f"xyz[{name}]", run)

# ---------------------------------------------------------------------------
# 2. trees built directly and through the Grid cache
# ---------------------------------------------------------------------------
GRIDS = {
    "rll10_csne4": "test/meshfiles/ugrid/ov_RLL10deg_CSne4/ov_RLL10deg_CSne4.ug",  # mixed 3/4/5-gons, fill values
    "mpas_qu": "test/meshfiles/mpas/QU/mesh.QU.1920km.151026.nc",  # pentagons + hexagons, fill values
}
KINDS = ["nodes", "face centers", "edge centers"]

SPH_POINTS = {
    "origin": [0.0, 0.0],
    "npole": [12.0, 90.0],
    "spole": [-77.0, -90.0],
    "am_east": [179.9, 10.0],
    "am_west": [-179.9, 10.0],
    "lon360": [359.5, -30.0],
    "tuple": (45.0, 45.0),
    "batch": np.array([[0.0, 0.0], [180.0, 0.0], [-180.0, 0.0], [10.0, 89.9], [200.0, -89.9]]),
    "batch1": np.array([[179.99, -0.5]]),
}


def lonlat_to_xyz(lonlat):
    ll = np.deg2rad(np.asarray(lonlat, dtype=float))
    lon, lat = ll[..., 0], ll[..., 1]
    return np.stack([np.cos(lat) * np.cos(lon), np.cos(lat) * np.sin(lon), np.sin(lat)], axis=-1)


def tree_state(t):
    return (
        type(t).__name__,
        t._coordinates,
        t.coordinates,
        t.coordinate_system,
        t.distance_metric,
        t.reconstruct,
        getattr(t, "_n_elements", "<unset>"),
        t._tree_from_nodes is not None,
        t._tree_from_face_centers is not None,
        t._tree_from_edge_centers is not None,
        None if t._tree_from_nodes is None else type(t._tree_from_nodes).__name__,
    )


def sk_digest(sk):
    if sk is None:
        return None
    data = np.asarray(sk.data)
    return (type(sk).__name__, data.shape, h(data))


def exercise(label, tree, coord_sys):
    n = tree._n_elements
    print(f"{label} state={tree_state(tree)} sk={sk_digest(tree._current_tree())}")
    for pname, pt in SPH_POINTS.items():
        if coord_sys == "spherical":
            variants = [("deg", pt, False), ("rad", np.deg2rad(np.asarray(pt, dtype=float)), True)]
        else:
            q = lonlat_to_xyz(pt)
            if isinstance(pt, (list, tuple)):
                q = type(pt)(q.tolist())
            variants = [("xyz", q, False), ("xyzR", q, True)]
        for vname, q, rad in variants:
            for k in (1, 3, n):
                attempt(f"{label} q[{pname},{vname},k={k}]", lambda: tree.query(q, k=k, in_radians=rad))
            attempt(f"{label} q-nodist[{pname},{vname}]", lambda: tree.query(q, k=2, in_radians=rad, return_distance=False))
            attempt(f"{label} q-bf[{pname},{vname}]", lambda: tree.query(q, k=4, in_radians=rad, breadth_first=True, sort_results=False))
            for r in (0.0, 5.0, 12.5, 400.0) if coord_sys == "spherical" else (0.0, 0.1, 0.35, 3.0):
                attempt(f"{label} r[{pname},{vname},r={r}]", lambda: tree.query_radius(q, r=r, in_radians=rad))
                attempt(f"{label} r-d[{pname},{vname},r={r}]", lambda: tree.query_radius(q, r=r, in_radians=rad, return_distance=True, sort_results=True))
                attempt(f"{label} r-d-unsorted[{pname},{vname},r={r}]", lambda: tree.query_radius(q, r=r, in_radians=rad, return_distance=True))
                attempt(f"{label} r-cnt[{pname},{vname},r={r}]", lambda: tree.query_radius(q, r=r, in_radians=rad, count_only=True))
    # positional argument forms
    q0 = [10.0, 20.0] if coord_sys == "spherical" else lonlat_to_xyz([10.0, 20.0]).tolist()
    attempt(f"{label} q-positional", lambda: tree.query(q0, 2))
    attempt(f"{label} r-positional", lambda: tree.query_radius(q0, 30.0 if coord_sys == "spherical" else 0.5))
    # error paths
    attempt(f"{label} k=0", lambda: tree.query(q0, k=0))
    attempt(f"{label} k=n+1", lambda: tree.query(q0, k=n + 1))
    attempt(f"{label} r<0", lambda: tree.query_radius(q0, r=-1e-9))
    wrong = [1.0, 0.0, 0.0] if coord_sys == "spherical" else [10.0, 20.0]
    attempt(f"{label} wrong-width q", lambda: tree.query(wrong, k=1))
    attempt(f"{label} wrong-width r", lambda: tree.query_radius(wrong, r=1.0))
    attempt(f"{label} width4", lambda: tree.query([1.0, 2.0, 3.0, 4.0], k=1))
    attempt(f"{label} scalar", lambda: tree.query(1.0, k=1))
    attempt(f"{label} sort-without-dist", lambda: tree.query_radius(q0, r=1.0, sort_results=True))
    attempt(f"{label} cnt+dist", lambda: tree.query_radius(q0, r=1.0, count_only=True, return_distance=True))


COMBOS = [
    ("ball", "spherical", "haversine"),
    ("ball", "cartesian", "euclidean"),
    ("ball", "cartesian", "minkowski"),
    ("ball", "spherical", "euclidean"),
    ("kd", "cartesian", "minkowski"),
    ("kd", "spherical", "minkowski"),
    ("kd", "cartesian", "chebyshev"),
    ("kd", "spherical", "manhattan"),
]

for gname, path in GRIDS.items():
    print(f"== grid {gname} ==")
    grid = ux.open_grid(path)
    print("sizes", grid.n_node, grid.n_edge, grid.n_face, grid.n_max_face_nodes)

    # 2a. direct construction of the wrapper classes
    for ttype, csys, metric in COMBOS:
        cls = BallTree if ttype == "ball" else KDTree
        for kind in KINDS:
            for rec in (False, True):
                lab = f"direct[{gname},{ttype},{csys},{metric},{kind},rec={rec}]"
                t = attempt(lab + " build", lambda: tree_state(cls(grid, coordinates=kind, coordinate_system=csys, distance_metric=metric, reconstruct=rec)))
            t = cls(grid, coordinates=kind, coordinate_system=csys, distance_metric=metric)
            exercise(f"direct[{gname},{ttype},{csys},{metric},{kind}]", t, csys)

    # defaults
    for cls in (BallTree, KDTree):
        t = cls(grid)
        print(f"default {cls.__name__} state={tree_state(t)} sk={sk_digest(t._current_tree())}")

    # 2b. invalid constructor arguments: exception + what was left behind
    for cls in (BallTree, KDTree):
        for bad_kind in ("faces", "node", "", None, "Nodes", 3, ["nodes"], ("nodes",)):
            attempt(f"badkind[{cls.__name__},{bad_kind!r}]", lambda: tree_state(cls(grid, coordinates=bad_kind)))
        for bad_sys in ("polar", None, "Spherical"):
            for kind in KINDS:
                attempt(f"badsys[{cls.__name__},{bad_sys!r},{kind}]", lambda: tree_state(cls(grid, coordinates=kind, coordinate_system=bad_sys)))
        attempt(f"badmetric[{cls.__name__}]", lambda: tree_state(cls(grid, distance_metric="nope")))

    # 2c. the coordinates setter: switching kinds on one wrapper, slot identity
    for cls, csys, metric in ((BallTree, "spherical", "haversine"), (KDTree, "cartesian", "minkowski"), (KDTree, "spherical", "minkowski"), (BallTree, "cartesian", "euclidean")):
        for rec in (False, True):
            t = cls(grid, coordinates="nodes", coordinate_system=csys, distance_metric=metric, reconstruct=rec)
            seen = {}
            seq = ["nodes", "face centers", "edge centers", "nodes", "face centers", "bogus", "edge centers", None, "nodes", ["nodes"], "face centers"]
            for step, kind in enumerate(seq):
                before = {s: getattr(t, s) for s in ("_tree_from_nodes", "_tree_from_face_centers", "_tree_from_edge_centers")}
                try:
                    t.coordinates = kind
                    err = None
                except BaseException as e:  # noqa
                    err = f"{type(e).__name__}: {e}"
                after = {s: getattr(t, s) for s in before}
                kept = tuple(int(before[s] is after[s]) for s in before)
                try:
                    cur = t._current_tree()
                    cur_d = sk_digest(cur)
                    which = [s for s in after if after[s] is cur]
                except BaseException as e:  # noqa
                    cur_d, which = f"{type(e).__name__}: {e}", None
                print(f"setter[{gname},{cls.__name__},{csys},rec={rec}] step{step} -> {kind!r} err={err} state={tree_state(t)} kept={kept} current={which} {cur_d}")
                if err is None:
                    q = [179.9, 10.0] if csys == "spherical" else lonlat_to_xyz([179.9, 10.0])
                    attempt("   q", lambda: t.query(q, k=3))
                    attempt("   r", lambda: t.query_radius(q, r=15.0 if csys == "spherical" else 0.3, return_distance=True, sort_results=True))
            # poke an unknown kind straight into the private field and ask for the tree
            t._coordinates = "bogus"
            attempt(f"current_tree-bogus[{cls.__name__}]", lambda: t._current_tree())
            attempt(f"query-bogus[{cls.__name__}]", lambda: t.query([0.0, 0.0] if csys == "spherical" else [1.0, 0.0, 0.0]))

    # 2d. request histories through the Grid cache
    requests = [
        ("ball", dict()),
        ("ball", dict(coordinates="face centers")),
        ("ball", dict(coordinates="nodes", coordinate_system="cartesian", distance_metric="euclidean")),
        ("ball", dict(coordinates="edge centers", coordinate_system="cartesian", distance_metric="euclidean")),
        ("ball", dict(coordinates="edge centers")),
        ("ball", dict(coordinates="edge centers", reconstruct=True)),
        ("ball", dict(coordinates="nodes")),
        ("ball", dict(coordinates="nodes", distance_metric="euclidean")),
        ("kd", dict()),
        ("kd", dict(coordinates="face centers")),
        ("kd", dict(coordinates="face centers", coordinate_system="spherical")),
        ("kd", dict(coordinates="edge centers", coordinate_system="spherical")),
        ("kd", dict(coordinates="nodes", coordinate_system="spherical", distance_metric="chebyshev")),
        ("kd", dict(coordinates="nodes", reconstruct=True)),
        ("kd", dict(coordinates="edge centers")),
        ("kd", dict(coordinates="bogus")),
        ("kd", dict(coordinates="face centers")),
        ("ball", dict(coordinates="bogus")),
        ("ball", dict(coordinates="face centers")),
        ("ball", dict(coordinates="face centers", coordinate_system="polar")),
        ("ball", dict(coordinates="face centers")),
        ("kd", dict(coordinates="face centers", coordinate_system="polar")),
        ("kd", dict(coordinates="face centers")),
    ]

    def run_history(order, tag):
        g = ux.open_grid(path)
        objs = []  # keep every wrapper / sk tree alive so identities are meaningful
        sks = []
        for step, idx in enumerate(order):
            ttype, kw = requests[idx]
            getter = g.get_ball_tree if ttype == "ball" else g.get_kd_tree
            prev_ball, prev_kd = g._ball_tree, g._kd_tree
            try:
                t = getter(**kw)
                err = None
            except BaseException as e:  # noqa
                t, err = None, f"{type(e).__name__}: {e}"
            slot = g._ball_tree if ttype == "ball" else g._kd_tree
            other_same = (g._kd_tree is prev_kd) if ttype == "ball" else (g._ball_tree is prev_ball)
            reused = slot is (prev_ball if ttype == "ball" else prev_kd)
            line = f"hist[{gname},{tag}] step{step} req{idx} {ttype}{kw} err={err} returned_is_slot={t is slot} reused={reused} other_untouched={other_same}"
            if slot is not None:
                line += f" slot_state={tree_state(slot)}"
            print(line)
            if t is not None:
                objs.append(t)
                first_seen = next((i for i, o in enumerate(objs) if o is t), None)
                try:
                    cur = t._current_tree()
                    sks.append(cur)
                    sk_first = next((i for i, o in enumerate(sks) if o is cur), None)
                    cur_d = f"{sk_digest(cur)} sk_first_seen={sk_first}"
                except BaseException as e:  # noqa
                    cur_d = f"{type(e).__name__}: {e}"
                print(f"    wrapper_first_seen={first_seen} sk={cur_d}")
                csys = t.coordinate_system
                q1 = [-179.95, 0.25] if csys == "spherical" else lonlat_to_xyz([-179.95, 0.25])
                qb = SPH_POINTS["batch"] if csys == "spherical" else lonlat_to_xyz(SPH_POINTS["batch"])
                attempt("    q1", lambda: t.query(q1, k=3))
                attempt("    qb", lambda: t.query(qb, k=2))
                attempt("    r1", lambda: t.query_radius(q1, r=20.0 if csys == "spherical" else 0.4, return_distance=True, sort_results=True))
                attempt("    rb", lambda: t.query_radius(qb, r=20.0 if csys == "spherical" else 0.4))

    run_history(list(range(len(requests))), "forward")
    run_history(list(range(len(requests)))[::-1], "reverse")
    rng = np.random.default_rng(20240611)
    for rep in range(6):
        order = rng.integers(0, len(requests), size=14).tolist()
        run_history(order, f"rand{rep}")
    # all ordered pairs of a compact request set
    compact = [0, 1, 2, 4, 5, 8, 9, 10, 13, 15]
    for i, j in itertools.product(compact, compact):
        run_history([i, j], f"pair{i}-{j}")

print("done")
