import sys, os; sys.path.insert(0, os.getcwd())
import hashlib
import warnings

warnings.filterwarnings("ignore")

import numpy as np
import xarray as xr
import uxarray as ux

assert os.path.abspath(ux.__file__).startswith(os.getcwd() + os.sep), ux.__file__

from uxarray.constants import INT_FILL_VALUE

MESH = os.path.join(os.getcwd(), "test", "meshfiles")


def dig(a):
    a = np.asarray(a)
    return f"{a.dtype}{a.shape}:{hashlib.sha256(np.ascontiguousarray(a).tobytes()).hexdigest()[:16]}"


def show(label, uxda, grid, *args, **kwargs):
    """integrate and print everything the property observes."""
    had_edges = "edge_node_connectivity" in grid._ds
    try:
        out = uxda.integrate(*args, **kwargs)
    except BaseException as e:  # noqa
        print(label, "RAISES", type(e).__name__, str(e))
        print("   edges built before/after:", had_edges, "edge_node_connectivity" in grid._ds)
        return None
    print(
        label,
        type(out).__name__,
        "dims=", out.dims,
        "name=", repr(out.name),
        "same_grid=", out.uxgrid is grid,
        "values=", dig(out.values),
        "first=", np.ravel(out.values)[:1].tolist() and float(np.ravel(out.values)[0]).hex(),
    )
    # caching side effect of compute_face_areas
    print("   cached areas:", dig(grid._face_areas), "coords:", sorted(out.coords), "attrs:", dict(out.attrs))
    return out


def mixed_grid():
    # triangle + quad + pentagon sharing nodes: n_face == 3, fill values in the padding
    lon = np.array([0.0, 10.0, 10.0, 0.0, 5.0, 20.0, 20.0, 15.0, -8.0])
    lat = np.array([0.0, 0.0, 10.0, 10.0, 17.0, 0.0, 10.0, 16.0, 5.0])
    F = INT_FILL_VALUE
    conn = np.array([[0, 1, 2, 3, F], [3, 2, 4, F, F], [1, 5, 6, 7, 2]], dtype=np.intp)
    return ux.Grid.from_topology(lon, lat, conn, fill_value=F)


def square_n_face_eq_n_node():
    # 4 triangles fanning around a centre plus ... -> tetrahedron: n_face == n_node == 4
    lon = np.array([0.0, 120.0, -120.0, 0.0])
    lat = np.array([-19.47122063, -19.47122063, -19.47122063, 90.0])
    conn = np.array([[0, 1, 3], [1, 2, 3], [2, 0, 3], [0, 2, 1]], dtype=np.intp)
    return ux.Grid.from_topology(lon, lat, conn)


rng = np.random.default_rng(20240606)

# ---------------------------------------------------------------- hand-made grids
for gname, make in (("mixed", mixed_grid), ("tetra", square_n_face_eq_n_node)):
    grid = make()
    nf, nn = grid.n_face, grid.n_node
    print("==", gname, "n_face", nf, "n_node", nn)
    lead_shapes = [(), (2,), (2, 3), (2, 1, 3)]
    lead_names = ["time", "lev", "ens"]
    for lead in lead_shapes:
        dims = tuple(lead_names[: len(lead)]) + ("n_face",)
        vals = rng.standard_normal(lead + (nf,))
        for dt in (np.float64, np.float32, np.int32, np.bool_):
            da = ux.UxDataArray(vals.astype(dt) if dt is not np.bool_ else vals > 0,
                                dims=dims, name=f"v{len(lead)}", uxgrid=grid,
                                attrs={"units": "K"})
            show(f"{gname} lead={lead} {np.dtype(dt).name}", da, grid)
    ones = ux.UxDataArray(np.ones(nf), dims=("n_face",), name=None, uxgrid=grid)
    for rule, orders in (("triangular", (1, 4, 8, 10, 12)), ("gaussian", (1, 2, 3, 5, 9, 10))):
        for o in orders:
            show(f"{gname} ones {rule} {o}", ones, grid, rule, o)
            show(f"{gname} ones kw {rule} {o}", ones, grid, quadrature_rule=rule, order=o)
    show(f"{gname} ones order-only", ones, grid, order=8)
    show(f"{gname} bad rule", ones, grid, "simpson", 4)
    # with coordinates attached
    da = ux.UxDataArray(rng.standard_normal((2, nf)), dims=("time", "n_face"), name="withcoord",
                        coords={"time": [10, 20]}, uxgrid=grid)
    show(f"{gname} coords", da, grid)
    # linear combination (same code path, checks nothing was reordered)
    a = ux.UxDataArray(rng.standard_normal((3, nf)), dims=("t", "n_face"), name="a", uxgrid=grid)
    show(f"{gname} 2a-3", 2 * a - 3, grid)

    # ---- rejected inputs
    grid2 = make()  # fresh, no edges built
    node = ux.UxDataArray(np.ones((2, grid2.n_node)), dims=("t", "n_node"), name="n", uxgrid=grid2)
    show(f"{gname} node", node, grid2)
    edge = ux.UxDataArray(np.ones(6), dims=("n_edge",), name="e", uxgrid=grid2)
    show(f"{gname} edge (edges not built)", edge, grid2)
    face_not_last = ux.UxDataArray(np.ones((grid2.n_face, 2)), dims=("n_face", "t"), name="fnl", uxgrid=grid2)
    show(f"{gname} face-not-last", face_not_last, grid2)
    grid3 = make()
    face_then_node = ux.UxDataArray(np.ones((grid3.n_face, grid3.n_node)), dims=("n_face", "n_node"), name="fn", uxgrid=grid3)
    show(f"{gname} face-then-node", face_then_node, grid3)
    face_then_edge = ux.UxDataArray(np.ones((grid3.n_face, 5)), dims=("n_face", "n_edge"), name="fe", uxgrid=grid3)
    show(f"{gname} face-then-edge", face_then_edge, grid3)
    node_then_face = ux.UxDataArray(np.ones((grid3.n_node, grid3.n_face)), dims=("n_node", "n_face"), name="nf", uxgrid=grid3)
    show(f"{gname} node-then-face (integrated)", node_then_face, grid3)
    other = ux.UxDataArray(np.ones((2, grid3.n_face)), dims=("t", "cells"), name="o", uxgrid=grid3)
    show(f"{gname} unnamed-dim of size n_face", other, grid3)
    scalar = ux.UxDataArray(np.float64(3.0), dims=(), name="s", uxgrid=grid3)
    show(f"{gname} 0-d", scalar, grid3)
    wrong_len = ux.UxDataArray(np.ones(grid3.n_face + 1), dims=("n_face",), name="w", uxgrid=grid3)
    show(f"{gname} wrong length", wrong_len, grid3)
    empty_lead = ux.UxDataArray(np.ones((0, grid3.n_face)), dims=("t", "n_face"), name="z", uxgrid=grid3)
    show(f"{gname} empty leading", empty_lead, grid3)

# ---------------------------------------------------------------- file based grids
# (ux.open_dataset does not run with the pinned xarray, so the data files are
#  opened with xarray and attached to the grid by hand)
RENAME = {"ncol": "n_face", "nMeshNodes": "n_node", "nMeshFaces": "n_face"}


def load(gridfile, datafile):
    grid = ux.open_grid(gridfile)
    ds = xr.open_dataset(datafile)
    out = {}
    for k in ds.data_vars:
        v = ds[k].rename({d: RENAME[d] for d in ds[k].dims if d in RENAME})
        out[k] = ux.UxDataArray(v, uxgrid=grid)
    return grid, out


qh = os.path.join(MESH, "ugrid", "quad-hexagon")
for data in ("random-face-data.nc", "random-node-data.nc", "random-edge-data.nc", "data.nc"):
    grid, dvars = load(os.path.join(qh, "grid.nc"), os.path.join(qh, data))
    print("quad-hexagon n_nodes_per_face", grid.n_nodes_per_face.values.tolist())
    for k, v in dvars.items():
        show(f"quad-hexagon {data} {k} {v.dims} {v.dtype}", v, grid)
        show(f"quad-hexagon {data} {k} gaussian 6", v, grid, "gaussian", 6)

cs = os.path.join(MESH, "ugrid", "outCSne30")
grid, dvars = load(os.path.join(cs, "outCSne30.ug"), os.path.join(cs, "outCSne30_var2.nc"))
for k, v in dvars.items():
    show(f"outCSne30 {k} {v.dims}", v, grid)
    show(f"outCSne30 {k} tri 1", v, grid, order=1)
    stacked = ux.UxDataArray(xr.concat([v, 2 * v], dim="time"), uxgrid=grid)
    show(f"outCSne30 stacked {stacked.dims}", stacked, grid)

gf = os.path.join(MESH, "ugrid", "geoflow-small")
grid, dvars = load(os.path.join(gf, "grid.nc"), os.path.join(gf, "v1.nc"))
for k, v in dvars.items():
    show(f"geoflow {k} {v.dims}", v, grid)
face_data = ux.UxDataArray(rng.standard_normal((2, 3, grid.n_face)), dims=("time", "meshLayers", "n_face"),
                           name="gf_face", uxgrid=grid)
show("geoflow face data", face_data, grid)

for tag, rel in (("mpas", ("mpas", "QU", "mesh.QU.1920km.151026.nc")),
                 ("exo-mixed", ("exodus", "mixed", "mixed.exo")),
                 ("ov-rll-cs", ("ugrid", "ov_RLL10deg_CSne4", "ov_RLL10deg_CSne4.ug"))):
    grid = ux.open_grid(os.path.join(MESH, *rel))
    vals = rng.standard_normal((2, grid.n_face))
    da = ux.UxDataArray(vals, dims=("t", "n_face"), name=tag, uxgrid=grid)
    print(tag, "n_face", grid.n_face, "n_node", grid.n_node,
          "n_nodes_per_face", np.unique(grid.n_nodes_per_face.values).tolist())
    show(f"{tag} rand", da, grid)
    show(f"{tag} rand gaussian 3", da, grid, "gaussian", 3)
    show(f"{tag} ones tri 12", ux.UxDataArray(np.ones(grid.n_face), dims=("n_face",), uxgrid=grid), grid, "triangular", 12)
    show(f"{tag} node", ux.UxDataArray(np.ones(grid.n_node), dims=("n_node",), uxgrid=grid), grid)
    show(f"{tag} other", ux.UxDataArray(np.ones(7), dims=("x",), uxgrid=grid), grid)
    print("   n_edge built by the generic error:", "edge_node_connectivity" in grid._ds)
