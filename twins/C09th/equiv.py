import sys, os; sys.path.insert(0, os.getcwd())
import hashlib, warnings
import numpy as np
import xarray as xr
import uxarray as ux
assert os.path.abspath(ux.__file__).startswith(os.getcwd() + os.sep), ux.__file__
warnings.filterwarnings("ignore")
from uxarray.constants import INT_FILL_VALUE

M = "test/meshfiles/"
GRIDS = {
    "quadhex": M + "ugrid/quad-hexagon/grid.nc",
    "mixed_exo": M + "exodus/mixed/mixed.exo",
    "mpas": M + "mpas/QU/mesh.QU.1920km.151026.nc",
    "ov_mixed": M + "ugrid/ov_RLL10deg_CSne4/ov_RLL10deg_CSne4.ug",
    "csne8_scrip": M + "scrip/outCSne8/outCSne8.nc",
}


def h(a):
    a = np.ascontiguousarray(a)
    return f"{a.dtype}{a.shape}:{hashlib.sha1(a.tobytes()).hexdigest()[:12]}"


def ds_digest(ds):
    lines = []
    for name in ds.variables:
        v = ds[name]
        lines.append(f"    {name} {v.dims} {h(v.values)} attrs={sorted(v.attrs)}")
    lines.append(f"    dims={dict(ds.sizes)}")
    return "\n".join(lines)


DERIVED = ["edge_node_connectivity", "face_edge_connectivity", "edge_face_connectivity",
           "node_face_connectivity", "face_lon", "edge_lat", "face_areas", "edge_node_distances"]


def derived_digest(g):
    lines = []
    for name in DERIVED:
        try:
            lines.append(f"    D {name} {h(getattr(g, name).values)}")
        except Exception as e:
            lines.append(f"    D {name} EXC {type(e).__name__}: {str(e)[:80]}")
    return "\n".join(lines)


class Recorder:
    """wraps Grid.isel to show exactly what bounding_box hands over"""
    def __init__(self):
        self.calls = []
        self.orig = ux.Grid.isel
        rec = self

        def isel(self_grid, **kw):
            for k, v in kw.items():
                a = np.asarray(v)
                rec.calls.append(f"isel({k}: {type(v).__name__} {a.dtype}{a.shape} {h(a)} "
                                 f"first={a.ravel()[:6].tolist()} C={getattr(v, 'flags', None) is not None and bool(v.flags.c_contiguous)})")
            return rec.orig(self_grid, **kw)
        self.isel = isel

    def __enter__(self):
        ux.Grid.isel = self.isel
        return self

    def __exit__(self, *a):
        ux.Grid.isel = self.orig


def run(tag, g, *args, full=False, **kw):
    before = list(g._ds.variables)
    with Recorder() as rec:
        try:
            sub = g.subset.bounding_box(*args, **kw)
            err = None
        except Exception as e:
            sub, err = None, f"EXC {type(e).__name__}: {str(e)[:150]}"
    new_vars = [v for v in g._ds.variables if v not in before]
    print(f"{tag} args={args!r} kw={kw!r} calls={rec.calls} newly_cached={new_vars}")
    if err:
        print("   ", err)
        return None
    print(f"    -> nf={sub.n_face} nn={sub.n_node} ne={sub.n_edge} "
          f"faces={h(sub._ds['subgrid_face_indices'].values)} nodes={h(sub._ds['subgrid_node_indices'].values)} "
          f"edges={h(sub._ds['subgrid_edge_indices'].values)} fnc={h(sub.face_node_connectivity.values)}")
    if full:
        print(ds_digest(sub._ds))
        print(derived_digest(sub))
    return sub


ELEMENTS = ["nodes", "face centers", "edge centers"]

for gname, path in GRIDS.items():
    for prior in ((), ("face_edge_connectivity", "edge_face_connectivity", "face_lon", "edge_lon")):
        g = ux.open_grid(path)
        for q in prior:
            getattr(g, q)
        tag0 = f"{gname}/{'prior' if prior else 'fresh'}"
        nlon, nlat = g.node_lon.values, g.node_lat.values
        lo0, lo1 = float(np.min(nlon)), float(np.max(nlon))
        la0, la1 = float(np.min(nlat)), float(np.max(nlat))
        mlon, mlat = float(np.median(nlon)), float(np.median(nlat))
        # coordinates of one concrete node: bounds equal to element coordinates
        nx, ny = float(nlon[len(nlon) // 3]), float(nlat[len(nlat) // 3])
        eps = 1e-9
        boxes = [
            ((-180, 180), (-90, 90)),
            ((-181.0, 181.0), (-91.0, 91.0)),
            ((lo0, lo1), (la0, la1)),                     # strict: extreme nodes excluded
            ((lo0 - eps, lo1 + eps), (la0 - eps, la1 + eps)),
            ((mlon, lo1 + 1), (la0 - 1, mlat)),
            ([lo0 - 1, mlon], [mlat, la1 + 1]),
            (np.array([mlon - 0.5 * (mlon - lo0), mlon + 0.5 * (lo1 - mlon)]), np.array([la0 - 1, la1 + 1])),
            # antimeridian-spanning (left > right)
            ((mlon, lo0 + 0.25 * (mlon - lo0)), (-90, 90)),
            ((lo1 - 0.1 * (lo1 - lo0), lo0 + 0.1 * (lo1 - lo0)), (la0 - 1, la1 + 1)),
            ((170, -170), (-90, 90)),
            ((179.999, -179.999), (-45, 45)),
            ((180, -180), (-90, 90)),
            ((nx, lo0), (-90, 90)),                       # left bound == a node's lon (>= there)
            ((lo1, nx), (-90, 90)),                       # right bound == a node's lon (< there)
            ((mlon, -180.0), (-90, 90)),
            # bounds equal to a node's coordinates
            ((nx, lo1 + 1), (la0 - 1, la1 + 1)),
            ((lo0 - 1, nx), (la0 - 1, la1 + 1)),
            ((lo0 - 1, lo1 + 1), (ny, la1 + 1)),
            ((lo0 - 1, lo1 + 1), (la0 - 1, ny)),
            # tiny boxes around one node: single hit -> squeeze() gives 0-d
            ((nx - 1e-7, nx + 1e-7), (ny - 1e-7, ny + 1e-7)),
            ((nx + 1e-7, nx - 1e-7), (ny - 1e-7, ny + 1e-7)),   # everything but a sliver, via antimeridian rule
            # degenerate / empty
            ((mlon, mlon), (-90, 90)),
            ((lo0 - 1, lo1 + 1), (mlat, mlat)),
            ((lo0 - 1, lo1 + 1), (la1 + 1, la0 - 1)),
            ((500, 600), (-90, 90)),
            ((float("nan"), 10.0), (-90, 90)),
            ((-180, 180), (float("nan"), 90)),
        ]
        for i, (lonb, latb) in enumerate(boxes):
            for el in ELEMENTS:
                run(f"{tag0}/box{i}/{el}", g, lonb, latb, element=el, full=(i in (4, 8) and not prior))
        run(f"{tag0}/defaults", g, (lo0 - 1, lo1 + 1), (la0 - 1, la1 + 1))
        run(f"{tag0}/positional", g, (lo0 - 1, lo1 + 1), (la0 - 1, la1 + 1), "face centers", "coords")
        run(f"{tag0}/extra_kwargs", g, (lo0 - 1, lo1 + 1), (la0 - 1, la1 + 1), element="edge centers", foo=1)
        run(f"{tag0}/bad_element", g, (-180, 180), (-90, 90), element="faces")
        run(f"{tag0}/none_element", g, (-180, 180), (-90, 90), element=None)
        run(f"{tag0}/bad_method", g, (-180, 180), (-90, 90), element="faces", method="intersects")
        run(f"{tag0}/none_method", g, (-180, 180), (-90, 90), method=None)
        run(f"{tag0}/short_lon", g, (-180,), (-90, 90))
        run(f"{tag0}/short_lat", g, (-180, 180), (-90,))
        run(f"{tag0}/scalar_lat", g, (-180, 180), 5.0)
        run(f"{tag0}/str_lon", g, ("a", "b"), (-90, 90))
        # bounding circle / nearest neighbour share _index_grid
        for el in ELEMENTS:
            for fn, arg in (("bounding_circle", 25.0), ("nearest_neighbor", 3)):
                try:
                    s = getattr(g.subset, fn)((mlon, mlat), arg, element=el)
                    print(f"{tag0}/{fn}/{el} nf={s.n_face} faces={h(s._ds['subgrid_face_indices'].values)}")
                except Exception as e:
                    print(f"{tag0}/{fn}/{el} EXC {type(e).__name__}: {str(e)[:100]}")
        print(f"{tag0}: source variables at end = {list(g._ds.variables)}")

# one-node-hit grids and one-element grids
fnc = np.array([[0, 1, 2]])
g1 = ux.Grid.from_topology(node_lon=np.array([0.0, 10.0, 5.0]), node_lat=np.array([0.0, 0.0, 8.0]),
                           face_node_connectivity=fnc, fill_value=INT_FILL_VALUE)
for el in ELEMENTS:
    run(f"tri/all/{el}", g1, (-20, 20), (-20, 20), element=el, full=True)
    run(f"tri/one/{el}", g1, (4, 6), (-1, 9), element=el)
    run(f"tri/anti/{el}", g1, (9, 1), (-1, 9), element=el)
    run(f"tri/none/{el}", g1, (20, 30), (-1, 9), element=el)

# data carried through the data-array accessor (built by hand: open_dataset does not work offline)
for gname in ("quadhex", "mpas"):
    g = ux.open_grid(GRIDS[gname])
    for nm, n in (("face", g.n_face), ("node", g.n_node), ("edge", g.n_edge)):
        arr = np.arange(2.0 * n).reshape(2, n) + 0.25
        v = ux.UxDataArray(xr.DataArray(arr, dims=("t", f"n_{nm}"), name="v"), uxgrid=g)
        mlon, mlat = float(np.median(g.node_lon.values)), float(np.median(g.node_lat.values))
        for lonb, latb in (((mlon - 30, mlon + 30), (mlat - 30, mlat + 30)), ((mlon + 5, mlon - 5), (-90, 90))):
            for el in ELEMENTS:
                try:
                    r = v.subset.bounding_box(lonb, latb, element=el)
                    print(f"data/{gname}/{nm}/{el}", lonb, latb, h(r.values), r.dims, r.uxgrid.n_face,
                          h(r.uxgrid._ds["subgrid_face_indices"].values))
                except Exception as e:
                    print(f"data/{gname}/{nm}/{el}", lonb, latb, "EXC", type(e).__name__, str(e)[:100])
