import sys, os

sys.path.insert(0, os.getcwd())
import warnings

warnings.filterwarnings("ignore")
import hashlib
import numpy as np
import uxarray as ux
import uxarray

assert os.path.abspath(uxarray.__file__).startswith(os.path.abspath(os.getcwd()) + os.sep), uxarray.__file__

from uxarray.io._topology import _read_topology, _process_connectivity
from uxarray.constants import INT_FILL_VALUE, INT_DTYPE


def h(a):
    a = np.ascontiguousarray(np.asarray(a))
    return f"{a.dtype}{a.shape}:{hashlib.sha1(a.tobytes()).hexdigest()[:12]}"


def ds_digest(ds):
    out = []
    for name in ds.variables:  # insertion order matters
        v = ds[name]
        out.append((name, v.dims, h(v.values), sorted((k, repr(x)) for k, x in v.attrs.items())))
    return out


def attempt(label, fn):
    try:
        r = fn()
        print(label, "->", r)
    except Exception as e:
        print(label, "-> EXC", type(e).__name__, str(e)[:200])


# ---- inputs -----------------------------------------------------------
lon = np.array([0.0, 10.0, 10.0, 0.0, 20.0, 350.0, 185.5])
lat = np.array([0.0, 0.0, 10.0, 10.0, 5.0, -5.0, 45.0])
FV = -1
conn_mixed = np.array([[0, 1, 2, 3], [1, 4, 2, FV], [0, 3, 5, FV], [3, 2, 6, FV]])
conn_mixed_1 = np.where(conn_mixed == FV, 0, conn_mixed + 1)  # one-based, fill value 0
conn_tri = np.array([[0, 1, 2], [0, 2, 3], [1, 4, 2]])
conn_float_nan = np.where(conn_mixed == FV, np.nan, conn_mixed.astype(float))
conn_intfill = np.where(conn_mixed == FV, INT_FILL_VALUE, conn_mixed).astype(INT_DTYPE)

print("== _read_topology dataset digests")
cases = {
    "mixed_fv-1": dict(a=(lon, lat, conn_mixed, FV, 0), kw={}),
    "mixed_onebased_fv0": dict(a=(lon, lat, conn_mixed_1, 0, 1), kw={}),
    "tri_nofill": dict(a=(lon, lat, conn_tri, None, 0), kw={}),
    "tri_nofill_start1": dict(a=(lon, lat, conn_tri + 1, None, 1), kw={}),
    "nan_fill": dict(a=(lon, lat, conn_float_nan, np.nan, 0), kw={}),
    "intfill": dict(a=(lon, lat, conn_intfill, INT_FILL_VALUE, 0), kw={}),
    "lists": dict(a=(list(lon), list(lat), conn_tri.tolist(), None, 0), kw={}),
    "int32_conn": dict(a=(lon.astype(np.float32), lat.astype(np.float32), conn_mixed.astype(np.int32), FV, 0), kw={}),
    "extra_kwargs": dict(
        a=(lon, lat, conn_mixed, FV, 0),
        kw=dict(
            # deliberately passed in a scrambled order
            node_z=np.sin(np.deg2rad(lat)),
            face_lat=np.array([5.0, 5.0, 2.0, 20.0]),
            edge_node_connectivity=np.array([[0, 1], [1, 2], [2, 3], [3, 0], [1, 4], [4, 2]]),
            face_lon=np.array([5.0, 13.0, 355.0, 190.0]),
            node_x=np.cos(np.deg2rad(lon)),
            node_y=np.sin(np.deg2rad(lon)),
            face_face_connectivity=np.array([[1, 2, 3, FV], [0, FV, FV, FV], [0, FV, FV, FV], [0, FV, FV, FV]]),
            not_a_ugrid_name=np.arange(3),
        ),
    ),
}
for label, c in cases.items():
    try:
        ds = _read_topology(*c["a"], **c["kw"])
        print(label, list(ds.data_vars), dict(ds.sizes))
        for row in ds_digest(ds):
            print("   ", row)
    except Exception as e:
        print(label, "EXC", type(e).__name__, str(e)[:200])

print("== aliasing with caller arrays")
lon_c, lat_c, conn_c = lon.copy(), lat.copy(), conn_mixed.copy()
ds = _read_topology(lon_c, lat_c, conn_c, FV, 0)
print("lon shares", np.shares_memory(ds["node_lon"].values, lon_c))
print("lat shares", np.shares_memory(ds["node_lat"].values, lat_c))
print("conn shares", np.shares_memory(ds["face_node_connectivity"].values, conn_c))
print("caller conn unchanged", np.array_equal(conn_c, conn_mixed), "lon unchanged", np.array_equal(lon_c, lon))
conn_i = conn_tri.astype(INT_DTYPE)
ds = _read_topology(lon_c, lat_c, conn_i, None, 0)
print("nofill conn shares", np.shares_memory(ds["face_node_connectivity"].values, conn_i))

print("== error paths")
attempt("bad dims lon 2d", lambda: ds_digest(_read_topology(lon.reshape(1, -1), lat, conn_tri, None, 0)))
attempt("bad conn 1d", lambda: ds_digest(_read_topology(lon, lat, conn_tri.ravel(), None, 0)))
attempt("lon/lat length mismatch", lambda: ds_digest(_read_topology(lon, lat[:-1], conn_tri, None, 0)))
attempt("dup positional+kw", lambda: _read_topology(lon, lat, conn_tri, None, 0, node_lon=lon))
attempt("str conn", lambda: ds_digest(_read_topology(lon, lat, np.array([["a", "b", "c"]]), None, 0)))
attempt("fill not representable", lambda: ds_digest(_read_topology(lon, lat, conn_tri, 1.5, 0)))

print("== Grid.from_topology + equality (property C20)")


def mk(lo=lon, la=lat, co=conn_mixed, fv=FV, si=0, **kw):
    return ux.Grid.from_topology(lo, la, co, fill_value=fv, start_index=si, **kw)


g = mk()
print("spec", g.source_grid_spec, "n_node", g.n_node, "n_face", g.n_face)
print("lon", h(g.node_lon.values), repr(g.node_lon.values))
print("lat", h(g.node_lat.values))
print("conn", h(g.face_node_connectivity.values), repr(g.face_node_connectivity.values))
print("reflexive", g == g, g != g)
g2 = mk()
print("same inputs", g == g2, g2 == g, g != g2)
print("onebased equivalent", g == mk(co=conn_mixed_1, fv=0, si=1), g == mk(co=conn_float_nan, fv=np.nan))
print("copy", g == g.copy(), g.copy() == g, g != g.copy())
print("non-grid", g == 1, g == None, g == "x", g == g._ds, g != 1)  # noqa: E711
for i in range(len(lon)):
    lo = lon.copy()
    lo[i] += 0.25
    la = lat.copy()
    la[i] -= 0.25
    a, b = mk(lo=lo), mk(la=la)
    print("node", i, "lon-changed", g == a, a == g, g != a, "lat-changed", g == b, b == g, g != b)
for idx in np.ndindex(conn_mixed.shape):
    co = conn_mixed.copy()
    co[idx] = FV if co[idx] != FV else 6
    c = mk(co=co)
    print("conn", idx, g == c, c == g, g != c)
print("fewer nodes", g == mk(lo=lon[:-1], la=lat[:-1], co=conn_mixed[:3]))
print("extra node", g == mk(lo=np.append(lon, 30.0), la=np.append(lat, 30.0)))
print("fewer faces", g == mk(co=conn_mixed[:3]), mk(co=conn_mixed[:3]) == g)
print("narrower conn", mk(co=conn_tri, fv=None) == mk(co=np.c_[conn_tri, [FV, FV, FV]]))
print("with extras equal to without", g == mk(**cases["extra_kwargs"]["kw"]))
gx = mk(**cases["extra_kwargs"]["kw"])
print("extras lon wrapped", repr(gx.face_lon.values), repr(gx.node_lon.values))
print("extras vars", list(gx._ds.data_vars))
print("different format", g == ux.Grid.from_dataset(g._ds, source_grid_spec="UGRID"))
