import sys, os

sys.path.insert(0, os.getcwd())

import copy
import hashlib
import warnings

import numpy as np

import uxarray
import uxarray as ux

assert os.path.abspath(uxarray.__file__).startswith(os.path.abspath(os.getcwd()) + os.sep)

from uxarray.io._topology import _read_topology, _process_connectivity
from uxarray.constants import INT_FILL_VALUE, INT_DTYPE

warnings.simplefilter("ignore")


def digest(a):
    a = np.asarray(a)
    h = hashlib.sha256(np.ascontiguousarray(a).tobytes()).hexdigest()[:16]
    return f"{a.dtype}{a.shape}:{h}"


def show_ds(tag, ds):
    print(tag, "vars:", list(ds.variables), "dims:", dict(ds.sizes))
    for name in ds.variables:
        v = ds[name]
        print(
            "   ",
            name,
            v.dims,
            digest(v.values),
            sorted((k, repr(val)) for k, val in v.attrs.items()),
        )
        print("      ", np.asarray(v.values).tolist())


def snapshot(obj):
    return copy.deepcopy(obj)


def same(a, b):
    if isinstance(a, np.ndarray):
        return (
            isinstance(b, np.ndarray)
            and a.dtype == b.dtype
            and a.shape == b.shape
            and np.array_equal(a, b, equal_nan=a.dtype.kind == "f")
        )
    return a == b


# ---------------------------------------------------------------- inputs
lon = np.array([0.0, 10.0, 10.0, 0.0, 20.0, 25.0, -5.0])
lat = np.array([0.0, 0.0, 10.0, 10.0, 5.0, 15.0, 20.0])

cases = {}
# mixed face sizes, fill value -1, zero based
cases["mixed_fv-1_s0"] = dict(
    fnc=np.array([[0, 1, 2, 3], [1, 4, 2, -1], [2, 4, 5, -1]], dtype=np.int64),
    fill_value=-1,
    start_index=0,
)
# one based, custom fill value 999, int32
cases["mixed_fv999_s1_i32"] = dict(
    fnc=np.array([[1, 2, 3, 4], [2, 5, 3, 999], [3, 5, 6, 999]], dtype=np.int32),
    fill_value=999,
    start_index=1,
)
# fill value already the standard one, one based
cases["mixed_fvSTD_s1"] = dict(
    fnc=np.array(
        [[1, 2, 3, 4], [2, 5, 3, INT_FILL_VALUE], [3, 5, 6, INT_FILL_VALUE]],
        dtype=INT_DTYPE,
    ),
    fill_value=INT_FILL_VALUE,
    start_index=1,
)
# no fill value at all
cases["tri_none_s0"] = dict(
    fnc=np.array([[0, 1, 2], [1, 4, 2], [2, 4, 5]], dtype=np.int64),
    fill_value=None,
    start_index=0,
)
cases["tri_none_s1_u8"] = dict(
    fnc=np.array([[1, 2, 3], [2, 5, 3], [3, 5, 6]], dtype=np.uint8),
    fill_value=None,
    start_index=1,
)
# nested python lists
cases["list_fv-1_s1"] = dict(
    fnc=[[1, 2, 3, 4], [2, 5, 3, -1], [3, 5, 6, -1]],
    fill_value=-1,
    start_index=1,
)
# float connectivity with NaN fill
cases["float_nan_s1"] = dict(
    fnc=np.array([[1.0, 2.0, 3.0, 4.0], [2.0, 5.0, 3.0, np.nan]]),
    fill_value=np.nan,
    start_index=1,
)
# single face, everything valid but fill value given
cases["single_face_fv-1_s0"] = dict(
    fnc=np.array([[0, 1, 2, 3]], dtype=np.int64), fill_value=-1, start_index=0
)
# non contiguous / transposed view as input
base = np.array([[1, 2, 3], [2, 5, 5], [3, 3, 6], [4, -1, -1]], dtype=np.int64)
cases["fortran_view_fv-1_s1"] = dict(fnc=base.T, fill_value=-1, start_index=1)

print("== _process_connectivity ==")
for name, c in cases.items():
    before = snapshot(c["fnc"])
    try:
        out = _process_connectivity(c["fnc"], c["fill_value"], c["start_index"])
        print(name, digest(out), out.tolist(), "C" if out.flags.c_contiguous else "nonC")
        if isinstance(c["fnc"], np.ndarray):
            print("   shares memory with input:", np.shares_memory(out, c["fnc"]))
    except Exception as e:  # noqa
        print(name, "EXC", type(e).__name__, e)
    print("   input unchanged:", same(before, c["fnc"]))

print("== _read_topology ==")
for name, c in cases.items():
    lon_in, lat_in = lon.copy(), lat.copy()
    before = snapshot(c["fnc"])
    try:
        ds = _read_topology(lon_in, lat_in, c["fnc"], c["fill_value"], c["start_index"])
        show_ds(name, ds)
    except Exception as e:  # noqa
        print(name, "EXC", type(e).__name__, e)
    print(
        "   inputs unchanged:",
        same(before, c["fnc"]),
        same(lon, lon_in),
        same(lat, lat_in),
    )

print("== _read_topology with optional variables ==")
extra = dict(
    # deliberately passed in an order different from the conventions' order
    face_lat=np.array([5.0, 5.0, 10.0]),
    edge_node_connectivity=np.array(
        [[1, 2], [2, 3], [3, 4], [4, 1], [2, 5], [5, 3], [5, 6], [6, 3]], dtype=np.int32
    ),
    node_z=np.linspace(-1, 1, 7),
    face_lon=[5.0, 13.0, 18.0],
    node_x=np.linspace(0, 1, 7),
    node_face_connectivity=[[1, -1, -1], [1, 2, -1], [1, 2, 3], [1, -1, -1], [2, 3, -1], [3, -1, -1], [-1, -1, -1]],
    node_y=np.linspace(1, 2, 7),
    face_face_connectivity=np.array([[2, -1, -1, -1], [1, 3, -1, -1], [2, -1, -1, -1]]),
    not_a_grid_variable=np.arange(3),
)
extra_before = snapshot(extra)
c = cases["list_fv-1_s1"]
ds = _read_topology(lon.tolist(), lat.tolist(), c["fnc"], -1, 1, **extra)
show_ds("extras", ds)
print(
    "   extras unchanged:",
    all(same(extra_before[k], extra[k]) for k in extra),
    list(extra) == list(extra_before),
)
# attrs of distinct variables must be distinct dict objects / not the conventions' dicts
import uxarray.conventions.ugrid as ugrid

print(
    "   attrs are copies:",
    ds["node_lon"].attrs is not ugrid.SPHERICAL_COORDS["node_lon"]["attrs"],
    ds["node_x"].attrs is not ugrid.CARTESIAN_COORDS["node_x"]["attrs"],
    ds["face_node_connectivity"].attrs
    is not ugrid.CONNECTIVITY["face_node_connectivity"]["attrs"],
)

print("== error cases ==")
bad_calls = {
    "dup_kw": lambda: _read_topology(
        lon, lat, cases["tri_none_s0"]["fnc"], None, 0, node_lon=lon
    ),
    "wrong_dim_coord": lambda: _read_topology(
        lon.reshape(7, 1), lat, cases["tri_none_s0"]["fnc"], None, 0
    ),
    "wrong_dim_conn": lambda: _read_topology(lon, lat, np.arange(3), None, 0),
    "string_conn": lambda: _read_topology(lon, lat, [["a", "b", "c"]], -1, 0),
    "float_start": lambda: _read_topology(
        lon, lat, cases["mixed_fv-1_s0"]["fnc"], -1, 0.5
    ),
    "bad_extra_conn": lambda: _read_topology(
        lon,
        lat,
        cases["mixed_fv-1_s0"]["fnc"],
        -1,
        0,
        edge_node_connectivity=np.arange(4),
    ),
    "tuple_lat": lambda: _read_topology(
        lon, tuple(lat.tolist()), cases["tri_none_s0"]["fnc"], None, 0
    ),
    "ragged": lambda: _read_topology(lon, lat, [[0, 1, 2], [1, 2]], -1, 0),
}
for name, f in bad_calls.items():
    try:
        r = f()
        show_ds(name + " (no error)", r)
    except Exception as e:  # noqa
        print(name, "EXC", type(e).__name__, str(e)[:160])

print("== Grid.from_topology end to end ==")
for name, c in cases.items():
    lon_in, lat_in = lon.copy(), lat.copy()
    before = snapshot(c["fnc"])
    try:
        g = ux.Grid.from_topology(
            lon_in, lat_in, c["fnc"], fill_value=c["fill_value"], start_index=c["start_index"]
        )
        print(
            name,
            g.n_face,
            g.n_node,
            g.n_max_face_nodes,
            digest(g.face_node_connectivity.values),
            g.n_nodes_per_face.values.tolist(),
            digest(g.edge_node_connectivity.values),
            digest(g.node_x.values),
        )
        # mutate the grid through the public API, inputs must stay as they were
        g.normalize_cartesian_coordinates()
        g.face_node_connectivity.values[0, 0] = 3
        g.node_lon.values[0] = 77.0
        cp = g.copy()
        cp.node_lat.values[1] = -33.0
        print(
            "   after mutation: inputs unchanged:",
            same(before, c["fnc"]),
            "grid/copy independent:",
            float(g.node_lat.values[1]),
            float(cp.node_lat.values[1]),
        )
        print("   lon aliasing (reported only):", float(lon_in[0]))
    except Exception as e:  # noqa
        print(name, "EXC", type(e).__name__, str(e)[:160])
