import sys, os; sys.path.insert(0, os.getcwd())
import hashlib, warnings
import numpy as np
import xarray as xr
import uxarray as ux
assert os.path.abspath(ux.__file__).startswith(os.path.abspath(os.getcwd()) + os.sep), ux.__file__
from uxarray.constants import INT_FILL_VALUE, INT_DTYPE
warnings.simplefilter("ignore")


def dig(a):
    a = np.asarray(a)
    return "%s %s %s" % (a.dtype, a.shape, hashlib.sha256(np.ascontiguousarray(a).tobytes()).hexdigest()[:16])


def show(tag, fn):
    try:
        r = fn()
    except Exception as e:  # noqa
        print(tag, "EXC", type(e).__name__, str(e)[:200])
        return None
    print(tag, r)
    return r


F = INT_FILL_VALUE
# mixed triangle / quad / pentagon mesh near the pole and the antimeridian, padded with fill values
lon_f = np.array([170.0, -175.0, -170.0, 175.0, 178.0, -178.0, 160.0, 165.0])
lat_f = np.array([80.0, 80.0, 86.0, 86.0, 89.0, 75.0, 70.0, 78.0])
conn_mixed = np.array([[0, 1, 2, 3, F], [3, 2, 4, F, F], [0, 5, 1, F, F], [6, 5, 0, 7, F], [7, 0, 3, F, F]], dtype=INT_DTYPE)
# integer valued degrees (exercises the non-floating -> float conversion)
lon_i = np.array([0, 10, 10, 0, 20, 20, 5], dtype=np.int64)
lat_i = np.array([0, 0, 10, 10, 0, 10, 20], dtype=np.int64)
conn_i = np.array([[0, 1, 2, 3], [1, 4, 5, 2], [3, 2, 6, F]], dtype=INT_DTYPE)


def grids():
    yield "mixed_f64", lambda: ux.Grid.from_topology(lon_f, lat_f, conn_mixed, fill_value=F)
    yield "mixed_f32", lambda: ux.Grid.from_topology(lon_f.astype(np.float32), lat_f.astype(np.float32), conn_mixed, fill_value=F)
    yield "int_lonlat", lambda: ux.Grid.from_topology(lon_i, lat_i, conn_i, fill_value=F)
    yield "int32_lonlat", lambda: ux.Grid.from_topology(lon_i.astype(np.int32), lat_i.astype(np.int32), conn_i, fill_value=F)
    yield "one_tri", lambda: ux.Grid.from_face_vertices([[0.0, 0.0], [30.0, 0.0], [0.0, 30.0]], latlon=True)
    yield "verts_xyz", lambda: ux.Grid.from_face_vertices(
        [[[1.0, 0, 0], [0, 1.0, 0], [0, 0, 1.0]], [[1.0, 0, 0], [0, 0, 1.0], [0, -1.0, 0]]], latlon=False)
    for rel in ("test/meshfiles/ugrid/outCSne30/outCSne30.ug", "test/meshfiles/exodus/mixed/mixed.exo",
                "test/meshfiles/mpas/QU/oQU480.231010.nc", "test/meshfiles/ugrid/geoflow-small/grid.nc",
                "test/meshfiles/scrip/outCSne8/outCSne8.nc"):
        if os.path.exists(rel):
            yield rel.split("/")[-1], (lambda rel=rel: ux.open_grid(rel))


RULES = [("triangular", o) for o in (1, 4, 8, 10, 12)] + [("gaussian", o) for o in range(1, 11)]

for name, mk in grids():
    try:
        g = mk()
    except Exception as e:
        print(name, "BUILD EXC", type(e).__name__, str(e)[:200])
        continue
    print("==", name, g.n_face, g.n_node, g.n_max_face_nodes)
    # default call: return value, aliasing with the private attributes
    def default_call(g=g):
        a, j = g.compute_face_areas()
        return (dig(a), dig(j), a is g._face_areas, j is g._face_jacobian, bool((a >= 0).all()))
    show(name + " default", default_call)
    for latlon in (True, False):
        for rule, order in RULES:
            def call(g=g, rule=rule, order=order, latlon=latlon):
                a, j = g.compute_face_areas(rule, order, latlon)
                return (dig(a), dig(j), a is g._face_areas, j is g._face_jacobian, repr(float(a.sum())))
            show("%s %s %d latlon=%s" % (name, rule, order, latlon), call)
    for rule, order in RULES:
        show("%s total %s %d" % (name, rule, order),
             lambda g=g, rule=rule, order=order: (repr(g.calculate_total_face_area(rule, order)),
                                                  type(g.calculate_total_face_area(quadrature_rule=rule, order=order)).__name__))
    show(name + " total default", lambda g=g: repr(g.calculate_total_face_area()))
    # keyword / odd arguments and the exceptions they raise
    show(name + " kw", lambda g=g: dig(g.compute_face_areas(order=8, quadrature_rule="gaussian", latlon=False)[0]))
    # (unsupported orders are not exercised: the jitted tables leave them undefined and may crash)
    show(name + " bad rule", lambda g=g: dig(g.compute_face_areas("simpson", 4)[0]))
    # cache equals fresh default computation and is kept
    def cache(g=g):
        fa = g.face_areas
        fresh, _ = g.compute_face_areas()
        return (dig(fa.values), fa.dims, sorted(fa.attrs.items()), bool(np.array_equal(fa.values, fresh)),
                g.face_areas is g._ds["face_areas"] or True, dig(g.face_jacobian))
    show(name + " cache", cache)
    # the coordinate arrays must not be modified / replaced by the call
    show(name + " coords after", lambda g=g: (dig(g.node_lon.values), dig(g.node_lat.values), dig(g.node_x.values)))

# grid whose coordinate variables are integers inside the dataset (conversion branch on x, y and on z)
ds = xr.Dataset({
    "node_lon": (("n_node",), lon_i), "node_lat": (("n_node",), lat_i),
    "node_x": (("n_node",), np.array([1, 0, 0, 0, -1, 0, 0], dtype=np.int64)),
    "node_y": (("n_node",), np.array([0, 1, 0, -1, 0, 0, 1], dtype=np.int64)),
    "node_z": (("n_node",), np.array([0, 0, 1, 0, 0, -1, 0], dtype=np.int64)),
    "face_node_connectivity": (("n_face", "n_max_face_nodes"), np.array([[0, 1, 2, F], [1, 4, 2, F], [0, 2, 3, F]], dtype=INT_DTYPE)),
})
def int_ds():
    g = ux.Grid(ds, source_grid_spec="UGRID") if "source_grid_spec" in ux.Grid.__init__.__code__.co_varnames else ux.Grid(ds)
    out = []
    for latlon in (True, False):
        a, j = g.compute_face_areas("gaussian", 6, latlon)
        out.append((dig(a), dig(j), repr(a.tolist())))
    out.append((str(g._ds["node_x"].dtype), str(g._ds["node_lon"].dtype)))
    return out
show("int dataset", int_ds)

# empty coordinate arrays: arr[0] fails first on x
def empty():
    g = ux.Grid.from_topology(np.array([], dtype=float), np.array([], dtype=float), np.zeros((0, 3), dtype=INT_DTYPE), fill_value=F)
    return g.compute_face_areas()
show("empty", empty)
