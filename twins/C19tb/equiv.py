import sys, os

sys.path.insert(0, os.getcwd())

import hashlib
import warnings

import numpy as np
import xarray as xr

import uxarray
import uxarray as ux

assert os.path.abspath(uxarray.__file__).startswith(os.path.abspath(os.getcwd()) + os.sep)

from uxarray.io._ugrid import _encode_ugrid
from uxarray.constants import INT_FILL_VALUE

warnings.simplefilter("ignore")


def digest(a):
    a = np.asarray(a)
    h = hashlib.sha256(np.ascontiguousarray(a).tobytes()).hexdigest()[:16]
    return f"{a.dtype}{a.shape}:{h}"


def attr_repr(v):
    if isinstance(v, np.ndarray):
        return "ndarray " + digest(v)
    if isinstance(v, (str, int, float, np.integer, np.floating)):
        return repr(v)
    return type(v).__name__


def describe(tag, ds):
    print(tag, "type:", type(ds).__name__)
    print("   variables:", list(ds.variables))
    print("   data_vars:", list(ds.data_vars), "coords:", list(ds.coords))
    print("   dims:", dict(ds.sizes))
    print("   ds attrs:", [(k, attr_repr(v)) for k, v in ds.attrs.items()])
    for name in ds.variables:
        v = ds[name]
        print(
            "     ",
            name,
            v.dims,
            digest(v.values),
            [(k, attr_repr(val)) for k, val in v.attrs.items()],
        )


def state(ds):
    """A comparable description of a dataset including attribute identity."""
    out = []
    for name in ds.variables:
        var = ds.variables[name]
        out.append(
            (
                name,
                var.dims,
                digest(var.values),
                tuple((k, attr_repr(v)) for k, v in var.attrs.items()),
            )
        )
    return (tuple(out), tuple((k, attr_repr(v)) for k, v in ds.attrs.items()))


def check_export(tag, ds_in):
    before = state(ds_in)
    var_ids_before = {k: id(v) for k, v in ds_in.variables.items()}
    out = _encode_ugrid(ds_in)
    describe(tag, out)
    print("   input dataset unchanged:", state(ds_in) == before)
    print(
        "   input variables are the same objects:",
        {k: id(v) for k, v in ds_in.variables.items()} == var_ids_before,
    )
    print("   output is a new Dataset:", out is not ds_in)
    print(
        "   output variables are new objects:",
        all(out.variables[k] is not ds_in.variables[k] for k in out.variables if k in ds_in.variables),
    )
    print(
        "   data shared with the input (per variable):",
        [
            (k, bool(np.shares_memory(out.variables[k].values, ds_in.variables[k].values)))
            for k in out.variables
            if k in ds_in.variables
        ],
    )
    # edit the export: attributes, new variables, dropped variables
    out.attrs["edited"] = "yes"
    out["grid_topology"].attrs["cf_role"] = "edited"
    out["face_node_connectivity"].attrs["edited"] = 1
    out["extra"] = xr.DataArray(np.arange(3), dims=["extra_dim"])
    out = out.drop_vars(["node_lat"])
    print("   input dataset unchanged after editing the export:", state(ds_in) == before)
    # a second export is not affected by the edits to the first
    out2 = _encode_ugrid(ds_in)
    print(
        "   second export grid_topology:",
        [(k, attr_repr(v)) for k, v in out2["grid_topology"].attrs.items()],
    )
    print("   second export has no 'extra':", "extra" not in out2, "edited" not in out2.attrs)
    return out2


lon = np.array([0.0, 10.0, 10.0, 0.0, 20.0, 25.0, -5.0])
lat = np.array([0.0, 0.0, 10.0, 10.0, 5.0, 15.0, 20.0])
fnc = np.array([[0, 1, 2, 3], [1, 4, 2, -1], [2, 4, 5, -1]], dtype=np.int64)

print("== fresh grid from topology (mixed face sizes) ==")
g = ux.Grid.from_topology(lon.copy(), lat.copy(), fnc.copy(), fill_value=-1)
check_export("fresh", g._ds)

print("== after lazy derivations: edges (helper attrs), centres, bounds ==")
_ = g.edge_node_connectivity
_ = g.face_edge_connectivity
_ = g.edge_lon
_ = g.face_lon
_ = g.node_x
_ = g.node_face_connectivity
try:
    _ = g.bounds
except Exception as e:  # noqa
    print("bounds EXC", type(e).__name__, str(e)[:100])
print(
    "helper attrs on the grid before export:",
    sorted(g._ds["edge_node_connectivity"].attrs),
)
check_export("derived", g._ds)
print(
    "helper attrs on the grid after export:",
    sorted(g._ds["edge_node_connectivity"].attrs),
    sorted(g._ds["bounds"].attrs) if "bounds" in g._ds else None,
)

print("== to_xarray / encode_as through the Grid ==")
for call, fmt in (("to_xarray", "ugrid"), ("encode_as", "UGRID"), ("encode_as", "ugrid")):
    before = state(g._ds)
    try:
        out = getattr(g, call)(fmt)
        describe(call, out)
        print("   is not Grid._ds:", out is not g._ds)
        out.attrs["x"] = 1
        out["grid_topology"].attrs["x"] = 1
        out["edge_node_connectivity"].attrs["x"] = 1
        print("   grid dataset unchanged:", state(g._ds) == before)
    except Exception as e:  # noqa
        print(call, "EXC", type(e).__name__, str(e)[:120])
try:
    g.to_xarray("nonsense")
except Exception as e:  # noqa
    print("bad format EXC", type(e).__name__, e)

print("== dataset that already carries a grid_topology (read from UGRID files) ==")
for path in (
    "test/meshfiles/ugrid/geoflow-small/grid.nc",
    "test/meshfiles/ugrid/outCSne30/outCSne30.ug",
    "test/meshfiles/ugrid/fesom/fesom.mesh.diag.nc",
):
    try:
        gf = ux.open_grid(path)
    except Exception as e:  # noqa
        print(path, "open EXC", type(e).__name__, str(e)[:120])
        continue
    print(path, "has grid_topology:", "grid_topology" in gf._ds)
    old_topology = (
        [(k, attr_repr(v)) for k, v in gf._ds["grid_topology"].attrs.items()]
        if "grid_topology" in gf._ds
        else None
    )
    check_export(path, gf._ds)
    print(
        "   grid's own grid_topology unchanged:",
        old_topology
        == (
            [(k, attr_repr(v)) for k, v in gf._ds["grid_topology"].attrs.items()]
            if "grid_topology" in gf._ds
            else None
        ),
    )

print("== other sources: MPAS (with global attrs), exodus mixed ==")
for path in (
    "test/meshfiles/mpas/QU/mesh.QU.1920km.151026.nc",
    "test/meshfiles/exodus/mixed/mixed.exo",
):
    try:
        gm = ux.open_grid(path)
        _ = gm.edge_node_connectivity
        check_export(path, gm._ds)
    except Exception as e:  # noqa
        print(path, "EXC", type(e).__name__, str(e)[:120])

print("== hand made datasets: bounds / edge_node_connectivity carrying helper attrs ==")
ds = xr.Dataset()
ds["node_lon"] = xr.DataArray(lon.copy(), dims=["n_node"], attrs={"units": "degrees_east"})
ds["node_lat"] = xr.DataArray(lat.copy(), dims=["n_node"])
ds["face_node_connectivity"] = xr.DataArray(
    np.where(fnc < 0, INT_FILL_VALUE, fnc), dims=["n_face", "n_max_face_nodes"]
)
ds["edge_node_connectivity"] = xr.DataArray(
    np.array([[0, 1], [1, 2]]),
    dims=["n_edge", "two"],
    attrs={
        "cf_role": "edge_node_connectivity",
        "inverse_indices": np.arange(4),
        "keepme": "kept",
        "fill_value_mask": np.array([True, False]),
    },
)
ds["bounds"] = xr.DataArray(
    np.zeros((3, 2, 2)),
    dims=["n_face", "lon_lat", "min_max"],
    attrs={
        "latitude_intervalsIndex": object(),
        "cf_role": "face_latlon_bounds",
        "latitude_intervals_name_map": {"a": 1},
    },
)
ds["grid_topology"] = xr.DataArray(-7, attrs={"cf_role": "mesh_topology", "stale": "yes"})
ds.attrs["title"] = "hand made"
check_export("handmade", ds)

ds_coord = ds.set_coords(["bounds", "node_lon"]).drop_vars(["grid_topology", "edge_node_connectivity"])
check_export("handmade_coords_no_topology", ds_coord)

print("== error case: not a dataset ==")
for bad in (None, {"a": 1}):
    try:
        _encode_ugrid(bad)
        print("no error")
    except Exception as e:  # noqa
        print("EXC", type(e).__name__, str(e)[:120])
