import sys, os

sys.path.insert(0, os.getcwd())
import hashlib
import warnings

import numpy as np

import uxarray as ux

assert os.path.abspath(ux.__file__).startswith(os.path.abspath(os.getcwd()) + os.sep), ux.__file__

from uxarray.constants import INT_FILL_VALUE
from uxarray.grid import geometry as G
from uxarray.grid.utils import (
    _get_cartesian_face_edge_nodes,
    _get_lonlat_rad_face_edge_nodes,
)

warnings.simplefilter("ignore")
np.set_printoptions(precision=17, linewidth=200)


def hx(a):
    a = np.asarray(a)
    return "%s %s %s" % (a.dtype, a.shape, " ".join(float(v).hex() for v in a.ravel()))


def digest(a):
    a = np.ascontiguousarray(a)
    return hashlib.sha256(a.tobytes()).hexdigest()[:16]


def call(label, fn, *args, **kw):
    """run fn, print the result or the exception in a canonical way"""
    try:
        with warnings.catch_warnings(record=True) as w:
            warnings.simplefilter("always")
            res = fn(*args, **kw)
        wtxt = sorted({(x.category.__name__, str(x.message)[:60]) for x in w})
    except BaseException as e:  # noqa
        print(label, "EXC", type(e).__name__, str(e)[:200])
        return None
    if isinstance(res, np.ndarray):
        print(label, "->", hx(res), "warn", wtxt)
    else:
        print(label, "->", type(res).__name__, repr(res), "warn", wtxt)
    return res


# --------------------------------------------------------------------------
# face generators
# --------------------------------------------------------------------------
def cap_face(lon_c, lat_c, radius, n, phase, reverse):
    """n corners on a small circle of angular radius `radius` around the
    centre: a convex spherical polygon. Returns lon/lat in degrees."""
    lam, phi = np.deg2rad(lon_c), np.deg2rad(lat_c)
    c = np.array([np.cos(phi) * np.cos(lam), np.cos(phi) * np.sin(lam), np.sin(phi)])
    helper = np.array([0.0, 0.0, 1.0]) if abs(c[2]) < 0.9 else np.array([1.0, 0.0, 0.0])
    e1 = np.cross(helper, c)
    e1 /= np.linalg.norm(e1)
    e2 = np.cross(c, e1)
    ang = phase + np.sort(np.linspace(0, 2 * np.pi, n, endpoint=False))
    r = np.deg2rad(radius)
    pts = (
        np.cos(r) * c[None, :]
        + np.sin(r) * (np.cos(ang)[:, None] * e1[None, :] + np.sin(ang)[:, None] * e2[None, :])
    )
    if reverse:
        pts = pts[::-1]
    lon = np.rad2deg(np.arctan2(pts[:, 1], pts[:, 0])) % 360.0
    lat = np.rad2deg(np.arcsin(np.clip(pts[:, 2], -1, 1)))
    return np.column_stack([lon, lat])


def grid_from_faces(faces, fill=INT_FILL_VALUE):
    nmax = max(len(f) for f in faces)
    lon, lat, conn = [], [], []
    for f in faces:
        start = len(lon)
        for p in f:
            lon.append(p[0])
            lat.append(p[1])
        row = list(range(start, start + len(f))) + [fill] * (nmax - len(f))
        conn.append(row)
    return ux.Grid.from_topology(
        np.array(lon, dtype=float),
        np.array(lat, dtype=float),
        np.array(conn, dtype=np.int64),
        fill_value=fill,
    )


def face_edge_arrays(grid):
    cart = _get_cartesian_face_edge_nodes(
        grid.face_node_connectivity.values,
        grid.n_face,
        grid.n_max_face_edges,
        grid.node_x.values,
        grid.node_y.values,
        grid.node_z.values,
    )
    lonlat = _get_lonlat_rad_face_edge_nodes(
        grid.face_node_connectivity.values,
        grid.n_face,
        grid.n_max_face_edges,
        grid.node_lon.values,
        grid.node_lat.values,
    )
    return cart, lonlat


rng = np.random.default_rng(20240913)

faces = []
labels = []


def add(label, f):
    faces.append(np.asarray(f, dtype=float))
    labels.append(label)


# random caps everywhere on the sphere, 3..8 corners, both orientations
for k in range(60):
    n = int(rng.integers(3, 9))
    lat_c = float(np.rad2deg(np.arcsin(rng.uniform(-1, 1))))
    lon_c = float(rng.uniform(0, 360))
    radius = float(rng.uniform(0.5, 25))
    add(
        "rand%02d n=%d" % (k, n),
        cap_face(lon_c, lat_c, radius, n, float(rng.uniform(0, 6.28)), bool(k % 2)),
    )
# faces enclosing a pole, faces near a pole not enclosing it
for k, (lat_c, radius) in enumerate(
    [(90, 10), (-90, 10), (88, 5), (-87, 6), (80, 8), (-80, 8), (85, 5.5), (-85, 4.5), (89.5, 20), (-89, 30)]
):
    for n in (3, 4, 6, 8):
        add("pole%02d n=%d" % (k, n), cap_face(33.0 * k, lat_c, radius, n, 0.3 * k, bool((k + n) % 2)))
# antimeridian / prime meridian crossings
for k, lon_c in enumerate([0.0, 359.5, 0.7, 180.0, 179.6, 180.9]):
    for lat_c in (-60, -5, 0, 40, 72):
        n = 3 + (k + abs(lat_c)) % 6
        add("merid%d lat=%d n=%d" % (k, lat_c, n), cap_face(lon_c, lat_c, 7.0, n, 0.1 + k, bool(k % 2)))
# hand-made: corner at a pole, lat/lon aligned quads, equator straddling, poleward bulging edge
add("corner_np", [[10.0, 90.0], [10.0, 70.0], [60.0, 70.0]])
add("corner_np_rot", [[10.0, 70.0], [60.0, 70.0], [10.0, 90.0]])
add("corner_sp", [[200.0, -90.0], [250.0, -75.0], [200.0, -75.0]])
add("quad_ll", [[10.0, 60.0], [10.0, 10.0], [50.0, 10.0], [50.0, 60.0]])
add("quad_ll_am", [[350.0, 60.0], [350.0, 10.0], [50.0, 10.0], [50.0, 60.0]])
add("quad_eq", [[100.0, 10.0], [100.0, -10.0], [140.0, -10.0], [140.0, 10.0]])
add("quad_on_eq", [[100.0, 0.0], [140.0, 0.0], [140.0, 20.0], [100.0, 20.0]])
add("bulge_n", [[0.0, 60.0], [120.0, 60.0], [60.0, 20.0]])
add("bulge_s", [[300.0, -60.0], [60.0, -60.0], [0.0, -20.0]])
add("lowest_corner_starts_bulge", [[10.0, -50.0], [120.0, -50.0], [100.0, -20.0], [30.0, -20.0]])
add("np_quad", [[0.0, 80.0], [90.0, 80.0], [180.0, 80.0], [270.0, 80.0]])
add("sp_quad_rev", [[270.0, -80.0], [180.0, -80.0], [90.0, -80.0], [0.0, -80.0]])
add("edge_over_np", [[0.0, 80.0], [180.0, 80.0], [180.0, 60.0], [0.0, 60.0]])

print("n faces", len(faces))

# --------------------------------------------------------------------------
# 1. one grid per face: Grid.bounds + the pole helpers on the face
# --------------------------------------------------------------------------
for label, f in zip(labels, faces):
    g = grid_from_faces([f])
    cart, lonlat = face_edge_arrays(g)
    print("== face", label)
    print(" classify ->", G._classify_polygon_location(cart[0]))
    for pole in ("North", "South"):
        call(" pole_inside %s" % pole, G._pole_point_inside_polygon, pole, cart[0])
    for ref in (
        np.array([[0.0, 0.0, 1.0], [1.0, 0.0, 0.0]]),
        np.array([[0.0, 0.0, -1.0], [1.0, 0.0, 0.0]]),
        np.array([[0.0, 1.0, 0.0], [1.0, 0.0, 0.0]]),
    ):
        call(" check_intersection", G._check_intersection, ref, cart[0])
    call(" face_bound", G._populate_face_latlon_bound, cart[0], lonlat[0])
    call(" face_bound latlonface", G._populate_face_latlon_bound, cart[0], lonlat[0], is_latlonface=True)
    gca_flags = [bool(i % 2) for i in range(cart[0].shape[0])]
    call(" face_bound gcalist", G._populate_face_latlon_bound, cart[0], lonlat[0], is_GCA_list=gca_flags)
    try:
        b = g.bounds
        print(" Grid.bounds", hx(b.values), b.dims, b.dtype)
    except BaseException as e:  # noqa
        print(" Grid.bounds EXC", type(e).__name__, str(e)[:200])

call("pole_inside bad name", G._pole_point_inside_polygon, "East", face_edge_arrays(grid_from_faces([faces[0]]))[0][0])
call("pole_inside bad name2", G._pole_point_inside_polygon, "north", face_edge_arrays(grid_from_faces([faces[0]]))[0][0])

# --------------------------------------------------------------------------
# 2. mixed grids (different face sizes => fill values in the connectivity)
# --------------------------------------------------------------------------


def good_faces():
    out = []
    for label, f in zip(labels, faces):
        try:
            grid_from_faces([f]).bounds
            out.append((label, f))
        except BaseException:  # noqa
            pass
    return out


ok = good_faces()
print("faces with bounds:", len(ok))
for fill in (INT_FILL_VALUE, -1):
    for chunk in range(0, len(ok), 17):
        sel = ok[chunk : chunk + 17]
        g = grid_from_faces([f for _, f in sel], fill=fill)
        print("== mixed grid chunk", chunk, "fill", fill, "n_face", g.n_face, "nmax", g.n_max_face_nodes)
        had = "bounds" in g._ds
        with warnings.catch_warnings(record=True) as w:
            warnings.simplefilter("always")
            b = g.bounds
        print(" cached before:", had, "after:", "bounds" in g._ds, "warnings:", sorted({str(x.message)[:50] for x in w}))
        with warnings.catch_warnings(record=True) as w2:
            warnings.simplefilter("always")
            b2 = g.bounds
        print(" second access same object data:", b2.values is b.values or np.shares_memory(b2.values, b.values), "warnings:", len(w2))
        print(" dims", b.dims, "dtype", b.dtype, "shape", b.shape, "sha", digest(b.values))
        print(" values", hx(b.values))
        a = b.attrs
        print(" attrs keys", list(a.keys()))
        print(" attrs simple", a["cf_role"], a["_FillValue"], a["long_name"], repr(a["start_index"]), type(a["start_index"]).__name__)
        ii = a["latitude_intervalsIndex"]
        print(" intervals", type(ii).__name__, ii.closed, ii.dtype, hx(ii.left.values), hx(ii.right.values))
        df = a["latitude_intervals_name_map"]
        print(" map", list(df.columns), df["face_id"].dtype, df["face_id"].tolist(), type(df.index).__name__, df.index.equals(ii))
        # the functional interface
        r = G._populate_bounds(g, return_array=True)
        print(" return_array", type(r).__name__, digest(r.values), r.values is g._ds["bounds"].values)
        try:
            r = G._populate_bounds(g, is_latlonface=True, return_array=True)
            print(" return_array latlonface", digest(r.values), hx(r.values))
        except BaseException as e:  # noqa
            print(" return_array latlonface EXC", type(e).__name__, str(e)[:200])
        flags = [[bool((i + j) % 2) for j in range(g.n_max_face_nodes)] for i in range(g.n_face)]
        try:
            r = G._populate_bounds(g, is_face_GCA_list=flags, return_array=True)
            print(" return_array gcalist", digest(r.values), hx(r.values))
        except BaseException as e:  # noqa
            print(" return_array gcalist EXC", type(e).__name__, str(e)[:200])
        g2 = grid_from_faces([f for _, f in sel], fill=fill)
        try:
            ret = G._populate_bounds(g2, is_latlonface=True)
            print(" store mode returns", ret, "stored", "bounds" in g2._ds, digest(g2._ds["bounds"].values))
        except BaseException as e:  # noqa
            print(" store mode latlonface EXC", type(e).__name__, str(e)[:200], "stored", "bounds" in g2._ds)
        ret = G._populate_bounds(g2)
        print(" store mode returns", ret, "stored", "bounds" in g2._ds, digest(g2._ds["bounds"].values))
        print(" bounds afterwards", digest(g2.bounds.values), g2.bounds.values is g2._ds["bounds"].values)

# extra for the bounds driver: positional arguments, numpy flag arrays, a too
# short flag list, a face that trips the internal assertion, cache state
sel = ok[:9]
g = grid_from_faces([f for _, f in sel])
r = G._populate_bounds(g, False, None, True)
print("positional", digest(r.values), "cached", "bounds" in g._ds)
flags = np.ones((g.n_face, g.n_max_face_nodes), dtype=bool)
r2 = G._populate_bounds(g, is_face_GCA_list=flags, return_array=True)
print("all-GCA flags equal default:", np.array_equal(r.values, r2.values), digest(r2.values))
try:
    G._populate_bounds(g, is_face_GCA_list=[[True] * g.n_max_face_nodes] * 2, return_array=True)
except BaseException as e:  # noqa
    print("short flag list EXC", type(e).__name__, str(e)[:100], "cached", "bounds" in g._ds)
ii = r.attrs["latitude_intervalsIndex"]
print("interval elements", [(type(iv.left).__name__, float(iv.left).hex(), float(iv.right).hex(), iv.closed) for iv in ii])
print("overlaps query", r.attrs["latitude_intervals_name_map"].loc[ii.overlaps(__import__("pandas").Interval(0.0, 0.2, closed="both"))]["face_id"].tolist())
# a constant-latitude face treated as lat/lon face: zero latitude extent => assertion
flat = grid_from_faces([np.array([[10.0, 0.0], [20.0, 0.0], [30.0, 0.0]])])
for kw in ({}, {"is_latlonface": True}):
    try:
        rr = G._populate_bounds(flat, return_array=True, **kw)
        print("flat", kw, hx(rr.values))
    except BaseException as e:  # noqa
        print("flat", kw, "EXC", type(e).__name__, str(e)[:100])
try:
    print("flat Grid.bounds", hx(flat.bounds.values))
except BaseException as e:  # noqa
    print("flat Grid.bounds EXC", type(e).__name__, "cached", "bounds" in flat._ds)
# Grid.bounds after an explicit store keeps the stored object, no recomputation
g3 = grid_from_faces([f for _, f in sel])
G._populate_bounds(g3, is_latlonface=False)
stored = g3._ds["bounds"].values
with warnings.catch_warnings(record=True) as w:
    warnings.simplefilter("always")
    again = g3.bounds
print("no recompute:", np.shares_memory(again.values, stored), "warnings", len(w))
with warnings.catch_warnings(record=True) as w:
    warnings.simplefilter("always")
    g4 = grid_from_faces([f for _, f in sel])
    first = g4.bounds
print("first access warning:", [(x.category.__name__, str(x.message), os.path.basename(x.filename)) for x in w if "bounds" in str(x.message)])
print("first equals stored:", np.array_equal(first.values, stored), first.name, first.dims, list(first.coords))
print("grid vars after bounds:", sorted(g4._ds.data_vars))

# setter
g = grid_from_faces([faces[0], faces[1]])
import xarray as xr

g.bounds = xr.DataArray(np.zeros((2, 2, 2)), dims=["n_face", "Two", "Two"])
print("setter", hx(g.bounds.values))
try:
    g.bounds = np.zeros((2, 2, 2))
except BaseException as e:  # noqa
    print("setter EXC", type(e).__name__)

# --------------------------------------------------------------------------
# 3. latlon box helpers
# --------------------------------------------------------------------------
F = INT_FILL_VALUE
boxes = [
    np.array([[F, F], [F, F]], dtype=np.float64),
    np.array([[0.1, 0.5], [F, F]], dtype=np.float64),
    np.array([[F, F], [1.0, 2.0]], dtype=np.float64),
    np.array([[0.1, 0.5], [1.0, 2.0]]),
    np.array([[-0.5, 0.5], [6.0, 0.3]]),
    np.array([[-1.0, -0.2], [0.0, 2 * np.pi]]),
    np.array([[1.0, 1.2], [3.0, 3.0]]),
    np.array([[0.2, 1.5], [5.5, 5.9]]),
    np.array([[0, 1], [1, 2]], dtype=np.int64),
    [[0.1, 0.5], [1.0, 2.0]],
    np.array([[-0.3, 0.3], [np.pi, np.pi + 1e-9]]),
]
pts = [
    np.array([0.3, 1.5]),
    np.array([0.7, 0.5]),
    np.array([-0.7, 2.5]),
    np.array([0.0, 6.1]),
    np.array([0.0, 0.1]),
    np.array([0.2, 4.0]),
    np.array([0.2, 3.3]),
    np.array([0.2, -0.4]),
    np.array([0.2, 7.0]),
    np.array([0.2, 2 * np.pi]),
    np.array([0.2, 0.0]),
    np.array([0.5 * np.pi, F], dtype=np.float64),
    np.array([-0.5 * np.pi, F], dtype=np.float64),
    np.array([0.5 * np.pi - 1e-9, F], dtype=np.float64),
    np.array([-0.5 * np.pi + 1e-12, F], dtype=np.float64),
    np.array([0.5 * np.pi, 1.0]),
    np.array([-0.5 * np.pi, 0.0]),
    np.array([F, F], dtype=np.float64),
    np.array([F, F]),
    np.array([0.4, F], dtype=np.float64),
    [0.3, 1.5],
    (0.3, 5.0),
]
for bi, box in enumerate(boxes):
    call("width box%d" % bi, G._get_latlonbox_width, box)
    for pi_, pt in enumerate(pts):
        before = repr(box)
        res = call("insert box%d pt%d" % (bi, pi_), G._insert_pt_in_latlonbox, box, pt)
        res2 = call("insert box%d pt%d nonperiodic" % (bi, pi_), G._insert_pt_in_latlonbox, box, pt, False)
        res3 = call("insert box%d pt%d kw" % (bi, pi_), G._insert_pt_in_latlonbox, old_box=box, new_pt=pt, is_lon_periodic=True)
        assert repr(box) == before, "input box mutated"
        if res is not None:
            print("   alias of input:", res is box, "type", type(res).__name__)
# random chains of insertions
for trial in range(40):
    box = np.full((2, 2), INT_FILL_VALUE, dtype=np.float64)
    c = rng.uniform(0, 2 * np.pi)
    for _ in range(int(rng.integers(2, 9))):
        pt = np.array([rng.uniform(-1.5, 1.5), c + rng.uniform(-1.2, 1.2)])
        box = G._insert_pt_in_latlonbox(box, pt)
    print("chain", trial, hx(box), "width", float(G._get_latlonbox_width(box)).hex())
for lon in ([1.0, 2.0], [6.0, 0.3], [0.0, 2 * np.pi], [-1.0, 1.0], [7.0, 8.5], [3.0, 3.0], [F, 1.0], [1.0, F], [F, F]):
    call("width %r" % (lon,), G._get_latlonbox_width, np.array([[0.0, 1.0], lon], dtype=np.float64))

# --------------------------------------------------------------------------
# 4. _unique_points and module tables
# --------------------------------------------------------------------------
print("POLE_POINTS", {k: hx(v) for k, v in G.POLE_POINTS.items()}, hx(G.REFERENCE_POINT_EQUATOR))
p = [np.array([1.0, 0, 0]), np.array([1.0, 1e-16, 0]), [0, 1.0, 0], (0, 0, 1.0)]
print("unique", [hx(x) for x in G._unique_points(p)])
print("done")
