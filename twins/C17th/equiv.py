import sys, os; sys.path.insert(0, os.getcwd())
import hashlib
import tempfile
import warnings
import numpy as np
import xarray as xr
import uxarray
import uxarray as ux
assert os.path.abspath(uxarray.__file__).startswith(os.path.abspath(os.getcwd()) + os.sep), uxarray.__file__
from uxarray.constants import INT_FILL_VALUE, INT_DTYPE
from uxarray.io._esmf import _read_esmf

warnings.simplefilter("ignore")
AGGS = ["mean", "min", "max", "median", "std", "var", "sum", "prod", "all", "any"]


def digest(a):
    a = np.asarray(a)
    flags = f"C{int(a.flags.c_contiguous)}F{int(a.flags.f_contiguous)}W{int(a.flags.writeable)}"
    a = np.ascontiguousarray(a)
    return f"{a.dtype}{a.shape}{flags}:{hashlib.sha256(a.tobytes()).hexdigest()[:16]}"


def esmf_ds(rng, sizes, n_node, *, start=1, start_attr="absent", pad=-1, conn_dtype=np.int32,
            num_dtype=np.int32, centers=True, width=None, units="degrees", order="C", nan_pad=False):
    """in-memory ESMF mesh; `sizes` may exceed the row width or be zero on purpose."""
    width = max(max(sizes, default=1), 1) if width is None else width
    conn = np.full((len(sizes), width), pad, dtype=np.int64)
    for i, s in enumerate(sizes):
        k = min(s, width)
        conn[i, :k] = rng.choice(n_node, size=k, replace=False) + start
    conn = conn.astype(conn_dtype)
    if nan_pad:
        for i, s in enumerate(sizes):
            conn[i, s:] = np.nan
    conn = np.asarray(conn, order=order)
    ds = xr.Dataset()
    coords = np.stack([rng.uniform(0, 360, n_node), rng.uniform(-89, 89, n_node)], axis=1)
    ds["nodeCoords"] = xr.DataArray(coords, dims=("nodeCount", "coordDim"), attrs={"units": units})
    attrs = {"long_name": "Node indices that define the element connectivity"}
    if start_attr != "absent":
        attrs["start_index"] = start_attr
    ds["elementConn"] = xr.DataArray(conn, dims=("elementCount", "maxNodePElement"), attrs=attrs)
    ds["numElementConn"] = xr.DataArray(np.asarray(sizes, dtype=num_dtype), dims=("elementCount",))
    if centers:
        cc = np.stack([rng.uniform(0, 360, len(sizes)), rng.uniform(-89, 89, len(sizes))], axis=1)
        ds["centerCoords"] = xr.DataArray(cc, dims=("elementCount", "coordDim"), attrs={"units": units})
    return ds


def ds_digest(ds):
    parts = []
    for k in sorted(ds.variables):
        v = ds[k]
        parts.append(f"{k}{v.dims}{digest(v.values)}{sorted((a, repr(b)) for a, b in v.attrs.items())}")
    return hashlib.sha256("|".join(parts).encode()).hexdigest()[:16]


def show_read(label, ds):
    before = ds_digest(ds)
    try:
        out, dims = _read_esmf(ds)
    except Exception as e:  # noqa
        print(label, "-> RAISED", type(e).__name__, str(e), "input-unchanged", before == ds_digest(ds))
        return None
    print(label, "dims_dict", sorted(dims.items()), "input-unchanged", before == ds_digest(ds))
    for k in sorted(out.variables):
        v = out[k]
        print("   ", k, v.dims, digest(v.values), sorted((a, repr(b)) for a, b in v.attrs.items()))
    fnc = out["face_node_connectivity"].values
    print("    conn rows:", fnc.tolist() if fnc.size <= 60 else "(large)")
    print("    shares-memory-with-input:", np.shares_memory(fnc, ds["elementConn"].values))
    return out


def show_aggs(label, grid, rng):
    print(label, "sizes", grid.n_nodes_per_face.values.tolist(), "n_edge", grid.n_edge)
    arrs = {
        "f64": rng.normal(size=(2, grid.n_node)),
        "i64": rng.integers(-4, 5, size=(2, grid.n_node)),
        "bool": rng.integers(0, 2, size=(2, grid.n_node)).astype(bool),
    }
    for dn, arr in arrs.items():
        uxda = ux.UxDataArray(arr, dims=("t", "n_node"), name=dn, uxgrid=grid)
        for a in AGGS:
            for dest in ("face", "edge"):
                try:
                    r = getattr(uxda, "topological_" + a)(destination=dest)
                    print(f"    {dn}/{a}/{dest}", r.dims, r.uxgrid is grid, digest(r.values))
                except Exception as e:  # noqa
                    print(f"    {dn}/{a}/{dest} RAISED", type(e).__name__, str(e))
        # per-face reference straight from the connectivity the reader produced
        fnc = grid.face_node_connectivity.values
        ref = np.array([[arr[t, row[row != INT_FILL_VALUE]].sum() for row in fnc] for t in range(2)])
        got = uxda.topological_sum(destination="face").values
        print(f"    {dn}/sum matches per-face reference:", bool(np.allclose(ref, got)))


def main():
    rng = np.random.default_rng(170017)
    mixed = [5, 3, 6, 4, 3, 6, 4, 4, 5, 3, 8, 3]
    cases = {
        "mixed-default-start": dict(sizes=mixed, n_node=40),
        "mixed-start1-attr": dict(sizes=mixed, n_node=40, start_attr=1),
        "mixed-start0-attr": dict(sizes=mixed, n_node=40, start=0, start_attr=0),
        "mixed-start-np-int32": dict(sizes=mixed, n_node=40, start_attr=np.int32(1)),
        "mixed-start-np-int64": dict(sizes=mixed, n_node=40, start_attr=np.int64(1)),
        "mixed-start-array1": dict(sizes=mixed, n_node=40, start_attr=np.array([1])),
        "mixed-start-bool": dict(sizes=mixed, n_node=40, start_attr=True),
        "mixed-start-float": dict(sizes=mixed, n_node=40, start_attr=1.0),
        "mixed-start-5": dict(sizes=mixed, n_node=40, start=5, start_attr=5),
        "mixed-start-neg": dict(sizes=mixed, n_node=40, start=-2, start_attr=-2),
        "pad-zero": dict(sizes=mixed, n_node=40, pad=0),
        "pad-garbage": dict(sizes=mixed, n_node=40, pad=123456),
        "pad-fillvalue": dict(sizes=mixed, n_node=40, pad=INT_FILL_VALUE, conn_dtype=np.int64),
        "conn-int64": dict(sizes=mixed, n_node=40, conn_dtype=np.int64),
        "conn-int16-num-int8": dict(sizes=mixed, n_node=40, conn_dtype=np.int16, num_dtype=np.int8),
        "conn-uint32": dict(sizes=mixed, n_node=40, conn_dtype=np.uint32, pad=0),
        "conn-float-nanpad": dict(sizes=mixed, n_node=40, conn_dtype=np.float64, nan_pad=True),
        "conn-float32": dict(sizes=mixed, n_node=40, conn_dtype=np.float32),
        "num-int64": dict(sizes=mixed, n_node=40, num_dtype=np.int64),
        "num-float": dict(sizes=mixed, n_node=40, num_dtype=np.float64),
        "fortran-order": dict(sizes=mixed, n_node=40, order="F"),
        "no-centers": dict(sizes=mixed, n_node=40, centers=False),
        "uniform-tri": dict(sizes=[3] * 6, n_node=10),
        "uniform-hex-full-rows": dict(sizes=[6] * 4, n_node=15),
        "descending": dict(sizes=[7, 6, 5, 4, 3], n_node=20),
        "ascending": dict(sizes=[3, 4, 5, 6, 7], n_node=20),
        "single-face": dict(sizes=[4], n_node=6),
        "wider-than-needed": dict(sizes=[3, 4, 3], n_node=9, width=7),
        "count-exceeds-width": dict(sizes=[3, 9, 4], n_node=12, width=4),
        "zero-size-row": dict(sizes=[3, 0, 4], n_node=9),
        "all-zero-sizes": dict(sizes=[0, 0], n_node=5, width=3),
        "no-faces": dict(sizes=[], n_node=5, width=4),
        "radians-units": dict(sizes=mixed, n_node=40, units="radians"),
        "km-units": dict(sizes=[3, 4], n_node=8, units="km"),
    }
    kept = {}
    for name, kw in cases.items():
        ds = esmf_ds(rng, **kw)
        out = show_read("READ " + name, ds)
        if out is not None:
            kept[name] = ds

    # missing variables
    ds = esmf_ds(rng, mixed, 40)
    show_read("READ missing-numElementConn", ds.drop_vars("numElementConn"))
    show_read("READ missing-elementConn", ds.drop_vars("elementConn"))
    ds2 = ds.copy()
    del ds2["nodeCoords"].attrs["units"]
    show_read("READ missing-units", ds2)

    # full pipeline: Grid built by the ESMF reader, then the topological aggregations
    for name in ("mixed-default-start", "mixed-start0-attr", "conn-float-nanpad", "pad-garbage",
                 "fortran-order", "uniform-tri", "descending", "single-face", "wider-than-needed",
                 "mixed-start-array1"):
        grid = ux.Grid.from_dataset(kept[name])
        print("GRID", name, grid.source_grid_spec, digest(grid.face_node_connectivity.values),
              digest(grid.n_nodes_per_face.values), digest(grid.edge_node_connectivity.values))
        show_aggs("AGG " + name, grid, rng)

    # through a file on disk
    with tempfile.TemporaryDirectory() as tmp:
        path = os.path.join(tmp, "mesh_esmf.nc")
        kept["mixed-start1-attr"].to_netcdf(path)
        grid = ux.open_grid(path)
        print("FILE", grid.source_grid_spec, digest(grid.face_node_connectivity.values),
              grid.face_node_connectivity.values.tolist())
        show_aggs("AGG file", grid, rng)


main()
