import sys, os; sys.path.insert(0, os.getcwd())
import hashlib, warnings
import numpy as np
warnings.filterwarnings("ignore")
import uxarray as ux
assert os.path.abspath(ux.__file__).startswith(os.path.abspath(os.getcwd()) + os.sep), ux.__file__

GRIDS = {
    "mixed": "test/meshfiles/exodus/mixed/mixed.exo",
    "ne8": "test/meshfiles/ugrid/outCSne30/outCSne30.ug",
    "mpas": "test/meshfiles/mpas/QU/mesh.QU.1920km.151026.nc",
    "quadhex": "test/meshfiles/ugrid/quad-hexagon/grid.nc",
    "geoflow": "test/meshfiles/ugrid/geoflow-small/grid.nc",
}

def dig(x):
    if isinstance(x, tuple):
        return "(" + ", ".join(dig(i) for i in x) + ")"
    if isinstance(x, list):
        return "[" + ", ".join(dig(i) for i in x) + "]"
    a = np.asarray(x)
    return f"{a.dtype}{a.shape}:{hashlib.sha1(np.ascontiguousarray(a).tobytes()).hexdigest()[:12]}"

def tree_state(t):
    if t is None:
        return "None"
    return (f"{type(t).__name__}(coords={t._coordinates!r}, cs={t.coordinate_system!r}, "
            f"metric={t.distance_metric!r}, rec={t.reconstruct!r}, n={t._n_elements}, "
            f"built=[{t._tree_from_nodes is not None},{t._tree_from_face_centers is not None},"
            f"{t._tree_from_edge_centers is not None}])")

def attempt(label, fn):
    try:
        r = fn()
        print(label, "->", r)
        return r
    except Exception as e:
        print(label, "-> EXC", type(e).__name__, str(e)[:150])
        return None

CALLS = [
    ("ball", {}),
    ("ball", {}),
    ("ball", {"coordinates": "face centers"}),
    ("ball", {"coordinates": "edge centers"}),
    ("ball", {"coordinates": "nodes"}),
    ("ball", {"coordinates": "nodes", "reconstruct": True}),
    ("ball", {"coordinate_system": "cartesian", "distance_metric": "euclidean"}),
    ("ball", {"coordinate_system": "cartesian", "distance_metric": "euclidean", "coordinates": "face centers"}),
    ("ball", {"coordinate_system": "spherical", "distance_metric": "haversine", "coordinates": "face centers"}),
    ("ball", {"coordinates": "bogus"}),
    ("ball", {"coordinates": "face centers"}),
    ("ball", {"coordinate_system": "bogus"}),
    ("ball", {}),
    ("kd", {}),
    ("kd", {}),
    ("kd", {"coordinates": "face centers"}),
    ("kd", {"coordinates": "edge centers"}),
    ("kd", {"coordinates": "edge centers", "reconstruct": True}),
    ("kd", {"coordinate_system": "spherical"}),
    ("kd", {"coordinate_system": "spherical", "coordinates": "face centers"}),
    ("kd", {"distance_metric": "chebyshev"}),
    ("kd", {"coordinates": "bogus"}),
    ("kd", {"coordinates": "bogus", "reconstruct": True}),
    ("kd", {"coordinate_system": "bogus", "coordinates": "nodes"}),
    ("kd", {"distance_metric": "not-a-metric"}),
    ("kd", {}),
    ("ball", {"reconstruct": True, "coordinates": "edge centers"}),
]

def query(kind, tree):
    if tree is None:
        return "no-tree"
    if tree.coordinate_system == "cartesian":
        pt = [0.0, 0.0, 1.0]
        pts = [[0.0, 0.0, 1.0], [1.0, 0.0, 0.0]]
    else:
        pt = [10.0, -35.0]
        pts = [[10.0, -35.0], [179.0, 80.0]]
    out = []
    k = min(3, tree._n_elements)
    out.append(dig(tree.query(pt, k=k)))
    out.append(dig(tree.query(pts, k=1, return_distance=False)))
    out.append(dig(tree.query_radius(pt, r=30.0 if tree.coordinate_system == "spherical" else 0.5)))
    return " ".join(out)

for jit in (True, False):
    if jit:
        from uxarray.utils.numba_settings import enable_jit; enable_jit()
    else:
        from uxarray.utils.numba_settings import disable_jit; disable_jit()
    print("=== JIT", jit)
    grids = {}
    for name, path in GRIDS.items():
        try:
            grids[name] = ux.open_grid(path)
        except Exception as e:
            print("open", name, "EXC", type(e).__name__)
    # interleave the call sequence across grids
    prev = {(n, k): None for n in grids for k in ("ball", "kd")}
    for i, (kind, kw) in enumerate(CALLS):
        for name, g in grids.items():
            fn = g.get_ball_tree if kind == "ball" else g.get_kd_tree
            label = f"[{name}] #{i} get_{kind}_tree({kw})"
            t = attempt(label, lambda: tree_state(fn(**kw)))
            cached = g._ball_tree if kind == "ball" else g._kd_tree
            print("   cached:", tree_state(cached), "same-as-prev:", cached is prev[(name, kind)])
            prev[(name, kind)] = cached
            if t is not None:
                attempt("   query", lambda: query(kind, cached))
            other = g._kd_tree if kind == "ball" else g._ball_tree
            print("   other :", tree_state(other))
    # identity of returned object versus cache
    for name, g in grids.items():
        b = g.get_ball_tree("nodes")
        print(name, "returned is cached:", b is g._ball_tree, g.get_ball_tree("nodes") is b,
              g.get_ball_tree("face centers") is b, g.get_ball_tree("nodes", reconstruct=True) is b)
        k = g.get_kd_tree("nodes")
        print(name, "returned is cached:", k is g._kd_tree, g.get_kd_tree("nodes") is k,
              g.get_kd_tree("face centers") is k, g.get_kd_tree("nodes", reconstruct=True) is k)
        print(name, "ds vars:", sorted(g._ds.variables))
        print(name, "node_lon", dig(g.node_lon.values), "face_lon", dig(g.face_lon.values))
    # positional calls
    g = ux.open_grid(GRIDS["mixed"])
    print(tree_state(g.get_ball_tree("face centers", "cartesian", "euclidean", False)))
    print(tree_state(g.get_kd_tree("face centers", "cartesian", "minkowski", True)))
from uxarray.utils.numba_settings import enable_jit; enable_jit()
for f in ("grid_geoflow.exo",):
    if os.path.exists(f):
        os.remove(f)
