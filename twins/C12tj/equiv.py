import sys, os; sys.path.insert(0, os.getcwd())
import hashlib, warnings
import numpy as np
import xarray as xr
import uxarray as ux
assert os.path.abspath(ux.__file__).startswith(os.path.abspath(os.getcwd()) + os.sep), ux.__file__
from uxarray.remap.utils import _remap_grid_parse
from uxarray.remap.nearest_neighbor import _nearest_neighbor
from uxarray.remap.inverse_distance_weighted import _inverse_distance_weighted_remap
warnings.filterwarnings("ignore")

M = os.path.join(os.getcwd(), "test", "meshfiles")


def h(a):
    a = np.ascontiguousarray(np.asarray(a))
    return f"{a.dtype}{a.shape}:{hashlib.sha1(a.tobytes()).hexdigest()[:12]}"


EVENTS = []


class Proxy:
    """delegates to a Grid, logging every attribute read and every get_ball_tree call (args and kwargs as passed)"""

    def __init__(self, grid, label):
        object.__setattr__(self, "_g", grid)
        object.__setattr__(self, "_l", label)

    def __getattr__(self, name):
        EVENTS.append(f"{self._l}.{name}")
        if name == "get_ball_tree":
            real = self._g.get_ball_tree

            def logged(*args, **kwargs):
                EVENTS.append(f"{self._l}.get_ball_tree(args={args!r}, kwargs={kwargs!r})")
                tree = real(*args, **kwargs)
                return TreeProxy(tree, self._l)

            return logged
        return getattr(self._g, name)


class TreeProxy:
    def __init__(self, tree, label):
        self._t = tree
        self._l = label

    def query(self, *args, **kwargs):
        a = [h(x) if isinstance(x, np.ndarray) else repr(x) for x in args]
        EVENTS.append(f"{self._l}.tree.query(args={a}, kwargs={kwargs!r}) cs={self._t.coordinate_system} metric={self._t.distance_metric} coords={self._t._coordinates}")
        return self._t.query(*args, **kwargs)


def call(tag, data, sg, dg, coord_type, remap_to, k, query, mapping="__omit__", trace=True):
    del EVENTS[:]
    s = Proxy(sg, "src") if trace else sg
    d = Proxy(dg, "dst") if trace else dg
    try:
        if mapping == "__omit__":
            r = _remap_grid_parse(data, s, d, coord_type, remap_to, k, query)
        else:
            r = _remap_grid_parse(data, s, d, coord_type, remap_to, k=k, query=query, source_data_mapping=mapping)
    except Exception as e:
        print(tag, "EXC", type(e).__name__, str(e))
    else:
        if isinstance(r, tuple):
            print(tag, "tuple", len(r), [h(x) for x in r])
            # distances rounded as a second, tolerance-free check is not needed: same code path, exact hash above
        else:
            print(tag, "single", h(r))
    if trace:
        for ev in EVENTS:
            print("      ", ev)


# ---------------- grids ----------------------------------------------------------
def tri_grid(shift=0.0):
    verts = [[[0.0 + shift, 0.0], [20.0 + shift, 0.0], [10.0 + shift, 15.0]]]
    return ux.open_grid(verts, latlon=True)


def two_face_grid():
    # one quad and one triangle sharing an edge: mixed face sizes, fill value in the connectivity
    node_lon = np.array([-10.0, 10.0, 10.0, -10.0, 30.0])
    node_lat = np.array([-10.0, -10.0, 10.0, 10.0, 0.0])
    conn = np.array([[0, 1, 2, 3], [1, 4, 2, -1]])
    return ux.Grid.from_topology(node_lon, node_lat, conn, fill_value=-1)


def tetra_like():
    # 4 triangles around the globe: n_node = 4, n_face = 4, n_edge = 6
    p = [[0.0, 90.0], [0.0, -20.0], [120.0, -20.0], [-120.0, -20.0]]
    faces = [[p[0], p[1], p[2]], [p[0], p[2], p[3]], [p[0], p[3], p[1]], [p[1], p[3], p[2]]]
    return ux.open_grid(faces, latlon=True)


G = {}
G["tri"] = tri_grid()
G["tri2"] = tri_grid(3.0)
G["two"] = two_face_grid()
G["tet"] = tetra_like()
G["mixed"] = ux.open_grid(os.path.join(M, "exodus/mixed/mixed.exo"))
G["geoflow"] = ux.open_grid(os.path.join(M, "ugrid/geoflow-small/grid.nc"))
G["ne30"] = ux.open_grid(os.path.join(M, "ugrid/outCSne30/outCSne30.ug"))
G["mpas"] = ux.open_grid(os.path.join(M, "mpas/QU/mesh.QU.1920km.151026.nc"))
G["csne4"] = ux.open_grid(os.path.join(M, "ugrid/ov_RLL10deg_CSne4/ov_RLL10deg_CSne4.ug"))
for name, g in G.items():
    print("GRID", name, g.n_node, g.n_edge, g.n_face)

rng = np.random.default_rng(12)

# ---------------- 1. traced direct calls (small grids) ---------------------------------
for sname, dname in (("tri", "tri2"), ("two", "tri"), ("tet", "two"), ("tri", "tri")):
    sg, dg = G[sname], G[dname]
    for kind, n in (("nodes", sg.n_node), ("face centers", sg.n_face), ("edge centers", sg.n_edge)):
        data = rng.random((2, n))
        for ct in ("spherical", "cartesian"):
            for remap_to in ("nodes", "face centers", "edge centers"):
                for k in (1, 2):
                    if k > n:
                        continue
                    call(f"T {sname}->{dname} {kind} {ct} {remap_to} k={k} inferred", data, sg, dg, ct, remap_to, k, True)
                    call(f"T {sname}->{dname} {kind} {ct} {remap_to} k={k} given", data, sg, dg, ct, remap_to, k, True, mapping=kind)

# ---------------- 2. error paths and query=False (traced) ----------------------------------
sg, dg = G["two"], G["tri"]
data = rng.random(sg.n_node)
for ct in ("spherical", "cartesian", "Cartesian", "polar", None):
    for remap_to in ("nodes", "faces", "edge centers", None):
        for query in (True, False):
            call(f"E ct={ct!r} to={remap_to!r} q={query}", data, sg, dg, ct, remap_to, 1, query)
call("E bad shape", rng.random(17), sg, dg, "spherical", "nodes", 1, True)
call("E bad shape 2d", rng.random((3, 17)), sg, dg, "cartesian", "nodes", 1, True)
call("E bad shape but mapping given", rng.random(17), sg, dg, "spherical", "nodes", 1, True, mapping="nodes")
call("E bad mapping", data, sg, dg, "spherical", "nodes", 1, True, mapping="vertices")
call("E bad mapping cart", data, sg, dg, "cartesian", "nodes", 1, True, mapping="vertices")
call("E k too large", data, sg, dg, "spherical", "nodes", 99, True)
call("E k=0", data, sg, dg, "cartesian", "face centers", 0, True)
call("E scalar data", np.float64(3.0), sg, dg, "spherical", "nodes", 1, True)
call("E scalar data mapping given", np.float64(3.0), sg, dg, "spherical", "nodes", 1, True, mapping="nodes")
# coinciding sizes: node wins over face over edge when inferred
call("C tet n_node==n_face inferred", rng.random(4), G["tet"], G["two"], "spherical", "nodes", 1, True)
call("C tet n_node==n_face as faces", rng.random(4), G["tet"], G["two"], "spherical", "nodes", 1, True, mapping="face centers")
call("C tri n_node==n_edge inferred", rng.random(3), G["tri"], G["two"], "cartesian", "face centers", 1, True)
call("C tri n_node==n_edge as edges", rng.random(3), G["tri"], G["two"], "cartesian", "face centers", 1, True, mapping="edge centers")
# single destination point with k=1 and k=2 (squeeze to 0-d / 1-d)
call("Q one dest face k=1", rng.random(G["two"].n_node), G["two"], G["tri"], "spherical", "face centers", 1, True)
call("Q one dest face k=2", rng.random(G["two"].n_node), G["two"], G["tri"], "spherical", "face centers", 2, True)
call("Q one dest face k=2 cart", rng.random(G["two"].n_node), G["two"], G["tri"], "cartesian", "face centers", 2, True)

# ---------------- 3. untraced direct calls on real grids --------------------------
pairs = (("mixed", "csne4"), ("geoflow", "mixed"), ("mpas", "csne4"), ("csne4", "mpas"), ("ne30", "geoflow"), ("mixed", "mixed"))
for sname, dname in pairs:
    sg, dg = G[sname], G[dname]
    for kind, n in (("nodes", sg.n_node), ("face centers", sg.n_face), ("edge centers", sg.n_edge)):
        data = rng.random((2, 3, n))
        for ct in ("spherical", "cartesian"):
            for remap_to in ("nodes", "face centers", "edge centers"):
                for k in (1, 4):
                    call(f"R {sname}->{dname} {kind} {ct} {remap_to} k={k}", data, sg, dg, ct, remap_to, k, True, mapping=kind, trace=False)
                call(f"R {sname}->{dname} {kind} {ct} {remap_to} inferred", data, sg, dg, ct, remap_to, 1, True, trace=False)
        # the source tree cached on the grid afterwards
        t = sg._ball_tree
        print("   cached tree", sname, t.coordinate_system, t.distance_metric, t._coordinates)

# ---------------- 4. array-level and public remaps ----------------------------------
for sname, dname in (("mixed", "csne4"), ("mpas", "csne4"), ("two", "tet"), ("mixed", "mixed")):
    sg, dg = G[sname], G[dname]
    for dim, n in (("n_node", sg.n_node), ("n_face", sg.n_face), ("n_edge", sg.n_edge)):
        vals = rng.random((2, n))
        vals1 = rng.random(n)
        for ct in ("spherical", "cartesian"):
            for remap_to in ("nodes", "face centers", "edge centers"):
                tag = f"A {sname}->{dname} {dim} {ct} {remap_to}"
                print(tag, "nn", h(_nearest_neighbor(sg, dg, vals, remap_to, ct)), h(_nearest_neighbor(sg, dg, vals1, remap_to, ct)))
                kk = min(3, sg.n_node, n)
                if kk > 1:
                    print(tag, "idw", h(_inverse_distance_weighted_remap(sg, dg, vals, remap_to, ct, 2, kk)),
                          h(_inverse_distance_weighted_remap(sg, dg, vals1, remap_to, ct, 3, kk)))
                uxda = ux.UxDataArray(xr.DataArray(vals, dims=("lev", dim), name="f"), uxgrid=sg)
                r = uxda.remap.nearest_neighbor(dg, remap_to=remap_to, coord_type=ct)
                print(tag, "uxda nn", r.dims, h(r.values), r.uxgrid is dg, r.name)
                if kk > 1:
                    r = uxda.remap.inverse_distance_weighted(dg, remap_to=remap_to, coord_type=ct, power=2, k=kk)
                    print(tag, "uxda idw", r.dims, h(r.values), r.uxgrid is dg,
                          bool(np.all(r.values >= vals.min() - 1e-12) and np.all(r.values <= vals.max() + 1e-12)))
    # identity: remapping onto the source grid's own elements
    for dim, n, remap_to in (("n_node", sg.n_node, "nodes"), ("n_face", sg.n_face, "face centers"), ("n_edge", sg.n_edge, "edge centers")):
        vals = rng.random((2, n))
        uxda = ux.UxDataArray(xr.DataArray(vals, dims=("lev", dim), name="f"), uxgrid=sg)
        for ct in ("spherical", "cartesian"):
            r = uxda.remap.nearest_neighbor(sg, remap_to=remap_to, coord_type=ct)
            print(f"I {sname} {dim} {ct}", bool(np.array_equal(r.values, vals)), h(r.values))
# dataset-level
uxds = ux.UxDataset({"a": xr.DataArray(rng.random(G["mixed"].n_face), dims=("n_face",)),
                     "b": xr.DataArray(rng.random((2, G["mixed"].n_node)), dims=("t", "n_node"))}, uxgrid=G["mixed"])
try:
    r = uxds.remap.nearest_neighbor(G["csne4"], remap_to="face centers", coord_type="cartesian")
    for name in sorted(r.data_vars):
        print("DS nn", name, r[name].dims, h(r[name].values))
    r = uxds.remap.inverse_distance_weighted(G["csne4"], remap_to="nodes", coord_type="spherical", power=1, k=5)
    for name in sorted(r.data_vars):
        print("DS idw", name, r[name].dims, h(r[name].values))
except Exception as e:
    print("DS EXC", type(e).__name__, str(e)[:200])
