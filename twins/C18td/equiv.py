import sys, os; sys.path.insert(0, os.getcwd())
"""Digest of dual-mesh behaviour (property C18).  Run with cwd = worktree.

Without arguments it re-runs itself twice (JIT on / JIT off) and prints both digests.
"""
import hashlib
import subprocess
import warnings

if len(sys.argv) == 1:
    for mode in ("jit", "nojit"):
        env = dict(os.environ)
        env["NUMBA_DISABLE_JIT"] = "1" if mode == "nojit" else "0"
        r = subprocess.run(
            [sys.executable, os.path.abspath(__file__), mode],
            env=env, cwd=os.getcwd(), capture_output=True, text=True,
        )
        print("=" * 20, mode, "rc", r.returncode)
        print(r.stdout)
        if r.returncode != 0:
            print(r.stderr[-3000:])
    sys.exit(0)

import numpy as np
import xarray as xr
import uxarray as ux

assert os.path.abspath(ux.__file__).startswith(os.path.abspath(os.getcwd()) + os.sep), ux.__file__

from scipy.spatial import ConvexHull
from uxarray.constants import INT_FILL_VALUE, INT_DTYPE
from uxarray.grid.dual import construct_dual
from uxarray.grid.validation import _find_duplicate_nodes, _check_duplicate_nodes_indices

print("mode", sys.argv[1], "NUMBA_DISABLE_JIT", os.environ.get("NUMBA_DISABLE_JIT"))


def h(a):
    a = np.ascontiguousarray(np.asarray(a))
    return f"{a.dtype}{a.shape}:{hashlib.sha1(a.tobytes()).hexdigest()[:16]}"


def rot(axis, ang):
    axis = np.asarray(axis, float) / np.linalg.norm(axis)
    K = np.array([[0, -axis[2], axis[1]], [axis[2], 0, -axis[0]], [-axis[1], axis[0], 0]])
    return np.eye(3) + np.sin(ang) * K + (1 - np.cos(ang)) * K @ K


def orient(xyz, faces):
    out = []
    for f in faces:
        p = xyz[list(f)]
        n = np.zeros(3)
        for k in range(len(f)):
            n += np.cross(p[k], p[(k + 1) % len(f)])
        out.append(list(f) if np.dot(n, p.mean(axis=0)) > 0 else list(f)[::-1])
    return out


def pad(faces, fill=-1):
    m = max(len(f) for f in faces)
    return np.array([list(f) + [fill] * (m - len(f)) for f in faces], dtype=np.int64)


def lonlat(xyz):
    xyz = xyz / np.linalg.norm(xyz, axis=1)[:, None]
    lon = np.degrees(np.arctan2(xyz[:, 1], xyz[:, 0]))
    lat = np.degrees(np.arcsin(np.clip(xyz[:, 2], -1, 1)))
    return lon, lat


def make(xyz, faces, R=None, perm_seed=None, face_seed=None, start_seed=None):
    xyz = np.asarray(xyz, float)
    faces = orient(xyz, faces)
    if R is not None:
        xyz = xyz @ R.T
    if perm_seed is not None:
        rng = np.random.default_rng(perm_seed)
        p = rng.permutation(len(xyz))  # new index p[i] for old node i
        inv = np.empty_like(p)
        inv[p] = np.arange(len(p))
        xyz = xyz[inv]
        faces = [[int(p[v]) for v in f] for f in faces]
    if face_seed is not None:
        rng = np.random.default_rng(face_seed)
        faces = [faces[k] for k in rng.permutation(len(faces))]
    if start_seed is not None:
        rng = np.random.default_rng(start_seed)
        faces = [list(np.roll(f, int(rng.integers(0, len(f))))) for f in faces]
    lon, lat = lonlat(xyz)
    return ux.Grid.from_topology(lon, lat, pad(faces), fill_value=-1)


# ---- polyhedra -------------------------------------------------------------------
OCTA = np.array([[1, 0, 0], [-1, 0, 0], [0, 1, 0], [0, -1, 0], [0, 0, 1], [0, 0, -1]], float)
OCTA_F = [[0, 2, 4], [2, 1, 4], [1, 3, 4], [3, 0, 4], [2, 0, 5], [1, 2, 5], [3, 1, 5], [0, 3, 5]]
CUBE = np.array([[sx, sy, sz] for sx in (-1, 1) for sy in (-1, 1) for sz in (-1, 1)], float)
CUBE_F = [[0, 1, 3, 2], [4, 6, 7, 5], [0, 4, 5, 1], [2, 3, 7, 6], [0, 2, 6, 4], [1, 5, 7, 3]]
CUBE_MIXED_F = [[0, 1, 3], [0, 3, 2], [4, 6, 7, 5], [0, 4, 5, 1], [2, 3, 7, 6], [0, 2, 6, 4], [1, 5, 7, 3]]
phi = (1 + 5 ** 0.5) / 2
ICO = np.array(
    [[0, s1, s2 * phi] for s1 in (-1, 1) for s2 in (-1, 1)]
    + [[s1, s2 * phi, 0] for s1 in (-1, 1) for s2 in (-1, 1)]
    + [[s2 * phi, 0, s1] for s1 in (-1, 1) for s2 in (-1, 1)], float)
ICO_F = [list(s) for s in ConvexHull(ICO).simplices]


def hull_mesh(n, seed):
    rng = np.random.default_rng(seed)
    p = rng.normal(size=(n, 3))
    p /= np.linalg.norm(p, axis=1)[:, None]
    return p, [list(s) for s in ConvexHull(p).simplices]


def merged_hull(n, seed):
    """triangulation in which some pairs of triangles are merged into quads (mixed sizes)"""
    p, tris = hull_mesh(n, seed)
    tris = orient(p, tris)
    used = set()
    faces = []
    edge = {}
    for t, f in enumerate(tris):
        for k in range(3):
            edge.setdefault(frozenset((f[k], f[(k + 1) % 3])), []).append(t)
    for e, ts in sorted(edge.items(), key=lambda kv: sorted(kv[0])):
        if len(ts) == 2 and ts[0] not in used and ts[1] not in used and (sum(sorted(e)) % 3 == 0):
            a, b = ts
            fa, fb = tris[a], tris[b]
            u, v = [x for x in fa if x in e]
            # rotate fa so that it ends at the shared edge start
            k = [i for i in range(3) if fa[i] in e and fa[(i + 1) % 3] in e][0]
            fa = fa[k + 1:] + fa[: k + 1]  # fa = [w, x, y] with (y, w)?? keep generic below
            other = [x for x in fb if x not in e][0]
            # fa now is [e2, apex, e1] in ccw order; insert other between e1 and e2
            faces.append([fa[0], fa[1], fa[2], other])
            used.update((a, b))
    for t, f in enumerate(tris):
        if t not in used:
            faces.append(f)
    return p, faces


R_POLE = rot([0, 1, 0], 0.0)  # octahedron / ico already have nodes at poles
R_TILT = rot([1, 2, 3], 0.7)
R_ANTI = rot([0, 0, 1], np.pi)  # pushes nodes to the antimeridian

cases = {}
cases["octa"] = lambda: make(OCTA, OCTA_F)
cases["octa_tilt_perm"] = lambda: make(OCTA, OCTA_F, R=R_TILT, perm_seed=1, face_seed=2, start_seed=3)
cases["cube"] = lambda: make(CUBE, CUBE_F)
cases["cube_anti"] = lambda: make(CUBE, CUBE_F, R=rot([0, 0, 1], 3 * np.pi / 4), face_seed=5)
cases["cube_mixed"] = lambda: make(CUBE, CUBE_MIXED_F, start_seed=7)
cases["cube_mixed_perm"] = lambda: make(CUBE, CUBE_MIXED_F, R=R_TILT, perm_seed=11, face_seed=12, start_seed=13)
cases["ico_pole"] = lambda: make(ICO, ICO_F, R=rot([1, 0, 0], np.arctan2(1, phi)))
cases["ico_perm"] = lambda: make(ICO, ICO_F, R=R_TILT, perm_seed=4, face_seed=4, start_seed=4)
cases["hull30"] = lambda: make(*hull_mesh(30, 0))
cases["hull60_perm"] = lambda: make(*hull_mesh(60, 1), perm_seed=8, face_seed=9, start_seed=10)
cases["merged40"] = lambda: make(*merged_hull(40, 2))
cases["merged80_perm"] = lambda: make(*merged_hull(80, 3), R=R_ANTI, perm_seed=1, face_seed=2, start_seed=3)
# partial grids: drop faces
cases["octa_partial"] = lambda: make(OCTA, OCTA_F[:6])
cases["cube_partial"] = lambda: make(CUBE, CUBE_F[:5])
cases["ico_partial"] = lambda: make(ICO, ICO_F[:14], R=R_TILT)
cases["hull30_partial"] = lambda: make(hull_mesh(30, 0)[0], hull_mesh(30, 0)[1][:40], start_seed=1)
cases["merged40_partial"] = lambda: make(merged_hull(40, 2)[0], merged_hull(40, 2)[1][5:], face_seed=6)
cases["single_tri"] = lambda: make(OCTA, OCTA_F[:1])


def dup_grid(which):
    # duplicate coordinates: node 6 duplicates node 0
    xyz = np.vstack([OCTA, OCTA[0:1]])
    faces = [list(f) for f in orient(OCTA, OCTA_F)]
    if which == "used":
        faces[0] = [6 if v == 0 else v for v in faces[0]]
    lon, lat = lonlat(xyz)
    return ux.Grid.from_topology(lon, lat, pad(faces), fill_value=-1)


cases["dup_used"] = lambda: dup_grid("used")
cases["dup_unused"] = lambda: dup_grid("unused")

MESH = os.path.join(os.getcwd(), "test", "meshfiles")
files = {
    "mpas_primal": (os.path.join(MESH, "mpas", "QU", "mesh.QU.1920km.151026.nc"), {}),
    "mpas_dual": (os.path.join(MESH, "mpas", "QU", "mesh.QU.1920km.151026.nc"), {"use_dual": True}),
    "mpas_holes": (os.path.join(MESH, "mpas", "QU", "oQU480.231010.nc"), {}),
    "geoflow": (os.path.join(MESH, "ugrid", "geoflow-small", "grid.nc"), {}),
    "csne30": (os.path.join(MESH, "ugrid", "outCSne30", "outCSne30.ug"), {}),
}
for name, (path, kw) in files.items():
    if os.path.exists(path):
        cases[name] = (lambda path=path, kw=kw: ux.open_grid(path, **kw))
    else:
        print("MISSING FILE", name)


def wdigest(ws):
    return sorted({(w.category.__name__, str(w.message)) for w in ws})


def run(label, fn):
    with warnings.catch_warnings(record=True) as ws:
        warnings.simplefilter("always")
        try:
            res = fn()
            print(label, "->", res)
        except Exception as e:  # noqa
            print(label, "-> EXC", type(e).__name__, str(e)[:200])
    for w in wdigest(ws):
        print("   warn", w)


for name, builder in cases.items():
    print("-" * 10, name)
    try:
        g = builder()
    except Exception as e:  # noqa
        print("BUILD EXC", type(e).__name__, str(e)[:120])
        continue
    print("primal", g.n_node, g.n_face, h(g.face_node_connectivity.values))

    def t_find():
        d = _find_duplicate_nodes(g)
        return repr([(type(k).__name__, int(k), type(v).__name__, int(v)) for k, v in d.items()])

    run("find_dups", t_find)
    run("check_dups", lambda: repr(_check_duplicate_nodes_indices(g)))

    def t_construct():
        c = construct_dual(g)
        small = repr(c.tolist()) if c.size <= 200 else ""
        return f"{h(c)} {small}"

    run("construct_dual", t_construct)

    def t_grid_dual():
        gd = g.get_dual()
        fnc = gd.face_node_connectivity.values
        pad_ok = all(
            (row[: (row != INT_FILL_VALUE).sum()] != INT_FILL_VALUE).all() for row in fnc
        )
        return (
            f"{type(gd).__name__} n_node={gd.n_node} n_face={gd.n_face} nmax={gd.n_max_face_nodes} "
            f"fnc={h(fnc)} lon={h(gd.node_lon.values)} lat={h(gd.node_lat.values)} "
            f"pad_at_end={pad_ok} nnodes_per_face={h(gd.n_nodes_per_face.values)} src={gd.source_grid_spec}"
        )

    run("Grid.get_dual", t_grid_dual)
    # calling twice gives a fresh but equal object
    run("Grid.get_dual twice", lambda: (lambda a, b: f"same_obj={a is b} equal={np.array_equal(a.face_node_connectivity.values, b.face_node_connectivity.values)}")(g.get_dual(), g.get_dual()))

    rng = np.random.default_rng(42)
    fdata = rng.normal(size=g.n_face)
    ndata = rng.integers(0, 1000, size=g.n_node).astype(np.int32)
    tfdata = rng.normal(size=(3, g.n_face)).astype(np.float32)
    fn2 = rng.normal(size=(g.n_face, 2, g.n_node))

    def t_da(data, dims, nm):
        def inner():
            da = ux.UxDataArray(data, dims=dims, name=nm, uxgrid=g, attrs={"units": "K"})
            dd = da.get_dual()
            shares = np.shares_memory(dd.values, data)
            return (
                f"{type(dd).__name__} name={dd.name} dims={dd.dims} vals={h(dd.values)} "
                f"same_as_input={np.array_equal(dd.values, data)} shares={shares} attrs={dict(dd.attrs)} "
                f"coords={sorted(dd.coords)} grid_fnc={h(dd.uxgrid.face_node_connectivity.values)} "
                f"grid_nnode={dd.uxgrid.n_node} grid_nface={dd.uxgrid.n_face}"
            )
        return inner

    run("da face", t_da(fdata, ["n_face"], "fvar"))
    run("da node", t_da(ndata, ["n_node"], "nvar"))
    run("da time,face", t_da(tfdata, ["time", "n_face"], None))
    run("da face,lev,node", t_da(fn2, ["n_face", "lev", "n_node"], "both"))

    def t_ds():
        ds = ux.UxDataset(
            {
                "f": xr.DataArray(fdata, dims=["n_face"]),
                "n": xr.DataArray(ndata, dims=["n_node"]),
                "tf": xr.DataArray(tfdata, dims=["time", "n_face"]),
            },
            uxgrid=g,
        )
        # spy on the data arrays UxDataset.get_dual constructs (its final assignment fails with
        # the pinned xarray, on the clean tree as well)
        orig = ux.UxDataArray
        seen = []

        def spy(*a, **k):
            seen.append(
                f"spy(nargs={len(a)} keys={sorted(k)} dims={k.get('dims')} name={k.get('name')} "
                f"data={h(k.get('data'))} shares={np.shares_memory(k.get('data'), ds[k.get('name')].values)} "
                f"grid={h(k['uxgrid'].face_node_connectivity.values)} {k['uxgrid'].n_node} {k['uxgrid'].n_face})"
            )
            return orig(*a, **k)

        ux.UxDataArray = spy
        try:
            dd = ds.get_dual()
        except Exception as e:  # noqa
            return "EXC " + type(e).__name__ + " " + str(e)[:80] + " | " + " ".join(seen)
        finally:
            ux.UxDataArray = orig
        parts = [f"{type(dd).__name__} vars={list(dd.data_vars)}"] + seen
        for v in dd.data_vars:
            parts.append(f"{v}:{type(dd[v]).__name__}:{dd[v].dims}:{h(dd[v].values)}:{dd[v].uxgrid is dd.uxgrid}")
        parts.append(f"grid_fnc={h(dd.uxgrid.face_node_connectivity.values)}")
        return " ".join(parts)

    run("ds", t_ds)

print("done")
