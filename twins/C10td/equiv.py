import sys, os; sys.path.insert(0, os.getcwd())
# set iteration order (it shows up in some xarray error messages) depends on string hashing: pin it
if os.environ.get("PYTHONHASHSEED") != "0":
    os.environ["PYTHONHASHSEED"] = "0"
    os.execv(sys.executable, [sys.executable] + sys.argv)
import warnings; warnings.filterwarnings("ignore")
import hashlib
import numpy as np
import xarray as xr
import dask.array as da
import uxarray as ux
assert os.path.abspath(ux.__file__).startswith(os.path.abspath(os.getcwd()) + os.sep), ux.__file__
from uxarray.constants import INT_FILL_VALUE as F
from uxarray.core import aggregation as agg


def digest(a):
    a = np.asarray(a)
    return f"{a.dtype}{a.shape}:{hashlib.sha1(np.ascontiguousarray(a).tobytes()).hexdigest()[:16]}"


def show(tag, r, grid=None):
    line = f"{tag}: {type(r).__module__}.{type(r).__name__}"
    if isinstance(r, xr.DataArray):
        line += f" name={r.name!r} dims={r.dims} sizes={dict(r.sizes)} coords={sorted(map(str, r.coords))}"
        line += f" attrs={dict(r.attrs)} chunked={r.chunks is not None} {digest(r.values)}"
        if r.size <= 24:
            line += f" vals={np.asarray(r.values).tolist()!r}"
        g = getattr(r, "uxgrid", None)
        if grid is not None:
            line += f" same_grid={g is grid}"
        if g is not None:
            for dim, n in (("n_node", g.n_node), ("n_edge", g.n_edge), ("n_face", g.n_face)):
                if dim in r.dims:
                    line += f" {dim}_ok={r.sizes[dim] == n}"
    print(line)


def attempt(tag, fn, grid=None):
    try:
        r = fn()
    except Exception as e:  # noqa
        print(f"{tag}: RAISED {type(e).__name__}: {str(e)[:160]}")
        return None
    show(tag, r, grid)
    return r


def mixed_grid():
    lon = np.array([0.0, 10.0, 20.0, 0.0, 10.0, 20.0, 5.0, 15.0])
    lat = np.array([0.0, 0.0, 0.0, 10.0, 10.0, 10.0, 18.0, 18.0])
    fnc = np.array([[0, 1, 4, 3], [1, 2, 5, 4], [3, 4, 6, F], [4, 5, 7, F]])
    return ux.Grid.from_topology(lon, lat, fnc, fill_value=F)


def tri_grid():
    lon = np.array([0.0, 10.0, 5.0, 15.0])
    lat = np.array([0.0, 0.0, 8.0, 8.0])
    fnc = np.array([[0, 1, 2], [1, 3, 2]])
    return ux.Grid.from_topology(lon, lat, fnc)


def penta_grid():
    # one pentagon, one quad, one triangle -> three partitions of face sizes
    lon = np.array([0.0, 10.0, 14.0, 5.0, -4.0, 20.0, 24.0, 30.0])
    lat = np.array([0.0, 0.0, 9.0, 15.0, 9.0, 0.0, 9.0, 4.0])
    fnc = np.array([[0, 1, 2, 3, 4], [1, 5, 6, 2, F], [5, 7, 6, F, F]])
    return ux.Grid.from_topology(lon, lat, fnc, fill_value=F)


rng = np.random.default_rng(10)
OPS = ["mean", "max", "min", "prod", "sum", "std", "var", "median", "all", "any"]

for gname, g in (("mixed", mixed_grid()), ("tri", tri_grid()), ("penta", penta_grid()),
                 ("geoflow", ux.open_grid("test/meshfiles/ugrid/geoflow-small/grid.nc"))):
    print(f"== grid {gname}: n_node={g.n_node} n_edge={g.n_edge} n_face={g.n_face} "
          f"sizes={np.unique(g.n_nodes_per_face.values).tolist()}")
    nn = g.n_node
    arrays = {
        "f64_1d": ux.UxDataArray(rng.normal(size=nn), dims=["n_node"], uxgrid=g, name="a"),
        "f32_2d": ux.UxDataArray(rng.normal(size=(3, nn)).astype(np.float32), dims=["time", "n_node"], uxgrid=g,
                                 name="b", coords={"time": [10, 20, 30]}, attrs={"units": "K"}),
        "i64_3d": ux.UxDataArray(rng.integers(-5, 5, size=(2, 2, nn)), dims=["t", "lev", "n_node"], uxgrid=g),
        "bool_1d": ux.UxDataArray(rng.integers(0, 2, size=nn).astype(bool), dims=["n_node"], uxgrid=g, name="m"),
        "nan_1d": ux.UxDataArray(np.where(np.arange(nn) % 3 == 0, np.nan, np.arange(nn, dtype=float)),
                                 dims=["n_node"], uxgrid=g, name="n"),
        "dask_2d": ux.UxDataArray(da.from_array(rng.normal(size=(2, nn)), chunks=(1, nn)), dims=["time", "n_node"],
                                  uxgrid=g, name="d"),
    }
    for aname, uxda in arrays.items():
        for op in OPS:
            for dest in ("face", "edge"):
                attempt(f"{gname}/{aname}/topological_{op}->{dest}",
                        lambda: getattr(uxda, f"topological_{op}")(destination=dest), g)
    a = arrays["f32_2d"]
    # keyword arguments forwarded to the numpy reduction
    attempt(f"{gname}/std ddof=1 face", lambda: a.topological_std("face", ddof=1), g)
    attempt(f"{gname}/var ddof=1 edge", lambda: a.topological_var("edge", ddof=1), g)
    attempt(f"{gname}/sum dtype face", lambda: a.topological_sum("face", dtype=np.float64), g)
    attempt(f"{gname}/mean keepdims edge", lambda: a.topological_mean("edge", keepdims=True), g)
    attempt(f"{gname}/mean bad kwarg", lambda: a.topological_mean("face", nope=1), g)
    # node dimension not last
    at = a.transpose("n_node", "time")
    attempt(f"{gname}/transposed mean face", lambda: at.topological_mean("face"), g)
    attempt(f"{gname}/transposed mean edge", lambda: at.topological_mean("edge"), g)
    # compositions with xarray operations before and after
    attempt(f"{gname}/comp1", lambda: ((a * 2 + 1).topological_mean("face") - 1).isel(time=1), g)
    attempt(f"{gname}/comp2", lambda: np.abs(a).cumsum("time").topological_max("edge").mean("time"), g)
    attempt(f"{gname}/comp3", lambda: a.copy(deep=False).astype("float64").topological_min("face").gradient(), g)
    attempt(f"{gname}/comp4", lambda: a.where(a > 0, 0.0).topological_sum("face").difference("edge"), g)
    attempt(f"{gname}/comp5", lambda: a.topological_mean("face").isel(n_face=[0, 1]), None)
    attempt(f"{gname}/comp6", lambda: a.rename("zz").assign_coords(time=[1, 2, 3]).topological_median("edge"), g)
    attempt(f"{gname}/comp7", lambda: (-a).cumsum("time").topological_max("edge").mean("time").round(3), g)
    attempt(f"{gname}/comp8", lambda: xr.concat([a, a * 3], "time").topological_min("face").gradient().isel(time=4), g)
    attempt(f"{gname}/comp9", lambda: a.copy(deep=False).transpose("time", "n_node").topological_sum("face").difference("edge"), g)
    attempt(f"{gname}/comp10", lambda: a.topological_mean("face").remap.nearest_neighbor(g, "nodes").topological_mean("edge"), g)
    attempt(f"{gname}/comp11", lambda: a.topological_prod("face").integrate(), g)
    r = a.copy(deep=True).topological_mean("face")
    print(f"{gname}/deepcopy: independent_grid={r.uxgrid is not g} n_face_ok={r.sizes['n_face'] == r.uxgrid.n_face}")
    # error paths
    attempt(f"{gname}/dest None", lambda: a.topological_mean(None), g)
    attempt(f"{gname}/dest node", lambda: a.topological_mean("node"), g)
    attempt(f"{gname}/dest bogus", lambda: a.topological_mean("bogus"), g)
    fc = ux.UxDataArray(np.arange(g.n_face, dtype=float), dims=["n_face"], uxgrid=g, name="fc")
    ec = ux.UxDataArray(np.arange(g.n_edge, dtype=float), dims=["n_edge"], uxgrid=g, name="ec")
    oc = ux.UxDataArray(np.arange(4.0), dims=["x"], uxgrid=g, name="oc")
    for nm, arr in (("fc", fc), ("ec", ec), ("oc", oc)):
        for dest in ("face", "edge", "node"):
            attempt(f"{gname}/{nm} mean->{dest}", lambda: arr.topological_mean(dest), g)
        # the two sibling helpers called directly with data that is not node centred
        attempt(f"{gname}/{nm} direct n2f", lambda: agg._node_to_face_aggregation(arr, "mean", {}), g)
        attempt(f"{gname}/{nm} direct n2e", lambda: agg._node_to_edge_aggregation(arr, "mean", {}), g)
    # direct calls: unknown aggregation name, positional kwargs dict
    attempt(f"{gname}/direct bad agg f", lambda: agg._node_to_face_aggregation(a, "nope", {}), g)
    attempt(f"{gname}/direct bad agg e", lambda: agg._node_to_edge_aggregation(a, "nope", {}), g)
    attempt(f"{gname}/direct kw f", lambda: agg._node_to_face_aggregation(a, "std", {"ddof": 1}), g)
    attempt(f"{gname}/direct kw e", lambda: agg._node_to_edge_aggregation(a, "std", {"ddof": 1}), g)
    # data that is neither numpy nor dask (a plain xarray lazily indexed array is coerced, so wrap a list-backed var)
    class Duck:
        """minimal duck array xarray accepts (has __array_function__ / __array_ufunc__)"""
        def __init__(self, arr): self._a = arr
        shape = property(lambda s: s._a.shape); dtype = property(lambda s: s._a.dtype); ndim = property(lambda s: s._a.ndim)
        def __array__(self, dtype=None, copy=None): return np.asarray(self._a, dtype=dtype)
        def __array_function__(self, *a, **k): return NotImplemented
        def __array_ufunc__(self, *a, **k): return NotImplemented
        def __getitem__(self, k): return Duck(self._a[k])
    try:
        duck = ux.UxDataArray(xr.Variable(["n_node"], Duck(np.arange(nn, dtype=float))), uxgrid=g, name="duck")
        print(f"{gname}/duck type={type(duck.data).__name__}")
        attempt(f"{gname}/duck n2f", lambda: agg._node_to_face_aggregation(duck, "mean", {}), g)
        attempt(f"{gname}/duck n2e", lambda: agg._node_to_edge_aggregation(duck, "nope", {}), g)
    except Exception as e:  # noqa
        print(f"{gname}/duck construction RAISED {type(e).__name__}")

print("sibling helpers present:", hasattr(agg, "_node_to_face_aggregation"), hasattr(agg, "_node_to_edge_aggregation"))
