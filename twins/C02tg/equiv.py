import sys, os

sys.path.insert(0, os.getcwd())

import hashlib
import itertools
import warnings

import numpy as np
import xarray as xr

import uxarray
import uxarray as ux

assert os.path.abspath(uxarray.__file__).startswith(os.path.abspath(os.getcwd()) + os.sep), (
    uxarray.__file__
)

from uxarray.constants import INT_DTYPE, INT_FILL_VALUE
from uxarray.grid import connectivity as conn

warnings.filterwarnings("ignore")
np.set_printoptions(threshold=10**6, linewidth=200)

F = INT_FILL_VALUE


def digest(a):
    """dtype / shape / layout / content hash of an array."""
    a = np.asarray(a)
    h = hashlib.sha256(np.ascontiguousarray(a).tobytes()).hexdigest()[:16]
    return (
        f"{a.dtype.str} {a.shape} C={a.flags['C_CONTIGUOUS']} own={a.flags['OWNDATA']} "
        f"w={a.flags['WRITEABLE']} {h}"
    )


def show(name, a, full):
    print(f"  {name}: {digest(a)}")
    if full:
        print("   ", repr(np.asarray(a)).replace("\n", "\n    "))


def run_functions(label, face_nodes, full=True):
    """Drive the module-level builders directly."""
    print(f"== functions: {label}")
    face_nodes = np.asarray(face_nodes)
    n_face = face_nodes.shape[0]
    n_max = face_nodes.shape[1] if face_nodes.ndim == 2 else 0
    before = digest(face_nodes)
    try:
        closed = conn.close_face_nodes(face_nodes, n_face, n_max)
        show("closed", closed, full)
        print("  closed shares input:", np.shares_memory(closed, face_nodes))
    except Exception as e:  # noqa
        print("  close_face_nodes raised", type(e).__name__, str(e)[:120])
    try:
        edge_nodes, inverse, mask = conn._build_edge_node_connectivity(
            face_nodes, n_face, n_max
        )
        show("edge_nodes", edge_nodes, full)
        show("inverse", inverse, full)
        show("fill_mask", mask, full)
        print(
            "  aliasing:",
            np.shares_memory(edge_nodes, inverse),
            np.shares_memory(edge_nodes, face_nodes),
            np.shares_memory(inverse, face_nodes),
        )
        face_edges = conn._build_face_edge_connectivity(inverse, n_face, n_max)
        show("face_edges", face_edges, full)
        print("  face_edges is view of inverse:", np.shares_memory(face_edges, inverse))
        npf = conn._build_n_nodes_per_face(face_nodes, n_face, n_max)
        show("n_nodes_per_face", npf, full)
        print("  n_edge:", edge_nodes.shape[0], "n_fill_rows:", int(mask.sum()))
    except Exception as e:  # noqa
        print("  builders raised", type(e).__name__, str(e)[:120])
    print("  input untouched:", before == digest(face_nodes))


def grid_from_faces(face_nodes):
    face_nodes = np.asarray(face_nodes, dtype=INT_DTYPE)
    n_node = int(face_nodes[face_nodes != F].max()) + 1
    rng = np.random.default_rng(n_node)
    lon = rng.uniform(-180, 180, n_node)
    lat = rng.uniform(-90, 90, n_node)
    return ux.Grid.from_topology(lon, lat, face_nodes, fill_value=F)


def run_grid(label, grid, order, full=False):
    """Observe the lazily populated Grid properties in a given access order."""
    print(f"== grid: {label} order={order}")
    seen = {}
    for name in order:
        try:
            val = getattr(grid, name)
        except Exception as e:  # noqa
            print(f"  {name} raised", type(e).__name__, str(e)[:120])
            continue
        if isinstance(val, xr.DataArray):
            print(f"  {name}: dims={val.dims} attrs={sorted(val.attrs)} {digest(val.values)}")
            if full:
                print("   ", repr(val.values).replace("\n", "\n    "))
            seen[name] = val
        else:
            print(f"  {name}: {type(val).__name__} {val!r}")
        print("   cached vars:", sorted(v for v in grid._ds.variables if "connectivity" in v or v == "n_nodes_per_face"))
    # second access returns the very same cached objects / buffers
    for name, val in seen.items():
        again = getattr(grid, name)
        print(f"  {name} stable:", np.shares_memory(again.values, val.values), again.dims == val.dims)
    if "edge_node_connectivity" in grid._ds:
        attrs = grid._ds["edge_node_connectivity"].attrs
        print("  edge attrs:", sorted(attrs))
        if "inverse_indices" in attrs:
            print("  inverse:", digest(attrs["inverse_indices"]))
            print("  mask:", digest(attrs["fill_value_mask"]))
            if "face_edge_connectivity" in grid._ds:
                print(
                    "  face_edge shares inverse:",
                    np.shares_memory(grid._ds["face_edge_connectivity"].values, attrs["inverse_indices"]),
                )
    if "n_edge" in grid._ds.sizes:
        print("  euler:", grid.n_node - grid.n_edge + grid.n_face)


# ---------------------------------------------------------------------------
# hand-made tables
# ---------------------------------------------------------------------------
tables = {
    "single triangle": [[0, 1, 2]],
    "single triangle padded": [[0, 1, 2, F, F]],
    "single quad rotated": [[2, 3, 0, 1]],
    "two quads share edge": [[0, 1, 2, 3], [1, 4, 5, 2]],
    "tri + quad + pent": [[0, 1, 2, F, F], [1, 3, 4, 2, F], [4, 5, 6, 7, 2]],
    "pentagon first": [[4, 5, 6, 7, 2], [0, 1, 2, F, F], [1, 3, 4, 2, F]],
    "two faces share two edges": [[0, 1, 2, 3], [0, 1, 2, 4]],
    "two faces share all edges": [[0, 1, 2], [2, 0, 1]],
    "opposite winding": [[0, 1, 2, F], [2, 1, 0, 3]],
    "tetrahedron": [[0, 1, 2], [0, 3, 1], [1, 3, 2], [2, 3, 0]],
    "cube": [[0, 1, 2, 3], [4, 5, 6, 7], [0, 1, 5, 4], [1, 2, 6, 5], [2, 3, 7, 6], [3, 0, 4, 7]],
    "all padded by two": [[0, 1, 2, F, F], [2, 1, 3, F, F]],
    "node 0 closes a fill row start": [[5, 0, 3, F], [0, 5, 4, 6]],
    "high node ids": [[1000, 7, 52, F], [52, 7, 999, 3]],
    "all fill row (inadmissible)": [[F, F, F], [0, 1, 2]],
    "fill in the middle (inadmissible)": [[0, F, 1, 2], [0, 1, 2, 3]],
}
for label, t in tables.items():
    run_functions(label, np.array(t, dtype=INT_DTYPE))

# other integer dtypes / memory layouts of the same table
base = np.array(tables["tri + quad + pent"], dtype=INT_DTYPE)
run_functions("fortran order", np.asfortranarray(base))
run_functions("non-contiguous view", np.repeat(base, 2, axis=1)[:, ::2])
run_functions("read only", (lambda a: (a.setflags(write=False), a)[1])(base.copy()))
run_functions("int32 with own fill", np.where(base == F, -1, base).astype(np.int32))
run_functions("zero faces", np.empty((0, 4), dtype=INT_DTYPE))
run_functions("zero width", np.empty((3, 0), dtype=INT_DTYPE))

# exhaustive small scope: every 2-face table over 4 nodes with widths 3..4
print("== exhaustive small scope")
acc = hashlib.sha256()
count = 0
nodes = range(4)
faces = []
for k in (3, 4):
    for perm in itertools.permutations(nodes, k):
        faces.append(list(perm) + [F] * (4 - k))
for f0, f1 in itertools.product(faces, repeat=2):
    tab = np.array([f0, f1], dtype=INT_DTYPE)
    e, inv, m = conn._build_edge_node_connectivity(tab, 2, 4)
    c = conn.close_face_nodes(tab, 2, 4)
    for a in (e, inv, m, c):
        acc.update(digest(a).encode())
    count += 1
print("  tables:", count, "hash:", acc.hexdigest()[:24])


# random large mixed tables (arbitrary numbering, arbitrary padding layout)
def random_table(seed, n_face, n_max, n_node):
    rng = np.random.default_rng(seed)
    tab = np.full((n_face, n_max), F, dtype=INT_DTYPE)
    for i in range(n_face):
        k = rng.integers(3, n_max + 1)
        tab[i, :k] = rng.choice(n_node, size=k, replace=False)
    return tab


for seed, (nf, nm, nn) in enumerate([(50, 5, 30), (400, 8, 120), (3000, 6, 2500), (200, 3, 60), (64, 12, 13)]):
    run_functions(f"random seed={seed} {nf}x{nm} over {nn} nodes", random_table(seed, nf, nm, nn), full=False)

# ---------------------------------------------------------------------------
# Grid level: lazy population in different access orders
# ---------------------------------------------------------------------------
orders = [
    ("n_max_face_edges", "n_edge", "edge_node_connectivity", "face_edge_connectivity", "n_nodes_per_face"),
    ("edge_node_connectivity", "face_edge_connectivity", "n_max_face_edges", "n_edge", "n_nodes_per_face"),
    ("face_edge_connectivity", "n_nodes_per_face", "n_edge", "edge_node_connectivity", "n_max_face_edges"),
    ("n_edge", "n_max_face_edges"),
]
for label in ("tri + quad + pent", "cube", "single triangle padded", "two faces share two edges", "pentagon first"):
    for order in orders:
        run_grid(label, grid_from_faces(tables[label]), order, full=(order is orders[0]))

run_grid("random 400x8", grid_from_faces(random_table(1, 400, 8, 120)), orders[0])
run_grid("random 400x8", grid_from_faces(random_table(1, 400, 8, 120)), orders[2])

# a grid that already carries edge_node_connectivity WITHOUT the side tables:
# asking for face_edge_connectivity rebuilds (and renumbers) the edges
g = grid_from_faces(tables["tri + quad + pent"])
own_edges = np.array(g.edge_node_connectivity.values[::-1])
g2 = grid_from_faces(tables["tri + quad + pent"])
g2.edge_node_connectivity = xr.DataArray(own_edges, dims=["n_edge", "two"], attrs={"cf_role": "edge_node_connectivity"})
print("== grid with foreign edge table")
print("  before:", sorted(g2._ds["edge_node_connectivity"].attrs), digest(g2._ds["edge_node_connectivity"].values))
run_grid("foreign edge table", g2, orders[2], full=True)

# a grid that already carries face_edge_connectivity: n_max_face_edges reads it, builds nothing
g3 = grid_from_faces(tables["two quads share edge"])
g3.face_edge_connectivity = xr.DataArray(
    np.array([[0, 1, 2, 3, F], [1, 4, 5, 6, F]], dtype=INT_DTYPE), dims=["n_face", "n_max_face_edges"]
)
run_grid("foreign face_edge table", g3, ("n_max_face_edges", "face_edge_connectivity", "n_edge"), full=True)

# sample files
root = os.path.join(os.getcwd(), "test", "meshfiles")
files = [
    ("ugrid/quad-hexagon/grid.nc", {}),
    ("ugrid/outCSne30/outCSne30.ug", {}),
    ("ugrid/geoflow-small/grid.nc", {}),
    ("ugrid/outRLL1deg/outRLL1deg.ug", {}),
    ("ugrid/ov_RLL10deg_CSne4/ov_RLL10deg_CSne4.ug", {}),
    ("mpas/QU/mesh.QU.1920km.151026.nc", {}),
    ("exodus/mixed/mixed.exo", {}),
    ("exodus/outCSne8/outCSne8.g", {}),
    ("scrip/outCSne8/outCSne8.nc", {}),
    ("esmf/ne30/ne30pg3.grid.nc", {}),
]
for rel, kw in files:
    for order in (orders[0], orders[2]):
        try:
            grid = ux.open_grid(os.path.join(root, rel), **kw)
        except Exception as e:  # noqa
            print("== open failed", rel, type(e).__name__)
            break
        run_grid(rel, grid, order)

# subsetting goes through the same builders on the new grid
grid = ux.open_grid(os.path.join(root, "mpas/QU/mesh.QU.1920km.151026.nc"))
sub = grid.isel(n_face=[0, 5, 6, 7, 100, 101, 150])
run_grid("mpas isel subset", sub, orders[1], full=True)
print("done")
