import sys, os; sys.path.insert(0, os.getcwd())
import hashlib
import itertools
import warnings

import numpy as np
import xarray as xr

import uxarray
import uxarray as ux

assert os.path.abspath(uxarray.__file__).startswith(os.path.abspath(os.getcwd()) + os.sep), uxarray.__file__

from uxarray.constants import INT_FILL_VALUE, INT_DTYPE
from uxarray.grid import coordinates as C

warnings.simplefilter("ignore")
np.set_printoptions(precision=17, linewidth=200)


def dig(a):
    """dtype / shape / sha1 of the bytes of an array-like (plus type of the container)."""
    t = type(a).__name__
    if isinstance(a, xr.DataArray):
        extra = "dims=%s attrs=%s" % (a.dims, sorted(a.attrs.items()))
        a = a.values
    else:
        extra = ""
    a = np.asarray(a)
    return "%s %s %s %s %s" % (
        t,
        a.dtype,
        a.shape,
        hashlib.sha1(np.ascontiguousarray(a).tobytes()).hexdigest()[:16],
        extra,
    )


def show(label, a):
    print(label, dig(a))


# ---------------------------------------------------------------- sources
F = INT_FILL_VALUE

# nodes: poles, antimeridian (+180, -180), prime meridian, near-pole inside/outside the 1e-8 snap band,
# west of the antimeridian, and generic points
NODE_LON = np.array(
    [0.0, 0.0, 180.0, -180.0, 0.0, 90.0, -90.0, 179.5, -179.5, 45.0, -135.0, 10.0, 123.456, -170.0, 170.0, 0.0],
    dtype=np.float64,
)
NODE_LAT = np.array(
    [90.0, -90.0, 0.0, 10.0, 0.0, 0.0, 0.0, 45.0, -45.0, 89.9999999, -89.99, 5.0, -33.3, 80.0, 80.0, 89.99999],
    dtype=np.float64,
)
# mixed face sizes with fill values (triangle, quad, pentagon)
FACE_NODES = np.array(
    [
        [4, 5, 0, F, F],
        [2, 7, 14, 13, F],
        [3, 8, 10, 1, 6],
        [4, 11, 9, F, F],
        [12, 2, 7, 5, F],
        [13, 14, 0, F, F],
        [15, 9, 0, F, F],
    ],
    dtype=INT_DTYPE,
)


def ref_xyz(lon, lat):
    lon = np.deg2rad(lon)
    lat = np.deg2rad(lat)
    return np.cos(lon) * np.cos(lat), np.sin(lon) * np.cos(lat), np.sin(lat)


def ref_centres(conn, n_per):
    x, y, z = ref_xyz(NODE_LON, NODE_LAT)
    cx = np.array([x[conn[i, : n_per[i]]].mean() for i in range(len(conn))])
    cy = np.array([y[conn[i, : n_per[i]]].mean() for i in range(len(conn))])
    cz = np.array([z[conn[i, : n_per[i]]].mean() for i in range(len(conn))])
    nrm = np.sqrt(cx**2 + cy**2 + cz**2)
    return cx / nrm, cy / nrm, cz / nrm


N_PER = (FACE_NODES != F).sum(axis=1)
FCX, FCY, FCZ = ref_centres(FACE_NODES, N_PER)
FCLON = np.rad2deg(np.arctan2(FCY, FCX))
FCLAT = np.rad2deg(np.arcsin(FCZ))


def make_ds(node_mode, face_mode, lon360=False, scale=1.0, edge_mode="none", edge_src=None):
    ds = xr.Dataset()
    lon = NODE_LON % 360.0 if lon360 else NODE_LON
    if node_mode in ("lonlat", "both"):
        ds["node_lon"] = xr.DataArray(lon.copy(), dims=["n_node"])
        ds["node_lat"] = xr.DataArray(NODE_LAT.copy(), dims=["n_node"])
    if node_mode in ("xyz", "both"):
        x, y, z = ref_xyz(NODE_LON, NODE_LAT)
        ds["node_x"] = xr.DataArray(x * scale, dims=["n_node"])
        ds["node_y"] = xr.DataArray(y * scale, dims=["n_node"])
        ds["node_z"] = xr.DataArray(z * scale, dims=["n_node"])
    ds["face_node_connectivity"] = xr.DataArray(
        FACE_NODES.copy(),
        dims=["n_face", "n_max_face_nodes"],
        attrs={"_FillValue": F, "start_index": 0, "cf_role": "face_node_connectivity"},
    )
    flon = FCLON % 360.0 if lon360 else FCLON
    if face_mode in ("lonlat", "both"):
        ds["face_lon"] = xr.DataArray(flon.copy(), dims=["n_face"])
        ds["face_lat"] = xr.DataArray(FCLAT.copy(), dims=["n_face"])
    if face_mode in ("xyz", "both"):
        ds["face_x"] = xr.DataArray(FCX * scale, dims=["n_face"])
        ds["face_y"] = xr.DataArray(FCY * scale, dims=["n_face"])
        ds["face_z"] = xr.DataArray(FCZ * scale, dims=["n_face"])
    if edge_mode != "none":
        elon, elat, ex, ey, ez = edge_src
        if edge_mode in ("lonlat", "both"):
            ds["edge_lon"] = xr.DataArray((elon % 360.0 if lon360 else elon).copy(), dims=["n_edge"])
            ds["edge_lat"] = xr.DataArray(elat.copy(), dims=["n_edge"])
        if edge_mode in ("xyz", "both"):
            ds["edge_x"] = xr.DataArray(ex * scale, dims=["n_edge"])
            ds["edge_y"] = xr.DataArray(ey * scale, dims=["n_edge"])
            ds["edge_z"] = xr.DataArray(ez * scale, dims=["n_edge"])
    return ds


COORDS = [
    "node_lon", "node_lat", "node_x", "node_y", "node_z",
    "edge_lon", "edge_lat", "edge_x", "edge_y", "edge_z",
    "face_lon", "face_lat", "face_x", "face_y", "face_z",
]

ORDERS = {
    "fwd": COORDS,
    "rev": COORDS[::-1],
    "xyz_first": [c for c in COORDS if c[-1] in "xyz"] + [c for c in COORDS if c[-1] not in "xyz"],
    "face_first": [c for c in COORDS if c.startswith("face")] + [c for c in COORDS if not c.startswith("face")],
    "lat_first": [c for c in COORDS if c.endswith("lat")] + [c for c in COORDS if not c.endswith("lat")],
}


def dump_grid(tag, g, order):
    for name in order:
        try:
            v = getattr(g, name)
            print(tag, name, dig(v.values), "keys=%s" % ",".join(sorted(k for k in g._ds.variables if k in COORDS)))
        except Exception as e:  # same exception type and text expected on both trees
            print(tag, name, "EXC", type(e).__name__, str(e)[:120])
    for name in COORDS:
        if name in g._ds:
            print(tag, "final", name, dig(g._ds[name]))
    print(tag, "normalized_flag", g._normalized)


def section(title):
    print("=" * 8, title)


# ---------------------------------------------------------------- 1. low level helpers
section("helpers")
rng = np.random.default_rng(20240404)
pts = rng.normal(size=(3, 40))
pts_special = np.array(
    [
        [0.0, 0.0, 1.0],
        [0.0, 0.0, -1.0],
        [1e-5, 0.0, 1.0],
        [1e-3, 1e-3, -1.0],
        [-1.0, 0.0, 0.0],
        [-1.0, -1e-17, 0.0],
        [-1.0, 1e-17, 0.0],
        [1.0, 0.0, 0.0],
        [0.0, -1.0, 0.0],
        [-2.0, -3.0, 0.5],
        [3.0, -4.0, 12.0],
        [1e-9, 1e-9, 1.0 - 1e-9],
    ]
).T
for nm, P in (("rand", pts), ("special", pts_special)):
    for norm in (True, False):
        if not norm:
            Q = P / np.linalg.norm(P, axis=0)
        else:
            Q = P
        a = [Q[0].copy(), Q[1].copy(), Q[2].copy()]
        before = [dig(v) for v in a]
        lon, lat = C._xyz_to_lonlat_rad(a[0], a[1], a[2], normalize=norm)
        show("rad %s norm=%s lon" % (nm, norm), lon)
        show("rad %s norm=%s lat" % (nm, norm), lat)
        print("   inputs untouched:", before == [dig(v) for v in a])
        lon, lat = C._xyz_to_lonlat_deg(a[0], a[1], a[2], normalize=norm)
        show("deg %s norm=%s lon" % (nm, norm), lon)
        show("deg %s norm=%s lat" % (nm, norm), lat)
        print("   inputs untouched:", before == [dig(v) for v in a])
        if nm == "special":
            print("   ", repr(lon), repr(lat))
# defaults (normalize keyword omitted / passed positionally)
show("rad default", np.array(C._xyz_to_lonlat_rad(pts[0], pts[1], pts[2])))
show("rad positional", np.array(C._xyz_to_lonlat_rad(pts[0], pts[1], pts[2], False)))
show("deg default", np.array(C._xyz_to_lonlat_deg(pts[0], pts[1], pts[2])))
show("deg positional", np.array(C._xyz_to_lonlat_deg(pts[0], pts[1], pts[2], True)))
# scalar inputs (python floats, numpy scalars, ints)
for sc in [(1.0, 2.0, 3.0), (np.float64(0.0), np.float64(0.0), np.float64(2.0)), (1, 0, 0), (-1.0, -0.0, 0.0), (np.float32(0.5), np.float32(0.5), np.float32(0.1))]:
    for norm in (True, False):
        try:
            r = C._xyz_to_lonlat_rad(*sc, normalize=norm)
            print("scalar rad", sc, norm, [type(v).__name__ for v in r], [np.asarray(v).dtype.name for v in r], [repr(np.asarray(v).tolist()) for v in r])
            r = C._xyz_to_lonlat_deg(*sc, normalize=norm)
            print("scalar deg", sc, norm, [type(v).__name__ for v in r], [np.asarray(v).dtype.name for v in r], [repr(np.asarray(v).tolist()) for v in r])
        except Exception as e:
            print("scalar", sc, norm, "EXC", type(e).__name__, str(e)[:100])
# 2-D input
P2 = pts.reshape(3, 8, 5)
show("rad 2d", np.array(C._xyz_to_lonlat_rad(P2[0], P2[1], P2[2])))
show("deg 2d", np.array(C._xyz_to_lonlat_deg(P2[0], P2[1], P2[2], normalize=False)))
# zero vector (nan path)
with np.errstate(all="ignore"):
    r = C._xyz_to_lonlat_deg(np.array([0.0, 1.0]), np.array([0.0, 0.0]), np.array([0.0, 0.0]))
    print("zero vector", repr(r[0]), repr(r[1]))
show("normalize_xyz", np.array(C._normalize_xyz(pts[0], pts[1], pts[2])))
show("lonlat_rad_to_xyz", np.array(C._lonlat_rad_to_xyz(np.deg2rad(NODE_LON), np.deg2rad(NODE_LAT))))
print("scalar njit", C._xyz_to_lonlat_rad_scalar(0.3, -0.4, 0.5, True), C._xyz_to_lonlat_rad_scalar(0.0, 0.0, 1.0, False))

# _set_desired_longitude_range on bare datasets
section("_set_desired_longitude_range")
for case, vals in {
    "all360": dict(node_lon=[0.0, 180.0, 180.5, 359.9, 360.0], edge_lon=[190.0, 10.0], face_lon=[720.0, -10.0]),
    "none_over": dict(node_lon=[-180.0, 180.0, 0.0], face_lon=[179.99]),
    "only_edge": dict(edge_lon=[181.0, 180.0, -180.0, -190.0]),
    "nan": dict(node_lon=[np.nan, 200.0], face_lon=[np.nan, np.nan]),
    "ints": dict(node_lon=np.array([0, 90, 270, 360], dtype=np.int64)),
    "f32": dict(node_lon=np.array([0, 90, 270, 360], dtype=np.float32)),
    "other": dict(lon=[300.0], node_lat=[200.0]),
    "empty": dict(),
}.items():
    ds = xr.Dataset({k: xr.DataArray(np.asarray(v), dims=[k + "_d"], attrs={"a": k}) for k, v in vals.items()})
    held = {k: ds[k].data for k in ds.variables}
    r = C._set_desired_longitude_range(ds)
    print(case, "ret", r)
    for k in sorted(ds.variables):
        print(case, k, dig(ds[k]), repr(ds[k].values), "same_buffer=%s" % (ds[k].data is held[k]))

# ---------------------------------------------------------------- 2. provenance x access order
section("provenance")
# a reference edge set (from a lon/lat grid) to be able to supply edge centres
g0 = ux.Grid(make_ds("lonlat", "none"), source_grid_spec="UGRID")
en = g0.edge_node_connectivity.values
x, y, z = ref_xyz(NODE_LON, NODE_LAT)
ex, ey, ez = x[en].mean(axis=1), y[en].mean(axis=1), z[en].mean(axis=1)
nr = np.sqrt(ex**2 + ey**2 + ez**2)
ex, ey, ez = ex / nr, ey / nr, ez / nr
EDGE_SRC = (np.rad2deg(np.arctan2(ey, ex)), np.rad2deg(np.arcsin(ez)), ex, ey, ez)
show("edge_node_connectivity", en)

for node_mode, face_mode, edge_mode, lon360, scale in itertools.product(
    ("lonlat", "xyz", "both"), ("none", "lonlat", "xyz", "both"), ("none", "lonlat", "xyz", "both"), (False, True), (1.0, 6371.0)
):
    if scale != 1.0 and "xyz" not in (node_mode, face_mode, edge_mode) and "both" not in (node_mode, face_mode, edge_mode):
        continue
    for oname, order in ORDERS.items():
        # keep the product affordable: all orders only for a subset
        if oname not in ("fwd", "rev") and (edge_mode in ("lonlat", "both") or scale != 1.0):
            continue
        tag = "n=%s f=%s e=%s 360=%s s=%s o=%s |" % (node_mode, face_mode, edge_mode, lon360, scale, oname)
        ds = make_ds(node_mode, face_mode, lon360, scale, edge_mode, EDGE_SRC)
        src_before = {k: dig(ds[k]) for k in ds.variables}
        g = ux.Grid(ds, source_grid_spec="UGRID")
        dump_grid(tag, g, order)
        print(tag, "source dataset untouched:", src_before == {k: dig(ds[k]) for k in ds.variables})

# ---------------------------------------------------------------- 3. normalisation and re-construction of centres
section("normalize / construct_face_centers")
for node_mode, face_mode, edge_mode, scale in itertools.product(("xyz", "both", "lonlat"), ("none", "xyz", "both", "lonlat"), ("none", "xyz"), (1.0, 2.5, 6371.0)):
    tag = "norm n=%s f=%s e=%s s=%s |" % (node_mode, face_mode, edge_mode, scale)
    g = ux.Grid(make_ds(node_mode, face_mode, False, scale, edge_mode, EDGE_SRC), source_grid_spec="UGRID")
    r = g.normalize_cartesian_coordinates()
    print(tag, "ret", r, "flag", g._normalized, "keys", sorted(k for k in g._ds.variables if k in COORDS))
    dump_grid(tag, g, COORDS)
    r = g.normalize_cartesian_coordinates()
    print(tag, "second ret", r, "flag", g._normalized)

for node_mode, face_mode, lon360, scale in itertools.product(("lonlat", "xyz", "both"), ("none", "lonlat", "xyz", "both"), (False, True), (1.0, 3.0)):
    for method in ("cartesian average", "welzl", "bogus"):
        for pre in ((), ("face_x",), ("face_lon",), ("face_lat", "face_z")):
            tag = "cfc n=%s f=%s 360=%s s=%s m=%s pre=%s |" % (node_mode, face_mode, lon360, scale, method, ",".join(pre))
            g = ux.Grid(make_ds(node_mode, face_mode, lon360, scale), source_grid_spec="UGRID")
            for p in pre:
                getattr(g, p)
            np.random.seed(7)
            try:
                r = g.construct_face_centers(method=method)
                print(tag, "ret", r, "keys", sorted(k for k in g._ds.variables if k in COORDS))
            except Exception as e:
                print(tag, "EXC", type(e).__name__, str(e)[:160])
            dump_grid(tag, g, ["face_x", "face_lon", "face_lat", "face_y", "face_z", "node_lon", "node_x"])

# warnings emitted by the face-centre population (category, text, count)
section("warnings")
for face_mode in ("none", "lonlat", "xyz", "both"):
    g = ux.Grid(make_ds("lonlat", face_mode), source_grid_spec="UGRID")
    with warnings.catch_warnings(record=True) as w:
        warnings.simplefilter("always")
        g.face_x
        g.face_lon
        g.construct_face_centers()
        np.random.seed(3)
        g.construct_face_centers("welzl")
    print(face_mode, [(x.category.__name__, str(x.message)) for x in w])
warnings.simplefilter("ignore")

# setters then getters (lon given in 0..360 through a setter is re-wrapped on the next derived read)
section("setters")
g = ux.Grid(make_ds("lonlat", "none"), source_grid_spec="UGRID")
g.node_lon = xr.DataArray(NODE_LON % 360.0, dims=["n_node"])
for name in ("node_lon", "node_x", "face_x", "face_lon", "edge_x", "edge_lon", "node_lon", "edge_lat"):
    print("setter-chain", name, dig(getattr(g, name)), dig(g._ds["node_lon"]))
g = ux.Grid(make_ds("xyz", "none"), source_grid_spec="UGRID")
g.face_lon = xr.DataArray(FCLON % 360.0, dims=["n_face"])
g.face_lat = xr.DataArray(FCLAT, dims=["n_face"])
for name in ("node_lat", "face_lon", "face_x", "node_lon", "edge_lon", "face_lon"):
    print("setter-chain2", name, dig(getattr(g, name)), dig(g._ds["face_lon"]))
g = ux.Grid(make_ds("xyz", "none"), source_grid_spec="UGRID")
g.edge_lon  # derived
g.face_lon = xr.DataArray(FCLON % 360.0, dims=["n_face"])
g.face_lat = xr.DataArray(FCLAT, dims=["n_face"])
for name in ("node_lon", "face_lon", "node_lat", "face_lon"):
    print("setter-chain3", name, dig(getattr(g, name)), dig(g._ds["face_lon"]))

# direct use of the population helpers (no range wrapping by the node helper itself)
section("direct helper calls")
for lon360 in (False, True):
    g = ux.Grid(make_ds("xyz", "none", lon360, 2.0), source_grid_spec="UGRID")
    r = C._populate_node_latlon(g)
    print("direct node_latlon", r, dig(g._ds["node_lon"]), repr(g._ds["node_lon"].values), dig(g._ds["node_lat"]))
    r = C._set_desired_longitude_range(g._ds)
    print("then wrapped", r, dig(g._ds["node_lon"]), repr(g._ds["node_lon"].values))
    g = ux.Grid(make_ds("lonlat", "none", lon360), source_grid_spec="UGRID")
    r = C._populate_node_xyz(g)
    print("direct node_xyz", r, dig(g._ds["node_x"]), dig(g._ds["node_y"]), dig(g._ds["node_z"]))
    r = C._populate_edge_centroids(g)
    print("direct edge", r, dig(g._ds["edge_lon"]), repr(g._ds["edge_lon"].values))
    r = C._populate_face_centroids(g)
    print("direct face", r, dig(g._ds["face_lon"]), repr(g._ds["face_lon"].values))
print("wrap table", repr(C._xyz_to_lonlat_deg(*ref_xyz(np.arange(-360.0, 721.0, 22.5), np.full(49, 12.0)))[0]))

# ---------------------------------------------------------------- 4. sample files of several formats
section("files")
base = os.path.join(os.getcwd(), "test", "meshfiles")
for rel in (
    "scrip/outCSne8/outCSne8.nc",
    "esmf/ne30/ne30pg3.grid.nc",
    "mpas/QU/mesh.QU.1920km.151026.nc",
    "mpas/QU/oQU480.231010.nc",
    "exodus/mixed/mixed.exo",
    "exodus/outCSne8/outCSne8.g",
    "ugrid/fesom/fesom.mesh.diag.nc",
    "geos-cs/c12/test-c12.native.nc4",
    "icon/R02B04/icon_grid_0010_R02B04_G.nc",
):
    path = os.path.join(base, rel)
    if not os.path.exists(path):
        print(rel, "absent")
        continue
    try:
        ux.open_grid(path)
    except Exception as e:
        print(rel, "OPEN EXC", type(e).__name__, str(e)[:100])
        continue
    for oname in ("fwd", "rev"):
        g = ux.open_grid(path)
        dump_grid("%s o=%s |" % (rel, oname), g, ORDERS[oname])
    def _norm():
        g = ux.open_grid(path)
        g.normalize_cartesian_coordinates()
        dump_grid("%s normalized |" % rel, g, COORDS)

    def _welzl():
        g = ux.open_grid(path)
        if g.n_face < 2000:
            np.random.seed(11)
            g.construct_face_centers("welzl")
            dump_grid("%s welzl |" % rel, g, ["face_lon", "face_lat", "face_x", "face_y", "face_z"])

    def _cart():
        g = ux.open_grid(path)
        g.construct_face_centers()
        dump_grid("%s cart-avg |" % rel, g, ["face_x", "face_y", "face_z", "face_lon", "face_lat"])

    for fn in (_norm, _welzl, _cart):
        try:
            fn()
        except Exception as e:
            print(rel, fn.__name__, "EXC", type(e).__name__, str(e)[:120])

# face vertices / topology constructors
section("constructors")
verts = [[[350.0, 10.0], [10.0, 10.0], [10.0, -10.0], [350.0, -10.0]], [[170.0, 80.0], [190.0, 80.0], [180.0, 89.0], [180.0, 89.0]]]
g = ux.Grid.from_face_vertices(verts, latlon=True)
dump_grid("face_vertices latlon |", g, COORDS)
cart = [[list(ref_xyz(np.array(p[0]), np.array(p[1]))) for p in f] for f in verts]
g = ux.Grid.from_face_vertices(np.array(cart, dtype=float) * 2.0, latlon=False)
dump_grid("face_vertices xyz |", g, ORDERS["rev"])
g = ux.Grid.from_topology(NODE_LON % 360.0, NODE_LAT, FACE_NODES, fill_value=F)
dump_grid("topology |", g, ORDERS["xyz_first"])
print("done")
