import sys, os
sys.path.insert(0, os.getcwd())
import warnings
warnings.filterwarnings("ignore")
import hashlib
import numpy as np
import uxarray
assert os.path.abspath(uxarray.__file__).startswith(os.path.abspath(os.getcwd()) + os.sep), uxarray.__file__
import uxarray as ux
from uxarray.constants import INT_FILL_VALUE, INT_DTYPE
from uxarray.grid.geometry import (
    _populate_face_latlon_bound,
    _populate_bounds,
    _insert_pt_in_latlonbox,
    _get_latlonbox_width,
    _pole_point_inside_polygon,
)
from uxarray.grid.arcs import extreme_gca_latitude
from uxarray.grid.utils import (
    _get_cartesian_face_edge_nodes,
    _get_lonlat_rad_face_edge_nodes,
)

np.set_printoptions(precision=17, floatmode="unique", linewidth=200, threshold=10**6)


def digest(a):
    a = np.asarray(a)
    h = hashlib.sha256(np.ascontiguousarray(a).tobytes()).hexdigest()[:16]
    return f"dtype={a.dtype} shape={a.shape} sha={h}"


def show(label, a):
    a = np.asarray(a)
    print(label, digest(a))
    print(np.array2string(a))


def lonlat_to_xyz(lon_deg, lat_deg):
    lon = np.deg2rad(lon_deg)
    lat = np.deg2rad(lat_deg)
    return np.array([np.cos(lat) * np.cos(lon), np.cos(lat) * np.sin(lon), np.sin(lat)])


def circle_face(clon, clat, radius_deg, n, phase=0.0):
    """Convex n-gon: points on a small circle of given angular radius about a centre."""
    c = lonlat_to_xyz(clon, clat)
    # orthonormal frame
    helper = np.array([0.0, 0.0, 1.0]) if abs(c[2]) < 0.9 else np.array([1.0, 0.0, 0.0])
    e1 = np.cross(helper, c)
    e1 /= np.linalg.norm(e1)
    e2 = np.cross(c, e1)
    r = np.deg2rad(radius_deg)
    pts = []
    for k in range(n):
        t = phase + 2 * np.pi * k / n
        p = np.cos(r) * c + np.sin(r) * (np.cos(t) * e1 + np.sin(t) * e2)
        p /= np.linalg.norm(p)
        lon = np.rad2deg(np.arctan2(p[1], p[0])) % 360.0
        lat = np.rad2deg(np.arcsin(np.clip(p[2], -1, 1)))
        pts.append((float(lon), float(lat)))
    return pts


HAND_FACES = [
    ("quad_midlat", [(10, 10), (50, 10), (50, 60), (10, 60)]),
    ("quad_antimeridian", [(170, -20), (190, -20), (190, 20), (170, 20)]),
    ("quad_prime_meridian", [(350, 10), (10, 10), (10, 40), (350, 40)]),
    ("tri_north_bulge", [(0, 60), (100, 60), (50, 40)]),
    ("tri_south_bulge", [(0, -60), (50, -40), (100, -60)]),
    ("tri_bulge_from_lowest_corner", [(20, 50), (140, 55), (80, 58)]),
    ("quad_encloses_north_pole", [(0, 80), (90, 80), (180, 80), (270, 80)]),
    ("pent_encloses_south_pole", [(300, -70), (228, -72), (156, -70), (84, -75), (12, -70)]),
    ("tri_corner_at_north_pole", [(0, 90), (10, 70), (50, 70)]),
    ("tri_corner_at_south_pole", [(0, -90), (50, -70), (10, -70)]),
    ("tri_equator", [(100, -5), (110, -5), (105, 7)]),
    ("quad_antimeridian_south", [(175, -65), (185, -66), (186, -50), (176, -49)]),
]


def build_faces():
    faces = list(HAND_FACES)
    rng = np.random.default_rng(20240913)
    for n in range(3, 9):
        for rep in range(3):
            clon = float(rng.uniform(0, 360))
            clat = float(rng.uniform(-80, 80))
            rad = float(rng.uniform(2, 25))
            ph = float(rng.uniform(0, 2 * np.pi))
            faces.append((f"circ_n{n}_r{rep}", circle_face(clon, clat, rad, n, ph)))
    # pole enclosing n-gons, off-centre
    faces.append(("oct_encloses_north_pole", circle_face(40.0, 86.0, 9.0, 8, 0.3)))
    faces.append(("hept_encloses_south_pole", circle_face(200.0, -85.0, 12.0, 7, 1.1)))
    faces.append(("hex_near_north_pole_not_enclosing", circle_face(120.0, 80.0, 8.0, 6, 0.2)))
    faces.append(("oct_antimeridian", circle_face(180.0, 30.0, 15.0, 8, 0.0)))
    faces.append(("hex_prime_meridian", circle_face(0.0, -30.0, 15.0, 6, 0.5)))
    # both traversal orientations and a rotated start
    extra = []
    for name, pts in faces:
        extra.append((name + "_rev", list(reversed(pts))))
        extra.append((name + "_roll", pts[2:] + pts[:2]))
    return faces + extra


def build_topology(faces):
    """Mixed face sizes -> padded connectivity with INT_FILL_VALUE, no node sharing."""
    nmax = max(len(p) for _, p in faces)
    lon, lat, conn = [], [], []
    for _, pts in faces:
        row = []
        for (lo, la) in pts:
            row.append(len(lon))
            lon.append(float(lo))
            lat.append(float(la))
        row += [INT_FILL_VALUE] * (nmax - len(pts))
        conn.append(row)
    return (np.array(lon, dtype=np.float64), np.array(lat, dtype=np.float64),
            np.array(conn, dtype=INT_DTYPE))


def face_edges(pts):
    """(n,2,3) cartesian and (n,2,2) lon/lat rad edges for a single face, independent of the library."""
    n = len(pts)

    def ll(p):
        return np.array([np.deg2rad(float(p[0]) % 360.0), np.deg2rad(float(p[1]))])

    cart = np.array([[lonlat_to_xyz(*pts[i]), lonlat_to_xyz(*pts[(i + 1) % n])] for i in range(n)])
    lonlat = np.array([[ll(pts[i]), ll(pts[(i + 1) % n])] for i in range(n)])
    return cart, lonlat


def attempt(label, fn):
    try:
        r = fn()
    except Exception as e:  # exceptions are part of the behaviour
        print(label, "RAISED", type(e).__name__, str(e))
        return None
    return r


def grid_bounds_section(faces):
    lon, lat, conn = build_topology(faces)
    conn_before = conn.copy()
    grid = ux.Grid.from_topology(lon, lat, conn, fill_value=INT_FILL_VALUE)
    b = grid.bounds
    print("Grid.bounds", digest(b.values), "dims", b.dims)
    for (name, _), row in zip(faces, b.values):
        print(f"  {name:40s} {row.tolist()!r}")
    print("bounds cached is same object:", grid.bounds is grid._ds["bounds"], "values equal:",
          bool(np.array_equal(grid.bounds.values, b.values)))
    print("attrs keys:", sorted(b.attrs.keys()))
    print("intervals:", digest(np.array([[iv.left, iv.right] for iv in b.attrs["latitude_intervalsIndex"]])))
    print("name map:", b.attrs["latitude_intervals_name_map"]["face_id"].tolist())
    print("input connectivity untouched:", bool(np.array_equal(conn, conn_before)))
    arr = _populate_bounds(grid, return_array=True)
    print("return_array equal:", bool(np.array_equal(arr.values, b.values)))
    arr2 = attempt("bounds is_latlonface=True", lambda: _populate_bounds(grid, is_latlonface=True, return_array=True))
    if arr2 is not None:
        show("bounds is_latlonface=True", arr2.values)
    return grid


def latlon_grid_section():
    faces = [HAND_FACES[0], HAND_FACES[2], HAND_FACES[1],
             ("quad_latlon_south", [(200, -60), (260, -60), (260, -30), (200, -30)])]
    lon, lat, conn = build_topology(faces)
    grid = ux.Grid.from_topology(lon, lat, conn, fill_value=INT_FILL_VALUE)
    r = attempt("latlon grid is_latlonface=True", lambda: _populate_bounds(grid, is_latlonface=True, return_array=True))
    if r is not None:
        show("latlon grid is_latlonface=True", r.values)
    gca = np.array([[True, False, True, False], [False, True, False, True], [True, True, False, False], [False, False, False, False]])
    r = attempt("latlon grid is_face_GCA_list", lambda: _populate_bounds(grid, is_face_GCA_list=gca, return_array=True))
    if r is not None:
        show("latlon grid is_face_GCA_list", r.values)
    r = attempt("latlon grid default", lambda: _populate_bounds(grid, return_array=True))
    if r is not None:
        show("latlon grid default", r.values)

# ---- refactoring b: extreme_gca_latitude in uxarray/grid/arcs.py ----
def one(label, gca, kind):
    try:
        with np.errstate(all="ignore"):
            r = extreme_gca_latitude(gca, kind)
    except Exception as e:
        print(f"{label:46s} {str(kind):4s} RAISED {type(e).__name__}: {str(e).splitlines()[0] if str(e) else str()}")
        return
    print(f"{label:46s} {str(kind):4s} {type(r).__name__} {float(r)!r} {np.float64(r).tobytes().hex()}")


def main():
    arcs = [
        ("same_lat_north_100deg_apart", (0, 60), (100, 60)),
        ("same_lat_south_100deg_apart", (0, -60), (100, -60)),
        ("same_lat_reversed", (100, 60), (0, 60)),
        ("meridian_up", (30, 10), (30, 50)),
        ("meridian_down", (30, 50), (30, 10)),
        ("equator_arc", (10, 0), (70, 0)),
        ("cross_equator", (10, -20), (80, 30)),
        ("cross_equator_symmetric", (10, -20), (80, 20)),
        ("endpoint_north_pole", (0, 90), (40, 60)),
        ("endpoint_south_pole", (40, -60), (0, -90)),
        ("bulge_from_lowest_corner", (20, 50), (140, 55)),
        ("bulge_reversed", (140, 55), (20, 50)),
        ("antimeridian", (170, 40), (190, 45)),
        ("prime_meridian", (350, -40), (10, -45)),
        ("tiny_arc", (12.0, 33.0), (12.0000001, 33.0000001)),
        ("identical_points", (45, 45), (45, 45)),
        ("nearly_180", (0, 30), (179.9, 30)),
        ("turning_point_near_endpoint", (0.0, 60.0), (1e-7, 60.0)),
        ("over_the_pole_side", (0, 80), (170, 80)),
    ]
    rng = np.random.default_rng(7)
    for k in range(60):
        a = (float(rng.uniform(0, 360)), float(rng.uniform(-89, 89)))
        dlon = float(rng.uniform(-120, 120))
        b = ((a[0] + dlon) % 360.0, float(np.clip(a[1] + rng.uniform(-40, 40), -89.5, 89.5)))
        arcs.append((f"rand{k}", a, b))
    for name, a, b in arcs:
        gca = np.array([lonlat_to_xyz(*a), lonlat_to_xyz(*b)])
        for kind in ("max", "min"):
            one(name, gca, kind)
    gca = np.array([lonlat_to_xyz(0, 60), lonlat_to_xyz(100, 60)])
    for kind in ("MAX", "Min", "mAx", "maximum", "", "both"):
        one("case/invalid kinds", gca, kind)
    one("non-str kind", gca, 3)
    one("None kind", gca, None)
    # un-normalised endpoints, list-of-lists input, integer input
    one("unnormalised", np.array([2.0 * lonlat_to_xyz(0, 60), 0.5 * lonlat_to_xyz(100, 60)]), "max")
    one("unnormalised", np.array([2.0 * lonlat_to_xyz(0, 60), 0.5 * lonlat_to_xyz(100, 60)]), "min")
    one("list input", [list(lonlat_to_xyz(0, 60)), list(lonlat_to_xyz(100, 60))], "max")
    one("tuple of arrays", (lonlat_to_xyz(0, 60), lonlat_to_xyz(100, 50)), "min")
    one("axis points int", np.array([[1, 0, 0], [0, 1, 0]]), "max")
    one("axis points float z-opposite", np.array([[0.6, 0.0, 0.8], [0.0, 0.6, -0.8]]), "max")
    one("axis points float z-opposite", np.array([[0.6, 0.0, 0.8], [0.0, 0.6, -0.8]]), "min")
    one("three points", np.array([[1.0, 0, 0], [0, 1.0, 0], [0, 0, 1.0]]), "max")
    # the input must not be modified
    g0 = gca.copy()
    extreme_gca_latitude(gca, "max")
    print("input untouched:", bool(np.array_equal(g0, gca)))

    faces = build_faces()
    for name, pts in faces:
        cart, ll = face_edges(pts)
        r = attempt(name, lambda: _populate_face_latlon_bound(cart, ll))
        if r is not None:
            print(f"  direct {name:40s} {r.tolist()!r} {r.dtype}")
    grid_bounds_section(faces)
    latlon_grid_section()


main()
