import sys, os

sys.path.insert(0, os.getcwd())
import warnings

warnings.filterwarnings("ignore")
import hashlib
import numpy as np
import xarray as xr
import uxarray as ux
import uxarray

assert os.path.abspath(uxarray.__file__).startswith(os.path.abspath(os.getcwd()) + os.sep), uxarray.__file__

from uxarray.grid.coordinates import _set_desired_longitude_range
from uxarray.constants import INT_FILL_VALUE


def h(a):
    a = np.ascontiguousarray(np.asarray(a))
    return f"{a.dtype}{a.shape}:{hashlib.sha1(a.tobytes()).hexdigest()[:12]}"


def attempt(label, fn):
    try:
        print(label, "->", fn())
    except Exception as e:
        print(label, "-> EXC", type(e).__name__, str(e)[:200])


print("== _set_desired_longitude_range on raw datasets")
lon_cases = {
    "all_in_range": np.array([-180.0, -10.0, 0.0, 179.999, 180.0]),
    "exactly_180": np.array([180.0, 180.0]),
    "just_above": np.array([0.0, np.nextafter(180.0, 400.0)]),
    "zero_360": np.array([0.0, 90.0, 180.0, 270.0, 359.75, 360.0]),
    "beyond_360": np.array([-200.0, 725.5, 540.0, 181.0]),
    "with_nan": np.array([10.0, np.nan, 350.0]),
    "nan_in_range": np.array([10.0, np.nan, 170.0]),
    "all_nan": np.array([np.nan, np.nan]),
    "float32": np.array([0.0, 190.5, 359.0], dtype=np.float32),
    "int64": np.array([0, 190, 360, 180], dtype=np.int64),
    "int32": np.array([0, 190, 360, 180], dtype=np.int32),
    "inf": np.array([0.0, np.inf]),
    "single": np.array([270.0]),
}
for label, lon in lon_cases.items():
    for name, dim in (("node_lon", "n_node"), ("edge_lon", "n_edge"), ("face_lon", "n_face")):
        src = lon.copy()
        ds = xr.Dataset({name: ((dim,), src, {"units": "degrees_east"}), "other_lon": ((dim,), src + 400)})
        var_before = ds._variables[name]
        ret = _set_desired_longitude_range(ds)
        out = ds[name]
        print(
            label, name, ret, h(out.values), repr(out.values), out.attrs,
            "same-variable-object", ds._variables[name] is var_before,
            "caller-array-untouched", np.array_equal(src, lon, equal_nan=True),
            "shares", np.shares_memory(out.values, src),
            "other_lon untouched", np.array_equal(ds["other_lon"].values, lon + 400, equal_nan=True),
        )

print("== several longitude variables at once, only some out of range")
ds = xr.Dataset(
    {
        "node_lon": (("n_node",), np.array([0.0, 100.0, 170.0])),
        "node_lat": (("n_node",), np.array([200.0, 300.0, -300.0])),  # never touched
        "face_lon": (("n_face",), np.array([359.0, 1.0])),
        "edge_lon": (("n_edge",), np.array([181.0, -181.0, 20.0])),
        "face_lat": (("n_face",), np.array([359.0, 1.0])),
    }
)
_set_desired_longitude_range(ds)
for k in ds.data_vars:
    print(k, repr(ds[k].values))
print("idempotent")
_set_desired_longitude_range(ds)
for k in ds.data_vars:
    print(k, repr(ds[k].values))

print("== empty / irrelevant datasets")
attempt("empty ds", lambda: _set_desired_longitude_range(xr.Dataset()))
attempt("no lon", lambda: _set_desired_longitude_range(xr.Dataset({"node_lat": (("n_node",), np.arange(3.0))})))
attempt("zero-length lon", lambda: _set_desired_longitude_range(xr.Dataset({"node_lon": (("n_node",), np.array([]))})))
attempt("string lon", lambda: _set_desired_longitude_range(xr.Dataset({"node_lon": (("n_node",), np.array(["a", "b"]))})))
attempt("plain dict", lambda: _set_desired_longitude_range({"node_lon": xr.DataArray(np.array([10.0, 200.0]))}))
attempt("lon as coord", lambda: (lambda d: (_set_desired_longitude_range(d), repr(d["node_lon"].values), list(d.coords))[1:])(
    xr.Dataset(coords={"node_lon": (("n_node",), np.array([10.0, 200.0]))})))

print("== dask backed")
try:
    import dask.array as da

    ds = xr.Dataset({"node_lon": (("n_node",), da.from_array(np.array([10.0, 200.0, 359.0]), chunks=2))})
    _set_desired_longitude_range(ds)
    print(type(ds["node_lon"].data).__name__, repr(ds["node_lon"].values))
except ImportError:
    print("no dask")

print("== Grid level (property C20)")
lat = np.array([0.0, 0.0, 10.0, 10.0, 5.0, -5.0, 45.0])
lon360 = np.array([0.0, 10.0, 10.0, 0.0, 20.0, 350.0, 185.5])
lon180 = np.array([0.0, 10.0, 10.0, 0.0, 20.0, -10.0, -174.5])
FV = -1
conn = np.array([[0, 1, 2, 3], [1, 4, 2, FV], [0, 3, 5, FV], [3, 2, 6, FV]])


def mk(lo=lon360, la=lat, co=conn, **kw):
    return ux.Grid.from_topology(lo.copy(), la.copy(), co.copy(), fill_value=FV, **kw)


g = mk()
print("node_lon", repr(g.node_lon.values), "lat", h(g.node_lat.values), "conn", h(g.face_node_connectivity.values))
print("360-form equals 180-form", g == mk(lo=lon180), mk(lo=lon180) == g, g != mk(lo=lon180))
print("reflexive", g == g, g != g, "copy", g == g.copy(), g.copy() == g, "non-grid", g == 3.0, g != 3.0)
for i in range(len(lat)):
    lo = lon360.copy()
    lo[i] += 0.5
    la = lat.copy()
    la[i] += 0.5
    a, b = mk(lo=lo), mk(la=la)
    print("node", i, "lon", g == a, a == g, g != a, "lat", g == b, b == g, g != b)
for idx in [(0, 0), (1, 3), (2, 2), (3, 3)]:
    co = conn.copy()
    co[idx] = FV if co[idx] != FV else 6
    c = mk(co=co)
    print("conn", idx, g == c, c == g, g != c)
print("fewer faces", g == mk(co=conn[:3]), "extra node", g == mk(lo=np.append(lon360, 1.0), la=np.append(lat, 1.0)))

print("caller dataset is not rewritten by Grid()")
src_ds = xr.Dataset(
    {
        "node_lon": (("n_node",), lon360.copy()),
        "node_lat": (("n_node",), lat.copy()),
        "face_node_connectivity": (("n_face", "n_max_face_nodes"), np.where(conn == FV, INT_FILL_VALUE, conn)),
        "face_lon": (("n_face",), np.array([5.0, 13.0, 355.0, 190.0])),
    }
)
gd = ux.Grid(src_ds, source_grid_spec="UGRID")
print("src", repr(src_ds["node_lon"].values), repr(src_ds["face_lon"].values))
print("grid", repr(gd.node_lon.values), repr(gd.face_lon.values))
print("from_dataset same", gd == ux.Grid.from_dataset(src_ds, source_grid_spec="UGRID"), "other spec", gd == g)

print("derived lon/lat from cartesian only (getter path)")
x, y, z = (np.cos(np.deg2rad(lat)) * np.cos(np.deg2rad(lon360)), np.cos(np.deg2rad(lat)) * np.sin(np.deg2rad(lon360)), np.sin(np.deg2rad(lat)))
gc = mk()
del gc._ds["node_lon"], gc._ds["node_lat"]
gc._ds["node_x"] = (("n_node",), x)
gc._ds["node_y"] = (("n_node",), y)
gc._ds["node_z"] = (("n_node",), z)
print(np.round(gc.node_lon.values, 9), np.round(gc.node_lat.values, 9))
print("edge/face lon", np.round(g.edge_lon.values, 9), np.round(g.face_lon.values, 9))
print(float(g.node_lon.max()), float(g.edge_lon.max()), float(g.face_lon.max()))
