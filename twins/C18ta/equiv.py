import sys, os
sys.path.insert(0, os.getcwd())
import hashlib, subprocess, warnings
import numpy as np
import uxarray
import uxarray as ux

assert os.path.abspath(uxarray.__file__).startswith(os.path.abspath(os.getcwd()) + os.sep), uxarray.__file__

from uxarray.constants import INT_FILL_VALUE, INT_DTYPE
from uxarray.grid import dual as dualmod
from uxarray.grid.validation import _check_duplicate_nodes_indices, _find_duplicate_nodes

NOJIT = os.environ.get("NUMBA_DISABLE_JIT", "0") == "1"
MESH = os.path.join(os.getcwd(), "test", "meshfiles")


def h(a):
    a = np.ascontiguousarray(a)
    return "%s %s %s" % (a.dtype, a.shape, hashlib.sha256(a.tobytes()).hexdigest()[:16])


def lonlat(xyz):
    xyz = np.asarray(xyz, dtype=float)
    xyz = xyz / np.linalg.norm(xyz, axis=1)[:, None]
    lon = np.degrees(np.arctan2(xyz[:, 1], xyz[:, 0]))
    lat = np.degrees(np.arcsin(xyz[:, 2]))
    return lon, lat


def rot(xyz, seed):
    rng = np.random.default_rng(seed)
    q, _ = np.linalg.qr(rng.normal(size=(3, 3)))
    if np.linalg.det(q) < 0:
        q[:, 0] = -q[:, 0]
    return np.asarray(xyz, dtype=float) @ q.T


def pad(faces):
    m = max(len(f) for f in faces)
    out = np.full((len(faces), m), INT_FILL_VALUE, dtype=INT_DTYPE)
    for i, f in enumerate(faces):
        out[i, : len(f)] = f
    return out


def ccw(xyz, faces):
    """orient every face counter-clockwise seen from outside"""
    xyz = np.asarray(xyz, dtype=float)
    out = []
    for f in faces:
        p = xyz[list(f)]
        c = p.mean(axis=0)
        n = np.zeros(3)
        for k in range(len(f)):
            n += np.cross(p[k], p[(k + 1) % len(f)])
        out.append(list(f) if np.dot(n, c) > 0 else list(f)[::-1])
    return out


def permute(xyz, faces, seed):
    rng = np.random.default_rng(seed)
    xyz = np.asarray(xyz, dtype=float)
    pn = rng.permutation(len(xyz))  # new index of old node k is pn[k]
    new_xyz = np.empty_like(xyz)
    new_xyz[pn] = xyz
    nf = [[int(pn[v]) for v in f] for f in faces]
    # rotate start of each face and shuffle the face order
    nf = [f[r:] + f[:r] for f, r in zip(nf, rng.integers(0, 3, size=len(nf)))]
    order = rng.permutation(len(nf))
    return new_xyz, [nf[k] for k in order]


def solids():
    out = {}
    cube = [(-1, -1, -1), (1, -1, -1), (1, 1, -1), (-1, 1, -1), (-1, -1, 1), (1, -1, 1), (1, 1, 1), (-1, 1, 1)]
    cf = [(0, 1, 2, 3), (4, 5, 6, 7), (0, 1, 5, 4), (1, 2, 6, 5), (2, 3, 7, 6), (3, 0, 4, 7)]
    out["cube"] = (cube, cf)
    octa = [(1, 0, 0), (-1, 0, 0), (0, 1, 0), (0, -1, 0), (0, 0, 1), (0, 0, -1)]
    of = [(0, 2, 4), (2, 1, 4), (1, 3, 4), (3, 0, 4), (2, 0, 5), (1, 2, 5), (3, 1, 5), (0, 3, 5)]
    out["octa_poles_antimeridian"] = (octa, of)
    t = (1 + 5 ** 0.5) / 2
    ico = [(-1, t, 0), (1, t, 0), (-1, -t, 0), (1, -t, 0), (0, -1, t), (0, 1, t), (0, -1, -t), (0, 1, -t),
           (t, 0, -1), (t, 0, 1), (-t, 0, -1), (-t, 0, 1)]
    icf = [(0, 11, 5), (0, 5, 1), (0, 1, 7), (0, 7, 10), (0, 10, 11), (1, 5, 9), (5, 11, 4), (11, 10, 2),
           (10, 7, 6), (7, 1, 8), (3, 9, 4), (3, 4, 2), (3, 2, 6), (3, 6, 8), (3, 8, 9), (4, 9, 5), (2, 4, 11),
           (6, 2, 10), (8, 6, 7), (9, 8, 1)]
    out["ico"] = (ico, icf)
    prism = [(1, 0, -0.6), (-0.5, 0.866, -0.6), (-0.5, -0.866, -0.6), (1, 0, 0.6), (-0.5, 0.866, 0.6), (-0.5, -0.866, 0.6)]
    pf = [(0, 1, 2), (3, 4, 5), (0, 1, 4, 3), (1, 2, 5, 4), (2, 0, 3, 5)]
    out["prism_mixed"] = (prism, pf)
    pyr = [(1, 1, -0.5), (-1, 1, -0.5), (-1, -1, -0.5), (1, -1, -0.5), (0, 0, 1)]
    pyf = [(0, 1, 2, 3), (0, 1, 4), (1, 2, 4), (2, 3, 4), (3, 0, 4)]
    out["pyramid_mixed"] = (pyr, pyf)
    # bipyramids: apex valence n (5..8), ring valence 4
    for n in (5, 6, 7, 8):
        ring = [(np.cos(2 * np.pi * k / n), np.sin(2 * np.pi * k / n), 0.0) for k in range(n)]
        pts = ring + [(0, 0, 1), (0, 0, -1)]
        fs = []
        for k in range(n):
            fs.append((k, (k + 1) % n, n))
            fs.append((k, (k + 1) % n, n + 1))
        out["bipyramid%d_pole_apex" % n] = (pts, fs)
    # hexagonal prism with split cap: hexagon + quads + triangles -> sizes 3,4,6
    n = 6
    top = [(np.cos(2 * np.pi * k / n), np.sin(2 * np.pi * k / n), 0.7) for k in range(n)]
    bot = [(np.cos(2 * np.pi * k / n), np.sin(2 * np.pi * k / n), -0.7) for k in range(n)]
    pts = top + bot + [(0, 0, -1)]
    fs = [tuple(range(6))]
    for k in range(n):
        fs.append((k, (k + 1) % n, 6 + (k + 1) % n, 6 + k))
        fs.append((6 + k, 6 + (k + 1) % n, 12))
    out["hexprism_3_4_6"] = (pts, fs)
    return out


def make_grid(xyz, faces):
    faces = ccw(xyz, faces)
    lon, lat = lonlat(xyz)
    return ux.Grid.from_topology(lon, lat, pad(faces), fill_value=INT_FILL_VALUE)


def report_dual(name, grid, with_data=True):
    print("==", name, "n_node", grid.n_node, "n_face", grid.n_face)
    with warnings.catch_warnings(record=True) as w:
        warnings.simplefilter("always")
        try:
            nfc = grid.node_face_connectivity.values
            raw = dualmod.construct_dual(grid)
            print(" construct_dual", h(raw))
            if raw.size <= 400:
                print(raw.tolist())
            d = grid.get_dual()
            print(" dual n_node", d.n_node, "n_face", d.n_face, "n_max", d.n_max_face_nodes)
            print(" dual fnc", h(d.face_node_connectivity.values))
            print(" dual lon", h(d.node_lon.values), "lat", h(d.node_lat.values))
            print(" same lon as face_lon", np.array_equal(d.node_lon.values, grid.face_lon.values))
            print(" primal nfc after", h(grid.node_face_connectivity.values), np.array_equal(nfc, grid.node_face_connectivity.values))
        except Exception as e:  # noqa
            print(" EXC", type(e).__name__, e)
            with_data = False
        if with_data:
            rng = np.random.default_rng(7)
            for dimname, n in (("n_face", grid.n_face), ("n_node", grid.n_node)):
                vals = rng.normal(size=(2, n))
                uxda = ux.UxDataArray(vals, dims=["t", dimname], uxgrid=grid, name="v_" + dimname)
                try:
                    dd = uxda.get_dual()
                    print(" data", dimname, "->", dd.dims, dd.name, h(dd.values), "unchanged", np.array_equal(dd.values, vals),
                          "shares_mem", np.shares_memory(dd.values, uxda.values))
                    print("   dual grid fnc", h(dd.uxgrid.face_node_connectivity.values))
                except Exception as e:  # noqa
                    print(" data", dimname, "EXC", type(e).__name__, e)
            uxds = ux.UxDataset({"a": (["n_face"], rng.normal(size=grid.n_face)), "b": (["n_node", "lev"], rng.normal(size=(grid.n_node, 2)))}, uxgrid=grid)
            try:
                ds = uxds.get_dual()
                print(" dataset", dict(ds.sizes), ds["a"].dims, h(ds["a"].values), ds["b"].dims, h(ds["b"].values))
            except Exception as e:  # noqa
                print(" dataset EXC", type(e).__name__, e)
    for x in w:
        print(" WARN", x.category.__name__, str(x.message)[:100])


def direct_calls():
    """call the kernels directly with hand-made inputs (also awkward ones)"""
    print("== direct construct_faces / _order_nodes")
    xyz, faces = solids()["pyramid_mixed"]
    g = make_grid(xyz, faces)
    nfc = g.node_face_connectivity.values
    n_edges = np.sum(nfc != INT_FILL_VALUE, axis=1)
    args = (g.face_x.values, g.face_y.values, g.face_z.values)
    nargs = (g.node_x.values, g.node_y.values, g.node_z.values)
    r = dualmod.construct_faces(g.n_node, n_edges, *args, nfc, *nargs)
    print(r.dtype, r.tolist())
    # pretend some nodes have fewer than three faces (partial mesh): rows skipped, padding at the end
    nfc2 = nfc.copy()
    nfc2[1, 2:] = INT_FILL_VALUE
    nfc2[3, 1:] = INT_FILL_VALUE
    n_edges2 = np.sum(nfc2 != INT_FILL_VALUE, axis=1)
    r = dualmod.construct_faces(g.n_node, n_edges2, *args, nfc2, *nargs)
    print(r.dtype, r.shape, r.tolist())
    # nothing to build
    n_edges3 = np.zeros(g.n_node, dtype=n_edges.dtype)
    r = dualmod.construct_faces(g.n_node, n_edges3, *args, np.full_like(nfc, INT_FILL_VALUE), *nargs)
    print(r.dtype, r.shape)
    # int32 connectivity input
    try:
        r = dualmod.construct_faces(g.n_node, n_edges, *args, nfc.astype(np.int64), *nargs)
        print(r.dtype, r.tolist())
    except Exception as e:  # noqa
        print("EXC", type(e).__name__)
    # _order_nodes directly: apex of the pyramid, each start and shuffled input orders
    apex = 4
    central = np.array([nargs[0][apex], nargs[1][apex], nargs[2][apex]])
    ring = nfc[apex][: n_edges[apex]].astype(INT_DTYPE)
    rng = np.random.default_rng(3)
    for trial in range(6):
        tf = ring[rng.permutation(len(ring))].copy()
        n0 = np.array([args[0][tf[0]], args[1][tf[0]], args[2][tf[0]]])
        for max_edges in (len(tf), len(tf) + 2):
            o = dualmod._order_nodes(tf, n0, central, len(tf), *args, max_edges)
            print(tf.tolist(), "->", o.dtype, o.tolist())
    # degenerate: repeated corner (equal angles) and n_edges smaller than the ring
    tf = np.array([ring[0], ring[1], ring[1], ring[2]], dtype=INT_DTYPE)
    n0 = np.array([args[0][tf[0]], args[1][tf[0]], args[2][tf[0]]])
    print(dualmod._order_nodes(tf, n0, central, 4, *args, 5).tolist())
    print(dualmod._order_nodes(tf, n0, central, 3, *args, 4).tolist())
    print(dualmod._order_nodes(tf, n0, central, 1, *args, 4).tolist())
    # corner coincident with the start corner (zero angle) / with the centre (nan angle)
    fx = np.append(args[0], central[0]); fy = np.append(args[1], central[1]); fz = np.append(args[2], central[2])
    tf = np.array([ring[0], len(fx) - 1, ring[1], ring[2]], dtype=INT_DTYPE)
    with np.errstate(all="ignore"), warnings.catch_warnings():
        warnings.simplefilter("ignore")
        try:
            print(dualmod._order_nodes(tf, n0, central, 4, fx, fy, fz, 4).tolist())
        except Exception as e:  # noqa
            print("EXC", type(e).__name__)
    # corner coincident with the start corner only
    tf = np.array([ring[0], ring[0], ring[1], ring[2]], dtype=INT_DTYPE)
    print(dualmod._order_nodes(tf, n0, central, 4, *args, 4).tolist())


def dup_checks():
    print("== duplicate-node guard")
    xyz, faces = solids()["cube"]
    g = make_grid(xyz, faces)
    print(" cube", _check_duplicate_nodes_indices(g), type(_check_duplicate_nodes_indices(g)).__name__, _find_duplicate_nodes(g))
    # duplicated node referenced by a face
    xyz2 = list(xyz) + [xyz[6], xyz[0], xyz[6]]
    faces2 = [list(f) for f in faces]
    faces2[1] = [4, 5, 8, 7]
    g2 = make_grid(xyz2, faces2)
    d = _find_duplicate_nodes(g2)
    print(" dup referenced", _check_duplicate_nodes_indices(g2), [(int(k), type(k).__name__, int(v), type(v).__name__) for k, v in d.items()])
    report_dual("cube_dup_referenced", g2)
    # duplicated node that no face references
    g3 = make_grid(xyz2, faces)
    d = _find_duplicate_nodes(g3)
    r = _check_duplicate_nodes_indices(g3)
    print(" dup unreferenced", r, type(r).__name__, [(int(k), int(v)) for k, v in d.items()])
    # mixed faces with fill + duplicate of the last node
    xyz, faces = solids()["pyramid_mixed"]
    xyz4 = list(xyz) + [xyz[4]]
    faces4 = [list(f) for f in faces]
    faces4[2] = [1, 2, 5]
    g4 = make_grid(xyz4, faces4)
    r = _check_duplicate_nodes_indices(g4)
    print(" pyramid dup", r, type(r).__name__, [(int(k), int(v)) for k, v in _find_duplicate_nodes(g4).items()])
    report_dual("pyramid_dup", g4)


def main():
    print("NOJIT", NOJIT)
    S = solids()
    for name, (xyz, faces) in S.items():
        report_dual(name, make_grid(xyz, faces))
        report_dual(name + "_rot", make_grid(rot(xyz, 11), faces), with_data=False)
        pxyz, pfaces = permute(rot(xyz, 5), [list(f) for f in faces], 23)
        report_dual(name + "_perm", make_grid(pxyz, pfaces))
    # partial grids
    xyz, faces = S["cube"]
    report_dual("cube_3faces_partial", make_grid(xyz, [faces[1], faces[2], faces[3]]))
    report_dual("cube_5faces_partial", make_grid(xyz, faces[:5]))
    xyz, faces = S["ico"]
    report_dual("ico_15faces_partial", make_grid(xyz, faces[:15]))
    report_dual("ico_2faces_partial_nothing", make_grid(xyz, faces[:2]))
    xyz, faces = S["hexprism_3_4_6"]
    report_dual("hexprism_partial", make_grid(xyz, faces[:9]))
    pxyz, pfaces = permute(rot(xyz, 2), [list(f) for f in faces[2:]], 4)
    report_dual("hexprism_partial_perm", make_grid(pxyz, pfaces))
    direct_calls()
    dup_checks()
    # file grids
    g = ux.open_grid(os.path.join(MESH, "mpas", "QU", "mesh.QU.1920km.151026.nc"), use_dual=False)
    report_dual("mpas_QU1920_primal", g)
    g = ux.open_grid(os.path.join(MESH, "mpas", "QU", "mesh.QU.1920km.151026.nc"), use_dual=True)
    report_dual("mpas_QU1920_dualfile", g, with_data=False)
    if not NOJIT:
        g = ux.open_grid(os.path.join(MESH, "mpas", "QU", "mesh.QU.1920km.151026.nc"), use_dual=False)
        report_dual("mpas_QU1920_isel_partial", g.isel(n_face=np.arange(0, 60)))
        report_dual("mpas_QU1920_isel_partial2", g.isel(n_face=np.arange(20, 162, 2)), with_data=False)
        g = ux.open_grid(os.path.join(MESH, "exodus", "mixed", "mixed.exo"))
        report_dual("exo_mixed", g)
        g = ux.open_grid(os.path.join(MESH, "exodus", "outCSne8", "outCSne8.g"))
        report_dual("exo_CSne8", g)
        g = ux.open_grid(os.path.join(MESH, "ugrid", "outCSne30", "outCSne30.ug"))
        report_dual("ugrid_CSne30", g, with_data=False)
        g = ux.open_grid(os.path.join(MESH, "ugrid", "geoflow-small", "grid.nc"))
        report_dual("geoflow_duplicates", g)
        sys.stdout.flush()
        env = dict(os.environ, NUMBA_DISABLE_JIT="1")
        r = subprocess.run([sys.executable, os.path.abspath(__file__)], cwd=os.getcwd(), env=env, capture_output=True, text=True)
        print("---- NUMBA_DISABLE_JIT=1 rc", r.returncode)
        print(r.stdout)
        if r.returncode != 0:
            print(r.stderr[-3000:])


main()
