import sys, os

sys.path.insert(0, os.getcwd())

import hashlib
import itertools
import warnings

import numpy as np
import xarray as xr

import uxarray
import uxarray as ux

assert os.path.abspath(uxarray.__file__).startswith(os.path.abspath(os.getcwd()) + os.sep), uxarray.__file__

from uxarray.io._ugrid import _standardize_connectivity, _read_ugrid
from uxarray.constants import INT_DTYPE, INT_FILL_VALUE

warnings.simplefilter("ignore")


def digest(a):
    a = np.asarray(a)
    h = hashlib.sha256(np.ascontiguousarray(a).tobytes()).hexdigest()[:16]
    return f"{a.dtype}{a.shape}#{h}"


def show(tag, a, full=True):
    a = np.asarray(a)
    if full and a.size <= 60:
        print(tag, a.dtype, a.shape, a.tolist())
    else:
        print(tag, digest(a))


# --------------------------------------------------------------------------------------
# a small mixed mesh: triangle, quad, pentagon, hexagon sharing nodes (zero-based, -1 padded)
# --------------------------------------------------------------------------------------
NODE_LON = np.array([350.0, 10.0, 10.0, 350.0, 0.0, 20.0, 20.0, 30.0, 25.0, 179.0, 181.0, 180.0])
NODE_LAT = np.array([-5.0, -5.0, 5.0, 5.0, 12.0, -5.0, 5.0, 0.0, 10.0, 88.0, 88.0, 90.0])
FACES = [
    [0, 1, 2, 3],
    [3, 2, 4],
    [1, 5, 6, 2],
    [5, 7, 8, 6, 2],
    [9, 10, 11],
    [0, 1, 5, 7, 8, 4],
]
EDGES = [[0, 1], [1, 2], [2, 3], [3, 0], [2, 4], [4, 3], [1, 5], [5, 6], [6, 2]]
EDGE_FACES = [[0, -1], [0, 2], [0, 1], [0, -1], [1, -1], [1, -1], [2, -1], [2, 3], [2, 3]]


def padded(rows, width, fill):
    out = np.full((len(rows), width), fill, dtype=np.float64)
    for i, r in enumerate(rows):
        out[i, : len(r)] = r
    return out


def make_ds(start_index, fill, dtype, declare_fill, names, lon360=True, extra=True, width=6):
    """Builds a UGRID dataset in the requested dialect."""
    base = 0 if start_index is None else start_index
    nd, fd, md, ed, td = names["dims"]
    vn = names["vars"]

    def encode(rows, w):
        zero = padded(rows, w, -1.0)
        is_fill = zero < 0
        vals = zero + base
        if isinstance(fill, float) and np.isnan(fill):
            vals[is_fill] = np.nan
        else:
            vals[is_fill] = fill
        return vals.astype(dtype)

    def attrs(role):
        a = {"cf_role": role}
        if declare_fill:
            a["_FillValue"] = np.array(fill).astype(dtype)[()]
        if start_index is not None:
            a["start_index"] = np.int32(start_index)
        return a

    lon = NODE_LON if lon360 else (NODE_LON + 180) % 360 - 180
    ds = xr.Dataset()
    topo = {
        "cf_role": "mesh_topology",
        "topology_dimension": 2,
        "node_coordinates": f"{vn['lon']} {vn['lat']}",
        "face_node_connectivity": vn["fnc"],
    }
    ds[vn["lon"]] = xr.DataArray(lon.copy(), dims=[nd])
    ds[vn["lat"]] = xr.DataArray(NODE_LAT.copy(), dims=[nd])
    ds[vn["fnc"]] = xr.DataArray(encode(FACES, width), dims=[fd, md], attrs=attrs("face_node_connectivity"))
    if extra:
        topo["edge_node_connectivity"] = vn["enc"]
        ds[vn["enc"]] = xr.DataArray(encode(EDGES, 2), dims=[ed, td], attrs=attrs("edge_node_connectivity"))
        # edge_face_connectivity is found through its cf_role only
        ds[vn["efc"]] = xr.DataArray(encode(EDGE_FACES, 2), dims=[ed, td], attrs=attrs("edge_face_connectivity"))
    ds[vn["topo"]] = xr.DataArray(np.int32(0), attrs=topo)
    return ds


NAMES_A = {
    "dims": ("nMesh2_node", "nMesh2_face", "nMaxMesh2_face_nodes", "nMesh2_edge", "Two"),
    "vars": {"lon": "Mesh2_node_x", "lat": "Mesh2_node_y", "fnc": "Mesh2_face_nodes",
             "enc": "Mesh2_edge_nodes", "efc": "Mesh2_edge_faces", "topo": "Mesh2"},
}
NAMES_B = {
    "dims": ("nodes", "cells", "corners", "sides", "pair"),
    "vars": {"lon": "vlon", "lat": "vlat", "fnc": "cell_to_vertex",
             "enc": "side_to_vertex", "efc": "side_to_cell", "topo": "the_mesh"},
}

print("=== dialect sweep through _read_ugrid / Grid.from_dataset ===")
dialects = []
for start_index in (None, 0, 1, 5):
    for fill, dtype, declare in (
        (-1, np.int32, True),
        (-1, np.int64, True),
        (-999, np.int64, True),
        (999999, np.int32, True),
        (INT_FILL_VALUE, INT_DTYPE, True),
        (INT_FILL_VALUE, INT_DTYPE, False),
        (np.nan, np.float64, True),
        (np.nan, np.float64, False),
        (np.nan, np.float32, False),
        (-1.0, np.float64, True),
        (1e9, np.float32, True),
    ):
        dialects.append((start_index, fill, dtype, declare))

for k, (start_index, fill, dtype, declare) in enumerate(dialects):
    names = NAMES_A if k % 2 == 0 else NAMES_B
    src = make_ds(start_index, fill, dtype, declare, names, lon360=(k % 3 != 0))
    before = {v: src[v].values.copy() for v in src.data_vars}
    before_attrs = {v: dict(src[v].attrs) for v in src.data_vars}
    tag = f"[{k}] si={start_index} fill={fill} dt={np.dtype(dtype).name} decl={declare}"
    try:
        grid = ux.Grid.from_dataset(src)
    except Exception as e:  # noqa
        print(tag, "EXC", type(e).__name__, e)
        continue
    print(tag, "n_face", grid.n_face, "n_node", grid.n_node, "n_max", grid.n_max_face_nodes)
    for name in ("face_node_connectivity", "edge_node_connectivity", "edge_face_connectivity"):
        da = grid._ds[name]
        show("   " + name, da.values, full=(k < 12))
        print("      attrs", sorted((a, repr(v)) for a, v in da.attrs.items() if a in ("_FillValue", "start_index", "cf_role")))
    show("   node_lon", grid.node_lon.values)
    show("   node_lat", grid.node_lat.values)
    # the source dataset must be left alone
    same = all(
        np.array_equal(before[v], src[v].values, equal_nan=True) and before[v].dtype == src[v].dtype
        for v in before
    )
    print("   source data untouched:", same, " source attrs untouched:",
          all(repr(before_attrs[v]) == repr(dict(src[v].attrs)) for v in before))

print("=== faces without padding (all triangles / width equals widest face) ===")
for start_index in (None, 0, 1):
    for dtype, fill, declare in ((np.int32, -1, True), (np.int64, -1, False), (np.float64, np.nan, False), (INT_DTYPE, INT_FILL_VALUE, False)):
        ds = xr.Dataset()
        base = 0 if start_index is None else start_index
        tri = (np.array([[0, 1, 2], [0, 2, 3], [3, 2, 4]]) + base).astype(dtype)
        a = {"cf_role": "face_node_connectivity"}
        if declare:
            a["_FillValue"] = dtype(fill)
        if start_index is not None:
            a["start_index"] = start_index
        ds["lon"] = xr.DataArray(NODE_LON[:5].copy(), dims=["n"])
        ds["lat"] = xr.DataArray(NODE_LAT[:5].copy(), dims=["n"])
        ds["conn"] = xr.DataArray(tri, dims=["f", "m"], attrs=a)
        ds["mesh"] = xr.DataArray(0, attrs={"cf_role": "mesh_topology", "topology_dimension": 2,
                                            "node_coordinates": "lon lat", "face_node_connectivity": "conn"})
        g = ux.open_grid(ds)
        show(f"si={start_index} {np.dtype(dtype).name} decl={declare}", g.face_node_connectivity.values)

print("=== _standardize_connectivity called directly: awkward inputs ===")


def direct(tag, data, attrs, dims=("a", "b")):
    ds = xr.Dataset({"c": xr.DataArray(data, dims=dims[: np.ndim(data)], attrs=dict(attrs))})
    orig = np.array(data, copy=True)
    try:
        out = _standardize_connectivity(ds, "c")
    except Exception as e:  # noqa
        print(tag, "EXC", type(e).__name__, str(e)[:120])
        return
    v = out["c"].values
    print(tag, v.dtype, v.shape, v.tolist(), "| same ds:", out is ds,
          "| attrs", [(k, repr(x)) for k, x in out["c"].attrs.items()],
          "| input array untouched:", np.array_equal(orig, np.asarray(data), equal_nan=True),
          "| shares memory with input:", np.shares_memory(v, np.asarray(data)))


F = INT_FILL_VALUE
direct("all fill, standard", np.full((2, 3), F, dtype=INT_DTYPE), {"_FillValue": F})
direct("all fill, standard, si=1", np.full((2, 3), F, dtype=INT_DTYPE), {"_FillValue": F, "start_index": 1})
direct("all fill, -1 int32", np.full((2, 3), -1, dtype=np.int32), {"_FillValue": np.int32(-1)})
direct("all NaN", np.full((2, 3), np.nan), {})
direct("empty (0,3) int64", np.empty((0, 3), dtype=np.int64), {})
direct("empty (0,3) float", np.empty((0, 3), dtype=np.float64), {"_FillValue": np.nan})
direct("standard dtype+fill, no start", np.array([[3, 4, 5], [5, 4, F]], dtype=INT_DTYPE), {"_FillValue": F})
direct("standard dtype+fill, start 1", np.array([[3, 4, 5], [5, 4, F]], dtype=INT_DTYPE), {"_FillValue": F, "start_index": 1})
direct("standard dtype, undeclared fill", np.array([[3, 4, 5], [5, 4, F]], dtype=INT_DTYPE), {})
direct("fill value declared as 0, one based", np.array([[1, 2, 3], [3, 2, 0]], dtype=np.int32), {"_FillValue": np.int32(0), "start_index": 1})
direct("fill value declared as 0, no start", np.array([[1, 2, 3], [3, 2, 0]], dtype=np.int32), {"_FillValue": np.int32(0)})
direct("min used index 2, no start", np.array([[2, 3, 4], [4, 3, -1]], dtype=np.int64), {"_FillValue": -1})
direct("negative start index", np.array([[-2, -1, 0], [0, -1, -9]], dtype=np.int64), {"_FillValue": -9, "start_index": -2})
direct("start index float 1.0", np.array([[1, 2, 3]], dtype=np.int64), {"start_index": 1.0})
direct("start index np array", np.array([[1, 2, 3]], dtype=np.int64), {"start_index": np.array(1)})
direct("start index one-element array", np.array([[1, 2, 3]], dtype=np.int64), {"start_index": np.array([1])})
direct("start index string", np.array([[1, 2, 3]], dtype=np.int64), {"start_index": "one"})
direct("start index string digit", np.array([[1, 2, 3]], dtype=np.int64), {"start_index": "1"})
direct("fill declared NaN on float32", np.array([[1, 2, np.nan]], dtype=np.float32), {"_FillValue": np.float32(np.nan), "start_index": 1})
direct("fill declared as one-element array", np.array([[1, 2, -1]], dtype=np.int32), {"_FillValue": np.array([-1], dtype=np.int32)})
direct("fill declared as two-element array", np.array([[1, 2, -1]], dtype=INT_DTYPE), {"_FillValue": np.array([-1, -2])})
direct("NaN present but other fill declared", np.array([[1, 2, np.nan, -1.0]]), {"_FillValue": -1.0})
direct("uint8 with fill 255", np.array([[1, 2, 255]], dtype=np.uint8), {"_FillValue": np.uint8(255)})
direct("uint64", np.array([[1, 2, 3]], dtype=np.uint64), {})
direct("bool", np.array([[True, False]]), {})
direct("object dtype", np.array([[1, 2, None]], dtype=object), {})
direct("string dtype", np.array([["a", "b"]]), {})
direct("1-d connectivity", np.array([4, 5, 6, -1], dtype=np.int32), {"_FillValue": np.int32(-1)})
direct("0-d connectivity", np.array(7, dtype=np.int32), {})
direct("large float values", np.array([[1e3, 2e3, np.nan]]), {})
direct("non contiguous input", np.arange(24, dtype=np.int32).reshape(4, 6)[::2, ::2], {"_FillValue": np.int32(4)})

print("=== dask backed and read-only sources ===")
ro = np.array([[1, 2, 3], [3, 2, -1]], dtype=np.int32)
ro.setflags(write=False)
direct("read-only source", ro, {"_FillValue": np.int32(-1), "start_index": 1})
try:
    import dask.array as dsa

    d = dsa.from_array(np.array([[1.0, 2.0, 3.0], [3.0, 2.0, np.nan]]), chunks=(1, 3))
    ds = xr.Dataset({"c": xr.DataArray(d, dims=("a", "b"))})
    out = _standardize_connectivity(ds, "c")
    print("dask", type(out["c"].data).__name__, out["c"].values.tolist(), dict(out["c"].attrs))
except Exception as e:  # noqa
    print("dask EXC", type(e).__name__, e)

print("=== sample files ===")
root = os.path.join(os.getcwd(), "test", "meshfiles", "ugrid")
for rel in (
    "outCSne30/outCSne30.ug",
    "outRLL1deg/outRLL1deg.ug",
    "ov_RLL10deg_CSne4/ov_RLL10deg_CSne4.ug",
    "quad-hexagon/grid.nc",
    "quad-hexagon/triangulated-grid.nc",
    "geoflow-small/grid.nc",
    "fesom/fesom.mesh.diag.nc",
):
    path = os.path.join(root, rel)
    try:
        raw = xr.open_dataset(path)
        out, dims = _read_ugrid(raw)
        print(rel, sorted((str(k), str(v)) for k, v in dims.items()))
        for name in sorted(out.data_vars):
            if "connectivity" in name:
                print("   ", name, digest(out[name].values),
                      [(k, repr(v)) for k, v in sorted(out[name].attrs.items()) if k in ("_FillValue", "start_index")])
        g = ux.open_grid(path)
        print("   grid", g.n_face, g.n_node, digest(g.face_node_connectivity.values), digest(g.node_lon.values), digest(g.node_lat.values))
    except Exception as e:  # noqa
        print(rel, "EXC", type(e).__name__, str(e)[:100])
