import sys, os
sys.path.insert(0, os.getcwd())
import hashlib
import warnings
warnings.filterwarnings("ignore")
import numpy as np
import uxarray as ux
assert os.path.abspath(ux.__file__).startswith(os.path.abspath(os.getcwd()) + os.sep), ux.__file__

from uxarray.constants import INT_FILL_VALUE, INT_DTYPE
from uxarray.grid import connectivity as C
from uxarray.grid.geometry import _construct_hole_edge_indices

F = INT_FILL_VALUE
np.set_printoptions(threshold=10**6, linewidth=200)


def digest(name, arr, full=False):
    a = np.asarray(arr)
    h = hashlib.sha256(np.ascontiguousarray(a).tobytes()).hexdigest()[:24]
    print(f"  {name}: type={type(arr).__name__} dtype={a.dtype} shape={a.shape} sha={h}")
    if full:
        print("   ", repr(np.where(a == F, -1, a).tolist()))


def show_grid(label, grid, full=False):
    print(f"== {label}")
    for var in ("node_face_connectivity", "edge_face_connectivity", "face_face_connectivity"):
        da = getattr(grid, var)
        digest(var, da.values, full)
        print(f"    dims={da.dims} attrs={sorted((k, str(v)) for k, v in da.attrs.items())}")
        # cached object identity: second access must give the same stored variable
        print(f"    cached_same={getattr(grid, var) is not None and var in grid._ds}")
    hei = grid.hole_edge_indices
    digest("hole_edge_indices", hei.values if hasattr(hei, "values") else hei, full)
    print(f"    hole type={type(hei).__name__} dims={getattr(hei, 'dims', None)}")
    print(f"  n_max_node_faces={grid.n_max_node_faces!r} n_max_face_faces={grid.n_max_face_faces!r} "
          f"n_max_face_edges={grid.n_max_face_edges!r}")


def lattice_mesh(nx, ny, rng, p_split=0.3, p_drop=0.2, shuffle=True, extra_nodes=0):
    """Planar lat/lon lattice; some quads split into triangles, some faces dropped,
    nodes / faces renumbered, each face's start corner rotated."""
    lon = np.linspace(-40, 40, nx + 1)
    lat = np.linspace(-30, 30, ny + 1)
    nid = lambda i, j: j * (nx + 1) + i
    faces = []
    for j in range(ny):
        for i in range(nx):
            q = [nid(i, j), nid(i + 1, j), nid(i + 1, j + 1), nid(i, j + 1)]
            if rng.random() < p_drop:
                continue
            if rng.random() < p_split:
                faces.append([q[0], q[1], q[2]])
                faces.append([q[0], q[2], q[3]])
            else:
                faces.append(q)
    if not faces:
        faces.append([nid(0, 0), nid(1, 0), nid(1, 1), nid(0, 1)])
    n_node = (nx + 1) * (ny + 1) + extra_nodes
    LON, LAT = np.meshgrid(lon, lat)
    node_lon = np.concatenate([LON.ravel(), 60 + np.arange(extra_nodes, dtype=float)])
    node_lat = np.concatenate([LAT.ravel(), np.zeros(extra_nodes)])
    if shuffle:
        perm = rng.permutation(n_node)  # old -> new
        inv = np.empty(n_node, dtype=int)
        inv[perm] = np.arange(n_node)
        node_lon = node_lon[inv]
        node_lat = node_lat[inv]
        faces = [[int(perm[n]) for n in f] for f in faces]
        order = rng.permutation(len(faces))
        faces = [faces[k] for k in order]
        faces = [f[r:] + f[:r] for f, r in zip(faces, rng.integers(0, 3, len(faces)))]
    width = max(len(f) for f in faces)
    fnc = np.full((len(faces), width), F, dtype=INT_DTYPE)
    for k, f in enumerate(faces):
        fnc[k, : len(f)] = f
    return node_lon, node_lat, fnc


def fan_mesh(valence):
    """`valence` triangles around one hub node (high-valence node), closed fan."""
    ang = np.linspace(0, 360, valence, endpoint=False)
    node_lon = np.concatenate([[0.0], 10 * np.cos(np.deg2rad(ang))])
    node_lat = np.concatenate([[0.0], 10 * np.sin(np.deg2rad(ang))])
    fnc = np.array([[0, 1 + k, 1 + (k + 1) % valence] for k in range(valence)], dtype=INT_DTYPE)
    return node_lon, node_lat, fnc


def hand_meshes():
    out = {}
    # hexagon + quad + triangle sharing edges, plus an isolated triangle far away
    node_lon = np.array([0, 2, 3, 2, 0, -1, 5, 5, 3.5, 20, 22, 21], dtype=float)
    node_lat = np.array([0, 0, 1.5, 3, 3, 1.5, 0, 3, 4.5, 10, 10, 12], dtype=float)
    fnc = np.array([
        [0, 1, 2, 3, 4, 5],
        [1, 6, 7, 2, F, F],
        [2, 7, 8, F, F, F],
        [9, 10, 11, F, F, F],
    ], dtype=INT_DTYPE)
    out["hex+quad+tri+isolated"] = (node_lon, node_lat, fnc)
    # single face (no neighbour at all)
    out["single triangle"] = (np.array([0., 1., 0.]), np.array([0., 0., 1.]),
                              np.array([[0, 1, 2]], dtype=INT_DTYPE))
    # two faces touching only at a corner (no shared edge)
    out["corner-touching quads"] = (
        np.array([0., 1., 1., 0., 2., 2., 1.]), np.array([0., 0., 1., 1., 1., 2., 2.]),
        np.array([[0, 1, 2, 3], [2, 4, 5, 6]], dtype=INT_DTYPE))
    # two triangles sharing one edge, in a width-5 padded table
    out["two tris wide padding"] = (
        np.array([0., 1., 0., 1.]), np.array([0., 0., 1., 1.]),
        np.array([[0, 1, 2, F, F], [1, 3, 2, F, F]], dtype=INT_DTYPE))
    return out


print("FILL", F, "DTYPE", np.dtype(INT_DTYPE))

for name, (lon, lat, fnc) in hand_meshes().items():
    g = ux.Grid.from_topology(lon, lat, fnc, fill_value=F)
    show_grid("hand: " + name, g, full=True)

for v in (3, 5, 8, 13):
    lon, lat, fnc = fan_mesh(v)
    show_grid(f"fan valence {v}", ux.Grid.from_topology(lon, lat, fnc, fill_value=F), full=(v <= 5))

rng = np.random.default_rng(20240303)
for k, (nx, ny, ps, pd, extra) in enumerate([
    (2, 2, 0.5, 0.0, 0), (3, 2, 0.5, 0.4, 0), (4, 4, 0.0, 0.0, 0), (4, 4, 1.0, 0.3, 2),
    (6, 5, 0.3, 0.6, 3), (12, 9, 0.4, 0.15, 0), (30, 20, 0.35, 0.1, 5), (5, 1, 0.2, 0.5, 0),
]):
    lon, lat, fnc = lattice_mesh(nx, ny, rng, ps, pd, True, extra)
    g = ux.Grid.from_topology(lon, lat, fnc, fill_value=F)
    show_grid(f"lattice {k} nx={nx} ny={ny} n_face={fnc.shape[0]}", g, full=(fnc.shape[0] <= 12))

files = [
    ("mpas QU primal", "test/meshfiles/mpas/QU/mesh.QU.1920km.151026.nc", {}),
    ("mpas QU dual", "test/meshfiles/mpas/QU/mesh.QU.1920km.151026.nc", {"use_dual": True}),
    ("exodus mixed", "test/meshfiles/exodus/mixed/mixed.exo", {}),
    ("exodus CSne8", "test/meshfiles/exodus/outCSne8/outCSne8.g", {}),
    ("scrip CSne8", "test/meshfiles/scrip/outCSne8/outCSne8.nc", {}),
    ("ugrid quad-hexagon", "test/meshfiles/ugrid/quad-hexagon/grid.nc", {}),
    ("ugrid geoflow-small", "test/meshfiles/ugrid/geoflow-small/grid.nc", {}),
    ("ugrid CSne30", "test/meshfiles/ugrid/outCSne30/outCSne30.ug", {}),
    ("ugrid ov_RLL10deg_CSne4 (mixed sizes)", "test/meshfiles/ugrid/ov_RLL10deg_CSne4/ov_RLL10deg_CSne4.ug", {}),
]
for label, path, kw in files:
    if not os.path.getsize(path):
        print("== file skipped (empty placeholder):", label)
        continue
    g = ux.open_grid(path, **kw)
    print("  source-supplied tables:", sorted(v for v in g._ds.variables if "connectivity" in v or "hole" in v))
    show_grid("file: " + label, g, full=(g.n_face <= 6))
    # forget any source-supplied tables and rebuild them with the library's own builders
    g2 = ux.open_grid(path, **kw)
    for var in ("face_face_connectivity", "node_face_connectivity", "edge_face_connectivity",
                "hole_edge_indices"):
        if var in g2._ds:
            g2._ds = g2._ds.drop_vars(var)
    show_grid("file rebuilt: " + label, g2, full=(g2.n_face <= 6))

print("== direct helper calls")
raw = hand_meshes()["hex+quad+tri+isolated"][2]
for n_node in (12, 15):
    nf, nmax = C._build_node_faces_connectivity(raw, n_node)
    digest(f"_build_node_faces_connectivity n_node={n_node}", nf, True)
    print("   n_max", repr(nmax), type(nmax).__name__)
# all-padding row and narrower integer input
for arr in (np.array([[0, 1, 2, F], [F, F, F, F], [2, 1, 3, 0]], dtype=INT_DTYPE),
            np.array([[0, 1, 2], [2, 1, 3]], dtype=np.int32)):
    nf, nmax = C._build_node_faces_connectivity(arr, 4)
    digest("node_faces variant", nf, True)
    print("   n_max", repr(nmax), type(nmax).__name__)
for bad_args in ((np.empty((0, 3), dtype=INT_DTYPE), 0), (np.array([[0, 1, 7]], dtype=INT_DTYPE), 3),
                 (np.empty((0, 3), dtype=INT_DTYPE), 4)):
    try:
        nf, nmax = C._build_node_faces_connectivity(*bad_args)
        digest("node_faces degenerate", nf, True)
        print("   n_max", repr(nmax))
    except Exception as e:
        print("  node_faces degenerate raised", type(e).__name__, str(e)[:80])

face_edges = np.array([[0, 1, 2, 3, 4, 5], [6, 7, 8, 1, F, F], [8, 9, 10, F, F, F], [11, 12, 13, F, F, F]],
                      dtype=INT_DTYPE)
npf = np.array([6, 4, 3, 3], dtype=INT_DTYPE)
ef = C._build_edge_face_connectivity(face_edges, npf, 14)
digest("_build_edge_face_connectivity", ef, True)
ef32 = C._build_edge_face_connectivity(np.where(face_edges == F, -1, face_edges).astype(np.int32),
                                       npf.astype(np.int32), 14)
digest("_build_edge_face_connectivity int32 input", ef32, True)
ef0 = C._build_edge_face_connectivity(face_edges[:0], npf[:0], 3)
digest("_build_edge_face_connectivity no faces", ef0, True)
for e in (ef, ef0, np.array([[0, 1], [1, 0]], dtype=INT_DTYPE), np.empty((0, 2), dtype=INT_DTYPE)):
    h = _construct_hole_edge_indices(e)
    digest("_construct_hole_edge_indices", h, True)


class FakeGrid:
    def __init__(self, edge_face, n_face, width):
        import xarray as xr
        self.edge_face_connectivity = xr.DataArray(edge_face, dims=["n_edge", "two"])
        self.n_face = n_face
        self.n_max_face_edges = width


for efc, n_face, width in (
    (ef, 4, 6),
    (np.array([[0, 1], [1, 2], [2, 0], [0, F], [F, 1], [3, F]], dtype=INT_DTYPE), 4, 3),
    (np.array([[0, F], [0, F], [0, F]], dtype=INT_DTYPE), 1, 3),
    (np.array([[1, 0], [0, 1], [1, F], [0, F]], dtype=INT_DTYPE), 2, 4),  # two faces sharing two edges
    (np.array([[0, 1], [1, 0]], dtype=np.int32), 2, 3),
):
    ff = C._build_face_face_connectivity(FakeGrid(efc, n_face, width))
    digest("_build_face_face_connectivity", ff, True)
try:
    ff = C._build_face_face_connectivity(FakeGrid(np.array([[0, 1], [0, 1], [0, 1]], dtype=INT_DTYPE), 2, 2))
    digest("ff overfull", ff, True)
except Exception as e:
    print("  ff overfull raised", type(e).__name__)
print("done")
