"""Equivalence digest for refactoring C07/c (Grid.to_xarray / Grid.encode_as dispatch).

Run with cwd = worktree root:  /venv/bin/python /tmp/refout/C07/c/equiv.py
"""
import sys, os; sys.path.insert(0, os.getcwd())
import warnings; warnings.filterwarnings("ignore")  # (call() records warnings explicitly)
import hashlib, tempfile
import numpy as np
import xarray as xr
import uxarray as ux
assert os.path.abspath(ux.__file__).startswith(os.getcwd() + os.sep), ux.__file__
from uxarray.constants import INT_FILL_VALUE as F


def digest_ds(ds):
    print("    dims", dict(ds.sizes), "attrs", sorted(k for k in ds.attrs), "coords", list(ds.coords))
    for name in ds.variables:
        v = ds[name]
        vals = np.asarray(v.values)
        if name == "qa_records":
            vals = vals[:2]  # rows 2,3 hold the wall clock
        if vals.dtype.kind in "US" or vals.size <= 30:
            body = repr(vals.tolist())
        else:
            body = hashlib.sha1(np.ascontiguousarray(vals).tobytes()).hexdigest()
        attrs = {k: (val if isinstance(val, (str, int, float)) else type(val).__name__) for k, val in v.attrs.items()}
        print(f"    {name} dims={v.dims} dtype={vals.dtype} shape={vals.shape} attrs={attrs} :: {body}")


def call(grid, method, *args):
    """call grid.<method>(*args); digest result or exception, warnings and the grid's state afterwards"""
    label = f"{method}({', '.join(repr(a) for a in args)})"
    before = list(grid._ds.variables)
    with warnings.catch_warnings(record=True) as w:
        warnings.simplefilter("always")
        try:
            out = getattr(grid, method)(*args)
            err = None
        except Exception as e:
            out, err = None, e
    print(f"  -- {label}")
    print("    warnings:", [(x.category.__name__, str(x.message)) for x in w if "uxarray" in str(x.message) or "Grid." in str(x.message)])
    print("    grid._ds variables before:", before)
    print("    grid._ds variables after :", list(grid._ds.variables))
    if err is not None:
        print(f"    RAISED {type(err).__name__}: args={err.args!r}")
        return None
    print("    type:", type(out).__name__, "is grid._ds:", out is grid._ds)
    digest_ds(out)
    return out


def faces_list(grid):
    conn = grid.face_node_connectivity.values
    lon = np.round(grid.node_lon.values, 9) % 360
    lat = np.round(grid.node_lat.values, 9)
    out = []
    for row in conn:
        pts = [(float(lon[i]), float(lat[i])) for i in row if i != F]
        k = pts.index(min(pts))
        out.append(tuple(pts[k:] + pts[:k]))
    return out


lon = np.array([0., 10, 10, 0, 20, 20, 5, 15, 25, 30, 30, 25])
lat = np.array([0., 0, 10, 10, 0, 10, 20, 20, 15, 10, 0, -5])
conns = {
    "quads": np.array([[0, 1, 2, 3], [1, 4, 5, 2], [3, 2, 7, 6]]),
    "mixed_3_4": np.array([[0, 1, 2, 3], [1, 4, 5, F], [3, 2, 6, F], [1, 4, 5, 2]]),
    "mixed_3_4_6": np.array([[4, 10, 9, 8, 5, F], [0, 1, 2, 3, F, F], [4, 11, 10, 9, 8, 5], [3, 2, 6, F, F, F]]),
}


def lonlat_grid(name):
    return ux.Grid.from_topology(node_lon=lon, node_lat=lat, face_node_connectivity=conns[name], fill_value=F)


def xyz_grid(name):
    """xyz-bearing source: the grid read back from an Exodus dataset (carries node_x/y/z)"""
    with warnings.catch_warnings():
        warnings.simplefilter("ignore")
        return ux.Grid.from_dataset(lonlat_grid(name).to_xarray("exodus"))


tmp = tempfile.mkdtemp()
valid = [("to_xarray", "ugrid"), ("to_xarray", "exodus"), ("to_xarray", "scrip"),
         ("encode_as", "UGRID"), ("encode_as", "Exodus"), ("encode_as", "SCRIP")]
for maker in (lonlat_grid, xyz_grid):
    for name in conns:
        for method, fmt in valid:
            print(f"== {maker.__name__}({name}) fresh")
            try:
                g = maker(name)
            except Exception as e:
                print("  construction RAISED", type(e).__name__, e); continue
            ds = call(g, method, fmt)
            if ds is not None:
                try:
                    r = ux.Grid.from_dataset(ds)
                    a, b = faces_list(r), faces_list(g)
                    print("    reopen: same order", a == b, "same multiset", sorted(a) == sorted(b))
                    path = os.path.join(tmp, "x.nc"); ds.to_netcdf(path)
                    r = ux.open_grid(path)
                    a = faces_list(r)
                    print("    reopen via file: same order", a == b, "same multiset", sorted(a) == sorted(b))
                    os.remove(path)
                except Exception as e:
                    print("    reopen RAISED", type(e).__name__, e)
        # one grid, every format in a row, after derived quantities were materialised
        print(f"== {maker.__name__}({name}) with history")
        try:
            g = maker(name)
            _ = g.edge_node_connectivity, g.face_edge_connectivity, g.face_lon, g.edge_lon, g.n_nodes_per_face
            _ = g.face_face_connectivity
        except Exception as e:
            print("  derived RAISED", type(e).__name__, e)
        for method, fmt in valid + valid[::-1]:
            call(g, method, fmt)

# default argument and invalid arguments
print("== argument handling")
g = lonlat_grid("quads")
call(g, "to_xarray")
for bad in ["UGRID", "Exodus", "SCRIP", "Ugrid", "", None, 5, 1.5, ("ugrid",), ["ugrid"], {"ugrid": 1}, b"ugrid",
            np.str_("ugrid"), np.str_("scrip"), "ugrid ", "esmf"]:
    call(g, "to_xarray", bad)
for bad in ["ugrid", "exodus", "scrip", "Ugrid", "EXODUS", "", None, 5, ("UGRID",), ["UGRID"], {"UGRID": 1},
            np.str_("UGRID"), np.str_("Exodus"), "esmf"]:
    call(g, "encode_as", bad)
try:
    g.to_xarray("ugrid", "extra")
except TypeError as e:
    print("extra arg TypeError")
with warnings.catch_warnings():
    warnings.simplefilter("ignore")
    print("keyword:", list(g.to_xarray(grid_format="scrip").variables), list(g.encode_as(grid_type="Exodus").variables)[:3])

# real meshes, several grids encoded one after the other in the same process (large first, small last)
meshes = ["test/meshfiles/mpas/QU/mesh.QU.1920km.151026.nc", "test/meshfiles/exodus/outCSne8/outCSne8.g",
          "test/meshfiles/scrip/outCSne8/outCSne8.nc", "test/meshfiles/ugrid/geoflow-small/grid.nc",
          "test/meshfiles/exodus/mixed/mixed.exo", "test/meshfiles/ugrid/quad-hexagon/grid.nc"]
for m in meshes:
    if not os.path.exists(m):
        print("missing mesh", m); continue
    print("==", m)
    g = ux.open_grid(m)
    for method, fmt in valid:
        call(g, method, fmt)
print("== small grid after all others")
g = lonlat_grid("mixed_3_4")
for method, fmt in valid:
    call(g, method, fmt)
