import sys, os; sys.path.insert(0, os.getcwd())
import hashlib, warnings
import numpy as np
warnings.filterwarnings("ignore")
import uxarray as ux
from uxarray.grid.neighbors import KDTree, BallTree
from uxarray.utils.numba_settings import enable_jit, disable_jit
assert os.path.abspath(ux.__file__).startswith(os.path.abspath(os.getcwd()) + os.sep), ux.__file__

GRIDS = {
    "mixed": "test/meshfiles/exodus/mixed/mixed.exo",
    "ne30": "test/meshfiles/ugrid/outCSne30/outCSne30.ug",
    "mpas": "test/meshfiles/mpas/QU/mesh.QU.1920km.151026.nc",
    "quadhex": "test/meshfiles/ugrid/quad-hexagon/grid.nc",
    "geoflow": "test/meshfiles/ugrid/geoflow-small/grid.nc",
}

def dig(x):
    if isinstance(x, tuple):
        return "(" + ", ".join(dig(i) for i in x) + ")"
    if isinstance(x, list):
        return "[" + ", ".join(dig(i) for i in x) + "]"
    a = np.asarray(x)
    return f"{a.dtype}{a.shape}:{hashlib.sha1(np.ascontiguousarray(a).tobytes()).hexdigest()[:12]}"

def state(t):
    return (f"{type(t).__name__}(coords={t._coordinates!r}/{t.coordinates!r}, cs={t.coordinate_system!r}, "
            f"metric={t.distance_metric!r}, rec={t.reconstruct!r}, n={getattr(t, '_n_elements', 'unset')}, "
            f"built=[{t._tree_from_nodes is not None},{t._tree_from_face_centers is not None},"
            f"{t._tree_from_edge_centers is not None}])")

def attempt(label, fn):
    try:
        r = fn()
        print(label, "->", r)
    except Exception as e:
        print(label, "-> EXC", type(e).__name__, str(e)[:160])

def queries(t):
    if t.coordinate_system == "cartesian":
        pt, pts, r = [0.0, 0.0, 1.0], [[0.0, 0.0, 1.0], [1.0, 0.0, 0.0]], 0.5
    else:
        pt, pts, r = [10.0, -35.0], [[10.0, -35.0], [179.0, 80.0]], 30.0
    k = min(3, t._n_elements)
    return " ".join([
        dig(t.query(pt, k=k)),
        dig(t.query(pts, k=1, return_distance=False)),
        dig(t.query_radius(pt, r=r)),
        dig(t.query_radius(pts, r=r, return_distance=True, sort_results=True)),
        str(t.query_radius(pt, r=r, count_only=True)),
    ])

SETS = ["nodes", "face centers", "face centers", "edge centers", "nodes", "bogus", "edge centers",
        None, "Nodes", "face centers", np.str_("nodes"), "", "nodes"]

def run_tree(label, cls, g, kw):
    print("---", label, cls.__name__, kw)
    try:
        t = cls(g, **kw)
    except Exception as e:
        print("   ctor EXC", type(e).__name__, str(e)[:160])
        return
    print("   ctor", state(t))
    attempt("   q", lambda: queries(t))
    ids = {a: id(getattr(t, a)) for a in ("_tree_from_nodes", "_tree_from_face_centers", "_tree_from_edge_centers")}
    for v in SETS:
        before = {a: getattr(t, a) for a in ids}
        try:
            t.coordinates = v
            print(f"   set {v!r} ok", state(t))
        except Exception as e:
            print(f"   set {v!r} EXC", type(e).__name__, str(e)[:160], "|", state(t))
        # which internal trees were (re)built by this assignment?
        print("      rebuilt:", [a for a in before if getattr(t, a) is not before[a]])
        attempt("      current", lambda: type(t._current_tree()).__name__ + " is " + str(
            [a for a in before if getattr(t, a) is t._current_tree() and getattr(t, a) is not None]))
        attempt("      q", lambda: queries(t))
    # direct manipulation of the private field (what Grid.get_*_tree compares against)
    t._coordinates = "somewhere"
    attempt("   current after private set", lambda: t._current_tree())
    attempt("   q after private set", lambda: queries(t))

for jit in (True, False):
    (enable_jit if jit else disable_jit)()
    print("=== JIT", jit)
    for name, path in GRIDS.items():
        g = ux.open_grid(path)
        for cls, variants in (
            (KDTree, [{}, {"coordinates": "face centers"}, {"coordinates": "edge centers", "reconstruct": True},
                      {"coordinate_system": "spherical"}, {"coordinates": "bogus"},
                      {"coordinate_system": "bogus"}, {"distance_metric": "chebyshev", "coordinates": "face centers"}]),
            (BallTree, [{}, {"coordinates": "face centers", "reconstruct": True}, {"coordinates": "edge centers"},
                        {"coordinate_system": "cartesian", "distance_metric": "euclidean"}, {"coordinates": "bogus"},
                        {"coordinates": None}]),
        ):
            for kw in variants:
                run_tree(name, cls, g, kw)
        # through the Grid cache
        for kind in ("ball", "kd"):
            fn = g.get_ball_tree if kind == "ball" else g.get_kd_tree
            first = None
            for c in ["nodes", "face centers", "edge centers", "bogus", "nodes", "face centers"]:
                try:
                    t = fn(coordinates=c)
                    first = first or t
                    print(f"   grid.get_{kind}_tree({c!r})", state(t), "same:", t is first)
                    attempt("      q", lambda: queries(t))
                except Exception as e:
                    print(f"   grid.get_{kind}_tree({c!r}) EXC", type(e).__name__, str(e)[:160])
                    cached = g._ball_tree if kind == "ball" else g._kd_tree
                    print("      cached now", state(cached))
                    attempt("      q cached", lambda: queries(cached))
        print(name, "ds vars:", sorted(g._ds.variables))
        print(name, "lon digests", dig(g.node_lon.values), dig(g.face_lon.values), dig(g.edge_lon.values))
enable_jit()
if os.path.exists("grid_geoflow.exo"):
    os.remove("grid_geoflow.exo")
