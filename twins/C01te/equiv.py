import sys, os; sys.path.insert(0, os.getcwd())
import hashlib, warnings
import numpy as np
import xarray as xr
warnings.filterwarnings("ignore")
import uxarray
assert os.path.abspath(uxarray.__file__).startswith(os.path.abspath(os.getcwd()) + os.sep), uxarray.__file__
import uxarray as ux
from uxarray.io._esmf import _read_esmf


def digest_ds(tag, ds):
    print("==", tag, "attrs", sorted((k, repr(v)) for k, v in ds.attrs.items()))
    print("   dims", sorted(ds.sizes.items()), "coords", list(ds.coords))
    for name in list(ds.variables):
        v = ds[name]
        a = np.ascontiguousarray(v.values)
        h = hashlib.sha1(a.tobytes()).hexdigest()[:16]
        print("  ", name, v.dims, a.dtype, a.shape, a.flags["C_CONTIGUOUS"], a.flags["WRITEABLE"], h,
              sorted((k, repr(x)) for k, x in v.attrs.items()))
        if a.size <= 60:
            print("      ", repr(a.tolist()))


# mixed 3..8-gons; node numbers here are ZERO based, shifted below by the dialect's start index
FACES = [
    [0, 1, 2],
    [1, 3, 4, 2],
    [2, 4, 5, 6, 7],
    [3, 8, 5, 4, 1, 0],
    [9, 10, 11, 12, 13, 14, 15],
    [0, 1, 2, 3, 4, 5, 6, 7],
    [15, 14, 13],
]
N_NODE = 16


def esmf(start_index, conn_dtype, num_dtype, pad, centers=True, lon360=True, units="degrees",
         width=8, start_attr_kind="int", faces=FACES):
    base = 1 if start_index is None else start_index
    n = np.array([len(f) for f in faces])
    if pad == "fill-1":
        conn = np.full((len(faces), width), -1, dtype=np.int64)
    elif pad == "zeros":
        conn = np.zeros((len(faces), width), dtype=np.int64)
    elif pad == "garbage":
        conn = np.full((len(faces), width), 12345, dtype=np.int64)
    else:  # repeat last
        conn = np.zeros((len(faces), width), dtype=np.int64)
        for i, f in enumerate(faces):
            conn[i, :] = f[-1] + base
    for i, f in enumerate(faces):
        conn[i, : len(f)] = np.array(f) + base
    rng = np.random.default_rng(11)
    lon = rng.uniform(0, 360, N_NODE) if lon360 else rng.uniform(-180, 180, N_NODE)
    lat = rng.uniform(-90, 90, N_NODE)
    lon[0], lat[0] = (180.0, 90.0)
    lon[1], lat[1] = (360.0 if lon360 else -180.0, -90.0)
    lon[2] = 0.0
    node_attrs = {} if units is None else {"units": units}
    ds = xr.Dataset()
    ds["nodeCoords"] = xr.DataArray(np.stack([lon, lat], axis=1), dims=["nodeCount", "coordDim"], attrs=node_attrs)
    attrs = {"long_name": "Node indices that define the element connectivity"}
    if start_index is not None:
        attrs["start_index"] = {"int": int(start_index), "np32": np.int32(start_index),
                                "np64": np.int64(start_index)}[start_attr_kind]
    ds["elementConn"] = xr.DataArray(conn.astype(conn_dtype), dims=["elementCount", "maxNodePElement"], attrs=attrs)
    ds["numElementConn"] = xr.DataArray(n.astype(num_dtype), dims=["elementCount"])
    if centers:
        clon = rng.uniform(0, 360, len(faces)) if lon360 else rng.uniform(-180, 180, len(faces))
        ds["centerCoords"] = xr.DataArray(np.stack([clon, rng.uniform(-90, 90, len(faces))], axis=1),
                                          dims=["elementCount", "coordDim"], attrs={"units": "degrees"})
    ds.attrs["gridType"] = "unstructured mesh"
    return ds


def run(tag, src):
    snap = {k: src[k].values.copy() for k in src.variables}
    try:
        out, dim_map = _read_esmf(src)
    except Exception as e:
        print("==", tag, "reader raised", type(e).__name__, e)
        return
    digest_ds("reader " + tag, out)
    print("   dim map", sorted(dim_map.items()))
    print("   shares memory with source:",
          {k: bool(any(np.shares_memory(out[k].values, src[s].values) for s in src.variables)) for k in out.variables})
    print("   input untouched:", all(np.array_equal(src[k].values, snap[k], equal_nan=True) and src[k].values.dtype == snap[k].dtype for k in snap))
    try:
        g = ux.Grid.from_dataset(src)
    except Exception as e:
        print("   grid raised", type(e).__name__, e)
        return
    digest_ds("grid " + tag, g._ds)
    print("   spec", g.source_grid_spec, g.n_face, g.n_node, g.n_max_face_nodes, sorted(g._source_dims_dict.items()))
    print("   n_nodes_per_face", g.n_nodes_per_face.values.tolist())
    print("   input untouched (grid):", all(np.array_equal(src[k].values, snap[k], equal_nan=True) for k in snap))


for si in (None, 0, 1):
    for cdt in (np.int32, np.int64, np.float64):
        for pad in ("fill-1", "zeros", "garbage", "repeat"):
            run(f"start={si} conn={np.dtype(cdt).name} pad={pad}", esmf(si, cdt, np.int32, pad))

for ndt in (np.int8, np.uint8, np.int16, np.int64, np.float64):
    run(f"numElementConn dtype={np.dtype(ndt).name}", esmf(1, np.int32, ndt, "fill-1"))
for kind in ("np32", "np64"):
    run(f"start_index attr kind={kind} start=0", esmf(0, np.int32, np.int32, "garbage", start_attr_kind=kind))
    run(f"start_index attr kind={kind} start=1", esmf(1, np.int64, np.uint8, "zeros", start_attr_kind=kind))
run("no centerCoords, lon -180..180", esmf(1, np.int32, np.int32, "fill-1", centers=False, lon360=False))
run("wider than needed (width 11)", esmf(0, np.int32, np.int32, "fill-1", width=11))
run("all triangles exact width", esmf(1, np.int32, np.int32, "fill-1", width=3, faces=[[0, 1, 2], [2, 1, 3], [15, 14, 13]]))
run("single face", esmf(None, np.int64, np.int8, "repeat", width=4, faces=[[4, 5, 6, 7]]))
run("units radians", esmf(1, np.int32, np.int32, "fill-1", units="radians"))
run("units missing", esmf(1, np.int32, np.int32, "fill-1", units=None))
run("no numElementConn", esmf(1, np.int32, np.int32, "fill-1").drop_vars("numElementConn"))
run("no elementConn", esmf(1, np.int32, np.int32, "fill-1").drop_vars("elementConn"))
# numElementConn equal to or larger than the row width (no padding at all)
src = esmf(1, np.int32, np.int32, "fill-1", width=3, faces=[[0, 1, 2], [2, 1, 3]])
src["numElementConn"] = xr.DataArray(np.array([3, 5], dtype=np.int32), dims=["elementCount"])
run("numElementConn beyond width", src)
# a face with zero nodes
src = esmf(1, np.int32, np.int32, "zeros", width=4, faces=[[0, 1, 2], [2, 1, 3, 4]])
src["numElementConn"] = xr.DataArray(np.array([3, 0], dtype=np.int32), dims=["elementCount"])
run("row with zero nodes", src)
# Fortran-ordered / non-contiguous connectivity storage
src = esmf(1, np.int64, np.int32, "garbage")
src["elementConn"] = xr.DataArray(np.asfortranarray(src["elementConn"].values), dims=["elementCount", "maxNodePElement"],
                                  attrs=src["elementConn"].attrs)
run("fortran ordered elementConn", src)

path = os.path.join(os.getcwd(), "test", "meshfiles", "esmf", "ne30", "ne30pg3.grid.nc")
if os.path.getsize(path) > 0:
    g = ux.open_grid(path)
    digest_ds("file ne30pg3", g._ds)
    print("   ", g.source_grid_spec, g.n_face, g.n_node, sorted(g._source_dims_dict.items()))
    raw = xr.open_dataset(path)
    out, dm = _read_esmf(raw)
    digest_ds("file ne30pg3 reader", out)
else:
    print("ne30 file empty")
