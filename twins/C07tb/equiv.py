"""Equivalence digest for refactoring C07/b (_encode_scrip corner gather).

Run with cwd = worktree root:  /venv/bin/python /tmp/refout/C07/b/equiv.py
"""
import sys, os; sys.path.insert(0, os.getcwd())
import warnings; warnings.filterwarnings("ignore")
import hashlib, tempfile
import numpy as np
import xarray as xr
import uxarray as ux
assert os.path.abspath(ux.__file__).startswith(os.getcwd() + os.sep), ux.__file__
from uxarray.constants import INT_FILL_VALUE as F, INT_DTYPE
from uxarray.io._scrip import _encode_scrip


def digest_ds(ds, label):
    print(f"== {label}")
    print("  dims", dict(ds.sizes), "attrs", dict(ds.attrs), "coords", list(ds.coords))
    for name in ds.variables:
        v = ds[name]
        raw = v.variable._data
        vals = np.asarray(v.values)
        # layout and writeability are digested; OWNDATA is deliberately not (whether the array is a
        # reshape view of a private temporary or owns its buffer is not observable behaviour)
        flags = (vals.flags["C_CONTIGUOUS"], vals.flags["F_CONTIGUOUS"], vals.flags["WRITEABLE"])
        if vals.size <= 60:
            body = repr(vals.tolist())
        else:
            body = hashlib.sha1(np.ascontiguousarray(vals).tobytes()).hexdigest()
        print(f"  {name} dims={v.dims} dtype={vals.dtype} shape={vals.shape} store={type(raw).__name__} "
              f"flags={flags} attrs={dict(v.attrs)} :: {body}")


def attempt(label, fn):
    try:
        out = fn()
    except Exception as e:
        print(f"== {label}\n  RAISED {type(e).__name__}: {e!r}")
        return None
    digest_ds(out, label)
    return out


def faces_list(grid):
    conn = grid.face_node_connectivity.values
    lon = np.round(grid.node_lon.values, 9) % 360
    lat = np.round(grid.node_lat.values, 9)
    out = []
    for row in conn:
        pts = [(float(lon[i]), float(lat[i])) for i in row if i != F]
        k = pts.index(min(pts))
        out.append(tuple(pts[k:] + pts[:k]))
    return out


def make_grid(lon, lat, conn):
    return ux.Grid.from_topology(node_lon=np.asarray(lon, float), node_lat=np.asarray(lat, float),
                                 face_node_connectivity=np.asarray(conn), fill_value=F)


lon = [0., 10, 10, 0, 20, 20, 5, 15, 25, 30, 30, 25]
lat = [0., 0, 10, 10, 0, 10, 20, 20, 15, 10, 0, -5]
cases = {
    "all_quads": [[0, 1, 2, 3], [1, 4, 5, 2], [3, 2, 7, 6]],
    "all_tris": [[0, 1, 2], [1, 4, 5], [3, 2, 6], [2, 5, 7]],
    "single_face": [[0, 1, 2, 3]],
    "hexagons": [[4, 11, 10, 9, 8, 5], [0, 1, 4, 5, 2, 3]],
    "mixed_3_4": [[0, 1, 2, 3], [1, 4, 5, F], [3, 2, 6, F], [1, 4, 5, 2]],
    "all_tris_padded_to_4": [[0, 1, 2, F], [1, 4, 5, F]],
    "mixed_3_4_6": [[4, 10, 9, 8, 5, F], [0, 1, 2, 3, F, F], [4, 11, 10, 9, 8, 5]],
}
tmp = tempfile.mkdtemp()
for name, conn in cases.items():
    g = make_grid(lon, lat, conn)
    ds = attempt(f"{name}: to_xarray('scrip') fresh", lambda: g.to_xarray("scrip"))
    g2 = make_grid(lon, lat, conn)
    try:
        _ = g2.edge_node_connectivity, g2.face_edge_connectivity, g2.node_x, g2.face_lon, g2.n_nodes_per_face
        _ = g2.face_areas, g2.bounds
    except Exception as e:
        print("  derived raised", type(e).__name__)
    ds2 = attempt(f"{name}: to_xarray('scrip') after derived quantities", lambda: g2.to_xarray("scrip"))
    attempt(f"{name}: encode_as('SCRIP')", lambda: g2.encode_as("SCRIP"))
    if ds is not None:
        # output must not alias the grid's coordinate arrays
        print("  shares memory with node_lon/node_lat:",
              np.shares_memory(ds["grid_corner_lon"].values, g.node_lon.values),
              np.shares_memory(ds["grid_corner_lat"].values, g.node_lat.values))
        r1 = ux.Grid.from_dataset(ds)
        print("  roundtrip direct same faces in order:", faces_list(r1) == faces_list(g))
        path = os.path.join(tmp, name + ".nc")
        ds.to_netcdf(path)
        r2 = ux.open_grid(path)
        print("  roundtrip file same faces in order:", faces_list(r2) == faces_list(g),
              r2.face_node_connectivity.values.tolist())

# direct calls with awkward arguments
nlon = xr.DataArray(np.asarray(lon, float), dims=["n_node"])
nlat = xr.DataArray(np.asarray(lat, float), dims=["n_node"])
def conn_da(a):
    return xr.DataArray(a, dims=["n_face", "n_max_face_nodes"])
q = np.array([[0, 1, 2, 3], [1, 4, 5, 2], [3, 2, 7, 6]])
direct = {
    "direct int64": (conn_da(q.astype(np.int64)), np.array([1., 2, 3])),
    "direct int32": (conn_da(q.astype(np.int32)), np.array([1., 2, 3])),
    "direct uint8": (conn_da(q.astype(np.uint8)), np.array([1., 2, 3])),
    "direct float conn": (conn_da(q.astype(float)), np.array([1., 2, 3])),
    "direct float conn with nan": (conn_da(np.where(q == 3, np.nan, q.astype(float))), np.array([1., 2, 3])),
    "direct fortran-ordered conn": (conn_da(np.asfortranarray(q)), np.array([1., 2, 3])),
    "direct transposed-view conn": (conn_da(np.ascontiguousarray(q.T).T), np.array([1., 2, 3])),
    "direct strided-view conn": (conn_da(np.hstack([q, q])[:, ::2][:, :4]), np.array([1., 2, 3])),
    "direct negative wrap index": (conn_da(np.array([[0, 1, 2, -1], [1, 4, 5, -2]])), np.array([1., 2])),
    "direct fill value": (conn_da(np.array([[0, 1, 2, F], [1, 4, 5, 2]])), np.array([1., 2])),
    "direct out of range": (conn_da(np.array([[0, 1, 2, 12], [1, 4, 5, 2]])), np.array([1., 2])),
    "direct zero faces": (conn_da(np.empty((0, 4), dtype=INT_DTYPE)), np.array([])),
    "direct areas wrong length": (conn_da(q), np.array([1., 2])),
    "direct areas as DataArray": (conn_da(q), xr.DataArray(np.array([1., 2, 3]), dims=["n_face"])),
    "direct areas float32": (conn_da(q), np.array([1., 2, 3], dtype=np.float32)),
}
for label, (c, areas) in direct.items():
    attempt(label, lambda: _encode_scrip(c, nlon, nlat, areas))
attempt("direct float32 coords", lambda: _encode_scrip(conn_da(q), nlon.astype(np.float32), nlat.astype(np.float32), np.ones(3)))
attempt("direct negative lon coords", lambda: _encode_scrip(conn_da(q), nlon - 180.0, nlat, np.ones(3)))
try:
    import dask  # noqa
    attempt("direct dask-backed coords+conn", lambda: _encode_scrip(conn_da(q).chunk({"n_face": 2}), nlon.chunk(5), nlat.chunk(5), np.ones(3)))
except ImportError:
    print("no dask")
# the inputs must be left untouched
c = conn_da(q.copy()); lo = nlon.copy(deep=True); la = nlat.copy(deep=True)
_encode_scrip(c, lo, la, np.ones(3))
print("inputs untouched:", c.values.tolist() == q.tolist(), lo.values.tolist() == lon, la.values.tolist() == lat)

meshes = ["test/meshfiles/exodus/outCSne8/outCSne8.g", "test/meshfiles/scrip/outCSne8/outCSne8.nc",
          "test/meshfiles/ugrid/geoflow-small/grid.nc", "test/meshfiles/ugrid/outCSne30/outCSne30.ug",
          "test/meshfiles/exodus/mixed/mixed.exo", "test/meshfiles/ugrid/quad-hexagon/grid.nc",
          "test/meshfiles/mpas/QU/mesh.QU.1920km.151026.nc"]
for m in meshes:
    if not os.path.exists(m):
        print("missing mesh", m); continue
    g = ux.open_grid(m)
    ds = attempt(f"{m} scrip", lambda: g.to_xarray("scrip"))
    if ds is not None:
        r = ux.Grid.from_dataset(ds)
        print("  roundtrip same faces in order:", faces_list(r) == faces_list(g))
        path = os.path.join(tmp, "m.nc"); ds.to_netcdf(path)
        r = ux.open_grid(path)
        print("  roundtrip via file same faces in order:", faces_list(r) == faces_list(g))
g = make_grid(lon, lat, cases["all_tris"])
attempt("small grid after encoding large ones", lambda: g.to_xarray("scrip"))
