import sys, os; sys.path.insert(0, os.getcwd())
import hashlib
import warnings
import numpy as np
import uxarray
assert os.path.abspath(uxarray.__file__).startswith(os.path.abspath(os.getcwd()) + os.sep), uxarray.__file__
import uxarray as ux
import cartopy.crs as ccrs
import shapely
from uxarray.constants import INT_DTYPE, INT_FILL_VALUE
from uxarray.grid.geometry import _build_polygon_shells, _pad_closed_face_nodes
from uxarray.grid.connectivity import (
    close_face_nodes, _build_n_nodes_per_face, _populate_n_nodes_per_face)

warnings.filterwarnings("ignore")
FV = INT_FILL_VALUE


def h(a):
    a = np.asarray(a)
    return hashlib.sha1(np.ascontiguousarray(a).tobytes()).hexdigest()[:16]


def desc(a):
    """dtype, shape, strides, flags, base-kind and content hash of an array"""
    a_ = a
    base = type(a_.base).__name__ if a_.base is not None else None
    base_shape = getattr(a_.base, "shape", None)
    return (f"{a_.dtype} {a_.shape} strides={a_.strides} C={a_.flags.c_contiguous} "
            f"F={a_.flags.f_contiguous} W={a_.flags.writeable} own={a_.flags.owndata} "
            f"base={base}{base_shape} sha={h(a_)}")


def hand_grid():
    # triangle, quad, pentagon; two faces cross the antimeridian, one touches a pole region
    node_lon = np.array([170.0, -170.0, -170.0, 170.0, 150.0, 150.0, 160.0, -175.0, 178.0, 179.0, -150.0, 0.0, 10.0, 5.0])
    node_lat = np.array([-10.0, -10.0, 10.0, 10.0, -10.0, 10.0, 20.0, 30.0, 40.0, 25.0, 0.0, 80.0, 80.0, 89.0])
    fnc = np.array([
        [0, 1, 2, 3, FV],      # quad crossing the antimeridian
        [4, 0, 3, 5, FV],      # quad not crossing
        [3, 2, 7, 8, 6],       # pentagon crossing
        [1, 10, 2, FV, FV],    # triangle not crossing (-170..-150)
        [11, 12, 13, FV, FV],  # triangle near pole
        [9, 8, 6, FV, FV],     # triangle not crossing (160..179)
    ], dtype=INT_DTYPE)
    return node_lon, node_lat, fnc


def grids():
    nl, nt, fnc = hand_grid()
    out = [("hand_mixed", ux.Grid.from_topology(nl, nt, fnc, fill_value=FV))]
    # all-triangle grid (no fill values at all), single face grid
    out.append(("hand_tri", ux.Grid.from_topology(
        np.array([0.0, 10.0, 5.0, 15.0]), np.array([0.0, 0.0, 8.0, 8.0]),
        np.array([[0, 1, 2], [1, 3, 2]], dtype=INT_DTYPE), fill_value=FV)))
    out.append(("hand_one", ux.Grid.from_topology(
        np.array([175.0, -175.0, 180.0]), np.array([0.0, 0.0, 8.0]),
        np.array([[0, 1, 2]], dtype=INT_DTYPE), fill_value=FV)))
    for name, path in [
        ("mixed_exo", "test/meshfiles/exodus/mixed/mixed.exo"),
        ("ne8_scrip", "test/meshfiles/scrip/outCSne8/outCSne8.nc"),
        ("mpas_QU", "test/meshfiles/mpas/QU/mesh.QU.1920km.151026.nc"),
        ("geos_c12", "test/meshfiles/geos-cs/c12/test-c12.native.nc4"),
    ]:
        out.append((name, ux.open_grid(path)))
    return out


def gdf_digest(gdf):
    geom = gdf["geometry"]
    try:
        wkb = shapely.to_wkb(np.asarray(geom.values))
        blob = b"".join(wkb)
    except Exception:
        # spatialpandas
        blob = repr([np.asarray(g.data).tolist() if hasattr(g, "data") else str(g) for g in geom.values]).encode()
    return f"{type(gdf).__module__.split('.')[0]} n={len(gdf)} cols={list(gdf.columns)} sha={hashlib.sha1(blob).hexdigest()[:16]}"


def pc_digest(pc):
    paths = pc.get_paths()
    blob = b"".join(np.ascontiguousarray(p.vertices).tobytes() for p in paths)
    dts = sorted({str(p.vertices.dtype) for p in paths})
    return f"{type(pc).__name__} n={len(paths)} vdtypes={dts} sha={hashlib.sha1(blob).hexdigest()[:16]}"


def lc_digest(lc):
    segs = lc.get_segments()
    blob = b"".join(np.ascontiguousarray(s).tobytes() for s in segs)
    return f"{type(lc).__name__} n={len(segs)} sha={hashlib.sha1(blob).hexdigest()[:16]}"


def attempt(label, fn):
    try:
        print(label, "->", fn())
    except Exception as e:  # same exceptions on both trees
        print(label, "-> EXC", type(e).__name__, str(e)[:120])


print("== low level helpers ==")
nl, nt, fnc = hand_grid()
for nm, conn in [("hand", fnc),
                 ("nofill", np.array([[0, 1, 2], [1, 3, 2]], dtype=INT_DTYPE)),
                 ("one", np.array([[0, 1, 2, FV]], dtype=INT_DTYPE)),
                 ("empty", np.empty((0, 4), dtype=INT_DTYPE))]:
    n_face, n_max = conn.shape
    before = conn.copy()
    attempt(f"close_face_nodes[{nm}]", lambda: (lambda c: desc(c) + " " + repr(c.tolist()))(close_face_nodes(conn, n_face, n_max)))
    npf = _build_n_nodes_per_face(conn, n_face, n_max)
    print(f"_build_n_nodes_per_face[{nm}]", desc(npf), npf.tolist())
    if n_face:
        padded = _pad_closed_face_nodes(conn, n_face, n_max, npf)
        print(f"_pad_closed_face_nodes[{nm}]", desc(padded), padded.tolist())
    print("  input untouched:", np.array_equal(before, conn))

projs = [("None", None), ("Robinson", ccrs.Robinson()), ("Ortho", ccrs.Orthographic(central_longitude=-100.0)),
         ("PC180", ccrs.PlateCarree(central_longitude=180.0)), ("Mollweide", ccrs.Mollweide(central_longitude=30.0))]

print("== _build_polygon_shells ==")
for gname, g in grids():
    lon, lat = g.node_lon.values, g.node_lat.values
    conn = g.face_node_connectivity.values
    npf = g.n_nodes_per_face.values
    lon0, lat0, conn0, npf0 = lon.copy(), lat.copy(), conn.copy(), npf.copy()
    for pname, proj in projs:
        for cl in (0.0, 180.0, -100.0):
            def run():
                s = _build_polygon_shells(lon, lat, conn, g.n_face, g.n_max_face_nodes, npf,
                                          projection=proj, central_longitude=cl)
                return desc(s)
            attempt(f"shells[{gname},{pname},cl={cl}]", run)
    # positional call form as well
    attempt(f"shells_pos[{gname}]", lambda: desc(_build_polygon_shells(lon, lat, conn, g.n_face, g.n_max_face_nodes, npf)))
    print("  inputs untouched:", np.array_equal(lon, lon0), np.array_equal(lat, lat0),
          np.array_equal(conn, conn0), np.array_equal(npf, npf0))

print("== n_nodes_per_face on grids ==")
for gname, g in grids():
    had = "n_nodes_per_face" in g._ds
    v = g.n_nodes_per_face
    print(gname, "pre-present" if had else "built", v.dims, dict(v.attrs), desc(v.values)[:60], h(v.values),
          "same-object-on-reread:", g.n_nodes_per_face.values is v.values or np.shares_memory(g.n_nodes_per_face.values, v.values))
    # rebuild explicitly through the populate function
    g2 = ux.Grid.from_topology(g.node_lon.values, g.node_lat.values, g.face_node_connectivity.values, fill_value=FV)
    _populate_n_nodes_per_face(g2)
    w = g2._ds["n_nodes_per_face"]
    print("   populate:", w.dims, dict(w.attrs), w.dtype, w.shape, h(w.values), w.name,
          "attrs-is-module-const:", w.attrs is ux.conventions.ugrid.N_NODES_PER_FACE_ATTRS)

print("== conversions ==")
for gname, g in grids():
    rng = np.random.default_rng(7)
    data = rng.random(g.n_face)
    uxda = ux.UxDataArray(data, dims=["n_face"], uxgrid=g, name="v")
    print(gname, "antimeridian_face_indices", np.asarray(g.antimeridian_face_indices).tolist()[:40],
          len(g.antimeridian_face_indices))
    seq = [("exclude", None), ("split", None), ("ignore", None), ("exclude", ccrs.Robinson()),
           ("exclude", None), ("ignore", ccrs.Orthographic(central_longitude=-100.0)), ("split", None)]
    for engine in ("geopandas", "spatialpandas"):
        for k, (pe, proj) in enumerate(seq):
            attempt(f"  gdf[{gname},{engine},{k},{pe},{type(proj).__name__}]",
                    lambda: gdf_digest(g.to_geodataframe(periodic_elements=pe, projection=proj, engine=engine)))
            def da_run():
                gdf = uxda.to_geodataframe(periodic_elements=pe, projection=proj, engine=engine)
                return gdf_digest(gdf) + " data=" + h(np.asarray(gdf["v"].values, dtype=float))
            attempt(f"  da_gdf[{gname},{engine},{k},{pe},{type(proj).__name__}]", da_run)
    for k, (pe, proj) in enumerate(seq):
        def pc_run():
            r = g.to_polycollection(periodic_elements=pe, projection=proj)
            pc = r[0] if isinstance(r, tuple) else r
            return pc_digest(pc)
        attempt(f"  pc[{gname},{k},{pe},{type(proj).__name__}]", pc_run)
        def dpc_run():
            r = uxda.to_polycollection(periodic_elements=pe, projection=proj)
            pc = r[0] if isinstance(r, tuple) else r
            arr = pc.get_array()
            return pc_digest(pc) + " data=" + (h(np.ma.filled(arr, np.nan)) if arr is not None else "None")
        attempt(f"  da_pc[{gname},{k},{pe},{type(proj).__name__}]", dpc_run)
        attempt(f"  lc[{gname},{k},{pe},{type(proj).__name__}]",
                lambda: lc_digest(g.to_linecollection(periodic_elements=pe, projection=proj)))
    # override / no cache
    attempt(f"  gdf_override[{gname}]", lambda: gdf_digest(g.to_geodataframe(periodic_elements="split", engine="geopandas", override=True, cache=False)))
    attempt(f"  gdf_after[{gname}]", lambda: gdf_digest(g.to_geodataframe(periodic_elements="exclude", engine="geopandas")))
