import sys, os; sys.path.insert(0, os.getcwd())
import hashlib
import warnings

warnings.filterwarnings("ignore")

import numpy as np
import xarray as xr
import uxarray as ux

assert os.path.abspath(ux.__file__).startswith(os.path.abspath(os.getcwd()) + os.sep), ux.__file__

MPAS = "test/meshfiles/mpas/QU/mesh.QU.1920km.151026.nc"  # ships its own edge tables
MIXED = "test/meshfiles/exodus/mixed/mixed.exo"  # triangles + quads (fill values)
QUADHEX = "test/meshfiles/ugrid/quad-hexagon/grid.nc"  # 4 faces, quads + hexagons
CSNE8 = "test/meshfiles/scrip/outCSne8/outCSne8.nc"


def h(a):
    a = np.ascontiguousarray(np.asarray(a))
    return f"{a.dtype}{list(a.shape)}:{hashlib.sha1(a.tobytes()).hexdigest()[:12]}"


def grid_digest(g):
    out = [f"nf={g.n_face} nn={g.n_node} ne={g.n_edge}"]
    for name in (
        "subgrid_face_indices",
        "subgrid_node_indices",
        "subgrid_edge_indices",
    ):
        out.append(f"{name}={h(g._ds[name].values) if name in g._ds else None}")
    for name in (
        "face_node_connectivity",
        "edge_node_connectivity",
        "face_edge_connectivity",
        "edge_face_connectivity",
        "node_face_connectivity",
        "node_lon",
        "node_lat",
        "face_lon",
        "edge_lon",
        "face_areas",
    ):
        try:
            out.append(f"{name}={h(getattr(g, name).values)}")
        except Exception as e:  # noqa
            out.append(f"{name}=EXC {type(e).__name__}: {e}")
    out.append("vars=" + ",".join(sorted(map(str, g._ds.variables))))
    return " | ".join(out)


def da_digest(r):
    s = f"type={type(r).__name__} name={r.name!r} dims={r.dims} dtype={r.dtype} data={h(r.values)} attrs={dict(r.attrs)!r} coords={sorted(map(str, r.coords))}"
    if hasattr(r, "uxgrid") and r.uxgrid is not None:
        s += "\n      grid: " + grid_digest(r.uxgrid)
    return s


def run(label, fn):
    try:
        r = fn()
        if isinstance(r, (ux.UxDataArray, xr.DataArray)):
            print(label, "->", da_digest(r))
        else:
            print(label, "->", repr(r))
    except Exception as e:  # noqa
        print(label, "-> EXC", type(e).__name__, str(e)[:300])


def make_vars(g, rng):
    """face/node/edge centred data of several ranks on grid ``g``"""
    nf, nn, ne = g.n_face, g.n_node, g.n_edge
    mk = lambda data, dims, name: ux.UxDataArray(  # noqa
        data, dims=dims, name=name, uxgrid=g, attrs={"units": name}
    )
    return {
        "face1": mk(rng.random(nf), ["n_face"], "face1"),
        "face2": mk(rng.random((3, nf)), ["time", "n_face"], "face2"),
        "face3": mk(
            rng.integers(0, 99, (2, nf, 3)), ["time", "n_face", "lev"], "face3"
        ),
        "node1": mk(rng.random(nn).astype(np.float32), ["n_node"], "node1"),
        "node2": mk(rng.random((nn, 2)), ["n_node", "lev"], "node2"),
        "edge1": mk(np.arange(ne), ["n_edge"], "edge1"),
        "edge2": mk(rng.random((2, ne)), ["time", "n_edge"], "edge2"),
        # two grid dimensions at once: the face axis must win, then edge, then node
        "face_node": mk(rng.random((nf, nn)), ["n_face", "n_node"], "face_node"),
        "node_edge": mk(rng.random((nn, ne)), ["n_node", "n_edge"], "node_edge"),
        "nogrid": mk(rng.random((3, 4)), ["time", "lev"], "nogrid"),
    }


for path in (QUADHEX, MIXED, MPAS):
    for history in ("fresh", "edges_built"):
        print("=" * 20, path, history)
        g = ux.open_grid(path)
        if history == "edges_built":
            # derived quantities materialised on the source before slicing
            _ = g.edge_node_connectivity, g.face_edge_connectivity
            _ = g.edge_face_connectivity, g.node_face_connectivity
            _ = g.edge_lon, g.face_lon
        rng = np.random.default_rng(7)
        V = make_vars(g, rng)
        nf, nn, ne = g.n_face, g.n_node, g.n_edge

        selections = {
            "n_face": [
                [0],
                0,
                np.int64(nf - 1),
                [nf - 1, 0, 2],
                np.array([3, 1, 2]),
                list(range(nf)),
                [],
                slice(0, 2),
                [1, 1, 2],
            ],
            "n_node": [[0], 5, [nn - 1, 2, 7], np.arange(nn), []],
            "n_edge": [[0], 3, [ne - 1, 4, 1], np.arange(ne)],
        }
        for vname, v in V.items():
            for dim, sels in selections.items():
                for sel in sels:
                    run(
                        f"{vname}.isel({dim}={sel!r:.40})",
                        lambda: v.isel(**{dim: sel}),
                    )
            # positional indexers dict, grid + non grid dimensions
            run(f"{vname}.isel({{'n_face': [2, 0]}})", lambda: v.isel({"n_face": [2, 0]}))
            run(
                f"{vname}.isel(n_face, ignore_grid)",
                lambda: v.isel(n_face=[2, 0], ignore_grid=True, missing_dims="ignore"),
            )
            run(
                f"{vname}.isel(n_face+n_node)",
                lambda: v.isel(n_face=[0], n_node=[1]),
            )
            run(
                f"{vname}.isel(n_edge+n_node, ignore_grid)",
                lambda: v.isel(
                    n_edge=[0], n_node=[1], ignore_grid=True, missing_dims="ignore"
                ),
            )
            run(
                f"{vname}.isel(time=0)",
                lambda: v.isel(time=0, missing_dims="ignore"),
            )
            run(f"{vname}.isel(time=0) raise", lambda: v.isel(time=0))
            run(
                f"{vname}.isel(time=[1], n_face=[1, 0])",
                lambda: v.isel(time=[1], n_face=[1, 0]),
            )
            run(f"{vname}.isel()", lambda: v.isel())
            run(
                f"{vname}.isel(lev=0, drop=True)",
                lambda: v.isel(lev=0, drop=True, missing_dims="warn"),
            )
            # _slice_from_grid through an explicitly sliced grid and the accessors
            sub = g.isel(n_face=[2, 0, 1])
            run(f"{vname}._slice_from_grid", lambda: v._slice_from_grid(sub))
            run(
                f"{vname}.subset.nearest_neighbor",
                lambda: v.subset.nearest_neighbor((0.0, 0.0), 3, "face centers"),
            )
            run(
                f"{vname}.subset.bounding_circle",
                lambda: v.subset.bounding_circle((0.0, 0.0), 40.0, "nodes"),
            )
            run(
                f"{vname}.subset.bounding_box",
                lambda: v.subset.bounding_box((170, -170), (-30, 30), "edge centers"),
            )
            for lat in (0.3, -42.0, 89.9999):
                run(
                    f"{vname}.cross_section.constant_latitude({lat})",
                    lambda: v.cross_section.constant_latitude(lat),
                )

        # the sliced result keeps working as a UxDataArray: slice again
        r = V["face2"].isel(n_face=[3, 1, 2, 0])
        run("face2 twice", lambda: r.isel(n_face=[1, 2]))
        run("face2 twice node", lambda: r.isel(n_node=[0]))
        # the source is left untouched
        print("source after:", grid_digest(g))
