import sys, os; sys.path.insert(0, os.getcwd())
import copy
import hashlib
import warnings

warnings.filterwarnings("ignore")

import numpy as np
import xarray as xr
import uxarray as ux

assert os.path.abspath(ux.__file__).startswith(os.path.abspath(os.getcwd()) + os.sep), ux.__file__
from uxarray.core.dataarray import UxDataArray


def h(a):
    a = np.ascontiguousarray(np.asarray(a))
    return f"{a.dtype}{a.shape}:{hashlib.sha1(a.tobytes()).hexdigest()[:12]}"


def grid_digest(g):
    if g is None:
        return "None"
    parts = [f"nf={g.n_face} nn={g.n_node} ne={g.n_edge}"]
    for name in sorted(g._ds.variables):
        parts.append(f"{name}={h(g._ds[name].values)}")
    return " ".join(parts)


def describe(tag, res, src):
    print(f"[{tag}] type={type(res).__name__} dims={res.dims} shape={res.shape} dtype={res.dtype} name={res.name!r}")
    print(f"    values={h(res.values)} attrs={dict(res.attrs)} coords={sorted(res.coords)}")
    if not isinstance(res, UxDataArray):
        print("    (plain xarray object, no uxgrid)")
        return
    g, sg = res.uxgrid, src.uxgrid
    print(f"    same_grid_object={g is sg} grid_type={type(g).__name__}")
    if g is not None and sg is not None:
        print(f"    grid_equal={g == sg} ds_shared={g._ds is sg._ds}")
        shared = [n for n in sorted(g._ds.variables)
                  if np.shares_memory(g._ds[n].values, sg._ds[n].values)]
        print(f"    vars_sharing_memory={len(shared)}/{len(g._ds.variables)}")
        print(f"    spec={g.source_grid_spec!r} dims_dict_same={g._source_dims_dict == sg._source_dims_dict}")
    print(f"    grid={grid_digest(g)}")
    for d, getter in (("n_face", "n_face"), ("n_node", "n_node"), ("n_edge", "n_edge")):
        if d in res.dims and g is not None:
            print(f"    len[{d}]={res.sizes[d]} grid.{getter}={getattr(g, getter)}")


def attempt(tag, fn, src):
    try:
        res = fn()
    except Exception as e:  # noqa
        print(f"[{tag}] RAISED {type(e).__name__}: {e}")
        return None
    describe(tag, res, src)
    return res


def grids():
    out = {}
    out["quadhex"] = ux.open_grid("test/meshfiles/ugrid/quad-hexagon/grid.nc")
    # hand-made mixed grid: quad + pentagon + triangle, padded with fill values
    lon = np.array([0.0, 10.0, 10.0, 0.0, 20.0, 25.0, 20.0, 5.0])
    lat = np.array([0.0, 0.0, 10.0, 10.0, 0.0, 5.0, 10.0, 20.0])
    fnc = np.array([[0, 1, 2, 3, -1], [1, 4, 5, 6, 2], [3, 2, 7, -1, -1]])
    out["mixed"] = ux.Grid.from_topology(lon, lat, fnc, fill_value=-1)
    out["mpas"] = ux.open_grid("test/meshfiles/mpas/QU/mesh.QU.1920km.151026.nc")
    return out


def arrays(name, g):
    rng = np.random.default_rng(7)
    _ = g.n_edge  # populate edge connectivity in the grid cache
    yield f"{name}/face-f64", UxDataArray(
        rng.random((2, g.n_face)), dims=["time", "n_face"], uxgrid=g, name="a",
        coords={"time": [10, 20]}, attrs={"units": "K"})
    yield f"{name}/node-i32", UxDataArray(
        np.arange(g.n_node, dtype=np.int32), dims=["n_node"], uxgrid=g, name="b")
    yield f"{name}/edge-f32", UxDataArray(
        rng.random((g.n_edge, 3)).astype(np.float32), dims=["n_edge", "lev"], uxgrid=g)
    yield f"{name}/nogriddim", UxDataArray(
        np.arange(4.0), dims=["x"], uxgrid=g, name="c")


def main():
    for gname, g in grids().items():
        for tag, da in arrays(gname, g):
            attempt(tag + " copy()", lambda: da.copy(), da)
            attempt(tag + " copy(deep=True)", lambda: da.copy(deep=True), da)
            attempt(tag + " copy(deep=False)", lambda: da.copy(deep=False), da)
            attempt(tag + " copy(deep=False,data)", lambda: da.copy(deep=False, data=np.zeros(da.shape, da.dtype)), da)
            attempt(tag + " copy.copy", lambda: copy.copy(da), da)
            attempt(tag + " copy.deepcopy", lambda: copy.deepcopy(da), da)
            attempt(tag + " _copy()", lambda: da._copy(), da)
            attempt(tag + " _copy(deep=0)", lambda: da._copy(deep=0), da)
            attempt(tag + " _copy(deep=1)", lambda: da._copy(deep=1), da)
            # operations going through _replace / _construct_direct
            attempt(tag + " +1", lambda: da + 1, da)
            attempt(tag + " np.sqrt", lambda: np.sqrt(da), da)
            attempt(tag + " where", lambda: da.where(da > 0.5, -1), da)
            attempt(tag + " astype", lambda: da.astype("float32"), da)
            attempt(tag + " transpose", lambda: da.transpose(), da)
            attempt(tag + " rename", lambda: da.rename("zz"), da)
            attempt(tag + " clip.fillna", lambda: da.clip(0.2, 0.8).fillna(0), da)
            attempt(tag + " _replace()", lambda: da._replace(), da)
            attempt(tag + " _replace(name)", lambda: da._replace(name="q"), da)
            attempt(tag + " _replace(variable)", lambda: da._replace(variable=da.variable * 2), da)
            attempt(tag + " deep then +", lambda: da.copy(deep=True) + da, da)
            attempt(tag + " concat", lambda: xr.concat([da, da.copy(deep=True)], dim="k"), da)
            if "time" in da.dims:
                attempt(tag + " mean(time)", lambda: da.mean("time"), da)
                attempt(tag + " cumsum(time)", lambda: da.cumsum("time"), da)
                attempt(tag + " isel(time)", lambda: da.isel(time=0), da)
                attempt(tag + " assign_coords", lambda: da.assign_coords(time=[1, 2]), da)
            # deep copy is independent: mutate the copy's grid, original unchanged
            dc = da.copy(deep=True)
            before = h(da.uxgrid.node_lon.values)
            dc.uxgrid._ds["node_lon"].values[0] += 1.0
            print(f"[{tag}] deep-independent: orig_unchanged={before == h(da.uxgrid.node_lon.values)} "
                  f"copy_changed={h(dc.uxgrid.node_lon.values) != before}")
            sc = da.copy(deep=False)
            print(f"[{tag}] shallow aliases grid: {sc.uxgrid is da.uxgrid}; data shared: "
                  f"{np.shares_memory(sc.values, da.values)}")

    # arrays without a grid
    nog = UxDataArray(np.arange(3.0), dims=["x"], name="nog")
    attempt("nogrid copy(deep=False)", lambda: nog.copy(deep=False), nog)
    attempt("nogrid copy(deep=True)", lambda: nog.copy(deep=True), nog)
    attempt("nogrid copy.copy", lambda: copy.copy(nog), nog)
    attempt("nogrid copy.deepcopy", lambda: copy.deepcopy(nog), nog)
    attempt("nogrid _copy()", lambda: nog._copy(), nog)
    attempt("nogrid +1", lambda: nog + 1, nog)
    attempt("nogrid _replace", lambda: nog._replace(name="k"), nog)
    try:
        UxDataArray(np.arange(3.0), dims=["x"], uxgrid="not a grid")
    except Exception as e:  # noqa
        print("bad grid:", type(e).__name__, e)


main()
