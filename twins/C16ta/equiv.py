import sys, os; sys.path.insert(0, os.getcwd())
import hashlib
import warnings

import numpy as np
import xarray as xr

import uxarray as ux

assert os.path.abspath(ux.__file__).startswith(os.path.abspath(os.getcwd()) + os.sep), ux.__file__

from uxarray.constants import INT_FILL_VALUE
from uxarray.core.gradient import (
    _calculate_edge_face_difference,
    _calculate_edge_node_difference,
    _calculate_grad_on_edge_from_faces,
)
from uxarray.grid.neighbors import (
    _construct_edge_face_distances,
    _construct_edge_node_distances,
)

warnings.simplefilter("ignore")
np.seterr(all="ignore")


def dig(label, arr):
    arr = np.asarray(arr)
    h = hashlib.sha256(np.ascontiguousarray(arr).tobytes()).hexdigest()[:16]
    flat = arr.ravel()
    print(f"{label}: dtype={arr.dtype} shape={arr.shape} sha={h} head={flat[:4]!r} nan={int(np.isnan(flat).sum()) if arr.dtype.kind == 'f' else 0}")


def attempt(label, fn):
    try:
        with warnings.catch_warnings(record=True) as w:
            warnings.simplefilter("always")
            res = fn()
        wl = sorted({f"{x.category.__name__}:{str(x.message)[:60]}" for x in w})
        return res, wl
    except Exception as e:  # noqa
        print(f"{label}: EXC {type(e).__name__}: {e}")
        return None, None


# ---------------------------------------------------------------- grids
F = INT_FILL_VALUE
grids = {}

# open patch, mixed triangles / quads / pentagon, n_face < n_node, boundary edges
lon = np.array([0.0, 10.0, 20.0, 0.0, 10.0, 20.0, 5.0, 15.0, 25.0, 30.0])
lat = np.array([0.0, 0.0, 0.0, 10.0, 10.0, 10.0, 20.0, 20.0, 15.0, 5.0])
conn = np.array(
    [
        [0, 1, 4, 3, F],
        [1, 2, 5, 4, F],
        [3, 4, 6, F, F],
        [4, 5, 7, F, F],
        [4, 7, 6, F, F],
        [2, 9, 8, 7, 5],
    ]
)
grids["mixed_open"] = ux.Grid.from_topology(lon, lat, conn, fill_value=F)

# octahedron: closed, n_face (8) > n_node (6), poles and antimeridian
olon = np.array([0.0, 90.0, 180.0, -90.0, 0.0, 0.0])
olat = np.array([0.0, 0.0, 0.0, 0.0, 90.0, -90.0])
oconn = np.array(
    [
        [0, 1, 4],
        [1, 2, 4],
        [2, 3, 4],
        [3, 0, 4],
        [1, 0, 5],
        [2, 1, 5],
        [3, 2, 5],
        [0, 3, 5],
    ]
)
grids["octahedron"] = ux.Grid.from_topology(olon, olat, oconn)

# single face: every edge is a boundary edge
grids["single_tri"] = ux.Grid.from_topology(
    np.array([170.0, -170.0, 180.0]), np.array([-5.0, -5.0, 8.0]), np.array([[0, 1, 2]])
)

# one-based start index with a custom fill value
grids["one_based"] = ux.Grid.from_topology(
    lon, lat, np.where(conn == F, -1, conn + 1), fill_value=-1, start_index=1
)

# face vertices constructor
grids["face_verts"] = ux.Grid.from_face_vertices(
    [
        [[0.0, 0.0], [12.0, 0.0], [12.0, 9.0], [0.0, 9.0]],
        [[12.0, 0.0], [24.0, 0.0], [24.0, 9.0], [12.0, 9.0]],
    ],
    latlon=True,
)

for name, path, kw in [
    ("mpas_primal", "test/meshfiles/mpas/QU/mesh.QU.1920km.151026.nc", {}),
    ("mpas_dual", "test/meshfiles/mpas/QU/mesh.QU.1920km.151026.nc", {"use_dual": True}),
    ("mpas_ocean", "test/meshfiles/mpas/QU/oQU480.231010.nc", {}),
    ("csne30", "test/meshfiles/ugrid/outCSne30/outCSne30.ug", {}),
    ("geoflow", "test/meshfiles/ugrid/geoflow-small/grid.nc", {}),
]:
    g, _ = attempt(f"open {name}", lambda: ux.open_grid(path, **kw))
    if g is not None:
        grids[name] = g

# ---------------------------------------------------------------- per grid
for name, g in grids.items():
    print(f"==== {name}: n_face={g.n_face} n_node={g.n_node} n_edge={g.n_edge}")
    print("  supplied:", "edge_node_distances" in g._ds, "edge_face_distances" in g._ds)
    end = g.edge_node_distances
    efd = g.edge_face_distances
    print("  cached:", end is g.edge_node_distances, efd is g.edge_face_distances,
          g._ds["edge_node_distances"] is end, end.dims, efd.dims,
          sorted(end.attrs.items()), sorted(efd.attrs.items()))
    dig("  edge_node_distances", end.values)
    dig("  edge_face_distances", efd.values)
    dig("  edge_face_connectivity", g.edge_face_connectivity.values)
    dig("  edge_node_connectivity", g.edge_node_connectivity.values)
    n_boundary = int((g.edge_face_connectivity.values[:, 1] == INT_FILL_VALUE).sum())
    print("  boundary edges:", n_boundary)

    rng = np.random.default_rng(12345)
    for centre, n in (("n_face", g.n_face), ("n_node", g.n_node)):
        fields = {
            "r1_f64": (rng.standard_normal(n), [centre]),
            "r2_f64": (rng.standard_normal((3, n)), ["time", centre]),
            "r3_f32": (rng.standard_normal((2, 3, n)).astype(np.float32), ["time", "lev", centre]),
            "r1_i64": (rng.integers(-50, 50, n), [centre]),
            "r2_const": (np.full((2, n), 7.25), ["time", centre]),
            "r1_nan": (np.where(np.arange(n) % 5 == 0, np.nan, rng.standard_normal(n)), [centre]),
        }
        for fname, (data, dims) in fields.items():
            for varname in ("v", None):
                da = ux.UxDataArray(data, dims=dims, uxgrid=g, name=varname)
                tag = f"  {centre}/{fname}/name={varname}"
                res, w = attempt(tag + " diff", lambda: da.difference(destination="edge"))
                if res is not None:
                    print(tag, "diff ->", res.name, res.dims, res.uxgrid is g, w)
                    dig(tag + " diff", res.values)
                if varname is None and fname not in ("r1_f64", "r2_const"):
                    continue
                for norm in (False, True, None):
                    for mag in (True, False):
                        res, w = attempt(tag + f" grad n={norm} m={mag}",
                                         lambda: da.gradient(normalize=norm, use_magnitude=mag))
                        if res is not None:
                            print(tag, f"grad n={norm} m={mag} ->", res.name, res.dims, res.uxgrid is g, w)
                            dig(tag + " grad", res.values)
                            if norm and not np.isnan(res.values).any():
                                print("   norms", np.round(np.linalg.norm(res.values, axis=-1), 12).ravel()[:4])
        # destinations / error paths
        da = ux.UxDataArray(rng.standard_normal(n), dims=[centre], uxgrid=g, name="q")
        for dest in ("node", "face", "edge", "Edge", "", None, 3):
            res, w = attempt(f"  {centre} dest={dest!r}", lambda: da.difference(destination=dest))
            if res is not None:
                print(f"  {centre} dest={dest!r} ok", res.name, res.dims)
        res, w = attempt(f"  {centre} default-dest", lambda: da.difference())
        if res is not None:
            dig(f"  {centre} default-dest", res.values)

    # edge centred / uncentred / doubly-centred
    da = ux.UxDataArray(np.arange(g.n_edge, dtype=float), dims=["n_edge"], uxgrid=g, name="e")
    for dest in ("edge", "node", "face", "bogus"):
        attempt(f"  edge-centred dest={dest}", lambda: da.difference(destination=dest))
    attempt("  edge-centred grad", lambda: da.gradient())
    da = ux.UxDataArray(np.arange(4.0), dims=["other"], uxgrid=g, name="o")
    for dest in ("edge", "node", "face", "bogus"):
        attempt(f"  uncentred dest={dest}", lambda: da.difference(destination=dest))
    attempt("  uncentred grad", lambda: da.gradient())
    nn = min(g.n_node, 7)  # leading axis only has to be *named* n_node
    both = ux.UxDataArray(
        np.arange(nn * g.n_face, dtype=float).reshape(nn, g.n_face) ** 0.5,
        dims=["n_node", "n_face"], uxgrid=g, name="both")
    for dest in ("edge", "node", "face"):
        res, w = attempt(f"  both(node,face) dest={dest}", lambda: both.difference(destination=dest))
        if res is not None:
            print("  both(node,face)", res.name, res.dims)
            dig("  both(node,face) diff", res.values)
    res, w = attempt("  both grad", lambda: both.gradient(normalize=True))
    if res is not None:
        dig("  both grad", res.values)

# ---------------------------------------------------------------- helpers called directly
print("==== direct helper calls")
rng = np.random.default_rng(777)
nlon = rng.uniform(-180, 360, 40)
nlat = rng.uniform(-90, 90, 40)
nlon[:4] = [0.0, 180.0, -180.0, 360.0]
nlat[:4] = [90.0, -90.0, 0.0, 0.0]
en = rng.integers(0, 40, (60, 2))
en[:3] = [[0, 0], [1, 0], [2, 3]]  # coincident, antipodal, same meridian modulo 360
dig("construct_end", _construct_edge_node_distances(nlon, nlat, en))
dig("construct_end f32", _construct_edge_node_distances(nlon.astype(np.float32), nlat.astype(np.float32), en))
dig("construct_end empty", _construct_edge_node_distances(nlon, nlat, en[:0]))
ef = rng.integers(0, 40, (60, 2))
ef[::3, 1] = INT_FILL_VALUE
ef[:3] = [[0, 0], [1, 0], [2, 3]]
dig("construct_efd", _construct_edge_face_distances(nlon, nlat, ef))
ef_all = ef.copy(); ef_all[:, 1] = INT_FILL_VALUE
dig("construct_efd allbnd", _construct_edge_face_distances(nlon, nlat, ef_all))
dig("construct_efd nobnd", _construct_edge_face_distances(nlon, nlat, en))
dig("construct_efd empty", _construct_edge_face_distances(nlon, nlat, ef[:0]))
dig("construct_efd int32", _construct_edge_face_distances(nlon, nlat, np.where(ef == INT_FILL_VALUE, INT_FILL_VALUE, ef).astype(np.int64)))

for dt in (np.float64, np.float32, np.int64, np.int32, np.bool_ if False else np.uint8):
    for shape in ((40,), (2, 40), (2, 1, 3, 40), (0, 40)):
        d = (rng.standard_normal(shape) * 100).astype(dt)
        tag = f"helper {np.dtype(dt).name} {shape}"
        r, _ = attempt(tag + " efdiff", lambda: _calculate_edge_face_difference(d, ef, 60))
        if r is not None:
            dig(tag + " efdiff", r)
        r, _ = attempt(tag + " endiff", lambda: _calculate_edge_node_difference(d, en))
        if r is not None:
            dig(tag + " endiff", r)
        dist = _construct_edge_face_distances(nlon, nlat, ef)
        for norm in (False, True):
            r, _ = attempt(tag + f" grad n={norm}", lambda: _calculate_grad_on_edge_from_faces(d, ef, 60, dist, normalize=norm))
            if r is not None:
                dig(tag + f" grad n={norm}", r)
r, _ = attempt("helper allbnd grad", lambda: _calculate_grad_on_edge_from_faces(rng.standard_normal((2, 40)), ef_all, 60, np.zeros(60), normalize=True))
if r is not None:
    dig("helper allbnd grad", r)
r, _ = attempt("helper f32 distances", lambda: _calculate_grad_on_edge_from_faces(rng.standard_normal((2, 40)), ef, 60, dist.astype(np.float32), normalize=False))
if r is not None:
    dig("helper f32 distances", r)
attempt("helper wrong n_edge", lambda: _calculate_edge_face_difference(rng.standard_normal(40), ef, 59))
attempt("helper 0-d", lambda: _calculate_edge_face_difference(np.float64(3.0), ef, 60))
print("done")
