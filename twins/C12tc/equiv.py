import sys, os; sys.path.insert(0, os.getcwd())
import hashlib
import warnings
import numpy as np
import uxarray as ux

assert os.path.abspath(ux.__file__).startswith(os.path.abspath(os.getcwd()) + os.sep), ux.__file__

from uxarray.remap.utils import _remap_grid_parse
from uxarray.remap.nearest_neighbor import _nearest_neighbor
from uxarray.remap.inverse_distance_weighted import _inverse_distance_weighted_remap

M = os.path.join(os.getcwd(), "test", "meshfiles")
GRIDS = {
    "quadhex": os.path.join(M, "ugrid", "quad-hexagon", "grid.nc"),       # mixed face sizes, fill values
    "geoflow": os.path.join(M, "ugrid", "geoflow-small", "grid.nc"),
    "mpasQU": os.path.join(M, "mpas", "QU", "mesh.QU.1920km.151026.nc"),  # centres come from the file
    "csne8": os.path.join(M, "scrip", "outCSne8", "outCSne8.nc"),
    "mixedexo": os.path.join(M, "exodus", "mixed", "mixed.exo"),          # mixed face sizes
}
TRI = np.array([(0.0, 90.0), (-180, 0.0), (0.0, -90)])
KINDS = {"nodes": "n_node", "edge centers": "n_edge", "face centers": "n_face"}


def grid(name):
    if name == "tri":
        return ux.open_grid(TRI)
    return ux.open_grid(GRIDS[name])


def dig(a):
    a = np.asarray(a)
    h = hashlib.sha256(np.ascontiguousarray(a).tobytes()).hexdigest()[:16]
    return f"{a.dtype}{a.shape}:{h}"


def show(label, fn):
    with warnings.catch_warnings(record=True) as w:
        warnings.simplefilter("always")
        try:
            r = fn()
        except BaseException as e:  # noqa
            r = f"EXC {type(e).__name__}: {str(e)[:200]}"
    ws = sorted({f"{x.category.__name__}:{str(x.message)[:80]}" for x in w
                 if "uxarray" in (x.filename or "") or issubclass(x.category, UserWarning)})
    print(label, "->", r, ("| warn " + repr(ws)) if ws else "")


def field(g, dim, lead=(), dtype=np.float64, seed=0):
    n = getattr(g, dim)
    rng = np.random.default_rng(seed + n)
    return (rng.standard_normal(lead + (n,)) * 100).astype(dtype)


def uxda_result(r):
    return f"dims={r.dims} name={r.name!r} type={type(r).__name__} grid_is_dest={r.uxgrid is DEST[0]} {dig(r.values)}"


DEST = [None]

# ---- 1. accessor level: all kinds x destinations x coord types, leading dims
pairs = [("quadhex", "geoflow"), ("geoflow", "quadhex"), ("mpasQU", "csne8"),
         ("csne8", "mpasQU"), ("mixedexo", "quadhex"), ("quadhex", "quadhex"), ("mpasQU", "mpasQU")]
for sname, dname in pairs:
    for kind, dim in KINDS.items():
        for remap_to in KINDS:
            for coord_type in ("spherical", "cartesian"):
                for lead in ((), (2,), (2, 3)):
                    src = grid(sname)
                    dst = grid(dname)
                    DEST[0] = dst
                    n = getattr(src, dim)
                    data = field(src, dim, lead)
                    dims = tuple(f"d{i}" for i in range(len(lead))) + (dim,)
                    da = ux.UxDataArray(data, dims=dims, uxgrid=src, name="v")
                    tag = f"[{sname}->{dname} {kind}->{remap_to} {coord_type} lead={lead}]"
                    show("NN  " + tag, lambda: uxda_result(da.remap.nearest_neighbor(dst, remap_to, coord_type)))
                    kmax = n
                    for k, power in ((2, 2), (min(4, kmax), 1), (min(8, kmax), 6)):
                        if lead == (2, 3) and k != 2:
                            continue
                        show(f"IDW k={k} p={power} " + tag,
                             lambda: uxda_result(da.remap.inverse_distance_weighted(dst, remap_to, coord_type, power, k)))

# ---- 2. identity on own elements (value-level)
for sname in ("quadhex", "mpasQU", "geoflow"):
    for kind, dim in KINDS.items():
        for coord_type in ("spherical", "cartesian"):
            src = grid(sname)
            data = field(src, dim, (2,))
            da = ux.UxDataArray(data, dims=("t", dim), uxgrid=src, name="v")
            r = da.remap.nearest_neighbor(src, kind, coord_type)
            print(f"identity {sname} {kind} {coord_type}:", bool(np.array_equal(r.values, data)), dig(r.values))

# ---- 3. ndarray-level entry points, int and float32 data, lists, tiny grids (n_node == n_edge)
for sname, dname in (("tri", "tri"), ("tri", "quadhex"), ("quadhex", "tri"), ("geoflow", "mixedexo")):
    for coord_type in ("spherical", "cartesian"):
        for remap_to in KINDS:
            for dim in ("n_node", "n_edge", "n_face"):
                for dtype in (np.float64, np.float32, np.int64):
                    src, dst = grid(sname), grid(dname)
                    data = field(src, dim, (), dtype)
                    tag = f"[{sname}->{dname} {dim}->{remap_to} {coord_type} {np.dtype(dtype).name}]"
                    show("nn-raw " + tag, lambda: dig(_nearest_neighbor(src, dst, data, remap_to, coord_type)))
                    show("nn-raw-list " + tag, lambda: dig(_nearest_neighbor(src, dst, data.tolist(), remap_to, coord_type)))
                    show("nn-raw-2d " + tag, lambda: dig(_nearest_neighbor(src, dst, np.stack([data, data * 2]), remap_to, coord_type)))
                    for mapping in (None, "nodes", "edge centers", "face centers"):
                        show(f"nn-raw map={mapping} " + tag,
                             lambda: dig(_nearest_neighbor(src, dst, data, remap_to, coord_type, source_data_mapping=mapping)))
                    for k in (1, 2, 3, 4):
                        show(f"idw-raw k={k} " + tag,
                             lambda: dig(_inverse_distance_weighted_remap(src, dst, data, remap_to, coord_type, 2, k)))
                    show("idw-raw p=7 " + tag,
                         lambda: dig(_inverse_distance_weighted_remap(src, dst, data, remap_to, coord_type, 7, 2)))

# ---- 4. _remap_grid_parse directly incl. invalid arguments and query=False
for sname, dname in (("quadhex", "geoflow"), ("geoflow", "tri")):
    for coord_type in ("spherical", "cartesian", "Cartesian", None):
        for remap_to in ("nodes", "edge centers", "face centers", "faces", None):
            for k in (1, 3):
                for query in (True, False):
                    for mapping in (None, "edge centers", "bogus"):
                        for n_off in (0, 1):
                            src, dst = grid(sname), grid(dname)
                            data = np.arange(src.n_node + 100 * n_off, dtype=float)

                            def run():
                                r = _remap_grid_parse(data, src, dst, coord_type, remap_to, k, query, mapping)
                                if isinstance(r, tuple):
                                    return " ".join(dig(x) for x in r)
                                return dig(r)
                            show(f"parse [{sname}->{dname} ct={coord_type} to={remap_to} k={k} q={query} map={mapping} off={n_off}]", run)
                            # cache side effects: which tree is left on the source grid
                            bt = src._ball_tree
                            print("   tree:", None if bt is None else (bt._coordinates, bt.coordinate_system, bt.distance_metric, bt.reconstruct, bt._n_elements))

# ---- 5. BallTree.query directly
for sname in ("quadhex", "mpasQU"):
    for coords_kind in KINDS:
        for cs, metric, pts in (("spherical", "haversine", [[0.0, 0.0], [120.0, -45.0], [-170.0, 80.0]]),
                                ("cartesian", "minkowski", [[1.0, 0.0, 0.0], [0.0, 0.6, 0.8], [0.0, 0.0, -1.0]])):
            for npts in (1, 3):
                for k in (0, 1, 2, 10**6):
                    for rd in (True, False):
                        for in_radians in (False, True):
                            for flat in (False, True):
                                g = grid(sname)
                                t = g.get_ball_tree(coords_kind, cs, metric)
                                q = pts[0] if (flat and npts == 1) else pts[:npts]

                                def run():
                                    r = t.query(q, k=k, return_distance=rd, in_radians=in_radians)
                                    if isinstance(r, tuple):
                                        return " ".join(dig(x) for x in r)
                                    return dig(r)
                                show(f"btq [{sname} {coords_kind} {cs} n={npts} k={k} rd={rd} rad={in_radians} flat={flat}]", run)

# ---- 6. BallTree.query: remaining keyword arguments, truthy/falsy non-bool flags, switching coordinates on one tree
for sname in ("quadhex", "geoflow", "tri"):
    g = grid(sname)
    for cs, metric in (("spherical", "haversine"), ("cartesian", "minkowski"), ("spherical", "euclidean")):
        for coords_kind in ("nodes", "face centers", "edge centers", "nodes"):
            def get():
                return g.get_ball_tree(coords_kind, cs, metric)
            try:
                t = get()
            except BaseException as e:  # noqa
                print(f"bt-build [{sname} {coords_kind} {cs} {metric}] EXC {type(e).__name__}: {str(e)[:120]}")
                continue
            if cs == "spherical":
                qs = {"many": np.column_stack([np.linspace(-180, 180, 7), np.linspace(-90, 90, 7)]),
                      "one2d": [[10.0, 20.0]], "one1d": (10.0, 20.0), "xyz": [[1.0, 0.0, 0.0]], "bad": [[1.0, 2.0, 3.0, 4.0]]}
            else:
                qs = {"many": np.eye(3), "one2d": [[0.0, 0.0, 1.0]], "one1d": (0.0, 1.0, 0.0), "xy": [[1.0, 0.0]], "bad": [[1.0]]}
            for qname, q in qs.items():
                for k in (1, 2, 3):
                    for rd in (True, False, 1, 0):
                        for kw in ({}, {"dualtree": True}, {"breadth_first": True}, {"sort_results": False, "in_radians": True}):
                            def run():
                                r = t.query(q, k=k, return_distance=rd, **kw)
                                if isinstance(r, tuple):
                                    return "tuple " + " ".join(dig(x) for x in r)
                                return dig(r)
                            lab = f"btq2 [{sname} {coords_kind} {cs} {metric} q={qname} k={k} rd={rd!r} kw={sorted(kw)}]"
                            if kw.get("sort_results") is False and k > 1:
                                # unsorted neighbour order is an sklearn implementation detail; compare as sets per row
                                def run():  # noqa
                                    r = t.query(q, k=k, return_distance=rd, **kw)
                                    if isinstance(r, tuple):
                                        return "tuple " + " ".join(dig(np.sort(np.atleast_1d(x), axis=-1)) for x in r)
                                    return dig(np.sort(np.atleast_1d(r), axis=-1))
                            show(lab, run)
