import sys, os; sys.path.insert(0, os.getcwd())
import hashlib, warnings
warnings.filterwarnings("ignore")
import numpy as np, xarray as xr
import uxarray as ux
assert os.path.abspath(ux.__file__).startswith(os.path.abspath(os.getcwd()) + os.sep), ux.__file__
from uxarray.io import _mpas
from uxarray.conventions import descriptors


def dig(a):
    a = np.asarray(a)
    return f"{a.dtype} {a.shape} {hashlib.sha256(np.ascontiguousarray(a).tobytes()).hexdigest()[:16]}"


def show(tag, da):
    print(tag, da.dims, dig(da.values), sorted(da.attrs.items()), da.name)


FILES = ["test/meshfiles/mpas/QU/mesh.QU.1920km.151026.nc"]


def with_boundary(in_ds):
    """raw MPAS dataset in which every 5th edge has lost its second cell (and
    every 7th its second vertex for the dual mesh): source-supplied distances
    together with boundary edges"""
    ds = in_ds.copy(deep=True)
    coe = ds["cellsOnEdge"].values.copy()
    coe[::5, 1] = 0
    ds["cellsOnEdge"] = (ds["cellsOnEdge"].dims, coe)
    return ds


# 1. public path: distances supplied by the source, both meshes, both files
for f in FILES + ["<boundary>"]:
    for dual in (False, True):
        if f == "<boundary>":
            if dual:
                continue
            g = ux.Grid.from_dataset(with_boundary(xr.open_dataset(FILES[0])), use_dual=dual)
        else:
            g = ux.open_grid(f, use_dual=dual)
        print("==", os.path.basename(f), "dual" if dual else "primal", g.n_node, g.n_face, g.n_edge)
        for name in ("edge_node_distances", "edge_face_distances"):
            print("  cached before access:", name in g._ds)
            show("  " + name, getattr(g, name))
            print("  same object on 2nd access:", getattr(g, name).values is getattr(g, name).values)
        print("  n boundary edges:", int((g.edge_face_connectivity.values[:, 1] < 0).sum()))
        print("  first values:", repr(g.edge_node_distances.values[:4]), repr(g.edge_face_distances.values[:4]))
        # gradient / difference use the supplied table
        rng = np.random.default_rng(5)
        v = ux.UxDataArray(rng.normal(size=(2, g.n_face)), dims=["t", "n_face"], uxgrid=g, name="q")
        print("  grad", dig(v.gradient().values), "norm", dig(v.gradient(normalize=True).values),
              "diff", dig(v.difference().values))

# 2. parser level, straight from the raw dataset
for f in FILES:
    in_ds = xr.open_dataset(f)
    for mt in ("primal", "dual", "Dual", "anything-else", None):
        out = xr.Dataset()
        _mpas._parse_edge_node_distances(in_ds, out, mesh_type=mt)
        _mpas._parse_edge_face_distances(in_ds, out, mt)
        print("--", os.path.basename(f), repr(mt), list(out.data_vars))
        for name in out.data_vars:
            show("   " + name, out[name])
        print("   end == dvEdge:", np.array_equal(out["edge_node_distances"].values, in_ds["dvEdge"].values),
              " efd == dcEdge:", np.array_equal(out["edge_face_distances"].values, in_ds["dcEdge"].values))
        print("   end == dcEdge:", np.array_equal(out["edge_node_distances"].values, in_ds["dcEdge"].values),
              " efd == dvEdge:", np.array_equal(out["edge_face_distances"].values, in_ds["dvEdge"].values))
        print("   attrs are copies:", out["edge_node_distances"].attrs is not descriptors.EDGE_NODE_DISTANCES_ATTRS,
              out["edge_face_distances"].attrs is not descriptors.EDGE_FACE_DISTANCES_ATTRS)
        print("   dtype kept:", out["edge_node_distances"].dtype == in_ds["dvEdge"].dtype)

# 3. synthetic in-memory sources: odd dtypes, only one of the two variables present, aliasing
n = 7
for dt in (np.float64, np.float32, np.int32):
    dv = (np.arange(n) + 1).astype(dt)
    dc = ((np.arange(n) + 1) * 10).astype(dt)
    src = xr.Dataset({"dvEdge": (("nEdges",), dv), "dcEdge": (("nEdges",), dc)})
    for mt in ("primal", "dual"):
        out = xr.Dataset()
        _mpas._parse_edge_node_distances(src, out, mt)
        _mpas._parse_edge_face_distances(src, out, mt)
        print("syn", np.dtype(dt).name, mt, repr(out["edge_node_distances"].values), repr(out["edge_face_distances"].values))
        print("    shares memory with source dv/dc:",
              np.shares_memory(out["edge_node_distances"].values, src["dvEdge"].values),
              np.shares_memory(out["edge_node_distances"].values, src["dcEdge"].values),
              np.shares_memory(out["edge_face_distances"].values, src["dvEdge"].values),
              np.shares_memory(out["edge_face_distances"].values, src["dcEdge"].values))

only_dv = xr.Dataset({"dvEdge": (("nEdges",), np.arange(3.0))})
for fn, mt in [(_mpas._parse_edge_node_distances, "primal"), (_mpas._parse_edge_node_distances, "dual"),
               (_mpas._parse_edge_face_distances, "primal"), (_mpas._parse_edge_face_distances, "dual")]:
    out = xr.Dataset()
    try:
        fn(only_dv, out, mt)
        print("only dvEdge", fn.__name__, mt, "->", list(out.data_vars), repr(out[list(out.data_vars)[0]].values))
    except Exception as e:
        print("only dvEdge", fn.__name__, mt, "->", type(e).__name__, list(out.data_vars))

# 2-D source variable: dims mismatch error is the same
bad = xr.Dataset({"dvEdge": (("a", "b"), np.zeros((2, 2))), "dcEdge": (("a", "b"), np.zeros((2, 2)))})
for fn in (_mpas._parse_edge_node_distances, _mpas._parse_edge_face_distances):
    try:
        fn(bad, xr.Dataset(), "primal")
        print("2-D ok")
    except Exception as e:
        print("2-D", fn.__name__, type(e).__name__, str(e)[:80])

# 4. whole-encoder path with a raw dataset that lacks one of the variables
in_ds = xr.open_dataset(FILES[0])
for drop in (["dvEdge"], ["dcEdge"], ["dvEdge", "dcEdge"]):
    for dual in (False, True):
        g = ux.Grid.from_dataset(in_ds.drop_vars(drop), use_dual=dual)
        have = [k for k in ("edge_node_distances", "edge_face_distances") if k in g._ds]
        print("drop", drop, "dual" if dual else "primal", "supplied:", have)
        show("   end", g.edge_node_distances)
        show("   efd", g.edge_face_distances)
