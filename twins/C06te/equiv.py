import sys, os

sys.path.insert(0, os.getcwd())

import hashlib
import warnings

import numpy as np
import xarray as xr

import uxarray as ux
import uxarray.grid.area as area_mod

assert os.path.abspath(ux.__file__).startswith(
    os.path.abspath(os.getcwd()) + os.sep
), ux.__file__

np.set_printoptions(precision=17)


def digest(arr):
    arr = np.asarray(arr)
    return "%s %s %s" % (
        arr.dtype,
        arr.shape,
        hashlib.sha256(np.ascontiguousarray(arr).tobytes()).hexdigest()[:16],
    )


def fhex(v):
    return float(v).hex()


def show(label, fn):
    with warnings.catch_warnings(record=True) as caught:
        warnings.simplefilter("always")
        try:
            res = fn()
        except Exception as exc:  # noqa
            msg = str(exc).strip().splitlines()
            print(label, "-> EXC", type(exc).__name__, msg[0] if msg else "")
            return None
    cats = sorted({w.category.__name__ for w in caught})
    print(label, "->", res, ("warn=" + ",".join(cats)) if cats else "")
    return res


def describe(res, src):
    return (
        type(res).__name__,
        res.dims,
        res.name,
        res.uxgrid is src.uxgrid,
        digest(res.values),
        [fhex(v) for v in np.asarray(res.values, dtype=float).ravel()[:2]],
    )


MESH = os.path.join(os.getcwd(), "test", "meshfiles")
GRID_FILES = {
    "quadhex": os.path.join(MESH, "ugrid", "quad-hexagon", "grid.nc"),
    "mixed_exo": os.path.join(MESH, "exodus", "mixed", "mixed.exo"),
    "mpas": os.path.join(MESH, "mpas", "QU", "mesh.QU.1920km.151026.nc"),
    "csne8": os.path.join(MESH, "scrip", "outCSne8", "outCSne8.nc"),
}

RULES = [
    ("triangular", 4),
    ("triangular", 1),
    ("triangular", 8),
    ("triangular", 10),
    ("triangular", 12),
    ("gaussian", 1),
    ("gaussian", 2),
    ("gaussian", 4),
    ("gaussian", 7),
    ("gaussian", 10),
]

FILL = ux.INT_FILL_VALUE


def hand_grids():
    out = {}
    # tetrahedron: n_face == n_node == 4, n_edge == 6
    lon = np.array([0.0, 120.0, 240.0, 0.0])
    lat = np.array([-19.47122063449069, -19.47122063449069, -19.47122063449069, 90.0])
    conn = np.array([[0, 1, 3], [1, 2, 3], [2, 0, 3], [0, 2, 1]])
    out["tetra"] = (lon, lat, conn)
    # single triangle: n_face=1, n_node=3, n_edge=3
    out["one_tri"] = (
        np.array([0.0, 10.0, 5.0]),
        np.array([0.0, 0.0, 8.0]),
        np.array([[0, 1, 2]]),
    )
    # mixed triangle / quad / pentagon with fill values
    lon = np.array([0.0, 10.0, 10.0, 0.0, 20.0, 25.0, 20.0, 15.0])
    lat = np.array([0.0, 0.0, 10.0, 10.0, 0.0, 6.0, 12.0, 16.0])
    conn = np.array(
        [
            [0, 1, 2, 3, FILL],
            [1, 4, 2, FILL, FILL],
            [4, 5, 6, 7, 2],
        ]
    )
    out["mixed345"] = (lon, lat, conn)
    # integer-valued coordinates (int dtype -> astype(float) path)
    out["int_coords"] = (
        np.array([0, 10, 10, 0, 20], dtype=np.int64),
        np.array([0, 0, 10, 10, 5], dtype=np.int64),
        np.array([[0, 1, 2, 3], [1, 4, 2, FILL]]),
    )
    return out


def build_grids():
    grids = {}
    for name, path in GRID_FILES.items():
        grids[name] = ux.open_grid(path)
    for name, (lon, lat, conn) in hand_grids().items():
        ds = xr.Dataset(
            {
                "node_lon": (("n_node",), lon),
                "node_lat": (("n_node",), lat),
                "face_node_connectivity": (
                    ("n_face", "n_max_face_nodes"),
                    conn,
                    {"_FillValue": FILL, "start_index": 0},
                ),
            }
        )
        try:
            grids[name] = ux.Grid.from_topology(
                node_lon=lon, node_lat=lat, face_node_connectivity=conn, fill_value=FILL
            )
        except Exception:
            grids[name] = ux.Grid.from_dataset(ds)
    return grids


def make_da(grid, lead_shape, last_dim, n_last, dtype, seed, name="var"):
    rng = np.random.default_rng(seed)
    shape = tuple(lead_shape) + (n_last,)
    data = rng.normal(size=shape) * 10
    if np.dtype(dtype) == np.bool_:
        data = data > 0
    else:
        data = data.astype(dtype)
    dims = ["time", "lev", "ens"][: len(lead_shape)] + [last_dim]
    return ux.UxDataArray(data, dims=dims, name=name, uxgrid=grid)


def section_integrate(grids):
    print("## integrate")
    for gname, grid in grids.items():
        nf, nn, ne = grid.n_face, grid.n_node, grid.n_edge
        print("# grid", gname, nf, nn, ne)
        for rule, order in RULES:
            da = make_da(grid, (2,), "n_face", nf, np.float64, 1)
            show(
                f"{gname} {rule}/{order} rank2",
                lambda: describe(da.integrate(quadrature_rule=rule, order=order), da),
            )
            show(
                f"{gname} {rule}/{order} total",
                lambda: fhex(grid.calculate_total_face_area(rule, order)),
            )
        for lead in [(), (3,), (2, 3), (2, 1, 2)]:
            for dtype in [np.float64, np.float32, np.int32, np.bool_]:
                da = make_da(grid, lead, "n_face", nf, dtype, 7 + len(lead), name="psi")
                show(
                    f"{gname} lead={lead} {np.dtype(dtype).name}",
                    lambda: describe(da.integrate(), da),
                )
        # positional arguments, default arguments
        da = make_da(grid, (2,), "n_face", nf, np.float64, 3, name=None)
        show(f"{gname} positional", lambda: describe(da.integrate("gaussian", 3), da))
        show(f"{gname} order kw only", lambda: describe(da.integrate(order=1), da))
        # ones -> total area
        ones = ux.UxDataArray(np.ones(nf), dims=["n_face"], name="one", uxgrid=grid)
        show(f"{gname} ones", lambda: describe(ones.integrate(), ones))
        # linearity
        a = make_da(grid, (2,), "n_face", nf, np.float64, 11)
        b = make_da(grid, (2,), "n_face", nf, np.float64, 12)
        show(
            f"{gname} linear",
            lambda: (
                digest((2.0 * a).integrate().values),
                digest((a + b).integrate().values),
            ),
        )
        # independent weighted sum
        show(
            f"{gname} indep",
            lambda: bool(
                np.allclose(
                    a.integrate().values,
                    (a.values * grid.compute_face_areas()[0]).sum(axis=-1),
                    rtol=1e-12,
                    atol=0,
                )
            ),
        )
        # rejections
        nd = make_da(grid, (2,), "n_node", nn, np.float64, 5)
        ed = make_da(grid, (2,), "n_edge", ne, np.float64, 5)
        show(f"{gname} node", lambda: describe(nd.integrate(), nd))
        show(f"{gname} edge", lambda: describe(ed.integrate(), ed))
        show(
            f"{gname} node gaussian",
            lambda: describe(nd.integrate("gaussian", 2), nd),
        )
        other = make_da(grid, (2,), "foo", nf, np.float64, 5)
        show(f"{gname} misnamed", lambda: describe(other.integrate(), other))
        other = make_da(grid, (2,), "foo", nf + 1, np.float64, 5)
        show(f"{gname} wrong size", lambda: describe(other.integrate(), other))
        notlast = ux.UxDataArray(
            np.arange(nf * 2.0).reshape(nf, 2), dims=["n_face", "time"], uxgrid=grid
        )
        show(f"{gname} face not last", lambda: describe(notlast.integrate(), notlast))
        nodeface = ux.UxDataArray(
            np.arange(nn * nf * 1.0).reshape(nn, nf),
            dims=["n_node", "n_face"],
            uxgrid=grid,
        )
        show(f"{gname} node x face", lambda: describe(nodeface.integrate(), nodeface))
        facenode = ux.UxDataArray(
            np.arange(nn * nf * 1.0).reshape(nf, nn),
            dims=["n_face", "n_node"],
            uxgrid=grid,
        )
        show(f"{gname} face x node", lambda: describe(facenode.integrate(), facenode))
        edgenode = ux.UxDataArray(
            np.arange(nn * ne * 1.0).reshape(ne, nn),
            dims=["n_edge", "n_node"],
            uxgrid=grid,
        )
        show(f"{gname} edge x node", lambda: describe(edgenode.integrate(), edgenode))
        scalar = ux.UxDataArray(np.float64(3.0), uxgrid=grid)
        show(f"{gname} 0-d", lambda: describe(scalar.integrate(), scalar))
        fd = make_da(grid, (), "n_face", nf, np.float64, 5)
        show(f"{gname} bad rule", lambda: describe(fd.integrate("simpson", 4), fd))
        # predicates
        for tag, arr in [
            ("face", fd),
            ("node", nd),
            ("edge", ed),
            ("scalar", scalar),
            ("nodeface", nodeface),
        ]:
            print(
                f"{gname} centered {tag}",
                arr._face_centered(),
                arr._node_centered(),
                arr._edge_centered(),
                type(arr._face_centered()).__name__,
            )


def section_cache(grids):
    print("## caching / aliasing")
    for gname in ["quadhex", "mixed345", "tetra"]:
        grid = grids[gname]
        da = make_da(grid, (2,), "n_face", grid.n_face, np.float64, 21)
        r1 = da.integrate("gaussian", 5)
        a1, j1 = grid._face_areas, grid._face_jacobian
        print(gname, "after gaussian5", digest(a1), digest(j1), digest(r1.values))
        r2 = da.integrate()
        a2, j2 = grid._face_areas, grid._face_jacobian
        print(
            gname,
            "after default",
            digest(a2),
            digest(j2),
            digest(r2.values),
            a2 is a1,
            j2 is j1,
        )
        print(gname, "face_areas in ds before", "face_areas" in grid._ds)
        fa = grid.face_areas
        print(
            gname,
            "face_areas prop",
            digest(fa.values),
            fa.dims,
            dict(fa.attrs),
            np.shares_memory(fa.values, grid._face_areas),
        )
        r3 = da.integrate("triangular", 1)
        print(
            gname,
            "after tri1",
            digest(grid._face_areas),
            digest(grid.face_areas.values),
            digest(grid.face_jacobian),
            digest(r3.values),
        )
        print(gname, "data untouched", digest(da.values))
        res = grid.compute_face_areas("gaussian", 3)
        print(
            gname,
            "compute returns cache",
            res[0] is grid._face_areas,
            res[1] is grid._face_jacobian,
            digest(res[0]),
            digest(res[1]),
        )
        show(
            f"{gname} cartesian",
            lambda: tuple(
                digest(v) for v in grid.compute_face_areas("gaussian", 3, latlon=False)
            ),
        )


def section_dataset(grids):
    print("## Dataset.integrate")
    for gname in ["quadhex", "mixed345", "tetra", "csne8"]:
        grid = grids[gname]
        nf, nn = grid.n_face, grid.n_node
        a = make_da(grid, (), "n_face", nf, np.float64, 31, name="a")
        b = make_da(grid, (), "n_face", nf, np.float32, 32, name="b")
        nodev = make_da(grid, (), "n_node", nn, np.float64, 33, name="nodev")
        m = ux.UxDataArray(
            np.arange(nf * 3.0).reshape(nf, 3), dims=["n_face", "k"], name="m", uxgrid=grid
        )
        t = make_da(grid, (2,), "n_face", nf, np.float64, 34, name="t")
        for tag, variables in [
            ("single", {"a": a}),
            ("two", {"a": a, "b": b}),
            ("two rev", {"b": b, "a": a}),
            ("face-first 2d", {"m": m}),
            ("time x face", {"t": t}),
            ("node", {"nodev": nodev}),
            ("empty", {}),
        ]:
            uxds = ux.UxDataset(variables, uxgrid=grid)

            def run(rule=None, order=None):
                if rule is None:
                    r = uxds.integrate()
                else:
                    r = uxds.integrate(rule, order)
                return type(r).__name__, digest(r), fhex(np.ravel(r)[0])

            show(f"{gname} ds {tag}", run)
            show(f"{gname} ds {tag} gaussian3", lambda: run("gaussian", 3))
            show(
                f"{gname} ds {tag} kw",
                lambda: digest(uxds.integrate(order=1, quadrature_rule="triangular")),
            )
        print(gname, "cache after ds", digest(grid._face_areas))


def section_kernels():
    print("## njit kernels")
    rng = np.random.default_rng(5)
    n1 = np.array([1.0, 0.0, 0.0])
    n2 = np.array([0.0, 1.0, 0.0])
    n3 = np.array([0.0, 0.0, 1.0])
    tris = [(n1, n2, n3)]
    for _ in range(6):
        p = rng.normal(size=(3, 3))
        p /= np.linalg.norm(p, axis=1)[:, None]
        tris.append((p[0], p[1], p[2]))
    # degenerate / tiny / unnormalised triangles
    tris.append((n1, n1, n2))
    tris.append((n1, n1 + 1e-9 * n2, n1 + 1e-9 * n3))
    tris.append((2.0 * n1, 3.0 * n2, 0.5 * n3))
    tris.append((n1, -n1, n2))
    for k, (a, b, c) in enumerate(tris):
        for dA, dB in [(0.0, 0.0), (0.25, 0.5), (1.0, 1.0), (0.3333333333333333, 0.3333333333333333), (0.9, 0.05)]:
            with np.errstate(all="ignore"):
                j1 = area_mod.calculate_spherical_triangle_jacobian(a, b, c, dA, dB)
                j2 = area_mod.calculate_spherical_triangle_jacobian_barycentric(
                    a, b, c, dA, dB
                )
            print("jac", k, dA, dB, fhex(j1), fhex(j2), type(j1).__name__, type(j2).__name__)
        print("inputs untouched", digest(a), digest(b), digest(c))
    # float32 nodes
    a32, b32, c32 = (v.astype(np.float32) for v in tris[1])
    print(
        "jac f32",
        fhex(area_mod.calculate_spherical_triangle_jacobian(a32, b32, c32, 0.25, 0.5)),
        fhex(
            area_mod.calculate_spherical_triangle_jacobian_barycentric(
                a32, b32, c32, 0.25, 0.5
            )
        ),
    )
    # python lists / tuples as nodes
    show(
        "jac tuple",
        lambda: (
            fhex(
                area_mod.calculate_spherical_triangle_jacobian(
                    (1.0, 0.0, 0.0), (0.0, 1.0, 0.0), (0.0, 0.0, 1.0), 0.2, 0.3
                )
            ),
            fhex(
                area_mod.calculate_spherical_triangle_jacobian_barycentric(
                    (1.0, 0.0, 0.0), (0.0, 1.0, 0.0), (0.0, 0.0, 1.0), 0.2, 0.3
                )
            ),
        ),
    )

    # calculate_face_area: polygons of 0..7 nodes, both coordinate types
    polys = {}
    for n in range(0, 8):
        ang = np.linspace(0.0, 360.0, n, endpoint=False)
        lon = 30.0 + 12.0 * np.cos(np.deg2rad(ang))
        lat = 20.0 + 9.0 * np.sin(np.deg2rad(ang))
        polys[n] = (lon, lat)
    for n, (lon, lat) in polys.items():
        z = np.zeros(n)
        lonr, latr = np.deg2rad(lon), np.deg2rad(lat)
        cx, cy, cz = np.cos(latr) * np.cos(lonr), np.cos(latr) * np.sin(lonr), np.sin(latr)
        for rule, order in RULES:
            show(
                f"face_area sph n={n} {rule}/{order}",
                lambda: tuple(
                    fhex(v)
                    for v in area_mod.calculate_face_area(lon, lat, z, rule, order, "spherical")
                ),
            )
            show(
                f"face_area cart n={n} {rule}/{order}",
                lambda: tuple(
                    fhex(v)
                    for v in area_mod.calculate_face_area(cx, cy, cz, rule, order, "cartesian")
                ),
            )
        show(
            f"face_area defaults n={n}",
            lambda: tuple(fhex(v) for v in area_mod.calculate_face_area(lon, lat, z)),
        )
        show(
            f"face_area kw n={n}",
            lambda: tuple(
                fhex(v)
                for v in area_mod.calculate_face_area(
                    cx, cy, cz, coords_type="cartesian", order=2, quadrature_rule="gaussian"
                )
            ),
        )
        show(
            f"face_area other coords_type n={n}",
            lambda: tuple(
                fhex(v)
                for v in area_mod.calculate_face_area(cx, cy, cz, "triangular", 4, "xyz")
            ),
        )
    lon, lat = polys[4]
    z = np.zeros(4)
    show(
        "face_area bad rule",
        lambda: area_mod.calculate_face_area(lon, lat, z, "simpson", 4, "spherical"),
    )
    # clockwise polygon, pole-touching, antimeridian-crossing
    show(
        "face_area clockwise",
        lambda: tuple(
            fhex(v)
            for v in area_mod.calculate_face_area(lon[::-1].copy(), lat[::-1].copy(), z)
        ),
    )
    plon = np.array([0.0, 90.0, 180.0, 270.0])
    plat = np.array([80.0, 80.0, 80.0, 80.0])
    show(
        "face_area polar cap",
        lambda: tuple(
            fhex(v) for v in area_mod.calculate_face_area(plon, plat, z, "gaussian", 6)
        ),
    )
    alon = np.array([175.0, -175.0, -175.0, 175.0])
    alat = np.array([-5.0, -5.0, 5.0, 5.0])
    show(
        "face_area antimeridian",
        lambda: tuple(fhex(v) for v in area_mod.calculate_face_area(alon, alat, z)),
    )
    nlon = np.array([0.0, 10.0, np.nan])
    nlat = np.array([0.0, 0.0, 10.0])
    show(
        "face_area nan",
        lambda: tuple(
            fhex(v) for v in area_mod.calculate_face_area(nlon, nlat, np.zeros(3))
        ),
    )
    # quadrature tables
    for n in range(1, 11):
        dG, dW = area_mod.get_gauss_quadratureDG(n)
        print("gauss", n, digest(dG), digest(dW))
    for n in (1, 4, 8, 10, 12):
        dG, dW = area_mod.get_tri_quadratureDG(n)
        print("tri", n, digest(dG), digest(dW))

    # all-face kernel
    lon = np.array([0.0, 10.0, 10.0, 0.0, 20.0, 25.0, 20.0, 15.0])
    lat = np.array([0.0, 0.0, 10.0, 10.0, 0.0, 6.0, 12.0, 16.0])
    conn = np.array([[0, 1, 2, 3, FILL], [1, 4, 2, FILL, FILL], [4, 5, 6, 7, 2]])
    nper = np.array([4, 3, 5])
    for rule, order in RULES:
        a, j = area_mod.get_all_face_area_from_coords(
            lon, lat, np.zeros(8), conn, nper, 2, rule, order, "spherical"
        )
        print("all_faces", rule, order, digest(a), digest(j), [fhex(v) for v in a])


def section_jacobian_extra():
    print("## jacobian kernels, extra")
    rng = np.random.default_rng(99)
    for dtype in (np.float64, np.float32):
        vals1, vals2 = [], []
        for _ in range(200):
            p = rng.normal(size=(3, 3))
            p /= np.linalg.norm(p, axis=1)[:, None]
            p = p.astype(dtype)
            dA, dB = rng.uniform(size=2)
            vals1.append(
                area_mod.calculate_spherical_triangle_jacobian(p[0], p[1], p[2], dA, dB)
            )
            vals2.append(
                area_mod.calculate_spherical_triangle_jacobian_barycentric(
                    p[0], p[1], p[2], dA, dB
                )
            )
        print("random", np.dtype(dtype).name, digest(np.array(vals1)), digest(np.array(vals2)))
    # integer-valued nodes, non-contiguous views, float32 quadrature points
    i1, i2, i3 = np.array([1, 0, 0]), np.array([0, 2, 0]), np.array([0, 0, 3])
    show(
        "int nodes",
        lambda: (
            fhex(area_mod.calculate_spherical_triangle_jacobian(i1, i2, i3, 0.25, 0.5)),
            fhex(
                area_mod.calculate_spherical_triangle_jacobian_barycentric(
                    i1, i2, i3, 0.25, 0.5
                )
            ),
        ),
    )
    big = rng.normal(size=(3, 6))
    v1, v2, v3 = big[0, ::2], big[1, ::2], big[2, ::2]
    show(
        "strided nodes",
        lambda: (
            fhex(area_mod.calculate_spherical_triangle_jacobian(v1, v2, v3, 0.1, 0.7)),
            fhex(
                area_mod.calculate_spherical_triangle_jacobian_barycentric(
                    v1, v2, v3, 0.1, 0.7
                )
            ),
        ),
    )
    show(
        "f32 points",
        lambda: (
            fhex(
                area_mod.calculate_spherical_triangle_jacobian(
                    v1, v2, v3, np.float32(0.1), np.float32(0.7)
                )
            ),
            fhex(
                area_mod.calculate_spherical_triangle_jacobian_barycentric(
                    v1, v2, v3, np.float32(0.1), np.float32(0.7)
                )
            ),
        ),
    )
    zero = np.zeros(3)
    with np.errstate(all="ignore"):
        show(
            "zero nodes",
            lambda: (
                fhex(area_mod.calculate_spherical_triangle_jacobian(zero, zero, zero, 0.1, 0.7)),
                fhex(
                    area_mod.calculate_spherical_triangle_jacobian_barycentric(
                        zero, zero, zero, 0.1, 0.7
                    )
                ),
            ),
        )
    show(
        "short nodes",
        lambda: area_mod.calculate_spherical_triangle_jacobian(
            "abc", v2, v3, 0.1, 0.7
        ),
    )
    # every quadrature point of every table on one fixed triangle
    a, b, c = (big[k, :3] / np.linalg.norm(big[k, :3]) for k in range(3))
    for n in range(1, 11):
        dG, dW = area_mod.get_gauss_quadratureDG(n)
        vals = [
            area_mod.calculate_spherical_triangle_jacobian(a, b, c, dG[0][p], dG[0][q])
            for p in range(n)
            for q in range(n)
        ]
        print("gauss pts", n, digest(np.array(vals)))
    for n in (1, 4, 8, 10, 12):
        dG, dW = area_mod.get_tri_quadratureDG(n)
        vals = [
            area_mod.calculate_spherical_triangle_jacobian_barycentric(
                a, b, c, dG[p][0], dG[p][1]
            )
            for p in range(len(dW))
        ]
        print("tri pts", n, digest(np.array(vals)))
    print("inputs untouched", digest(a), digest(b), digest(c), digest(big))


if __name__ == "__main__":
    grids = build_grids()
    section_integrate(grids)
    section_cache(grids)
    section_dataset(grids)
    section_kernels()
    section_jacobian_extra()
    print("done")
