import sys, os
sys.path.insert(0, os.getcwd())
import hashlib
import warnings
import numpy as np
import uxarray
assert os.path.abspath(uxarray.__file__).startswith(os.path.abspath(os.getcwd()) + os.sep), uxarray.__file__

from uxarray.grid.arcs import (
    point_within_gca,
    extreme_gca_latitude,
    _point_within_gca_body,
    _decide_pole_latitude,
    in_between,
)
from uxarray.grid.intersections import gca_gca_intersection
from uxarray.grid.utils import _angle_of_2_vectors


def ll(lon_deg, lat_deg):
    lon, lat = np.deg2rad(lon_deg), np.deg2rad(lat_deg)
    return np.array([np.cos(lat) * np.cos(lon), np.cos(lat) * np.sin(lon), np.sin(lat)])


def unit(v):
    v = np.asarray(v, dtype=float)
    return v / np.linalg.norm(v)


def fmt(x):
    """Exact, type-revealing rendering."""
    if isinstance(x, np.ndarray):
        flat = [float(t).hex() for t in x.ravel()] if x.dtype.kind == "f" else x.ravel().tolist()
        return f"ndarray(shape={x.shape},dtype={x.dtype},{flat})"
    if isinstance(x, (bool, np.bool_)):
        return f"{type(x).__name__}:{bool(x)}"
    if isinstance(x, (float, np.floating)):
        return f"{type(x).__name__}:{float(x).hex()}"
    return f"{type(x).__name__}:{x!r}"


LINES = []


def emit(tag, fn, *args, **kw):
    with warnings.catch_warnings(record=True) as rec:
        warnings.simplefilter("always")
        with np.errstate(all="warn"):
            try:
                out = fmt(fn(*args, **kw))
            except Exception as e:  # noqa
                out = f"EXC {type(e).__name__}: {e}"
    ws = sorted(f"{w.category.__name__}|{w.message}" for w in rec)
    line = f"{tag} -> {out} W={ws}"
    LINES.append(line)


# ----------------------------------------------------------------- arcs
named_arcs = {
    "generic": (ll(10, 20), ll(60, 40)),
    "generic_south": (ll(200, -50), ll(250, -10)),
    "equator": (ll(10, 0), ll(100, 0)),
    "equator_exact": (np.array([1.0, 0.0, 0.0]), np.array([0.0, 1.0, 0.0])),
    "meridian": (ll(30, -20), ll(30, 50)),
    "meridian0": (np.array([1.0, 0.0, 0.0]), unit([1.0, 0.0, 1.0])),
    "antimeridian": (ll(350, 10), ll(20, 30)),
    "antimeridian_rev": (ll(20, 30), ll(350, 10)),
    "antimeridian_south": (ll(170, -40), ll(-170, -35)),
    "through_npole": (ll(40, 60), ll(220, 70)),
    "through_spole": (ll(40, -60), ll(220, -70)),
    "through_pole_mixed_n": (ll(0, 80), ll(180, -20)),
    "through_pole_mixed_s": (ll(0, -80), ll(180, 20)),
    "through_npole_exact": (unit([1.0, 0.0, 1.0]), unit([-1.0, 0.0, 1.0])),
    "endpoint_npole": (np.array([0.0, 0.0, 1.0]), ll(75, 30)),
    "endpoint_spole": (ll(75, -30), np.array([0.0, 0.0, -1.0])),
    "endpoint_npole_cross_eq": (np.array([0.0, 0.0, 1.0]), ll(300, -30)),
    "near_pole": (ll(10, 89.9), ll(150, 89.5)),
    "long_arc": (ll(0, 10), ll(175, 12)),
    "wide_lon": (ll(5, 70), ll(190, 60)),
    "tiny": (ll(100, 45), ll(100.001, 45.001)),
    "antipodal": (ll(10, 20), -ll(10, 20)),
    "antipodal_eq": (np.array([1.0, 0.0, 0.0]), np.array([-1.0, 0.0, 0.0])),
    "not_unit": (2.5 * ll(10, 20), 0.5 * ll(60, 40)),
    "symmetric_z": (ll(10, 30), ll(100, -30)),
    "same_lat": (ll(10, 45), ll(100, 45)),
}

rng = np.random.default_rng(20240914)
for i in range(60):
    a = unit(rng.normal(size=3))
    b = unit(rng.normal(size=3))
    named_arcs[f"rand{i:02d}"] = (a, b)
# rotations about the polar axis of one arc, to sweep the longitude branches
for k, rot in enumerate(np.linspace(0, 360, 25)):
    named_arcs[f"rot{k:02d}"] = (ll(10 + rot, -15), ll(95 + rot, 55))
    named_arcs[f"rotpole{k:02d}"] = (ll(rot, 65), ll(rot + 180, 50))


def arc_points(a, b):
    """Query points: on the arc, on the great circle beyond the ends, off the plane, poles, endpoints."""
    pts = {}
    for t in (0.0, 0.25, 0.5, 0.9, 1.0):
        s = (1 - t) * a + t * b
        n = np.linalg.norm(s)
        if n > 1e-12:
            pts[f"on{t}"] = s / n
    for t in (-0.3, 1.4):
        s = (1 - t) * a + t * b
        n = np.linalg.norm(s)
        if n > 1e-12:
            pts[f"ext{t}"] = s / n
            pts[f"extneg{t}"] = -s / n
    nrm = np.cross(a, b)
    if np.linalg.norm(nrm) > 1e-12:
        nrm = nrm / np.linalg.norm(nrm)
        mid = unit(a + b) if np.linalg.norm(a + b) > 1e-12 else a
        pts["off_small"] = unit(mid + 1e-6 * nrm)
        pts["off_big"] = unit(mid + 0.2 * nrm)
        pts["normal"] = nrm
    pts["npole"] = np.array([0.0, 0.0, 1.0])
    pts["spole"] = np.array([0.0, 0.0, -1.0])
    pts["x"] = np.array([1.0, 0.0, 0.0])
    pts["anti_a"] = -a
    return pts


for name, (a, b) in named_arcs.items():
    emit(f"angle[{name}]", _angle_of_2_vectors, a, b)
    for et in ("max", "min", "MAX", "Min"):
        emit(f"extreme[{name},{et}]", extreme_gca_latitude, np.array([a, b]), et)
        emit(f"extreme_swapped[{name},{et}]", extreme_gca_latitude, np.array([b, a]), et)
    emit(f"extreme_tuple[{name}]", extreme_gca_latitude, (a, b), "max")
    emit(f"extreme_list[{name}]", extreme_gca_latitude, [a.tolist(), b.tolist()], "min")
    for pname, p in arc_points(a, b).items():
        for directed in (False, True):
            emit(f"pwg[{name},{pname},dir={directed}]", point_within_gca, p, np.array([a, b]), directed)
            emit(f"pwg_swapped[{name},{pname},dir={directed}]", point_within_gca, p, np.array([b, a]), directed)
        emit(f"pwg_list[{name},{pname}]", point_within_gca, p, [a, b])

emit("extreme[bad_type]", extreme_gca_latitude, np.array([ll(1, 2), ll(30, 40)]), "mean")
emit("extreme[empty_type]", extreme_gca_latitude, np.array([ll(1, 2), ll(30, 40)]), "")
emit("extreme[nonstr_type]", extreme_gca_latitude, np.array([ll(1, 2), ll(30, 40)]), 3)
emit("extreme[identical]", extreme_gca_latitude, np.array([ll(1, 2), ll(1, 2)]), "max")
emit("extreme[three_rows]", extreme_gca_latitude, np.array([ll(1, 2), ll(3, 4), ll(5, 6)]), "max")
emit("extreme[float32]", extreme_gca_latitude, np.array([ll(1, 2), ll(30, 40)], dtype=np.float32), "max")

for lat1 in (-1.5, -0.3, 0.0, 0.3, 1.5):
    for lat2 in (-1.2, -0.1, 0.0, 0.4, 1.57):
        emit(f"decide_pole[{lat1},{lat2}]", _decide_pole_latitude, lat1, lat2)
emit("in_between[1,2,3]", in_between, 1.0, 2.0, 3.0)
emit("in_between[3,2,1]", in_between, 3.0, 2.0, 1.0)
emit("in_between[1,4,3]", in_between, 1.0, 4.0, 3.0)

# direct calls to the jitted body with hand-made lon/lat (is_directed both ways)
body_cases = [
    (ll(40, 60), ll(220, 70), ll(40, 80)),
    (ll(40, 60), ll(220, 70), np.array([0.0, 0.0, 1.0])),
    (ll(0, 80), ll(180, -20), ll(180, 30)),
    (np.array([0.0, 0.0, 1.0]), ll(75, 30), ll(75, 60)),
    (np.array([0.0, 0.0, 1.0]), ll(75, 30), ll(76, 60)),
    (ll(350, 10), ll(20, 30), unit(ll(350, 10) + ll(20, 30))),
]
from uxarray.grid.coordinates import _xyz_to_lonlat_rad_scalar


def body(a, b, p, directed):
    g = np.array([a, b])
    la = np.array(_xyz_to_lonlat_rad_scalar(a[0], a[1], a[2], normalize=False))
    lb = np.array(_xyz_to_lonlat_rad_scalar(b[0], b[1], b[2], normalize=False))
    lp = np.array(_xyz_to_lonlat_rad_scalar(p[0], p[1], p[2], normalize=False))
    r = _point_within_gca_body(_angle_of_2_vectors(a, b), g, p, la, lb, lp, directed)
    return np.array([float(r), *la, *lb, *lp])


for i, (a, b, p) in enumerate(body_cases):
    for directed in (False, True):
        emit(f"body[{i},dir={directed}]", body, a, b, p, directed)

# pole-branch sweep: arcs lying exactly in the xz- and yz-planes (longitude span exactly pi,
# plane test passes exactly), endpoints/points at and next to the poles
def in_plane(lat_deg, side, plane):
    lat = np.deg2rad(lat_deg)
    c, s_ = side * np.cos(lat), np.sin(lat)
    return np.array([c, 0.0, s_]) if plane == "xz" else np.array([0.0, c, s_])


sweep_lats = [-90.0, -90.0 + 1e-7, -89.0, -45.0, -1e-9, 0.0, 1e-9, 30.0, 60.0, 89.999999, 90.0 - 1e-10, 90.0]
for plane in ("xz", "yz"):
    for la in sweep_lats:
        for lb in sweep_lats:
            for side_b in (-1.0, 1.0):
                a = in_plane(la, 1.0, plane)
                b = in_plane(lb, side_b, plane)
                for lp in (-90.0, -60.0, 0.0, 45.0, 75.0, 90.0 - 1e-9, 90.0):
                    for side_p in (-1.0, 1.0):
                        p = in_plane(lp, side_p, plane)
                        for directed in (False, True):
                            emit(
                                f"pole_sweep[{plane},{la},{lb},{side_b},{lp},{side_p},dir={directed}]",
                                point_within_gca, p, np.array([a, b]), directed,
                            )
                            emit(
                                f"pole_sweep_body[{plane},{la},{lb},{side_b},{lp},{side_p},dir={directed}]",
                                body, a, b, p, directed,
                            )

# ----------------------------------------------------------------- intersections
pairs = {
    "cross_generic": (named_arcs["generic"], (ll(30, 10), ll(40, 60))),
    "disjoint": (named_arcs["generic"], (ll(200, -10), ll(240, -60))),
    "cross_equator_meridian": (named_arcs["equator"], named_arcs["meridian"]),
    "cross_exact_axes": (
        (np.array([1.0, 0.0, 0.0]), np.array([0.0, 1.0, 0.0])),
        (unit([1.0, 1.0, 1.0]), unit([1.0, 1.0, -1.0])),
    ),
    "cross_antimeridian": (named_arcs["antimeridian"], (ll(5, -10), ll(5, 60))),
    "cross_at_pole": (named_arcs["through_npole"], (ll(130, 60), ll(310, 70))),
    "cross_pole_endpoint": (named_arcs["endpoint_npole"], named_arcs["through_npole"]),
    "shared_endpoint": ((ll(10, 20), ll(60, 40)), (ll(60, 40), ll(90, -10))),
    "touch_T": ((ll(10, 0), ll(100, 0)), (ll(50, 0), ll(50, 40))),
    "parallel_overlap": ((ll(10, 0), ll(100, 0)), (ll(50, 0), ll(150, 0))),
    "parallel_contained": ((ll(10, 0), ll(100, 0)), (ll(30, 0), ll(60, 0))),
    "parallel_disjoint": ((ll(10, 0), ll(60, 0)), (ll(100, 0), ll(150, 0))),
    "parallel_identical": (named_arcs["generic"], named_arcs["generic"]),
    "parallel_reversed": (named_arcs["generic"], named_arcs["generic"][::-1]),
    "parallel_meridian": ((ll(30, -20), ll(30, 50)), (ll(30, 10), ll(30, 80))),
    "antipodal_first": (named_arcs["antipodal"], named_arcs["equator"]),
    "antipodal_second": (named_arcs["equator"], named_arcs["antipodal_eq"]),
    "not_unit": (named_arcs["not_unit"], (3.0 * ll(30, 10), 0.1 * ll(40, 60))),
    "near_miss": ((ll(10, 0), ll(100, 0)), (ll(50, 1e-7), ll(50, 40))),
}
for i in range(60):
    g1 = (unit(rng.normal(size=3)), unit(rng.normal(size=3)))
    g2 = (unit(rng.normal(size=3)), unit(rng.normal(size=3)))
    pairs[f"rand{i:02d}"] = (g1, g2)
for i in range(40):
    # guaranteed crossings: two arcs through a common interior point
    c = unit(rng.normal(size=3))
    d1 = unit(np.cross(c, rng.normal(size=3)))
    d2 = unit(np.cross(c, rng.normal(size=3)))
    s1, s2 = rng.uniform(0.05, 1.2, size=2)
    g1 = (unit(c - s1 * d1), unit(c + s2 * d1))
    g2 = (unit(c - s2 * d2), unit(c + s1 * d2))
    pairs[f"crossing{i:02d}"] = (g1, g2)

for name, (g1, g2) in pairs.items():
    A, B = np.array(g1), np.array(g2)
    emit(f"ggi[{name}]", gca_gca_intersection, A, B)
    emit(f"ggi_swapped_arcs[{name}]", gca_gca_intersection, B, A)
    emit(f"ggi_swapped_ends[{name}]", gca_gca_intersection, A[::-1], B)
    emit(f"ggi_lists[{name}]", gca_gca_intersection, [list(map(float, g1[0])), list(map(float, g1[1]))], B.tolist())
    emit(f"ggi_fma[{name}]", gca_gca_intersection, A, B, fma_disabled=False)

emit("ggi[bad_shape_2d]", gca_gca_intersection, np.array([[1.0, 0.0], [0.0, 1.0]]), np.array([ll(1, 2), ll(3, 4)]))
emit("ggi[bad_shape_second]", gca_gca_intersection, np.array([ll(1, 2), ll(3, 4)]), np.array([[1.0, 0.0], [0.0, 1.0]]))
emit("ggi[one_d]", gca_gca_intersection, np.array([1.0, 0.0, 0.0]), np.array([ll(1, 2), ll(3, 4)]))
emit("ggi[three_rows]", gca_gca_intersection, np.array([ll(1, 2), ll(3, 4), ll(5, 6)]), np.array([ll(1, 2), ll(3, 4)]))

# aliasing: results must be fresh arrays, inputs untouched
A = np.array(pairs["cross_generic"][0]); B = np.array(pairs["cross_generic"][1])
A0, B0 = A.copy(), B.copy()
r = gca_gca_intersection(A, B)
LINES.append(f"alias: shares={np.shares_memory(r, A) or np.shares_memory(r, B)} inputs_same={np.array_equal(A, A0) and np.array_equal(B, B0)}")
P = np.array(pairs["parallel_overlap"][0]); Q = np.array(pairs["parallel_overlap"][1])
r = gca_gca_intersection(P, Q)
LINES.append(f"alias_parallel: shares={np.shares_memory(r, P) or np.shares_memory(r, Q)} {fmt(r)}")
pt = ll(40, 80).copy(); pt0 = pt.copy(); G = np.array(named_arcs["through_npole"]); G0 = G.copy()
point_within_gca(pt, G)
LINES.append(f"pwg_inputs_untouched={np.array_equal(pt, pt0) and np.array_equal(G, G0)}")

for line in LINES:
    print(line)
print("n_lines", len(LINES))
print("sha256", hashlib.sha256("\n".join(LINES).encode()).hexdigest())
