import sys, os

sys.path.insert(0, os.getcwd())

import hashlib
import warnings

import numpy as np

import uxarray

assert os.path.abspath(uxarray.__file__).startswith(os.path.abspath(os.getcwd()) + os.sep), uxarray.__file__

from uxarray.grid.intersections import gca_gca_intersection


def ll(lon_deg, lat_deg):
    lon, lat = np.deg2rad(lon_deg), np.deg2rad(lat_deg)
    return np.array([np.cos(lon) * np.cos(lat), np.sin(lon) * np.cos(lat), np.sin(lat)])


def digest(a):
    a = np.asarray(a)
    return "%s %s %s" % (a.dtype, a.shape, hashlib.sha1(np.ascontiguousarray(a).tobytes()).hexdigest()[:16])


def run(label, g1, g2, **kw):
    with warnings.catch_warnings(record=True) as rec:
        warnings.simplefilter("always")
        try:
            out = gca_gca_intersection(g1, g2, **kw)
            res = "OK type=%s %s repr=%r" % (type(out).__name__, digest(out), out.tolist())
        except Exception as e:  # noqa
            res = "EXC %s: %s" % (type(e).__name__, (str(e).splitlines() or [""])[0])
    ws = [(w.category.__name__, str(w.message)) for w in rec]
    print(label, "|", res, "| warnings:", ws)


cases = {
    "crossing_equator_meridian": ([ll(-10, 0), ll(10, 0)], [ll(0, -10), ll(0, 10)]),
    "crossing_generic": ([ll(10, 10), ll(60, 40)], [ll(20, 45), ll(50, 5)]),
    "disjoint": ([ll(10, 10), ll(20, 20)], [ll(100, -10), ll(120, -30)]),
    "disjoint_same_hemisphere": ([ll(10, 10), ll(20, 10)], [ll(15, 30), ll(15, 50)]),
    "antimeridian_cross": ([ll(170, 10), ll(-170, -10)], [ll(175, -20), ll(-175, 20)]),
    "antimeridian_vs_meridian180": ([ll(170, 0), ll(-170, 0)], [ll(180, -10), ll(180, 10)]),
    "through_north_pole": ([ll(0, 80), ll(180, 80)], [ll(90, 85), ll(-90, 85)]),
    "pole_endpoint": ([ll(0, 90), ll(30, 40)], [ll(10, 60), ll(50, 60)]),
    "south_pole_endpoint": ([ll(0, -90), ll(30, -40)], [ll(10, -60), ll(50, -60)]),
    "meridian_vs_meridian_parallel_overlap": ([ll(30, 0), ll(30, 40)], [ll(30, 20), ll(30, 60)]),
    "meridian_parallel_no_overlap": ([ll(30, 0), ll(30, 10)], [ll(30, 20), ll(30, 60)]),
    "equator_parallel_overlap": ([ll(0, 0), ll(40, 0)], [ll(10, 0), ll(30, 0)]),
    "equator_parallel_one_end": ([ll(0, 0), ll(40, 0)], [ll(20, 0), ll(70, 0)]),
    "identical_arcs": ([ll(5, 5), ll(50, 30)], [ll(5, 5), ll(50, 30)]),
    "shared_endpoint": ([ll(5, 5), ll(50, 30)], [ll(50, 30), ll(80, -10)]),
    "touching_T": ([ll(0, 0), ll(40, 0)], [ll(20, 0), ll(20, 30)]),
    "half_circle_first": ([ll(0, 0), ll(180, 0)], [ll(90, -10), ll(90, 10)]),
    "half_circle_second": ([ll(90, -10), ll(90, 10)], [ll(0, 0), ll(180, 0)]),
    "unnormalised": ([2.0 * ll(-10, 0), 3.0 * ll(10, 0)], [0.5 * ll(0, -10), 7.0 * ll(0, 10)]),
    "unnormalised_generic": ([1e3 * ll(10, 10), 1e3 * ll(60, 40)], [1e3 * ll(20, 45), 1e3 * ll(50, 5)]),
    "unnormalised_first_only": ([1e4 * ll(10, 10), 1e4 * ll(60, 40)], [ll(20, 45), ll(50, 5)]),
    "unnormalised_second_only": ([ll(10, 10), ll(60, 40)], [1e4 * ll(20, 45), 1e4 * ll(50, 5)]),
    "zero_length_second": ([ll(-10, 0), ll(10, 0)], [ll(0, 0), ll(0, 0)]),
}

for name, (g1, g2) in cases.items():
    a1, a2 = np.array(g1), np.array(g2)
    run(name, a1, a2)
    run(name + "/swapped_arcs", a2, a1)
    run(name + "/swapped_ends", a1[::-1], a2[::-1])
    run(name + "/lists", [list(map(float, r)) for r in a1], [list(map(float, r)) for r in a2])

# Integer-valued and float32 inputs
run("int_axes", np.array([[1, 0, 0], [0, 1, 0]]), np.array([[0, 0, 1], [1, 1, 0]]))
run("int_lists", [[1, 0, 0], [0, 1, 0]], [[0, 0, 1], [1, 1, 0]])
run("float32", np.array([ll(-10, 0), ll(10, 0)], dtype=np.float32), np.array([ll(0, -10), ll(0, 10)], dtype=np.float32))

# Bad shapes / exceptions
run("bad_shape_2cols", np.zeros((2, 2)), np.zeros((2, 3)))
run("bad_shape_second", np.zeros((2, 3)), np.zeros((2, 4)))
run("three_rows", np.zeros((3, 3)), np.zeros((2, 3)))
run("one_dim", np.zeros(3), np.zeros((2, 3)))
run("fma_enabled", np.array([ll(-10, 0), ll(10, 0)]), np.array([ll(0, -10), ll(0, 10)]), fma_disabled=False)
run("fma_enabled_positional", np.array([ll(-10, 0), ll(10, 0)]), np.array([ll(0, -10), ll(0, 10)]), fma_disabled=0)
run("fma_disabled_truthy", np.array([ll(-10, 0), ll(10, 0)]), np.array([ll(0, -10), ll(0, 10)]), fma_disabled=1)

# Random arcs (seeded): lots of crossings and misses anywhere on the sphere
rng = np.random.default_rng(20240914)


def rand_unit():
    v = rng.normal(size=3)
    return v / np.linalg.norm(v)


count = {}
h = hashlib.sha1()
for i in range(400):
    c = rand_unit()
    # two short-ish arcs around a common centre so that crossings are frequent
    pts = []
    for _ in range(4):
        p = c + 0.4 * rng.normal(size=3)
        pts.append(p / np.linalg.norm(p))
    g1, g2 = np.array(pts[:2]), np.array(pts[2:])
    with warnings.catch_warnings(record=True) as rec:
        warnings.simplefilter("always")
        try:
            out = gca_gca_intersection(g1, g2)
            tag = "n=%d" % len(out)
            h.update(out.tobytes())
            h.update(str((out.dtype, out.shape)).encode())
        except Exception as e:  # noqa
            tag = "EXC " + type(e).__name__ + (str(e).splitlines() or [""])[0]
            h.update(tag.encode())
    h.update(str([str(w.message) for w in rec]).encode())
    count[tag] = count.get(tag, 0) + 1
    if i < 12:
        print("rand", i, tag, digest(out), len(rec))
print("random summary", sorted(count.items()), h.hexdigest())

# Rotation about the polar axis of a fixed crossing, including antimeridian positions
base1 = [(-10, 20), (15, 35)]
base2 = [(0, 40), (5, 10)]
for rot in (0, 45, 90, 135, 170, 175, 180, 185, 270, 355):
    g1 = np.array([ll(lo + rot, la) for lo, la in base1])
    g2 = np.array([ll(lo + rot, la) for lo, la in base2])
    run("rot%d" % rot, g1, g2)
