import sys, os; sys.path.insert(0, os.getcwd())
import hashlib
import warnings

import numpy as np
import xarray as xr

import uxarray as ux
from uxarray.grid import Grid
from uxarray.constants import INT_FILL_VALUE

assert os.path.abspath(ux.__file__).startswith(os.path.abspath(os.getcwd()) + os.sep), ux.__file__
warnings.filterwarnings("ignore")

F = INT_FILL_VALUE


def digest(a):
    a = np.ascontiguousarray(np.asarray(a))
    return f"{a.dtype}{a.shape}:{hashlib.sha1(a.tobytes()).hexdigest()[:12]}"


def show(label, fn):
    try:
        r = fn()
        print(f"{label}: {type(r).__name__} {r!r}")
    except Exception as e:  # noqa: BLE001
        print(f"{label}: EXC {type(e).__name__}: {str(e)[:80]}")


def ds_state(g):
    out = []
    for k in sorted(g._ds.variables):
        v = g._ds[k]
        out.append(f"{k}[{','.join(v.dims)}]{digest(v.values)}")
    return " ".join(out) + " attrs=" + repr(sorted(g._ds.attrs))


def make(lon, lat, conn, spec="UGRID", dims=None, lon_dtype=None, conn_dtype=None):
    lon = np.array(lon, dtype=lon_dtype or np.float64)
    lat = np.array(lat, dtype=lon_dtype or np.float64)
    conn = np.array(conn, dtype=conn_dtype or np.intp)
    cdims = ["n_face", "n_max_face_nodes"] if conn.ndim == 2 else ["n_max_face_nodes"]
    ds = xr.Dataset(
        {
            "node_lon": (["n_node"], lon, {"units": "degrees_east"}),
            "node_lat": (["n_node"], lat, {"units": "degrees_north"}),
            "face_node_connectivity": (
                cdims,
                conn,
                {"_FillValue": F, "start_index": 0, "cf_role": "face_node_connectivity"},
            ),
        }
    )
    if dims is None:
        return Grid(ds, source_grid_spec=spec)
    return Grid(ds, source_grid_spec=spec, source_dims_dict=dims)


def make_xyz(x, y, z, conn, spec="UGRID"):
    ds = xr.Dataset(
        {
            "node_x": (["n_node"], np.array(x, dtype=np.float64)),
            "node_y": (["n_node"], np.array(y, dtype=np.float64)),
            "node_z": (["n_node"], np.array(z, dtype=np.float64)),
            "face_node_connectivity": (
                ["n_face", "n_max_face_nodes"],
                np.array(conn, dtype=np.intp),
                {"_FillValue": F, "start_index": 0},
            ),
        }
    )
    return Grid(ds, source_grid_spec=spec)


# a mixed mesh: one quad, one triangle (padded), one pentagon-sized row
LON = [0.0, 10.0, 10.0, 0.0, 20.0, 20.0, 15.0]
LAT = [0.0, 0.0, 10.0, 10.0, 0.0, 10.0, 15.0]
CONN = [[0, 1, 2, 3, F], [1, 4, 2, F, F], [2, 4, 5, 6, 3]]


def compare(label, a, b):
    show(f"{label} a==b", lambda: a == b)
    show(f"{label} b==a", lambda: b == a)
    show(f"{label} a!=b", lambda: a != b)
    show(f"{label} b!=a", lambda: b != a)
    show(f"{label} a.__eq__(b)", lambda: a.__eq__(b))
    show(f"{label} a.__ne__(b)", lambda: a.__ne__(b))


print("== section 1: synthetic pairs")
base = make(LON, LAT, CONN)
compare("same-data", base, make(LON, LAT, CONN))
compare("reflexive", base, base)

for i in range(len(LON)):
    lon2 = list(LON)
    lon2[i] += 1e-9
    compare(f"lon[{i}]+eps", base, make(lon2, LAT, CONN))
    lat2 = list(LAT)
    lat2[i] -= 1e-9
    compare(f"lat[{i}]-eps", base, make(LON, lat2, CONN))

for r in range(3):
    for c in range(5):
        conn2 = [list(row) for row in CONN]
        conn2[r][c] = 6 if conn2[r][c] != 6 else 0
        compare(f"conn[{r},{c}]", base, make(LON, LAT, conn2))

# fill value replaced by an index, index replaced by fill value
conn2 = [list(row) for row in CONN]
conn2[1][3] = 0
compare("fill->0", base, make(LON, LAT, conn2))
conn2 = [list(row) for row in CONN]
conn2[0][3] = F
compare("3->fill", base, make(LON, LAT, conn2))

# number of nodes / faces / columns
compare("extra-node", base, make(LON + [30.0], LAT + [0.0], CONN))
compare("fewer-faces", base, make(LON, LAT, CONN[:2]))
compare("extra-face", base, make(LON, LAT, CONN + [[0, 1, 2, F, F]]))
compare("extra-col", base, make(LON, LAT, [row + [F] for row in CONN]))
compare("perm-faces", base, make(LON, LAT, [CONN[1], CONN[0], CONN[2]]))
compare("rot-face", base, make(LON, LAT, [[1, 2, 3, 0, F], CONN[1], CONN[2]]))

# spec differences
compare("spec MPAS", base, make(LON, LAT, CONN, spec="MPAS"))
compare("spec None", base, make(LON, LAT, CONN, spec=None))
compare("spec None/None", make(LON, LAT, CONN, spec=None), make(LON, LAT, CONN, spec=None))
compare("spec lower", base, make(LON, LAT, CONN, spec="ugrid"))

# dtype differences
compare("lon f32", base, make(LON, LAT, CONN, lon_dtype=np.float32))
compare("conn i32", base, make(LON, LAT, [[0, 1, 2, 3, -1], [1, 4, 2, -1, -1], [2, 4, 5, 6, 3]], conn_dtype=np.int32))
compare("conn i32 same", base, make(LON, LAT, CONN, conn_dtype=np.int64))

# NaN coordinates
lon_nan = list(LON)
lon_nan[2] = np.nan
gn1, gn2 = make(lon_nan, LAT, CONN), make(lon_nan, LAT, CONN)
compare("nan-vs-nan", gn1, gn2)
compare("nan-vs-base", gn1, base)
compare("nan-self", gn1, gn1)

# +0.0 / -0.0 and 360 wrap
lon_z = list(LON)
lon_z[0] = -0.0
compare("neg-zero", base, make(lon_z, LAT, CONN))
lon_w = list(LON)
lon_w[1] = 370.0
gw = make(lon_w, LAT, CONN)
compare("370-vs-10", base, gw)
print("gw lon", digest(gw.node_lon.values))

# swapped lon/lat arrays (a wrong connective would not see it)
compare("swap-lonlat", make(LON, LAT, CONN), make(LAT, LON, CONN))
# only lon differs everywhere, only lat differs everywhere
compare("all-lon", base, make([v + 1 for v in LON], LAT, CONN))
compare("all-lat", base, make(LON, [v + 1 for v in LAT], CONN))

# non-Grid operands
for name, other in [
    ("None", None),
    ("int", 1),
    ("str", "UGRID"),
    ("ndarray", np.array(CONN)),
    ("dataset", base._ds),
    ("dataarray", base.node_lon),
    ("list", [base]),
    ("type", Grid),
]:
    show(f"nongrid {name} ==", lambda: base == other)
    show(f"nongrid {name} !=", lambda: base != other)
    show(f"nongrid {name} __eq__", lambda: base.__eq__(other))
    show(f"nongrid {name} __ne__", lambda: base.__ne__(other))
    show(f"nongrid {name} r==", lambda: other == base)
    show(f"nongrid {name} r!=", lambda: other != base)


# subclass operands
class SubGrid(Grid):
    pass


class OddGrid(Grid):
    def __eq__(self, other):
        return "odd"


sg = SubGrid(base._ds, source_grid_spec="UGRID")
og = OddGrid(base._ds, source_grid_spec="UGRID")
compare("subclass", base, sg)
compare("oddclass", base, og)
show("sg.copy type", lambda: type(sg.copy()).__name__)
show("og.copy type", lambda: type(og.copy()).__name__)
show("og != base", lambda: og != base)
show("og.__ne__(base)", lambda: og.__ne__(base))

print("== section 2: getter side effects seen through ==")
# 1-D connectivity (single face)
g1d_a = make(LON[:4], LAT[:4], [0, 1, 2, 3])
g1d_b = make(LON[:4], LAT[:4], [[0, 1, 2, 3]])
print("1d before", g1d_a._ds["face_node_connectivity"].dims)
compare("1d-vs-2d", g1d_a, g1d_b)
print("1d after", g1d_a._ds["face_node_connectivity"].dims)
g1d_c = make(LON[:4], LAT[:4], [0, 1, 2, 3])
show("1d self ==", lambda: g1d_c == g1d_c)
print("1d self after", g1d_c._ds["face_node_connectivity"].dims)
g1d_d = make(LON[:4], LAT[:4], [0, 1, 2, 3])
lat_d = list(LAT[:4])
lat_d[0] = 1.0
g1d_e = make(LON[:4], lat_d, [0, 1, 2, 3])
show("1d lat-diff ==", lambda: g1d_d == g1d_e)
print("1d lat-diff after", g1d_d._ds["face_node_connectivity"].dims, g1d_e._ds["face_node_connectivity"].dims)
g1d_f = make(LON[:4], LAT[:4], [0, 1, 2, 3], spec="MPAS")
g1d_g = make(LON[:4], LAT[:4], [0, 1, 2, 3])
show("1d spec-diff ==", lambda: g1d_f == g1d_g)
print("1d spec-diff after", g1d_f._ds["face_node_connectivity"].dims, g1d_g._ds["face_node_connectivity"].dims)

# xyz-only grids: node_lon / node_lat are derived on first comparison
X = [1.0, 0.0, 0.0, -1.0]
Y = [0.0, 1.0, 0.0, 0.0]
Z = [0.0, 0.0, 1.0, 0.0]
gx1 = make_xyz(X, Y, Z, [[0, 1, 2], [1, 3, 2]])
gx2 = make_xyz(X, Y, Z, [[0, 1, 2], [1, 3, 2]])
gx3 = make_xyz(X, Y, Z, [[0, 1, 2], [1, 3, 2]], spec="MPAS")
print("xyz before", sorted(gx1._ds.variables), sorted(gx3._ds.variables))
compare("xyz-spec", gx1, gx3)
print("xyz after spec-diff", sorted(gx1._ds.variables), sorted(gx3._ds.variables))
compare("xyz-same", gx1, gx2)
print("xyz after", sorted(gx1._ds.variables), sorted(gx2._ds.variables))
print("xyz state", ds_state(gx1))
gx4 = make_xyz([0.0, 0.0, 0.0, -1.0], Y, Z, [[0, 1, 2], [1, 3, 2]])
compare("xyz-diff", gx1, gx4)
print("xyz4 state", ds_state(gx4))

# failures inside the comparison propagate unchanged
ga = make(LON, LAT, CONN)
gb = make(LON, LAT, CONN)
gb.source_grid_spec = np.array(["UGRID", "UGRID"])
compare("array-spec", ga, gb)
gd = make(LON, LAT, CONN)
del gd._ds["face_node_connectivity"]
compare("missing-conn", ga, gd)
ge = make(LON, LAT, CONN)
del ge.__dict__["source_grid_spec"]
compare("missing-spec", ga, ge)

print("== section 3: copy")


def check_copy(label, g):
    before = ds_state(g)
    c = g.copy()
    print(f"{label} type", type(c).__name__, "is-self", c is g)
    print(f"{label} spec", repr(c.source_grid_spec), c.source_grid_spec is g.source_grid_spec)
    print(f"{label} dims", repr(c._source_dims_dict), c._source_dims_dict is g._source_dims_dict)
    print(f"{label} ds-is", c._ds is g._ds, "state-same", ds_state(c) == before, "orig-unchanged", ds_state(g) == before)
    print(f"{label} state", ds_state(c))
    compare(f"{label} copy", g, c)
    shared = [
        k
        for k in sorted(g._ds.variables)
        if np.shares_memory(np.asarray(g._ds[k].values), np.asarray(c._ds[k].values))
    ]
    print(f"{label} shared-memory", shared)
    # mutate the copy, the original must not move
    c._ds["node_lon"].values[0] += 1.0
    print(f"{label} after-mutate orig-unchanged", ds_state(g) == before)
    compare(f"{label} mutated-copy", g, c)
    c2 = g.copy()
    c2._ds["face_node_connectivity"].values[0, 0] = c2._ds["face_node_connectivity"].values[0, 1]
    print(f"{label} after-mutate2 orig-unchanged", ds_state(g) == before)
    compare(f"{label} mutated-copy2", g, c2)
    c3 = g.copy()
    c3._ds.attrs["marker"] = 1
    print(f"{label} attrs-independent", "marker" in g._ds.attrs)
    print(f"{label} caches", c._gdf_cached_parameters["gdf"], c._antimeridian_face_indices, c._raster_data_id)
    cc = c.copy().copy()
    compare(f"{label} copy-of-copy", c, cc)


check_copy("base", make(LON, LAT, CONN))
check_copy("dims", make(LON, LAT, CONN, spec="MPAS", dims={"nCells": "n_face", "nVertices": "n_node"}))
check_copy("nospec", make(LON, LAT, CONN, spec=None))
check_copy("nan", make(lon_nan, LAT, CONN))
check_copy("xyz", make_xyz(X, Y, Z, [[0, 1, 2], [1, 3, 2]]))
g_derived = make(LON, LAT, CONN)
_ = g_derived.edge_node_connectivity, g_derived.n_nodes_per_face, g_derived.node_x, g_derived.face_lon
check_copy("derived", g_derived)
g1 = make(LON[:4], LAT[:4], [0, 1, 2, 3])
c1 = g1.copy()
print("1d copy dims", g1._ds["face_node_connectivity"].dims, c1._ds["face_node_connectivity"].dims)
compare("1d copy", g1, c1)
print("1d copy dims after", g1._ds["face_node_connectivity"].dims, c1._ds["face_node_connectivity"].dims)

print("== section 4: grids from files")
FILES = [
    "test/meshfiles/ugrid/quad-hexagon/grid.nc",
    "test/meshfiles/ugrid/geoflow-small/grid.nc",
    "test/meshfiles/ugrid/outCSne30/outCSne30.ug",
    "test/meshfiles/mpas/QU/mesh.QU.1920km.151026.nc",
    "test/meshfiles/exodus/mixed/mixed.exo",
    "test/meshfiles/exodus/outCSne8/outCSne8.g",
    "test/meshfiles/scrip/outCSne8/outCSne8.nc",
    "test/meshfiles/esmf/ne30/ne30pg3.grid.nc",
]
grids = {}
for f in FILES:
    try:
        grids[f] = (ux.open_grid(f), ux.open_grid(f))
    except Exception as e:  # noqa: BLE001
        print("open failed", f, type(e).__name__)
for f, (ga_, gb_) in grids.items():
    short = f.split("/")[-1]
    compare(f"file {short} twice", ga_, gb_)
    c = ga_.copy()
    compare(f"file {short} copy", ga_, c)
    print(f"file {short} copy spec/dims", c.source_grid_spec, c._source_dims_dict is ga_._source_dims_dict, c._source_dims_dict == ga_._source_dims_dict)
    print(f"file {short} copy state-same", ds_state(c) == ds_state(ga_))
    # one entry changed in each compared variable of the copy
    for var in ("node_lon", "node_lat"):
        m = ga_.copy()
        m._ds[var].values[-1] += 0.125
        compare(f"file {short} {var}[-1]", ga_, m)
    m = ga_.copy()
    v = m._ds["face_node_connectivity"].values
    v[-1, 0], v[-1, 1] = v[-1, 1], v[-1, 0]
    compare(f"file {short} conn-swap", ga_, m)
    m = ga_.copy()
    v = m._ds["face_node_connectivity"].values
    v[0, -1] = F if v[0, -1] != F else 0
    compare(f"file {short} conn-pad", ga_, m)
names = list(grids)
for i, fa in enumerate(names):
    for fb in names[i + 1 :]:
        show(f"cross {fa.split('/')[-1]} / {fb.split('/')[-1]}", lambda: (grids[fa][0] == grids[fb][0], grids[fa][0] != grids[fb][0]))

# UxDataArray deep copies go through Grid.copy
gq = grids[FILES[0]][0]
uxda = ux.UxDataArray(np.arange(gq.n_face, dtype=float), dims=["n_face"], uxgrid=gq, name="v")
for deep in (True, False):
    cpa = uxda.copy(deep=deep)
    print("uxda copy deep", deep, cpa.uxgrid is gq, cpa.uxgrid == gq, cpa.uxgrid != gq, type(cpa.uxgrid).__name__)
print("done")
