import sys, os

sys.path.insert(0, os.getcwd())
import warnings

warnings.filterwarnings("ignore")
import hashlib
import numpy as np
import xarray as xr
import uxarray as ux
import uxarray
import uxarray.grid.grid as gridmod

assert os.path.abspath(uxarray.__file__).startswith(os.path.abspath(os.getcwd()) + os.sep), uxarray.__file__

from uxarray.constants import INT_FILL_VALUE

MESH = os.path.join(os.getcwd(), "test", "meshfiles")


def h(a):
    a = np.ascontiguousarray(np.asarray(a))
    return f"{a.dtype}{a.shape}:{hashlib.sha1(a.tobytes()).hexdigest()[:12]}"


def gdigest(g):
    return (
        g.source_grid_spec,
        dict(sorted(g._source_dims_dict.items(), key=str)) if g._source_dims_dict is not None else None,
        g.n_node,
        g.n_face,
        h(g.node_lon.values),
        h(g.node_lat.values),
        h(g.face_node_connectivity.values),
        list(g._ds.variables),
    )


def attempt(label, fn):
    try:
        print(label, "->", fn())
    except Exception as e:
        print(label, "-> EXC", type(e).__name__, str(e)[:200])


def icon_ds():
    """tiny synthetic ICON style dataset: 2 triangles sharing an edge"""
    vlon = np.deg2rad([0.0, 10.0, 10.0, 0.0])
    vlat = np.deg2rad([0.0, 0.0, 10.0, 10.0])
    return xr.Dataset(
        {
            "vlon": (("vertex",), vlon),
            "vlat": (("vertex",), vlat),
            "elon": (("edge",), np.deg2rad([5.0, 10.0, 5.0, 0.0, 5.0])),
            "elat": (("edge",), np.deg2rad([0.0, 5.0, 10.0, 5.0, 5.0])),
            "clon": (("cell",), np.deg2rad([6.7, 3.3])),
            "clat": (("cell",), np.deg2rad([3.3, 6.7])),
            "vertex_of_cell": (("nv", "cell"), np.array([[1, 1], [2, 3], [3, 4]])),
            "edge_of_cell": (("nv", "cell"), np.array([[1, 5], [2, 3], [5, 4]])),
            "neighbor_cell_index": (("nv", "cell"), np.array([[2, 1], [0, 0], [-1, 0]])),
            "adjacent_cell_of_edge": (("nc", "edge"), np.array([[1, 1, 2, 2, 1], [0, 0, 0, 0, 2]])),
            "edge_vertices": (("nc", "edge"), np.array([[1, 2, 3, 4, 1], [2, 3, 4, 1, 3]])),
        }
    )


print("== real files through Grid.from_dataset (auto detected format)")
files = {
    "exodus_mixed": ("exodus/mixed/mixed.exo", {}),
    "exodus_ne8": ("exodus/outCSne8/outCSne8.g", {}),
    "scrip_ne8": ("scrip/outCSne8/outCSne8.nc", {}),
    "ugrid_quadhex": ("ugrid/quad-hexagon/grid.nc", {}),
    "ugrid_geoflow": ("ugrid/geoflow-small/grid.nc", {}),
    "ugrid_ne30": ("ugrid/outCSne30/outCSne30.ug", {}),
    "mpas_primal": ("mpas/QU/mesh.QU.1920km.151026.nc", {}),
    "mpas_dual": ("mpas/QU/mesh.QU.1920km.151026.nc", {"use_dual": True}),
    "mpas_primal_explicit": ("mpas/QU/mesh.QU.1920km.151026.nc", {"use_dual": False}),
    "esmf_ne30": ("esmf/ne30/ne30pg3.grid.nc", {}),
    "geos_c12": ("geos-cs/c12/test-c12.native.nc4", {}),
}
grids = {}
for label, (rel, kw) in files.items():
    try:
        ds = xr.open_dataset(os.path.join(MESH, rel))
        g = ux.Grid.from_dataset(ds, **kw)
        grids[label] = g
        print(label, gdigest(g))
    except Exception as e:
        print(label, "EXC", type(e).__name__, str(e)[:200])

attempt("icon primal", lambda: gdigest(ux.Grid.from_dataset(icon_ds())))
attempt("icon primal explicit", lambda: gdigest(ux.Grid.from_dataset(icon_ds(), use_dual=False)))
attempt("icon dual", lambda: gdigest(ux.Grid.from_dataset(icon_ds(), use_dual=True)))
grids["icon"] = ux.Grid.from_dataset(icon_ds())

print("== error paths")
attempt("not a dataset", lambda: ux.Grid.from_dataset("grid.nc"))
attempt("not a dataset (DataArray)", lambda: ux.Grid.from_dataset(xr.DataArray(np.arange(3))))
attempt("not a dataset, custom spec", lambda: ux.Grid.from_dataset(None, source_grid_spec="X"))
attempt("unrecognised", lambda: ux.Grid.from_dataset(xr.Dataset({"a": (("x",), np.arange(3))})))
attempt("empty", lambda: ux.Grid.from_dataset(xr.Dataset()))
attempt("custom spec, not ugrid", lambda: ux.Grid.from_dataset(xr.Dataset({"a": (("x",), np.arange(3))}), source_grid_spec="X"))
attempt("unknown kwarg ignored", lambda: gdigest(ux.Grid.from_dataset(icon_ds(), foo=1)))

print("== dispatch with recording readers (every format name, use_dual forwarding)")
calls = []


def recorder(name):
    def _reader(*a, **k):
        calls.append((name, len(a), type(a[0]).__name__, sorted(k.items())))
        return grids["ugrid_quadhex"]._ds, {"src_" + name: "n_face"}

    return _reader


saved = {}
for n in ("_read_exodus", "_read_scrip", "_read_ugrid", "_read_mpas", "_read_esmf", "_read_geos_cs", "_read_icon", "_parse_grid_type"):
    saved[n] = getattr(gridmod, n)
    if n != "_parse_grid_type":
        setattr(gridmod, n, recorder(n))
try:
    for fmt in ("Exodus", "Scrip", "UGRID", "MPAS", "ESMF", "GEOS-CS", "ICON", "Shapefile", "GeoJSON", "exodus", "", None, "Structured", "Face Vertices", 7):
        for kw in ({}, {"use_dual": True}, {"use_dual": False}, {"use_dual": None}):
            gridmod._parse_grid_type = lambda ds, _f=fmt: _f
            calls.clear()
            try:
                g = ux.Grid.from_dataset(xr.Dataset(), **kw)
                print(repr(fmt), kw, "->", g.source_grid_spec, g._source_dims_dict, calls)
            except Exception as e:
                print(repr(fmt), kw, "-> EXC", type(e).__name__, str(e), calls)
    # parser errors propagate, readers are not consulted
    def boom(ds):
        raise RuntimeError("Could not recognize dataset format.")

    gridmod._parse_grid_type = boom
    calls.clear()
    attempt("parser raises", lambda: ux.Grid.from_dataset(xr.Dataset()))
    print("calls", calls)
    # custom spec: neither parser nor readers are used
    calls.clear()
    g = ux.Grid.from_dataset(grids["exodus_mixed"]._ds, source_grid_spec="MPAS", use_dual=True)
    print("custom spec", g.source_grid_spec, g._source_dims_dict, calls)
    g = ux.Grid.from_dataset(grids["exodus_mixed"]._ds, source_grid_spec=None)
    print("custom spec None", g.source_grid_spec, g._source_dims_dict, calls)
finally:
    for n, f in saved.items():
        setattr(gridmod, n, f)

print("== custom source_grid_spec path: copies the dataset, fresh dims dict")
src = grids["exodus_mixed"]._ds
g1 = ux.Grid.from_dataset(src, source_grid_spec="Exodus")
g2 = ux.Grid.from_dataset(src, source_grid_spec="Exodus")
print(gdigest(g1))
print("distinct ds objects", g1._ds is not src, g1._ds is not g2._ds, "distinct dims dicts", g1._source_dims_dict is not g2._source_dims_dict)
g1._source_dims_dict["k"] = 1
print("dims dict isolation", g2._source_dims_dict)
_ = g1.face_areas
print("derived vars stay local", "face_areas" in g1._ds, "face_areas" in src, "face_areas" in g2._ds)

print("== equality across formats (property C20)")
labels = list(grids)
for a in labels:
    row = []
    for b in labels:
        e1, e2, n1 = grids[a] == grids[b], grids[b] == grids[a], grids[a] != grids[b]
        assert e1 == e2 and n1 == (not e1)
        row.append(int(e1))
    print(f"{a:22s}", row)
ex = grids["exodus_ne8"]
sc = grids["scrip_ne8"]
print("same mesh different format", ex == sc, "relabelled", ex == ux.Grid.from_dataset(ex._ds, source_grid_spec="Scrip"),
      ux.Grid.from_dataset(ex._ds, source_grid_spec="Exodus") == ex)
m = grids["exodus_mixed"]
print("reopen equal", m == ux.Grid.from_dataset(xr.open_dataset(os.path.join(MESH, files["exodus_mixed"][0]))), "copy", m == m.copy(), "non-grid", m == 0, m != 0)
for var, idx in (("node_lon", 0), ("node_lon", -1), ("node_lat", 0), ("node_lat", 3)):
    ds = m._ds.copy(deep=True)
    ds[var].values[idx] += 1e-9
    o = ux.Grid.from_dataset(ds, source_grid_spec="Exodus")
    print("perturb", var, idx, m == o, o == m, m != o)
fnc = m.face_node_connectivity.values
print("mixed face sizes", sorted(set((fnc != INT_FILL_VALUE).sum(axis=1).tolist())))
for idx in ((0, 0), (fnc.shape[0] - 1, fnc.shape[1] - 1), (1, 2)):
    ds = m._ds.copy(deep=True)
    v = ds["face_node_connectivity"].values
    v[idx] = 0 if v[idx] != 0 else 1
    o = ux.Grid.from_dataset(ds, source_grid_spec="Exodus")
    print("perturb conn", idx, m == o, o == m, m != o)
ds = m._ds.isel(n_face=slice(0, -1))
print("one face fewer", m == ux.Grid.from_dataset(ds, source_grid_spec="Exodus"))
