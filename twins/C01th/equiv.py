import sys, os

sys.path.insert(0, os.getcwd())

import hashlib
import json
import tempfile
import warnings

import numpy as np

import uxarray
import uxarray as ux

assert os.path.abspath(uxarray.__file__).startswith(os.path.abspath(os.getcwd()) + os.sep), uxarray.__file__

import geopandas as gpd
from shapely.geometry import Polygon, MultiPolygon, Point, LineString

from uxarray.io._geopandas import (
    _extract_geometry_info,
    _get_num_nodes,
    _read_geodataframe,
    _read_multipolygon,
    _read_polygon,
)
from uxarray.constants import INT_DTYPE, INT_FILL_VALUE

warnings.simplefilter("ignore")


def digest(a):
    a = np.asarray(a)
    h = hashlib.sha256(np.ascontiguousarray(a).tobytes()).hexdigest()[:16]
    return f"{a.dtype}{a.shape}#{h}"


def show(tag, a):
    a = np.asarray(a)
    if a.size <= 80:
        print(tag, a.dtype, a.shape, a.tolist())
    else:
        print(tag, digest(a))


# --------------------------------------------------------------------------------------
# shapes
# --------------------------------------------------------------------------------------
tri = Polygon([(0, 0), (10, 0), (5, 8)])
quad = Polygon([(10, 0), (20, 0), (20, 10), (10, 10)])
pent = Polygon([(170, 60), (180, 60), (-175 + 360, 65), (178, 70), (172, 66)])
hexa = Polygon([(-30, -80), (-10, -85), (10, -80), (10, -70), (-10, -65), (-30, -70)])
octa = Polygon([(100 + 3 * np.cos(t), 3 * np.sin(t)) for t in np.linspace(0, 2 * np.pi, 8, endpoint=False)])
holed = Polygon(
    [(40, 40), (50, 40), (50, 50), (40, 50)],
    holes=[[(43, 43), (43, 47), (47, 47), (47, 43)], [(48, 48), (48, 49), (49, 49)]],
)
tri3d = Polygon([(0, 0, 5), (1, 0, 6), (0, 1, 7)])
clockwise = Polygon([(0, 0), (0, 5), (5, 5), (5, 0)])
multi_a = MultiPolygon([tri, hexa])
multi_b = MultiPolygon([holed, quad, pent])
multi_single = MultiPolygon([octa])


def run_gdf(tag, geoms, index=None, extra_cols=True, geometry_first=False):
    data = {}
    if extra_cols and not geometry_first:
        data["name"] = [f"f{i}" for i in range(len(geoms))]
        data["value"] = np.arange(len(geoms), dtype=float)
    data["geometry"] = geoms
    if extra_cols and geometry_first:
        data["zz"] = [i * 2 for i in range(len(geoms))]
    gdf = gpd.GeoDataFrame(data, geometry="geometry", crs="EPSG:4326", index=index)
    print(f"--- {tag}: {len(geoms)} geometries")
    try:
        max_nodes = gdf["geometry"].apply(_get_num_nodes).max()
        print("max ring size", max_nodes)
        lon, lat, conn = _extract_geometry_info(gdf, max_nodes)
    except Exception as e:  # noqa
        print("EXC", type(e).__name__, str(e)[:150])
        return
    print("types", type(lon).__name__, type(lat).__name__, type(conn).__name__)
    show("lon", lon)
    show("lat", lat)
    show("conn", conn)
    n_per_face = (conn != INT_FILL_VALUE).sum(axis=1) if conn.size else []
    print("n_nodes_per_face", list(map(int, n_per_face)), "padding only at end:",
          all(bool(np.all(np.diff((r != INT_FILL_VALUE).astype(int)) <= 0)) for r in conn))


print("=== _extract_geometry_info on in-memory frames ===")
run_gdf("single triangle", [tri])
run_gdf("uniform quads", [quad, clockwise])
run_gdf("mixed 3..8 gons", [tri, quad, pent, hexa, octa])
run_gdf("widest first", [octa, tri, quad])
run_gdf("widest last", [tri, quad, octa])
run_gdf("with holes", [holed, tri])
run_gdf("3d coords", [tri3d, quad])
run_gdf("multipolygons", [multi_a, multi_b, multi_single])
run_gdf("polygons and multipolygons interleaved", [tri, multi_a, quad, multi_b, octa, multi_single, pent])
run_gdf("multipolygon widest part inside", [tri, MultiPolygon([tri, octa]), quad])
run_gdf("unsupported kinds mixed in", [Point(1, 2), tri, LineString([(0, 0), (1, 1)]), multi_a, Point(3, 4)])
run_gdf("only unsupported", [Point(1, 2), LineString([(0, 0), (1, 1)])])
run_gdf("string index", [tri, quad, hexa], index=["a", "b", "c"])
run_gdf("duplicate index", [tri, quad, hexa], index=[7, 7, 7])
run_gdf("reversed int index", [tri, quad, hexa, multi_a], index=[3, 2, 1, 0])
run_gdf("geometry only column", [tri, pent, quad], extra_cols=False)
run_gdf("geometry column first", [tri, pent, quad], geometry_first=True)
run_gdf("same polygon repeated", [quad, quad, quad])
run_gdf("many faces", [Polygon([(i, 0), (i + 1, 0), (i + 1, 1), (i + 0.5, 1.5 + (i % 3)), (i, 1)][: 3 + (i % 3)]) for i in range(40)])
run_gdf("missing geometry", [tri, None, quad])
run_gdf("empty polygon", [tri, Polygon(), quad])

print("=== sliced / filtered frames ===")
gdf = gpd.GeoDataFrame({"k": range(6), "geometry": [tri, quad, pent, hexa, octa, multi_a]}, crs="EPSG:4326")
for tag, sub in (("every second", gdf.iloc[::2]), ("filtered", gdf[gdf["k"] > 2]), ("reordered", gdf.iloc[[5, 0, 3]])):
    mx = sub["geometry"].apply(_get_num_nodes).max()
    lon, lat, conn = _extract_geometry_info(sub, mx)
    print(tag, mx)
    show("  lon", lon)
    show("  lat", lat)
    show("  conn", conn)

print("=== _read_polygon / _read_multipolygon called directly ===")
for tag, geom, width, start in (
    ("triangle into width 3", tri, 3, 0),
    ("triangle into width 6", tri, 6, 10),
    ("octagon into width 8", octa, 8, 3),
    ("holed quad into width 5", holed, 5, 0),
    ("3d triangle", tri3d, 4, 100),
    ("too narrow", quad, 3, 0),
    ("empty polygon", Polygon(), 3, 4),
):
    lat_list, lon_list = [1.5], [2.5]
    conn = np.empty((0, width), dtype=INT_DTYPE)
    try:
        r_lat, r_lon, r_conn, r_idx = _read_polygon(geom, lat_list, lon_list, conn, start)
    except Exception as e:  # noqa
        print(tag, "EXC", type(e).__name__, str(e)[:150], "| lists now", lon_list, lat_list)
        continue
    print(tag, "| returns the lists themselves:", r_lat is lat_list, r_lon is lon_list,
          "| idx", r_idx, type(r_idx).__name__, "| conn", r_conn.dtype, r_conn.shape, r_conn.tolist(),
          "| input conn untouched:", conn.shape)
    print("    lon", [type(v).__name__ for v in lon_list][:3], lon_list)
    print("    lat", lat_list)
    # a second polygon appended to a non-empty table
    r_lat, r_lon, r_conn2, r_idx2 = _read_polygon(geom, lat_list, lon_list, r_conn, r_idx)
    print("    second:", r_idx2, r_conn2.dtype, r_conn2.tolist(), "| first table untouched:", r_conn.shape)

for tag, geom, width, start in (
    ("multi tri+hex width 6", multi_a, 6, 0),
    ("multi holed+quad+pent width 7", multi_b, 7, 5),
    ("multi single octagon width 8", multi_single, 8, 2),
    ("multi too narrow", multi_b, 4, 0),
):
    lat_list, lon_list = [], []
    conn = np.empty((0, width), dtype=INT_DTYPE)
    try:
        r_lat, r_lon, r_conn, r_idx = _read_multipolygon(geom, lat_list, lon_list, conn, start)
    except Exception as e:  # noqa
        print(tag, "EXC", type(e).__name__, str(e)[:150], "| lists now", lon_list, lat_list)
        continue
    print(tag, "| return types", type(r_lat).__name__, type(r_lon).__name__, "| idx", r_idx,
          "| conn", r_conn.dtype, r_conn.shape, r_conn.tolist())
    show("    lat", r_lat)
    show("    lon", r_lon)
    print("    lists", lon_list, lat_list)

print("=== files written to a temporary directory and opened through Grid.from_file ===")


def feature(geom, **props):
    return {"type": "Feature", "properties": props, "geometry": geom.__geo_interface__}


def report(grid):
    print("   n_face", grid.n_face, "n_node", grid.n_node, "n_max_face_nodes", grid.n_max_face_nodes,
          "spec", grid.source_grid_spec)
    fnc = grid.face_node_connectivity
    show("   fnc", fnc.values)
    print("   fnc attrs", sorted((k, repr(v)) for k, v in fnc.attrs.items()), fnc.dims)
    show("   node_lon", grid.node_lon.values)
    show("   node_lat", grid.node_lat.values)
    show("   n_nodes_per_face", grid.n_nodes_per_face.values)


with tempfile.TemporaryDirectory() as tmp:
    cases = {
        "mixed.geojson": [tri, quad, pent, hexa, octa],
        "multi.geojson": [multi_a, tri, multi_b, multi_single],
        "holes.geojson": [holed, holed, quad],
        "withpoint.geojson": [tri, Point(5, 5), hexa],
        "lon360.geojson": [Polygon([(350, -5), (10 + 360, -5), (370, 5), (350, 5)]), Polygon([(190, 80), (200, 80), (195, 89)])],
    }
    for name, geoms in cases.items():
        path = os.path.join(tmp, name)
        with open(path, "w") as f:
            json.dump({"type": "FeatureCollection", "features": [feature(g, idx=i) for i, g in enumerate(geoms)]}, f)
        print("---", name)
        try:
            report(ux.Grid.from_file(path))
            ds, dims = _read_geodataframe(path)
            print("   reader:", dims, sorted(ds.data_vars), {k: (str(v.dtype), v.shape) for k, v in ds.data_vars.items()})
        except Exception as e:  # noqa
            print("   EXC", type(e).__name__, str(e)[:150])

    # shapefile and geopackage round trips
    gdf = gpd.GeoDataFrame({"k": [1, 2, 3, 4], "geometry": [tri, multi_a, octa, holed]}, crs="EPSG:4326")
    for name, driver in (("rt.shp", "ESRI Shapefile"), ("rt.gpkg", "GPKG")):
        path = os.path.join(tmp, name)
        try:
            gdf.to_file(path, driver=driver)
            print("---", name)
            report(ux.Grid.from_file(path))
        except Exception as e:  # noqa
            print("---", name, "EXC", type(e).__name__, str(e)[:150])

    # projected CRS: the reader transforms to WGS84 first
    path = os.path.join(tmp, "merc.gpkg")
    try:
        gdf.to_crs("EPSG:3857").to_file(path, driver="GPKG")
        print("--- merc.gpkg")
        report(ux.Grid.from_file(path))
    except Exception as e:  # noqa
        print("--- merc.gpkg EXC", type(e).__name__, str(e)[:150])

print("=== sample files ===")
root = os.path.join(os.getcwd(), "test", "meshfiles")
for rel in (
    "geojson/sample_chicago_buildings.geojson",
    "shp/5poly/5poly.shp",
    "shp/multipoly/multipoly.shp",
    "shp/cb_2018_us_nation_20m/cb_2018_us_nation_20m.shp",
):
    print("---", rel)
    try:
        g = ux.Grid.from_file(os.path.join(root, rel))
        report(g)
    except Exception as e:  # noqa
        print("   EXC", type(e).__name__, str(e)[:150])
