import sys, os

sys.path.insert(0, os.getcwd())

import hashlib
import warnings

import numpy as np
import xarray as xr

import uxarray
import uxarray as ux

assert os.path.abspath(uxarray.__file__).startswith(os.path.abspath(os.getcwd()) + os.sep), (
    uxarray.__file__
)

from uxarray.constants import INT_DTYPE, INT_FILL_VALUE
from uxarray.grid.geometry import _construct_hole_edge_indices

warnings.filterwarnings("ignore")
np.set_printoptions(threshold=10_000, linewidth=200)

F = INT_FILL_VALUE


def digest(label, a):
    print(f"{label}: type={type(a).__name__}", end=" ")
    a = np.asarray(a)
    h = hashlib.sha256(np.ascontiguousarray(a).tobytes()).hexdigest()[:16]
    print(
        f"dtype={a.dtype} shape={a.shape} C={a.flags.c_contiguous} "
        f"W={a.flags.writeable} own={a.flags.owndata} sha={h}"
    )
    if a.size <= 80:
        print("   ", repr(a).replace("\n", "\n    "))


def attempt(label, fn):
    try:
        digest(label, fn())
    except Exception as e:  # same exceptions are part of the contract
        print(f"{label}: EXC {type(e).__name__}: {e}")


# ---------------------------------------------------------------- direct calls
print("== direct calls of _construct_hole_edge_indices")
tables = {
    "mixed": np.array([[0, 1], [1, F], [2, 0], [3, F], [1, 3], [2, F]], dtype=INT_DTYPE),
    "all_pad": np.array([[0, F], [1, F], [2, F]], dtype=INT_DTYPE),
    "none_pad": np.array([[0, 1], [1, 2], [2, 3], [3, 0]], dtype=INT_DTYPE),
    "no_face": np.array([[F, F], [0, 1], [F, F]], dtype=INT_DTYPE),
    "first_pad_only": np.array([[F, 3], [0, 1]], dtype=INT_DTYPE),
    "empty": np.empty((0, 2), dtype=INT_DTYPE),
    "single_row": np.array([[0, F]], dtype=INT_DTYPE),
    "minus_one": np.array([[0, -1], [1, F], [2, 0]], dtype=INT_DTYPE),
    "int32": np.array([[0, 1], [1, -1]], dtype=np.int32),
    "three_cols": np.array([[0, F, 5], [1, 2, F]], dtype=INT_DTYPE),
}
tables["fortran"] = np.asfortranarray(tables["mixed"])
tables["strided"] = np.repeat(tables["mixed"], 2, axis=0)[::2]
tables["readonly"] = tables["mixed"].copy()
tables["readonly"].setflags(write=False)
tables["float"] = tables["mixed"].astype(np.float64)
for tn, t in tables.items():
    before = t.copy()
    attempt(f"holes[{tn}]", lambda: _construct_hole_edge_indices(t))
    assert np.array_equal(t, before)
# inputs of the wrong shape / type must fail the same way
attempt("holes[one_col]", lambda: _construct_hole_edge_indices(np.zeros((3, 1), dtype=INT_DTYPE)))
attempt("holes[1d]", lambda: _construct_hole_edge_indices(np.zeros(3, dtype=INT_DTYPE)))
attempt("holes[list]", lambda: _construct_hole_edge_indices([[0, 1], [1, F]]))

r1 = _construct_hole_edge_indices(tables["mixed"])
r2 = _construct_hole_edge_indices(tables["mixed"])
print("fresh:", r1 is not r2, not np.shares_memory(r1, r2), not np.shares_memory(r1, tables["mixed"]))


# ---------------------------------------------------------------- through grids
def mixed_grid():
    """Quad, two triangles, a pentagon and an isolated triangle; padded rows."""
    lon = np.array([0, 10, 20, 0, 10, 20, 30, 30, 25, 60, 70, 65], dtype=float)
    lat = np.array([0, 0, 0, 10, 10, 10, 0, 10, 18, 40, 40, 50], dtype=float)
    fnc = np.array(
        [
            [0, 1, 4, 3, F],
            [1, 2, 4, F, F],
            [2, 5, 4, F, F],
            [2, 6, 7, 8, 5],
            [9, 10, 11, F, F],
        ],
        dtype=INT_DTYPE,
    )
    return ux.Grid.from_topology(lon, lat, fnc, fill_value=F)


def single_face_grid():
    lon = np.array([0.0, 10.0, 5.0])
    lat = np.array([0.0, 0.0, 10.0])
    return ux.Grid.from_topology(lon, lat, np.array([[0, 1, 2]], dtype=INT_DTYPE), fill_value=F)


def closed_grid():
    """Tetrahedron on the sphere: no hole edge at all."""
    lon = np.array([0.0, 120.0, -120.0, 0.0])
    lat = np.array([-30.0, -30.0, -30.0, 90.0])
    fnc = np.array([[0, 1, 2], [0, 1, 3], [1, 2, 3], [2, 0, 3]], dtype=INT_DTYPE)
    return ux.Grid.from_topology(lon, lat, fnc, fill_value=F)


def ring_grid():
    """Ring of quads around an uncovered centre plus a one-based source."""
    n = 8
    ang = np.linspace(0, 360, n, endpoint=False)
    lon = np.concatenate([10 * np.cos(np.deg2rad(ang)), 20 * np.cos(np.deg2rad(ang))])
    lat = np.concatenate([10 * np.sin(np.deg2rad(ang)), 20 * np.sin(np.deg2rad(ang))])
    fnc = np.array(
        [[i, (i + 1) % n, n + (i + 1) % n, n + i] for i in range(n)], dtype=INT_DTYPE
    )
    return ux.Grid.from_topology(lon, lat, fnc + 1, fill_value=-1, start_index=1)


builders = {
    "mixed": mixed_grid,
    "single": single_face_grid,
    "closed": closed_grid,
    "ring": ring_grid,
    "mpas": lambda: ux.open_grid("test/meshfiles/mpas/QU/mesh.QU.1920km.151026.nc"),
    "quad_hexagon": lambda: ux.open_grid("test/meshfiles/ugrid/quad-hexagon/grid.nc"),
    "ov_RLL_CS": lambda: ux.open_grid("test/meshfiles/ugrid/ov_RLL10deg_CSne4/ov_RLL10deg_CSne4.ug"),
    "geos_c12": lambda: ux.open_grid("test/meshfiles/geos-cs/c12/test-c12.native.nc4"),
    "exo_mixed": lambda: ux.open_grid("test/meshfiles/exodus/mixed/mixed.exo"),
    "ne8": lambda: ux.open_grid("test/meshfiles/exodus/outCSne8/outCSne8.g"),
}


def reference_holes(g):
    """Edges listed by exactly one face, from face_edge_connectivity."""
    fe = g.face_edge_connectivity.values
    counts = np.bincount(fe[fe != F].ravel(), minlength=g.n_edge)
    return np.flatnonzero(counts == 1)


print("== through Grid.hole_edge_indices")
for gn, build in builders.items():
    g = build()
    print(f"-- {gn}: n_face={g.n_face}")
    print("   in _ds before:", "hole_edge_indices" in g._ds, "| efc in _ds before:", "edge_face_connectivity" in g._ds)
    keys_before = sorted(map(str, g._ds.variables))
    first = g.hole_edge_indices
    print("   in _ds after:", "hole_edge_indices" in g._ds, "| efc in _ds after:", "edge_face_connectivity" in g._ds)
    print("   new variables:", sorted(set(map(str, g._ds.variables)) - set(keys_before)))
    print("   type:", type(first).__name__, "dims:", first.dims, "name:", first.name, "attrs:", dict(first.attrs))
    print("   coords:", sorted(map(str, first.coords)), "is index coord:", "hole_edge_indices" in g._ds.coords,
          "indexes:", sorted(map(str, g._ds.indexes)))
    digest(f"{gn}.hole_edge_indices", first.values)
    digest(f"{gn}.edge_face_connectivity", g.edge_face_connectivity.values)
    print("   efc attrs:", {k: (v if not isinstance(v, np.generic) else (type(v).__name__, v.item())) for k, v in g.edge_face_connectivity.attrs.items()})
    print("   matches set-based reference:", np.array_equal(first.values, reference_holes(g)))
    # cached: second access is served from the stored variable
    second = g.hole_edge_indices
    print("   second access equal:", first.identical(second), "| shares memory:", np.shares_memory(first.values, second.values))
    print("   sizes:", dict(g._ds.sizes).get("hole_edge_indices"), first.size, first.size != 0)
    # a value planted in _ds is returned as is, without recomputation
    g2 = build()
    planted = xr.DataArray(np.array([5, 3, 1], dtype=INT_DTYPE), dims=["n_planted"], attrs={"who": "planted"})
    g2._ds["hole_edge_indices"] = planted
    got = g2.hole_edge_indices
    print("   planted returned:", got.dims, dict(got.attrs), got.values.tolist(), "| efc built:", "edge_face_connectivity" in g2._ds)
    # downstream users of the getter
    try:
        sub = g.isel(n_face=[0])
        digest(f"{gn}.isel.hole_edge_indices", sub.hole_edge_indices.values)
    except Exception as e:
        print(f"{gn}.isel: EXC {type(e).__name__}: {e}")
    uxda = ux.UxDataArray(np.arange(g.n_face, dtype=float), dims=["n_face"], uxgrid=g, name="v")
    try:
        digest(f"{gn}.difference", uxda.difference(destination="edge").values)
    except Exception as e:
        print(f"{gn}.difference: EXC {type(e).__name__}: {e}")

print("== getter is a read-only property")
g = mixed_grid()
try:
    g.hole_edge_indices = 1
    print("setter: no error")
except Exception as e:
    print(f"setter: EXC {type(e).__name__}")
print("property object:", type(type(g).hole_edge_indices).__name__, type(g).hole_edge_indices.fset is None)

if os.path.exists("grid_geoflow.exo"):
    os.remove("grid_geoflow.exo")
