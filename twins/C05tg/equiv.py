import sys, os

sys.path.insert(0, os.getcwd())

import hashlib
import warnings

import numpy as np

warnings.filterwarnings("ignore")

import uxarray
import uxarray as ux

assert os.path.abspath(uxarray.__file__).startswith(os.path.abspath(os.getcwd()) + os.sep), uxarray.__file__

from uxarray.constants import INT_FILL_VALUE, INT_DTYPE
from uxarray.grid.area import (
    calculate_face_area,
    calculate_spherical_triangle_jacobian,
    calculate_spherical_triangle_jacobian_barycentric,
    get_all_face_area_from_coords,
    get_gauss_quadratureDG,
    get_tri_quadratureDG,
)

TRI_ORDERS = (1, 4, 8, 10, 12)
GAUSS_ORDERS = tuple(range(1, 11))


def digest(a):
    a = np.asarray(a)
    if a.dtype == object:
        # e.g. None: the bytes of an object array are addresses
        return "object %r" % (a.tolist(),)
    return "%s %s %s" % (
        a.dtype,
        a.shape,
        hashlib.sha256(np.ascontiguousarray(a).tobytes()).hexdigest()[:20],
    )


def show(label, *arrays):
    print(label, "|", " | ".join(digest(a) for a in arrays))


def attempt(label, fn):
    try:
        out = fn()
    except Exception as e:  # noqa
        # numba typing errors quote source line numbers: only their type is stable
        msg = "" if type(e).__module__.startswith("numba") else str(e)[:120]
        print(label, "| EXC", type(e).__name__, msg)
        return None
    return out


def safe(fn, *args):
    """value, or nan-with-a-marker when the call raises (numba: 1.0 / 0.0 raises)."""
    try:
        return fn(*args)
    except Exception as e:  # noqa
        RAISED.append(type(e).__name__ + ":" + str(e))
        return np.float64(-12345.0)


RAISED = []


def unit(v):
    v = np.asarray(v, dtype=float)
    return v / np.linalg.norm(v)


def lonlat_to_xyz(lon, lat):
    lon = np.deg2rad(lon)
    lat = np.deg2rad(lat)
    return np.cos(lat) * np.cos(lon), np.cos(lat) * np.sin(lon), np.sin(lat)


# ----------------------------------------------------------------------------
# 1. the two Jacobian routines, called directly, at every quadrature point
# ----------------------------------------------------------------------------
rng = np.random.default_rng(20240905)

triangles = []
for _ in range(40):
    c = unit(rng.normal(size=3))
    size = rng.choice([1e-6, 1e-3, 0.05, 0.3, 0.9])
    tri = [unit(c + size * rng.normal(size=3)) for _ in range(3)]
    triangles.append(tri)
# poles, antimeridian, octant, degenerate and non-unit triangles
triangles.append([np.array([0.0, 0.0, 1.0]), unit([0.1, 0.0, 1.0]), unit([0.0, 0.1, 1.0])])
triangles.append([np.array([0.0, 0.0, -1.0]), unit([0.0, 0.1, -1.0]), unit([0.1, 0.0, -1.0])])
triangles.append([unit([-1.0, 0.01, 0.0]), unit([-1.0, -0.01, 0.0]), unit([-1.0, 0.0, 0.02])])
triangles.append([np.array([1.0, 0.0, 0.0]), np.array([0.0, 1.0, 0.0]), np.array([0.0, 0.0, 1.0])])
triangles.append([np.array([1.0, 0.0, 0.0]), np.array([1.0, 0.0, 0.0]), np.array([0.0, 1.0, 0.0])])
triangles.append([np.array([1.0, 0.0, 0.0]), np.array([0.0, 1.0, 0.0]), np.array([-1.0, 0.0, 0.0])])
triangles.append([np.array([2.0, 0.0, 0.0]), np.array([0.0, 3.0, 0.0]), np.array([0.0, 0.0, 0.5])])
triangles.append([np.array([0.0, 0.0, 0.0]), np.array([0.0, 0.0, 0.0]), np.array([0.0, 0.0, 0.0])])
triangles.append([np.array([1.0, 0.0, 0.0]), np.array([-1.0, 0.0, 0.0]), np.array([0.0, 1.0, 0.0])])

with np.errstate(all="ignore"):
    for order in TRI_ORDERS:
        dG, dW = get_tri_quadratureDG(order)
        vals = []
        vals32 = []
        for n1, n2, n3 in triangles:
            for p in range(len(dW)):
                vals.append(
                    safe(calculate_spherical_triangle_jacobian_barycentric, n1, n2, n3, dG[p][0], dG[p][1])
                )
                r = safe(
                    calculate_spherical_triangle_jacobian_barycentric,
                    n1.astype(np.float32), n2.astype(np.float32), n3.astype(np.float32), dG[p][0], dG[p][1]
                )
                vals32.append(r)
        show("bary order=%d" % order, np.array(vals), np.array(vals32))
        print("   types", type(vals[0]).__name__, type(vals32[0]).__name__, repr(vals[0]), repr(vals[-1]))
        print("   raised", len(RAISED), sorted(set(RAISED)))
        del RAISED[:]

    for order in GAUSS_ORDERS:
        dG, dW = get_gauss_quadratureDG(order)
        vals = []
        vals32 = []
        for n1, n2, n3 in triangles:
            for p in range(len(dW)):
                for q in range(len(dW)):
                    vals.append(safe(calculate_spherical_triangle_jacobian, n1, n2, n3, dG[0][p], dG[0][q]))
                    vals32.append(
                        safe(
                            calculate_spherical_triangle_jacobian,
                            n1.astype(np.float32), n2.astype(np.float32), n3.astype(np.float32), dG[0][p], dG[0][q]
                        )
                    )
        show("gauss order=%d" % order, np.array(vals), np.array(vals32))
        print("   types", type(vals[0]).__name__, type(vals32[0]).__name__, repr(vals[0]), repr(vals[-1]))
        print("   raised", len(RAISED), sorted(set(RAISED)))
        del RAISED[:]

    # python lists as nodes, corner / edge quadrature points, integer dA dB
    for dA, dB in [(0.0, 0.0), (1.0, 0.0), (0.0, 1.0), (0.5, 0.5), (1.0 / 3.0, 1.0 / 3.0), (-0.2, 1.4), (1, 0)]:
        a = safe(calculate_spherical_triangle_jacobian_barycentric, [1.0, 0.0, 0.0], [0.0, 1.0, 0.0], [0.0, 0.0, 1.0], dA, dB)
        b = safe(calculate_spherical_triangle_jacobian, [1.0, 0.0, 0.0], [0.0, 1.0, 0.0], [0.0, 0.0, 1.0], dA, dB)
        print("list nodes", dA, dB, repr(a), repr(b), type(a).__name__, type(b).__name__)


# ----------------------------------------------------------------------------
# 2. one face at a time: 3..8 corners, every rule and order, both inputs
# ----------------------------------------------------------------------------
def regular_face(n, clon, clat, radius_deg, start=0):
    """convex n-gon around (clon, clat), counter clockwise seen from outside."""
    c = np.array(lonlat_to_xyz(clon, clat))
    ref = np.array([0.0, 0.0, 1.0]) if abs(c[2]) < 0.9 else np.array([1.0, 0.0, 0.0])
    e1 = unit(np.cross(ref, c))
    e2 = np.cross(c, e1)
    r = np.deg2rad(radius_deg)
    pts = []
    for k in range(n):
        t = 2 * np.pi * ((k + start) % n) / n
        pts.append(unit(np.cos(r) * c + np.sin(r) * (np.cos(t) * e1 + np.sin(t) * e2)))
    pts = np.array(pts)
    lon = np.rad2deg(np.arctan2(pts[:, 1], pts[:, 0]))
    lat = np.rad2deg(np.arcsin(pts[:, 2]))
    return pts, lon, lat


faces = []
for n in range(3, 9):
    for clon, clat, rad in [(10.0, 20.0, 5.0), (179.5, -3.0, 12.0), (40.0, 90.0, 8.0), (-77.0, -89.0, 30.0), (0.0, 0.0, 0.001)]:
        faces.append(regular_face(n, clon, clat, rad, start=n // 2))

with np.errstate(all="ignore"):
    for rule, orders in (("triangular", TRI_ORDERS), ("gaussian", GAUSS_ORDERS)):
        for order in orders:
            sph = []
            car = []
            for pts, lon, lat in faces:
                sph.append(calculate_face_area(lon, lat, np.zeros_like(lon), rule, order, "spherical"))
                car.append(
                    calculate_face_area(
                        np.ascontiguousarray(pts[:, 0]),
                        np.ascontiguousarray(pts[:, 1]),
                        np.ascontiguousarray(pts[:, 2]),
                        rule,
                        order,
                        "cartesian",
                    )
                )
            show("face %s %d" % (rule, order), np.array(sph), np.array(car))
    print("   sample", repr(sph[0]), repr(car[-1]))
    attempt("bad rule", lambda: calculate_face_area(faces[0][1], faces[0][2], faces[0][2] * 0.0, "simpson", 4, "spherical"))
    # two corners only: no sub-triangle at all
    print("two corners", calculate_face_area(np.array([0.0, 1.0]), np.array([0.0, 1.0]), np.array([0.0, 0.0]), "triangular", 4, "spherical"))


# ----------------------------------------------------------------------------
# 3. get_all_face_area_from_coords: mixed face sizes and paddings
# ----------------------------------------------------------------------------
def build_mesh(pad_value, conn_dtype=INT_DTYPE, n_max=8, coord_dtype=np.float64):
    xs, ys, zs, lons, lats = [], [], [], [], []
    conn = []
    counts = []
    for pts, lon, lat in faces:
        base = len(xs)
        n = len(lon)
        xs += list(pts[:, 0])
        ys += list(pts[:, 1])
        zs += list(pts[:, 2])
        lons += list(lon)
        lats += list(lat)
        conn.append([base + k for k in range(n)] + [pad_value] * (n_max - n))
        counts.append(n)
    return (
        np.array(xs, dtype=coord_dtype),
        np.array(ys, dtype=coord_dtype),
        np.array(zs, dtype=coord_dtype),
        np.array(lons, dtype=coord_dtype),
        np.array(lats, dtype=coord_dtype),
        np.array(conn, dtype=conn_dtype),
        np.array(counts, dtype=conn_dtype),
    )


with np.errstate(all="ignore"):
    for pad_value, conn_dtype, n_max, cdt in [
        (INT_FILL_VALUE, INT_DTYPE, 8, np.float64),
        (-1, np.int64, 8, np.float64),
        (0, np.int32, 9, np.float64),
        (10**9, np.int64, 11, np.float64),
        (INT_FILL_VALUE, INT_DTYPE, 8, np.float32),
    ]:
        def run_config(pad_value=pad_value, conn_dtype=conn_dtype, n_max=n_max, cdt=cdt):
            x, y, z, lon, lat, conn, counts = build_mesh(pad_value, conn_dtype, n_max, cdt)
            for rule, orders in (("triangular", TRI_ORDERS), ("gaussian", (1, 2, 4, 7, 10))):
                for order in orders:
                    a2, j2 = get_all_face_area_from_coords(lon, lat, np.zeros_like(lon), conn, counts, 2, rule, order, "spherical")
                    a3, j3 = get_all_face_area_from_coords(x, y, z, conn, counts, 3, rule, order, "cartesian")
                    show("mesh pad=%s %s n_max=%d %s %s %d" % (pad_value, np.dtype(conn_dtype).name, n_max, np.dtype(cdt).name, rule, order), a2, j2, a3, j3)
            # defaults of the keyword arguments
            a, j = get_all_face_area_from_coords(lon, lat, np.zeros_like(lon), conn, counts, 2)
            show("mesh defaults", a, j)
            # the z argument is ignored when dim == 2, and used when dim == 3 with spherical input
            a, j = get_all_face_area_from_coords(lon, lat, z, conn, counts, 2, "triangular", 4, "spherical")
            show("mesh dim2 z given", a, j)
            a, j = get_all_face_area_from_coords(lon, lat, z, conn, counts, 3, "triangular", 4, "spherical")
            show("mesh dim3 spherical", a, j)
            # fewer counts than faces / counts smaller than the true size / counts below three
            a, j = get_all_face_area_from_coords(lon, lat, np.zeros_like(lon), conn, counts[:7], 2, "triangular", 4, "spherical")
            show("mesh short counts", a, j)
            a, j = get_all_face_area_from_coords(lon, lat, np.zeros_like(lon), conn, np.maximum(counts - 1, 0), 2, "gaussian", 3, "spherical")
            show("mesh counts-1", a, j)
            a, j = get_all_face_area_from_coords(lon, lat, np.zeros_like(lon), conn, np.minimum(counts, 2), 2, "gaussian", 3, "spherical")
            show("mesh counts<=2", a, j)
            a, j = get_all_face_area_from_coords(lon, lat, np.zeros_like(lon), conn, counts * 0, 2, "triangular", 4, "spherical")
            show("mesh counts 0", a, j)
            # no faces at all
            a, j = get_all_face_area_from_coords(lon, lat, np.zeros_like(lon), conn[:0], counts[:0], 2, "triangular", 4, "spherical")
            show("mesh empty", a, j)
            # non contiguous / reversed views
            a, j = get_all_face_area_from_coords(x[::-1][::-1], y, z, conn[::-1][::-1], counts, 3, "triangular", 8, "cartesian")
            show("mesh views", a, j)
            # start corner rotated, faces reversed
            rolled = conn.copy()
            for i, n in enumerate(counts):
                rolled[i, :n] = np.roll(conn[i, :n], 2)
            a, j = get_all_face_area_from_coords(x, y, z, rolled[::-1].copy(), counts[::-1].copy(), 3, "gaussian", 5, "cartesian")
            show("mesh rolled reversed", a, j)
        attempt('mesh config %s %s %d %s' % (pad_value, np.dtype(conn_dtype).name, n_max, np.dtype(cdt).name), run_config)
    x, y, z, lon, lat, conn, counts = build_mesh(INT_FILL_VALUE)
    attempt("mesh bad rule", lambda: get_all_face_area_from_coords(lon, lat, lon * 0, conn, counts, 2, "simpson", 4, "spherical"))
    attempt("mesh bad order", lambda: show("bad order", *get_all_face_area_from_coords(lon, lat, lon * 0, conn, counts, 2, "triangular", 3, "spherical")))


# ----------------------------------------------------------------------------
# 4. through the Grid
# ----------------------------------------------------------------------------
x, y, z, lon, lat, conn, counts = build_mesh(INT_FILL_VALUE)
grids = {
    "from_topology": lambda: ux.Grid.from_topology(
        node_lon=lon, node_lat=lat, face_node_connectivity=conn, fill_value=INT_FILL_VALUE
    ),
    "quad-hexagon": lambda: ux.open_grid("test/meshfiles/ugrid/quad-hexagon/grid.nc"),
    "mixed.exo": lambda: ux.open_grid("test/meshfiles/exodus/mixed/mixed.exo"),
    "outCSne8.g": lambda: ux.open_grid("test/meshfiles/exodus/outCSne8/outCSne8.g"),
    "scrip ne8": lambda: ux.open_grid("test/meshfiles/scrip/outCSne8/outCSne8.nc"),
    "mpas primal": lambda: ux.open_grid("test/meshfiles/mpas/QU/mesh.QU.1920km.151026.nc"),
    "mpas dual": lambda: ux.open_grid("test/meshfiles/mpas/QU/mesh.QU.1920km.151026.nc", use_dual=True),
    "geoflow": lambda: ux.open_grid("test/meshfiles/ugrid/geoflow-small/grid.nc"),
    "verts": lambda: ux.open_grid(
        np.array(
            [
                [[0.0, 0.0], [30.0, 0.0], [30.0, 30.0], [0.0, 30.0]],
                [[170.0, 80.0], [-170.0, 80.0], [-90.0, 85.0], [90.0, 85.0]],
            ]
        ),
        latlon=True,
    ),
}

with np.errstate(all="ignore"):
    for name, make in grids.items():
        g = attempt("grid " + name, make)
        if g is None:
            continue
        for latlon in (True, False):
            for rule, orders in (("triangular", TRI_ORDERS), ("gaussian", (1, 3, 4, 10))):
                for order in orders:
                    out = attempt(
                        "grid %s latlon=%s %s %d" % (name, latlon, rule, order),
                        lambda: g.compute_face_areas(quadrature_rule=rule, order=order, latlon=latlon),
                    )
                    if out is not None:
                        show("grid %s latlon=%s %s %d" % (name, latlon, rule, order), *out)
        fa = g.face_areas
        show("grid %s face_areas" % name, fa.values)
        print("   ", fa.dims, dict(fa.attrs), fa.name, repr(float(fa.values.sum())))
        fresh = make()
        d, _ = fresh.compute_face_areas()
        print("   cached == fresh default:", bool(np.array_equal(fresh.face_areas.values, d)) if "mpas" not in name else "n/a (read from file)")
        print("   total default", repr(g.calculate_total_face_area()), "gauss6", repr(g.calculate_total_face_area("gaussian", 6)))
        show("   face_jacobian", make().face_jacobian)
        attempt("   bad rule", lambda: g.compute_face_areas(quadrature_rule="simpson"))
